(* Freshness through aggregates: R depends on the build x directly or through a chain of aggregate targets. *)
From Zinoma.Proofs Require Export SysFresh.

Section freshagg.
  Context (g : graph) (roots : list tid) (w : bool).
  Context (rank : tid -> nat).
  Context (Hclosed : forall t k deps d, g !! t = Some (k, deps) -> d ∈ deps -> is_Some (g !! d)).
  Context (Hrank : forall t k deps d, g !! t = Some (k, deps) -> d ∈ deps -> rank d < rank t).

  (* P reaches x through aggregates only, and along the way no out-of-date notice (build kind) from a child is waiting in
     its parent's inbox *)
  Inductive quiet_path (s : sys) : tid -> tid -> Prop :=
  | qp_direct P aP x : actors s !! P = Some aP -> x ∈ a_deps aP -> MInvalidated KB x ∉ inb (inbox s) P -> quiet_path s P x
  | qp_via P aP m am x : actors s !! P = Some aP -> m ∈ a_deps aP -> actors s !! m = Some am -> a_kind am = AAggregate ->
      MInvalidated KB m ∉ inb (inbox s) P -> quiet_path s m x -> quiet_path s P x.

  (* one hop: the parent has recorded every build-kind dependency as available and no notice from the child is waiting:
     the child can acknowledge *)
  Lemma hop_available s P aP c ac :
    winv g s -> SysInv.wf g s -> actors s !! P = Some aP -> actors s !! c = Some ac -> c ∈ a_deps aP -> own ac KB ->
    unavB aP = ∅ -> MInvalidated KB c ∉ inb (inbox s) P -> availb ac KB = true.
  Proof.
    intros Hwi Hwf HP Hc Hdep Hown Hu Hni.
    destruct (decide (ATarget P ∈ reqs ac KB)) as [Hreg|Hnreg].
    - rewrite <- (wi_view _ _ Hwi P aP c ac KB HP Hc Hown Hreg). unfold view.
      destruct (lastw (inb (inbox s) P) KB c) as [b|] eqn:E.
      + destruct b; [done|]. destruct (lastw_some _ _ _ _ E) as (m & Hin & Hw). apply mword_inval in Hw as ->. done.
      + apply bool_decide_eq_true. cbn. rewrite Hu. set_solver.
    - destruct (wi_fresh _ _ Hwi P aP c ac KB HP Hc Hdep Hown Hnreg) as [_ Hin]. cbn in Hin. rewrite Hu in Hin. set_solver.
  Qed.

  (* along a quiet path from a parent that has everything recorded as available, the build at the end can acknowledge *)
  Lemma quiet_path_available s : winv g s -> SysInv.wf g s ->
    forall P x, quiet_path s P x -> forall aP ax, actors s !! P = Some aP -> unavB aP = ∅ ->
      actors s !! x = Some ax -> a_kind ax = ABuild -> executed ax = true.
  Proof.
    intros Hwi Hwf P x Hq. induction Hq as [P aP x HP Hdep Hni|P aP m am x HP Hdep Hm Hkm Hni Hq IH]; intros aP' ax HP' Hu Hx Hkx.
    - assert (aP' = aP) as -> by congruence.
      pose proof (hop_available s P aP x ax Hwi Hwf HP Hx Hdep ltac:(unfold own; by rewrite Hkx) Hu Hni) as Hav.
      unfold availb in Hav. by rewrite Hkx in Hav.
    - assert (aP' = aP) as -> by congruence.
      pose proof (hop_available s P aP m am Hwi Hwf HP Hm Hdep ltac:(unfold own; by rewrite Hkm) Hu Hni) as Hav.
      unfold availb in Hav. rewrite Hkm in Hav. apply set_empty_true in Hav. cbn in Hav.
      by apply (IH am ax).
  Qed.
End freshagg.

Section one_step.
  Context (fx ok : bool) (a : astate) (e : event) (a' : astate) (os : list out) (ob : list obs).
  Context (Hstep : actor_step fx ok a e = Some (a', os, ob)).
  Lemma step_inval_unav d : e = EMsg (MInvalidated KB d) -> d ∈ unavB a'.
  Proof using Hstep.
    clear -Hstep. intros ->. crush_step Hstep; aproj_all; cbn; set_solver.
  Qed.
End one_step.

Section freshagg2.
  Context (g : graph) (roots : list tid) (w : bool).
  Context (rank : tid -> nat).
  Context (Hclosed : forall t k deps d, g !! t = Some (k, deps) -> d ∈ deps -> is_Some (g !! d)).
  Context (Hrank : forall t k deps d, g !! t = Some (k, deps) -> d ∈ deps -> rank d < rank t).

  Lemma quiet_path_rank s P x : SysInv.wf g s -> quiet_path s P x -> rank x < rank P.
  Proof.
    intros Hwf Hq. induction Hq as [P aP x HP Hdep _|P aP m am x HP Hdep _ _ _ _ IH].
    - destruct (Hwf P aP HP) as [_ Hg]. exact (Hrank P _ _ x Hg Hdep).
    - destruct (Hwf P aP HP) as [_ Hg]. pose proof (Hrank P _ _ m Hg Hdep). lia.
  Qed.

  (* one actor step backwards: a path that is quiet afterwards, from a parent with everything recorded as available
     afterwards, was quiet before *)
  Lemma quiet_path_back s s' t a e ok a' os ob pre rest :
    winv g s' -> SysInv.wf g s' ->
    actors s !! t = Some a -> actor_step true ok a e = Some (a', os, ob) -> actors s' = <[t := a']> (actors s) ->
    (match e with
     | EMsg m => inb (inbox s) t = pre ++ m :: rest /\ none_from sender (sender m) pre = true
     | _ => pre = [] /\ rest = inb (inbox s) t
     end) ->
    (forall R, inb (inbox s') R = (if decide (R = t) then pre ++ rest else inb (inbox s) R) ++ msgs_to R os) ->
    forall P x, quiet_path s' P x -> forall aP', actors s' !! P = Some aP' -> unavB aP' = ∅ -> quiet_path s P x.
  Proof.
    intros Hwi Hwf Ha Hst Hact Hhead Hib P x Hq.
    destruct (step_same_id _ _ _ _ _ _ _ Hst) as (Hid' & Hk' & Hdeps').
    assert (Hlook : forall y ay, actors s' !! y = Some ay -> exists ay0, actors s !! y = Some ay0 /\ a_deps ay0 = a_deps ay /\ a_kind ay0 = a_kind ay).
    { intros y ay Hy. rewrite Hact in Hy. destruct (decide (y = t)) as [->|Hne].
      - rewrite lookup_insert in Hy. injection Hy as <-. by exists a.
      - rewrite lookup_insert_ne in Hy by done. by exists ay. }
    assert (Hhop : forall Q aQ' c, actors s' !! Q = Some aQ' -> unavB aQ' = ∅ -> MInvalidated KB c ∉ inb (inbox s') Q ->
                     MInvalidated KB c ∉ inb (inbox s) Q).
    { intros Q aQ' c HQ Hu Hni Hin. apply Hni. rewrite Hib. apply elem_of_app. left.
      destruct (decide (Q = t)) as [->|Hne]; [|done].
      destruct e as [m| | |r].
      - destruct Hhead as [Hhead _]. rewrite Hhead in Hin. apply elem_of_mid_inv in Hin as [<-|Hin]; [|done].
        exfalso. rewrite Hact, lookup_insert in HQ. injection HQ as <-.
        pose proof (step_inval_unav _ _ _ _ _ _ _ Hst c eq_refl) as Hc. rewrite Hu in Hc. set_solver.
      - destruct Hhead as [-> ->]. done.
      - destruct Hhead as [-> ->]. done.
      - destruct Hhead as [-> ->]. done. }
    induction Hq as [P aP x HP Hdep Hni|P aP m am x HP Hdep Hm Hkm Hni Hq IH]; intros aP' HP' Hu.
    - assert (aP' = aP) as -> by congruence.
      destruct (Hlook P aP HP) as (aP0 & HP0 & Hd0 & _).
      eapply (qp_direct s P aP0 x HP0); [by rewrite Hd0|]. by eapply Hhop.
    - assert (aP' = aP) as -> by congruence.
      destruct (Hlook P aP HP) as (aP0 & HP0 & Hd0 & _).
      destruct (Hlook m am Hm) as (am0 & Hm0 & _ & Hkm0).
      eapply (qp_via s P aP0 m am0 x HP0); [by rewrite Hd0|done|congruence|by eapply Hhop|].
      apply (IH am Hm).
      pose proof (hop_available g rank Hclosed Hrank s' P aP m am Hwi Hwf HP Hm Hdep ltac:(unfold own; by rewrite Hkm) Hu Hni) as Hav.
      unfold availb in Hav. rewrite Hkm in Hav. by apply set_empty_true in Hav.
  Qed.

  Definition fresh_agg (s : sys) : Prop :=
    forall R aR x ax, actors s !! R = Some aR -> a_kind aR <> AAggregate -> actors s !! x = Some ax -> a_kind ax = ABuild ->
      clean aR -> quiet_path s R x -> ran_after (hist s) R x.

  Lemma fresh_agg_init : fresh_agg (init_sys g roots).
  Proof.
    intros R aR x ax HR _ _ _ Hc. apply (init_actor_lookup g roots) in HR as (k & deps & _ & ->). by destruct Hc as [?|[? _]].
  Qed.

  Lemma fresh_agg_step s l s' :
    reachable true w g roots s -> ph s = PRun -> ph s' = PRun -> exec true w s l = Some s' -> fresh_agg s -> fresh_agg s'.
  Proof.
    intros Hr Hp Hp' He Hfa.
    assert (Hr' : reachable true w g roots s') by (by eapply reachable_step).
    pose proof (winv_reachable g roots w rank Hclosed Hrank s Hr Hp) as Hwi.
    pose proof (winv_reachable g roots w rank Hclosed Hrank s' Hr' Hp') as Hwi'.
    pose proof (wf_reachable true w g roots s Hr) as Hwf.
    pose proof (wf_reachable true w g roots s' Hr') as Hwf'.
    pose proof (fresh_inv_reachable g roots w rank Hclosed Hrank s Hr Hp) as Hfi.
    pose proof (fresh_inv_reachable g roots w rank Hclosed Hrank s' Hr' Hp') as Hfi'.
    destruct (exec_fifo _ _ _ _ _ He) as [t a e ok a' os ob pre rest Ha Hst Hact Hhead Hib Hph Htq Hterm Hh|Hact Hib Hpt Hh].
    2:{ intros R aR x ax HR HkR Hx Hkx Hc Hq. rewrite Hh. rewrite Hact in HR, Hx. apply (Hfa R aR x ax HR HkR Hx Hkx Hc).
        clear -Hq Hact Hib. induction Hq as [P aP x HP Hdep Hni|P aP m am x HP Hdep Hm Hkm Hni Hq IH].
        - rewrite Hact in HP. rewrite Hib in Hni. by eapply qp_direct.
        - rewrite Hact in HP, Hm. rewrite Hib in Hni. by eapply qp_via. }
    destruct (Hwf t a Ha) as [Hid Hg].
    destruct (step_same_id _ _ _ _ _ _ _ Hst) as (Hid' & Hk' & Hdeps').
    assert (Hobs : forall y, y <> t -> ObSucc y ∉ ob).
    { intros y Hne Hin. pose proof (step_obs_self _ _ _ _ _ _ _ Hst _ Hin) as Ht. cbn in Ht. congruence. }
    intros R aR x ax HR HkR Hx Hkx Hc Hq. rewrite Hh.
    pose proof (fi_unav _ Hfi' R aR HR HkR Hc) as Hu'.
    pose proof (quiet_path_back s s' t a e ok a' os ob pre rest Hwi' Hwf' Ha Hst Hact Hhead Hib R x Hq aR HR Hu') as Hq0.
    pose proof (quiet_path_rank s' R x Hwf' Hq) as Hrk.
    assert (HxR : x <> R) by (intros ->; lia).
    assert (Hx0 : exists ax0, actors s !! x = Some ax0 /\ a_kind ax0 = ABuild).
    { rewrite Hact in Hx. destruct (decide (x = t)) as [->|Hne].
      - rewrite lookup_insert in Hx. injection Hx as <-. exists a. split; [done|congruence].
      - rewrite lookup_insert_ne in Hx by done. by exists ax. }
    destruct Hx0 as (ax0 & Hx0 & Hkx0).
    rewrite Hact in HR. destruct (decide (R = t)) as [->|HneR].
    - (* R itself steps *)
      rewrite lookup_insert in HR. injection HR as <-. rewrite Hk' in HkR.
      destruct (classic_clean a) as [Hca|Hnc].
      + apply fresh_keep; [|by apply Hobs]. by apply (Hfa t a x ax0).
      + apply fresh_start; [|by apply Hobs]. rewrite <- Hid. by eapply (step_clean_by_start _ _ _ _ _ _ _ Hst HkR).
    - rewrite lookup_insert_ne in HR by done.
      pose proof (Hfa R aR x ax0 HR HkR Hx0 Hkx0 Hc Hq0) as Hf.
      destruct (decide (ObSucc x ∈ ob)) as [Hs|Hns]; [|by apply fresh_keep].
      exfalso.
      assert (x = t) as -> by (destruct (decide (x = t)); [done|by destruct (Hobs x)]).
      assert (ax0 = a) as -> by congruence.
      destruct (step_succ_was_ongoing _ _ _ _ _ _ _ Hst t Hkx0 Hs) as [Hon _].
      destruct (wi_flags _ _ Hwi t a Ha) as [_ Hrun]. pose proof (Hrun Hkx0 Hon) as Hex.
      pose proof (fi_unav _ Hfi R aR HR HkR Hc) as Hu.
      pose proof (quiet_path_available g rank Hclosed Hrank s Hwi Hwf R t Hq0 aR a HR Hu Ha Hkx0). congruence.
  Qed.

  Lemma fresh_agg_reachable s : reachable true w g roots s -> ph s = PRun -> fresh_agg s.
  Proof.
    revert s. apply (reachable_ind true w g roots (fun s => ph s = PRun -> fresh_agg s)).
    - intros _. apply fresh_agg_init.
    - intros s0 l s1 Hr IH He Hp1. pose proof (exec_ph_back w l s0 s1 He Hp1) as Hp0.
      apply (fresh_agg_step s0 l s1 Hr Hp0 Hp1 He). by apply IH.
  Qed.

  (* Repaired handlers, any mode, every closed acyclic graph, every sequence of changes, every interleaving and merge order.
     R (a build or a service) reaches the build x through aggregate targets only (or directly).  In every reachable state
     inside the root loop: if R is acknowledged (or, a build, its run is in progress and has not been re-armed) and along the
     path no out-of-date notice from a child is waiting in its parent's inbox, then the last success of x precedes the last
     start of R. *)
  Theorem acknowledged_run_is_fresh_through_aggregates s R aR x ax :
    reachable true w g roots s -> ph s = PRun ->
    actors s !! R = Some aR -> a_kind aR <> AAggregate -> actors s !! x = Some ax -> a_kind ax = ABuild ->
    clean aR -> quiet_path s R x -> ran_after (hist s) R x.
  Proof. intros Hr Hp. exact (fresh_agg_reachable s Hr Hp R aR x ax). Qed.
End freshagg2.

Section settled.
  Context (g : graph) (roots : list tid) (w : bool).
  Context (rank : tid -> nat).
  Context (Hclosed : forall t k deps d, g !! t = Some (k, deps) -> d ∈ deps -> is_Some (g !! d)).
  Context (Hrank : forall t k deps d, g !! t = Some (k, deps) -> d ∈ deps -> rank d < rank t).

  (* P reaches x directly or through aggregate targets only *)
  Inductive agg_path (s : sys) : tid -> tid -> Prop :=
  | ap_direct P aP x : actors s !! P = Some aP -> x ∈ a_deps aP -> agg_path s P x
  | ap_via P aP m am x : actors s !! P = Some aP -> m ∈ a_deps aP -> actors s !! m = Some am -> a_kind am = AAggregate ->
      agg_path s m x -> agg_path s P x.

  Lemma agg_path_quiet s P x : (forall Q aQ, actors s !! Q = Some aQ -> inb (inbox s) Q = []) -> agg_path s P x -> quiet_path s P x.
  Proof.
    intros Hemp Hp. induction Hp as [P aP x HP Hdep|P aP m am x HP Hdep Hm Hkm _ IH].
    - eapply qp_direct; [done|done|]. rewrite (Hemp P aP HP). by intros ?%elem_of_nil.
    - eapply qp_via; [done|done|done|done| |done]. rewrite (Hemp P aP HP). by intros ?%elem_of_nil.
  Qed.

  (* ... once the run has settled: every requested build or service ran last after the last success of every build it reaches
     directly or through aggregates *)
  Theorem settled_run_saw_latest_through_aggregates s R aR x ax :
    reachable true w g roots s -> ph s = PRun -> quiescent true w s = true -> none_failed s ->
    actors s !! R = Some aR -> a_kind aR <> AAggregate -> (forall k, own aR k -> reqs aR k <> ∅) ->
    actors s !! x = Some ax -> a_kind ax = ABuild -> agg_path s R x ->
    ran_after (hist s) R x.
  Proof.
    intros Hr Hp Hq Hnf HR HkR Hreq Hx Hkx Hpath.
    eapply (acknowledged_run_is_fresh_through_aggregates g roots w rank Hclosed Hrank s R aR x ax); try done.
    - left. pose proof (quiescent_up_to_date g roots w rank Hclosed Hrank s Hr Hp Hq Hnf R aR) as Hav.
      unfold availb, own in *. destruct (a_kind aR) eqn:Hk; [| |done].
      + apply (Hav KB HR eq_refl). by apply Hreq.
      + apply (Hav KS HR eq_refl). by apply Hreq.
    - apply agg_path_quiet; [|done]. intros Q aQ HQ. exact (wq3_inbox_empty g roots w rank Hclosed Hrank s Hr Hp Hq Q aQ HQ).
  Qed.
End settled.
