(* All per-step facts about actor_step. *)
From Zinoma.Proofs Require Export ActorFacts ActorFacts2 AF_unav_shrink AF_unav_grow AF_reqs_grow AF_reqs_shrink AF_acts AF_executed AF_oneshot AF_start_count AF_exit AF_balance AF_service AF_actsadd AF_nopending AF_watch.
