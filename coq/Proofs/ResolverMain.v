(* main.rs between loading and running (Resolver.main_phases): every error — clap's, the resolver's — precedes every
   effect; effects only ever name resolved targets; on configurations produced by the loader (root project present,
   valid names) main cannot panic. Also the accepted command-line names (C19). *)
From Zinoma.Model Require Import Bytes Cfg Names Ext Resolver.
From Zinoma.Proofs Require Import Bytes Names ResolverSpec ResolverPure ResolverSound Resolver.
From Coq Require Import Relations Lia PeanoNat.
Local Open Scope nat_scope.

(* the targets an effect touches *)
Definition effect_targets (f : effect) : list target_id :=
  match f with
  | FDeleteState t => [t]
  | FRemoveWorkDirs => []
  | FCleanOutputs t => [t]
  | FRun _ loaded _ => loaded
  end.

(* ---- no effect unless everything before succeeded ---- *)
Theorem main_error_no_effect cfg req clean watch effs out :
  main_phases cfg req clean watch = (effs, out) -> out <> OutRan -> effs = [].
Proof.
  unfold main_phases. destruct (available_names cfg) as [names|]; [|now intros [= <- <-]].
  destruct req as [req|].
  - destruct (forallb _ req); [|now intros [= <- <-]].
    destruct (try_parse_many req (ic_root_name cfg)) as [roots|]; [|now intros [= <- <-]].
    destruct (resolve_default cfg roots); intros [= <- <-]; [congruence | reflexivity].
  - destruct clean; [|now intros [= <- <-]].
    destruct (resolve_default cfg (list_all_targets cfg)); intros [= <- <-]; [congruence | reflexivity].
Qed.

Theorem main_resolve_error_no_effect cfg req clean watch effs e :
  main_phases cfg req clean watch = (effs, OutResolveError e) -> effs = [].
Proof. intros H. apply (main_error_no_effect _ _ _ _ _ _ H). discriminate. Qed.

(* when main runs, everything it touches is a resolved target of the closure of the request *)
Theorem main_effects_in_closure cfg req clean watch effs :
  main_phases cfg req clean watch = (effs, OutRan) ->
  exists roots m,
    resolve_default cfg roots = Ok m /\
    match req with
    | Some names => try_parse_many names (ic_root_name cfg) = Some roots
    | None => roots = list_all_targets cfg
    end /\
    forall f t, In f effs -> In t (effect_targets f) -> In t (tmap_keys m).
Proof.
  unfold main_phases. destruct (available_names cfg) as [names|]; [|discriminate].
  destruct req as [req|].
  - destruct (forallb _ req); [|discriminate].
    destruct (try_parse_many req (ic_root_name cfg)) as [roots|] eqn:Ep; [|discriminate].
    destruct (resolve_default cfg roots) as [m|] eqn:Er; [|discriminate]. intros [= <-].
    exists roots, m. split; [exact Er|]. split; [reflexivity|].
    intros f t Hf Ht. apply in_app_or in Hf as [Hf|[<-|[]]]; [|exact Ht].
    destruct clean; [|destruct Hf]. apply in_app_or in Hf as [Hf|Hf]; apply in_map_iff in Hf as [x [<- Hx]];
      cbn in Ht; destruct Ht as [<-|[]]; exact Hx.
  - destruct clean; [|discriminate].
    destruct (resolve_default cfg (list_all_targets cfg)) as [m|] eqn:Er; [|discriminate]. intros [= <-].
    exists (list_all_targets cfg), m. split; [exact Er|]. split; [reflexivity|].
    intros f t [<-|Hf] Ht; [destruct Ht|]. apply in_map_iff in Hf as [x [<- Hx]]. cbn in Ht. destruct Ht as [<-|[]]. exact Hx.
Qed.

(* ---- accepted command-line names ---- *)
Lemma in_list_all_targets cfg id :
  In id (list_all_targets cfg) <->
  exists dir pr yt, In (t_project id, (dir, pr)) (ic_projects cfg) /\ In (t_name id, yt) (yp_targets pr).
Proof.
  unfold list_all_targets. rewrite in_flat_map. split.
  - intros [[pn [dir pr]] [Hp Ht]]. cbn in Ht. unfold project_targets in Ht. apply in_map_iff in Ht as [[n yt] [<- Hn]].
    exists dir, pr, yt. cbn. now split.
  - intros (dir & pr & yt & Hp & Ht). exists (t_project id, (dir, pr)). split; [exact Hp|]. cbn. unfold project_targets.
    apply in_map_iff. exists (t_name id, yt). split; [now destruct id | exact Ht].
Qed.

Lemma names_valid_ids cfg id : names_valid cfg -> In id (list_all_targets cfg) -> valid_id id.
Proof.
  intros Hv Hin. apply in_list_all_targets in Hin as (dir & pr & yt & Hp & Ht).
  destruct (Hv _ _ _ Hp) as [H1 H2]. split; [now apply (H2 _ yt) | exact H1].
Qed.

(* only the root project may be unnamed (the loader rejects unnamed imports) *)
Definition only_root_unnamed (cfg : iconfig) : Prop :=
  forall dp, In (None, dp) (ic_projects cfg) -> ic_root_name cfg = None.

Theorem accepted_names_spec cfg names :
  available_names cfg = Some names ->
  forall s, In s names <->
    (exists id, In id (list_all_targets cfg) /\ s = display id) \/
    (exists p dir pr yt, ic_root_name cfg = Some p /\ lookup_project cfg (Some p) = Some (dir, pr) /\ In (s, yt) (yp_targets pr)).
Proof.
  unfold available_names. destruct (ic_root_name cfg) as [p|] eqn:Er.
  - destruct (lookup_project cfg (Some p)) as [[dir pr]|] eqn:El; [|discriminate]. intros [= <-] s.
    rewrite in_app_iff, in_map_iff. split.
    + intros [[id [<- Hid]]|Hs]; [left; now exists id|]. right. apply in_map_iff in Hs as [[n yt] [<- Hn]].
      exists p, dir, pr, yt. now repeat split.
    + intros [[id [Hid ->]]|(p' & dir' & pr' & yt & [= <-] & Hl & Hin)]; [left; now exists id|].
      right. rewrite El in Hl. injection Hl as <- <-. apply in_map_iff. now exists (s, yt).
  - intros [= <-] s. rewrite in_map_iff. split.
    + intros [id [<- Hid]]. left. now exists id.
    + intros [[id [Hid ->]]|(p & _ & _ & _ & H & _)]; [now exists id | discriminate].
Qed.

(* every accepted name parses (with the root project's name as the current project) to a loaded target *)
Theorem accepted_names_parse cfg names s :
  names_valid cfg -> only_root_unnamed cfg -> available_names cfg = Some names -> In s names ->
  exists id, try_parse s (ic_root_name cfg) = Some id /\ In id (list_all_targets cfg).
Proof.
  intros Hv Hu Ha Hs. apply (accepted_names_spec _ _ Ha) in Hs as [[id [Hid ->]]|(p & dir & pr & yt & Hr & Hl & Hin)].
  - exists id. split; [|exact Hid]. apply try_parse_display.
    + apply valid_id_colon_free. now apply (names_valid_ids cfg).
    + intros Hp. apply in_list_all_targets in Hid as (d & q & y & Hq & _). rewrite Hp in Hq. now apply (Hu _ Hq).
  - unfold lookup_project in Hl. apply (assoc_in _ opt_beq_eq) in Hl.
    exists {| t_project := Some p; t_name := s |}. split.
    + rewrite Hr. apply try_parse_bare. apply valid_name_no_colon. destruct (Hv _ _ _ Hl) as [_ H2]. now apply (H2 _ yt).
    + apply in_list_all_targets. exists dir, pr, yt. now split.
Qed.

(* every loaded target can be requested as project::target (bare when its project is the unnamed root) and, when it
   belongs to the named root project, also by its bare name; both spellings parse to the same id *)
Theorem every_target_requestable cfg names id :
  names_valid cfg -> only_root_unnamed cfg -> available_names cfg = Some names -> In id (list_all_targets cfg) ->
  In (display id) names /\ try_parse (display id) (ic_root_name cfg) = Some id /\
  (t_project id = ic_root_name cfg -> lookup_project cfg (ic_root_name cfg) <> None ->
   (exists dir pr yt, lookup_project cfg (ic_root_name cfg) = Some (dir, pr) /\ In (t_name id, yt) (yp_targets pr)) ->
   In (t_name id) names /\ try_parse (t_name id) (ic_root_name cfg) = Some id).
Proof.
  intros Hv Hu Ha Hid. pose proof (names_valid_ids cfg id Hv Hid) as Hval.
  split; [|split].
  - apply (accepted_names_spec _ _ Ha). left. now exists id.
  - apply try_parse_display; [now apply valid_id_colon_free|].
    intros Hp. apply in_list_all_targets in Hid as (d & q & y & Hq & _). rewrite Hp in Hq. now apply (Hu _ Hq).
  - intros Hroot _ (dir & pr & yt & Hl & Hin). split.
    + apply (accepted_names_spec _ _ Ha). destruct (ic_root_name cfg) as [p|] eqn:Er.
      * right. exists p, dir, pr, yt. now repeat split.
      * left. exists id. split; [exact Hid|]. unfold display. now rewrite Hroot.
    + destruct Hval as [Hn _]. rewrite (try_parse_bare _ _ (valid_name_no_colon _ Hn)). rewrite <- Hroot. now destruct id.
Qed.

(* ---- main cannot panic on a loaded configuration ---- *)
Lemma available_names_some cfg : root_present cfg -> exists names, available_names cfg = Some names.
Proof.
  unfold root_present, available_names. intros H. destruct (ic_root_name cfg) as [p|]; [|eauto].
  destruct (lookup_project cfg (Some p)) as [[d pr]|]; [eauto | contradiction].
Qed.

Lemma parsed_roots_wf cfg req roots :
  root_present cfg -> try_parse_many req (ic_root_name cfg) = Some roots -> roots_wf cfg roots.
Proof.
  intros Hrp Hp r Hr Hnone. apply try_parse_many_spec in Hp.
  assert (H : exists s, try_parse s (ic_root_name cfg) = Some r).
  { clear Hrp. induction Hp as [|s id l ids H1 H2 IH]; [destruct Hr|]. destruct Hr as [<-|Hr]; [eauto | now apply IH]. }
  destruct H as [s Hs]. destruct (try_parse_project _ _ _ Hs) as [[H _]|(p & t & _ & ->)]; [|discriminate].
  unfold root_present in Hrp. rewrite <- H, Hnone in Hrp. exact Hrp.
Qed.

Lemma all_targets_roots_wf cfg : roots_wf cfg (list_all_targets cfg).
Proof.
  intros r Hr Hnone. apply in_list_all_targets in Hr as (dir & pr & yt & Hp & _). rewrite Hnone in Hp.
  unfold lookup_project. intros E. apply (assoc_none _ opt_beq_eq) in E. apply E.
  change None with (fst (@None bytes, (dir, pr))). now apply in_map.
Qed.

Theorem main_never_panics cfg req clean watch effs out :
  root_present cfg -> names_valid cfg -> only_root_unnamed cfg ->
  main_phases cfg req clean watch = (effs, out) ->
  out <> OutPanic /\ (forall e, out = OutResolveError e -> reported_class e).
Proof.
  intros Hrp Hv Hu. unfold main_phases. destruct (available_names_some cfg Hrp) as [names Ha]. rewrite Ha.
  destruct req as [req|].
  - destruct (forallb (fun s => mem_bytes s names) req) eqn:Eall; [|intros [= <- <-]; split; [discriminate | discriminate]].
    destruct (try_parse_many req (ic_root_name cfg)) as [roots|] eqn:Ep.
    + destruct (resolve_default cfg roots) as [m|e] eqn:Er; intros [= <- <-]; (split; [discriminate|]); [discriminate|].
      intros e' [= <-]. exact (resolve_no_panic cfg roots e (parsed_roots_wf cfg req roots Hrp Ep) Er).
    + exfalso. apply try_parse_many_none in Ep as [s [Hs Hn]]. rewrite forallb_forall in Eall.
      pose proof (Eall s Hs) as Hm. unfold mem_bytes in Hm. apply existsb_beq in Hm.
      destruct (accepted_names_parse cfg names s Hv Hu Ha Hm) as [id [Hid _]]. congruence.
  - destruct clean; [|intros [= <- <-]; split; discriminate].
    destruct (resolve_default cfg (list_all_targets cfg)) as [m|e] eqn:Er; intros [= <- <-]; (split; [discriminate|]); [discriminate|].
    intros e' [= <-]. exact (resolve_no_panic cfg _ e (all_targets_roots_wf cfg) Er).
Qed.
