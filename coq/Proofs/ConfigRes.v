(* Bridge to slice RES (Model/Resolver.v): the loaded configuration satisfies the two hypotheses of the resolver's
   no-panic / totality theorems (`root_present`, `names_valid`, stated here in raw form) and, after FX7, the
   uniqueness hypothesis of C19 and `only_root_unnamed`; the name listing of the two models is the same function. *)
From Zinoma.Model Require Import Config Resolver.
From Zinoma.Proofs Require Import Bytes ConfigLoad ConfigMain.

Lemma ir_lookup_assoc n ps : ir_lookup n ps = assoc opt_beq n ps.
Proof. induction ps as [|[k v] ps IH]; cbn [ir_lookup assoc]; [reflexivity|]. now rewrite IH. Qed.

Lemma ir_all_targets_eq ic : ir_all_targets ic = list_all_targets ic.
Proof. reflexivity. Qed.

Lemma ir_available_names_eq ic : ir_available_names ic = available_names ic.
Proof.
  unfold ir_available_names, available_names, lookup_project. rewrite ir_all_targets_eq.
  destruct (ic_root_name ic); [|reflexivity]. now rewrite ir_lookup_assoc.
Qed.

Theorem loaded_resolver_preconditions fs canon root ord U fuel c ic :
  OrderOk ord -> Covers fs canon root U -> load_config fs canon ord fuel root = LOk c -> to_ir c = Some ic ->
  lookup_project ic (ic_root_name ic) <> None /\
  (forall pn dir pr, In (pn, (dir, pr)) (ic_projects ic) ->
     (forall p, pn = Some p -> valid_name p = true) /\
     (forall n yt, In (n, yt) (yp_targets pr) -> valid_name n = true)) /\
  NoDup (map fst (ic_projects ic)) /\
  (forall dp, In (None, dp) (ic_projects ic) -> ic_root_name ic = None).
Proof.
  intros Hord HU Hc Hic. destruct (load_ok fs canon root ord Hord U HU fuel c Hc) as (Hr & Hs & Hni).
  destruct c as [r vis]. cbn [yc_root yc_projects] in Hr, Hs. subst r. split; [|split; [|split]].
  - unfold lookup_project. rewrite <- ir_lookup_assoc. exact (ir_root_present fs canon root vis Hs ic Hic).
  - intros pn d pr Hin. destruct (ir_names_valid fs canon root vis Hs ic pn d pr Hic Hin) as [Hp Ht].
    split; [|exact Ht]. intros p ->. exact Hp.
  - destruct (to_ir_inv fs canon root vis Hs ic Hic) as (rp & _ & _ & ->).
    exact (ir_keys_nodup fs canon root vis Hs Hni).
  - (* only the root can be unnamed: an entry under the key None is the root's, so the root name is None *)
    intros [d p] Hin. destruct (to_ir_inv fs canon root vis Hs ic Hic) as (rp & Hrp & Hn & Hp). rewrite Hp in Hin.
    apply (in_ir_entries vis) in Hin as [Hin Hnone]. pose proof Hs as (Hnd & _).
    pose proof (vis_get_nodup _ _ _ Hnd Hin) as Hd.
    assert (d = root) by (eapply (loaded_unnamed_is_root fs canon root vis d p Hs); [exact Hd | now symmetry]).
    subst d. rewrite Hn. congruence.
Qed.
