(* C20 "an aggregate is equivalent to requesting its dependencies", as ONE statement about finished one-shot runs:
   `zinoma G` and `zinoma d1 ... dn` (G an aggregate over d1 ... dn), when nothing fails and no signal arrives, end the same way
   (both stay alive for their services, or both exit 0) and have run the same builds and services, each exactly once. *)
From Zinoma.Proofs Require Export SysFailRun SysC08 SysC20.

Section okinv.
  Context (fx : bool) (g : graph) (roots : list tid).

  Record ok_inv (s : sys) : Prop := {
    ok_sig : sigq s = false;
    ok_wait : ph s = PWaitTerm -> r_unavB s = ∅ /\ r_unavS s = ∅ /\ r_svc s <> ∅;
    ok_exit : ph s = PTerminating SOk \/ ph s = PExited SOk -> r_unavB s = ∅ /\ r_unavS s = ∅ /\ r_svc s = ∅
  }.

  Lemma ok_inv_init : ok_inv (init_sys g roots).
  Proof. split; cbn; [done|done|]. intros [?|?]; done. Qed.

  Lemma ok_consume s o pre rest : ok_inv s -> ph s = PRun -> ok_inv (root_consume false s o (pre ++ rest)).
  Proof.
    intros Hok Hp. unfold root_consume.
    destruct o as [[|d] [k r|k r|[] t act|k t]|t]; (split; cbn; [by apply (ok_sig _ Hok)| |]);
      rewrite ?Hp; try done; try (intros [?|?]; done).
  Qed.

  Lemma ok_inv_step s l s' : exec fx false s l = Some s' -> l <> LSignal -> ok_inv s -> ok_inv s'.
  Proof.
    intros H Hl Hok.
    assert (Hact : forall ok t a e ib sl tq, apply_step s t ib sl tq (actor_step fx ok a e) = Some s' -> ok_inv s').
    { intros ok t a e ib sl tq Ha.
      destruct (apply_step_rootside _ _ _ _ _ _ _ _ _ _ Ha) as (a' & os & ob & Hst & Hh & Hp & HB & HS & Hsig & Hq1 & Hq2).
      assert (Hsv : r_svc s' = r_svc s).
      { clear -Ha. unfold apply_step in Ha. destruct (actor_step fx ok a e) as [[[a' os] ob]|]; [|done].
        destruct (route ib (rootq s) os). by injection Ha as <-. }
      split.
      - rewrite Hsig. apply (ok_sig _ Hok).
      - rewrite Hp, HB, HS, Hsv. apply (ok_wait _ Hok).
      - rewrite Hp, HB, HS, Hsv. apply (ok_exit _ Hok). }
    destruct l as [t ok|t ok|t|t r| | | | |ts| |t i ok|i]; cbn [exec] in H.
    - destruct (actors s !! t); [|done]. destruct (inbox s !! t) as [[|m rest]|]; try done. by eapply Hact.
    - destruct (actors s !! t); [|done]. case_bool_decide; [|done]. by eapply Hact.
    - destruct (actors s !! t); [|done]. case_bool_decide; [|done]. by eapply Hact.
    - destruct (actors s !! t) as [a|]; [|done]. destruct (match r with RCancelled => cancel_sent a | _ => true end); [|done].
      by eapply Hact.
    - destruct (root_running s) eqn:Hrr; [|done]. unfold root_running in Hrr. apply bool_decide_eq_true in Hrr.
      destruct (false || _); [|done]. destruct (rootq s) as [|o rest] eqn:Hq; [done|]. injection H as <-.
      apply (ok_consume s o [] rest Hok Hrr).
    - destruct (root_running s) eqn:Hrr; [|done]. unfold root_running in Hrr. apply bool_decide_eq_true in Hrr.
      cbn in H. destruct (root_sets_empty s) eqn:Hse; [|done]. unfold root_sets_empty in Hse.
      apply andb_true_iff in Hse as [HB HS]. apply bool_decide_eq_true in HB, HS.
      destruct (set_empty (r_svc s)) eqn:Hsv; injection H as <-; (split; cbn; [by apply (ok_sig _ Hok)| |]).
      + done.
      + intros _. unfold set_empty in Hsv. apply bool_decide_eq_true in Hsv. done.
      + intros _. unfold set_empty in Hsv. apply bool_decide_eq_false in Hsv. done.
      + intros [?|?]; done.
    - done.
    - rewrite (ok_sig _ Hok) in H. done.
    - done.
    - destruct (ph s) as [| |st|st] eqn:Hp; try done. destruct (all_exited s); [|done]. injection H as <-.
      split; cbn; [by apply (ok_sig _ Hok)|done|].
      intros [?|Hst]; [done|]. injection Hst as ->. apply (ok_exit _ Hok). by left.
    - destruct (actors s !! t); [|done]. destruct (inbox s !! t) as [l|]; [|done].
      destruct (pick i l) as [[[pre m] rest]|]; [|done]. destruct (none_from _ _ pre); [|done]. by eapply Hact.
    - destruct (root_running s) eqn:Hrr; [|done]. unfold root_running in Hrr. apply bool_decide_eq_true in Hrr.
      destruct (false || _); [|done]. destruct (pick i (rootq s)) as [[[pre o] rest]|] eqn:Hpk; [|done].
      destruct (none_from _ _ pre); [|done]. injection H as <-.
      apply (ok_consume s o pre rest Hok Hrr).
  Qed.

  Lemma ok_inv_run : forall ls s0 s, ok_inv s0 -> LSignal ∉ ls -> run_labels fx false s0 ls = Some s -> ok_inv s.
  Proof.
    induction ls as [|l ls IH]; intros s0 s Hok Hns Hrun; cbn in Hrun.
    - by injection Hrun as <-.
    - destruct (exec fx false s0 l) as [s1|] eqn:He; [|done].
      apply (IH s1 s); [|by intros ?; apply Hns; apply elem_of_list_further|done].
      apply (ok_inv_step s0 l s1 He); [|done]. intros ->. apply Hns. apply elem_of_list_here.
  Qed.
End okinv.

Section same_outcome.
  Context (g : graph) (rank : tid -> nat) (G : tid) (ds : list tid).
  Context (Hclosed : forall t k deps d, g !! t = Some (k, deps) -> d ∈ deps -> is_Some (g !! d)).
  Context (Hrank : forall t k deps d, g !! t = Some (k, deps) -> d ∈ deps -> rank d < rank t).
  Context (HG : g !! G = Some (AAggregate, ds)).

  (* one finished run, for an arbitrary requested list inside the graph *)
  Section one_run.
    Context (roots : list tid) (ls : list label) (s : sys).
    Context (Hroots : forall r, r ∈ roots -> is_Some (g !! r)).
    Context (Hrun : run_labels true false (init_sys g roots) ls = Some s) (Hns : LSignal ∉ ls).
    Context (Hq : quiescent true false s = true) (Hnf : forall t, ObFail t ∉ hist s).

    Lemma fin_reach : reachable true false g roots s.
    Proof using Hrun. by exists ls. Qed.

    (* how it ends: alive for its services exactly when a service is behind a requested target, else exited with status 0;
       in both cases every requested target is acknowledged *)
    Lemma fin_phase :
      r_unavB s = ∅ /\ r_unavS s = ∅ /\
      ((ph s = PWaitTerm /\ exists r, r ∈ roots /\ svc_behind g r) \/
       (ph s = PExited SOk /\ ~ exists r, r ∈ roots /\ svc_behind g r)).
    Proof using Hclosed Hrank Hroots Hrun Hns Hq Hnf.
      pose proof fin_reach as Hr.
      pose proof (ok_inv_run true ls _ s (ok_inv_init g roots) Hns Hrun) as Hok.
      destruct (quiescent_done g roots rank s Hclosed Hroots Hrank Hr Hq Hnf) as [Hp|[st Hp]].
      - destruct (ok_wait _ Hok Hp) as (HB & HS & Hsv). split; [done|]. split; [done|]. left. split; [done|].
        by apply (keepalive_iff true g roots false s Hr HS).
      - destruct st as [|t].
        + destruct (ok_exit _ Hok (or_intror Hp)) as (HB & HS & Hsv). split; [done|]. split; [done|]. right. split; [done|].
          intros Hex. by apply (keepalive_iff true g roots false s Hr HS) in Hex.
        + exfalso. apply (Hnf t). apply (status_names_failure true g roots false s t Hr). by rewrite Hp.
    Qed.

    (* what ran: exactly the builds and services needed by the requested targets, each once *)
    Lemma fin_ran t kt deps : g !! t = Some (kt, deps) -> kt <> AAggregate ->
      (needed g roots t -> count_occ obs_eq_dec (hist s) (ObStart t) = 1 /\ ObSucc t ∈ hist s) /\
      (ObStart t ∈ hist s -> needed g roots t).
    Proof using Hclosed Hrank Hroots Hrun Hns Hq Hnf.
      intros Hg Hk. pose proof fin_reach as Hr. destruct fin_phase as (HB & HS & _). split.
      - intros (r & Hin & Hd). by apply (exactly_once_on_success true g roots s r t kt deps).
      - by apply (only_needed_targets_start true g roots false s t).
    Qed.
  End one_run.

  (* needed by [G] = needed by the dependencies of G, for everything that is not an aggregate *)
  Lemma needed_aggregate t kt deps : g !! t = Some (kt, deps) -> kt <> AAggregate -> (needed g [G] t <-> needed g ds t).
  Proof using HG.
    intros Hg Hk. split.
    - intros (r & Hin & Hd). apply elem_of_list_singleton in Hin as ->. destruct Hd as [->|Htd]; [congruence|].
      inversion Htd as [? k0 deps0 d0 Hg0 Hin0|? k0 deps0 x d0 Hg0 Hx Hxd]; subst.
      + assert (deps0 = ds) as -> by congruence. exists t. split; [done|by left].
      + assert (deps0 = ds) as -> by congruence. exists x. split; [done|by right].
    - intros (r & Hin & Hd). exists G. split; [apply elem_of_list_here|]. right. destruct Hd as [->|Htd].
      + by eapply td_direct.
      + by eapply td_trans.
  Qed.

  Theorem aggregate_same_outcome ls1 s1 ls2 s2 :
    run_labels true false (init_sys g [G]) ls1 = Some s1 -> LSignal ∉ ls1 -> quiescent true false s1 = true -> (forall t, ObFail t ∉ hist s1) ->
    run_labels true false (init_sys g ds) ls2 = Some s2 -> LSignal ∉ ls2 -> quiescent true false s2 = true -> (forall t, ObFail t ∉ hist s2) ->
    ((ph s1 = PWaitTerm /\ ph s2 = PWaitTerm) \/ (ph s1 = PExited SOk /\ ph s2 = PExited SOk)) /\
    forall t kt deps, g !! t = Some (kt, deps) -> kt <> AAggregate ->
      count_occ obs_eq_dec (hist s1) (ObStart t) = count_occ obs_eq_dec (hist s2) (ObStart t) /\
      count_occ obs_eq_dec (hist s1) (ObStart t) <= 1 /\
      (ObSucc t ∈ hist s1 <-> ObSucc t ∈ hist s2).
  Proof using Hclosed Hrank HG.
    intros Hrun1 Hns1 Hq1 Hnf1 Hrun2 Hns2 Hq2 Hnf2.
    assert (Hro1 : forall r, r ∈ [G] -> is_Some (g !! r)) by (intros r ->%elem_of_list_singleton; by rewrite HG).
    assert (Hro2 : forall r, r ∈ ds -> is_Some (g !! r)) by (intros r Hr; by eapply Hclosed).
    destruct (fin_phase [G] ls1 s1 Hro1 Hrun1 Hns1 Hq1 Hnf1) as (_ & _ & Hph1).
    destruct (fin_phase ds ls2 s2 Hro2 Hrun2 Hns2 Hq2 Hnf2) as (_ & _ & Hph2).
    assert (Hsame : (exists r, r ∈ [G] /\ svc_behind g r) <-> (exists r, r ∈ ds /\ svc_behind g r)).
    { rewrite <- (svc_behind_aggregate g G ds HG). split.
      - intros (r & ->%elem_of_list_singleton & Hsb). done.
      - intros Hsb. exists G. split; [apply elem_of_list_here|done]. }
    split.
    - destruct Hph1 as [[Hp1 He1]|[Hp1 Hn1]], Hph2 as [[Hp2 He2]|[Hp2 Hn2]].
      + by left.
      + exfalso. apply Hn2. by apply Hsame.
      + exfalso. apply Hn1. by apply Hsame.
      + by right.
    - intros t kt deps Hg Hk.
      destruct (fin_ran [G] ls1 s1 Hro1 Hrun1 Hns1 Hq1 Hnf1 t kt deps Hg Hk) as [Hyes1 Hstart1].
      destruct (fin_ran ds ls2 s2 Hro2 Hrun2 Hns2 Hq2 Hnf2 t kt deps Hg Hk) as [Hyes2 Hstart2].
      pose proof (needed_aggregate t kt deps Hg Hk) as Hneed.
      pose proof (fin_reach [G] ls1 s1 Hrun1) as Hr1. pose proof (fin_reach ds ls2 s2 Hrun2) as Hr2.
      destruct (decide (ObStart t ∈ hist s1)) as [Hin1|Hnin1].
      + pose proof (Hstart1 Hin1) as Hn1. destruct (Hyes1 Hn1) as [Hc1 Hs1]. destruct (Hyes2 (proj1 Hneed Hn1)) as [Hc2 Hs2].
        rewrite Hc1, Hc2. split; [done|]. split; [lia|]. tauto.
      + assert (Hnin2 : ObStart t ∉ hist s2).
        { intros Hin2. apply Hnin1. pose proof (Hstart2 Hin2) as Hn2. destruct (Hyes1 (proj2 Hneed Hn2)) as [Hc1 _].
          apply elem_of_list_In. apply (count_occ_In obs_eq_dec). lia. }
        assert (Hz1 : count_occ obs_eq_dec (hist s1) (ObStart t) = 0) by (apply count_occ_not_In; by rewrite <- elem_of_list_In).
        assert (Hz2 : count_occ obs_eq_dec (hist s2) (ObStart t) = 0) by (apply count_occ_not_In; by rewrite <- elem_of_list_In).
        rewrite Hz1, Hz2. split; [done|]. split; [lia|]. split.
        * intros Hs. exfalso. apply Hnin1. by apply (result_needs_start true g [G] false s1 t Hr1 (or_introl Hs)).
        * intros Hs. exfalso. apply Hnin2. by apply (result_needs_start true g ds false s2 t Hr2 (or_introl Hs)).
  Qed.
End same_outcome.
