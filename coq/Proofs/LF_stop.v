From Zinoma.Proofs Require Export LiveDefs.
Section facts.
  Context (fx ok : bool) (a : astate) (e : event) (a' : astate) (os : list out) (ob : list obs).
  Context (Hstep : actor_step fx ok a e = Some (a', os, ob)).
  (* a service process is stopped only by termination, by the (never sent) Unrequested message, or by a restart *)
  Lemma step_stop_cause x : ObStop x ∈ ob ->
    e = ETerm \/ (exists k r, e = EMsg (MUnrequested k r)) \/ (running a = true /\ ObStart x ∈ ob).
  Proof using Hstep.
    clear -Hstep. intros Hx. crush_step Hstep; split_elem Hx; aproj_all; try (by left); try (right; left; eauto; fail);
      right; right; (split; [done|solve_elem]).
  Qed.
End facts.
