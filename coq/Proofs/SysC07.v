(* C07: a failing target fails the run and blocks everything depending on it. *)
From Zinoma.Proofs Require Export SysOneShot.

Section c07.
  Context (fx : bool) (g : graph) (roots : list tid).
  Notation reachable1 := (reachable fx false g roots).
  Notation wf := (wf g).
  Notation ready := (ready g).

  Definition nob (o : obs) (h : list obs) : nat := count_occ obs_eq_dec h o.

  Lemma nob_app o h1 h2 : nob o (h1 ++ h2) = nob o h1 + nob o h2.
  Proof. apply count_occ_app. Qed.
  Lemma nob_pos o h : o ∈ h <-> 0 < nob o h.
  Proof. unfold nob. rewrite elem_of_list_In. apply count_occ_In. Qed.
  Lemma nob_other o h : (forall x, x ∈ h -> x <> o) -> nob o h = 0.
  Proof. intros H. apply count_occ_not_In. intros Hin. apply elem_of_list_In in Hin. by eapply H. Qed.

  (* every start is matched by at most one result; a build in progress accounts for the difference *)
  Record bal_inv (s : sys) : Prop := {
    bi_kind : forall t a, actors s !! t = Some a -> kind_ok a;
    bi_bal : forall t a, actors s !! t = Some a ->
      Nat.b2n (ongoing a) + nob (ObSucc t) (hist s) + nob (ObFail t) (hist s) + nob (ObCancel t) (hist s)
      = nob (ObStart t) (hist s);
    bi_none : forall t o, actors s !! t = None -> obs_target o = t -> nob o (hist s) = 0
  }.

  Lemma bal_inv_init : bal_inv (init_sys g roots).
  Proof.
    split; cbn.
    - intros t a Ha. apply (init_actor_lookup g roots) in Ha as (k & deps & _ & ->). by split.
    - intros t a Ha. apply (init_actor_lookup g roots) in Ha as (k & deps & _ & ->). done.
    - done.
  Qed.

  Lemma bal_inv_step w s s' : wf s -> bal_inv s -> step_inv fx w s s' -> bal_inv s'.
  Proof.
    intros Hwf Hbi [t a e ok a' os ob Ha Hst Hact Hh _ _ _ _ _ _ _ _ _ _ _|Hact _ Hh _ _ _|ts _ Hact _ Hh _ _ _ _].
    - destruct (Hwf t a Ha) as [Hid _].
      assert (Hoth : forall t0 o, t0 <> t -> obs_target o = t0 -> nob o ob = 0).
      { intros t0 o Hne Ho. apply nob_other. intros x Hx ->.
        apply (step_obs_self _ _ _ _ _ _ _ Hst) in Hx. congruence. }
      split.
      + intros t0 a0 Ha0. rewrite Hact in Ha0. destruct (decide (t0 = t)) as [->|Hne].
        * rewrite lookup_insert in Ha0. injection Ha0 as <-.
          eapply step_kind_ok; [done|]. by eapply (bi_kind _ Hbi).
        * rewrite lookup_insert_ne in Ha0 by done. by eapply (bi_kind _ Hbi).
      + intros t0 a0 Ha0. rewrite Hact in Ha0. rewrite Hh, !nob_app. destruct (decide (t0 = t)) as [->|Hne].
        * rewrite lookup_insert in Ha0. injection Ha0 as <-.
          pose proof (step_result_balance _ _ _ _ _ _ _ Hst (bi_kind _ Hbi t a Ha)) as Hb.
          rewrite Hid in Hb. unfold nobs in Hb. fold (nob (ObSucc t) ob) (nob (ObFail t) ob) (nob (ObCancel t) ob) (nob (ObStart t) ob) in Hb.
          pose proof (bi_bal _ Hbi t a Ha). lia.
        * rewrite lookup_insert_ne in Ha0 by done.
          rewrite !(Hoth t0) by done. pose proof (bi_bal _ Hbi t0 a0 Ha0). lia.
      + intros t0 o Hn Ho. rewrite Hact in Hn. apply lookup_insert_None in Hn as [Hn Hne].
        rewrite Hh, nob_app, (bi_none _ Hbi t0 o Hn Ho), (Hoth t0 o) by done. done.
    - split; [intros t0 a0 Ha0; rewrite Hact in Ha0; by eapply (bi_kind _ Hbi)
             |intros t0 a0 Ha0; rewrite Hact in Ha0; rewrite Hh; by eapply (bi_bal _ Hbi)
             |intros t0 o Hn Ho; rewrite Hact in Hn; rewrite Hh; by eapply (bi_none _ Hbi)].
    - split; [intros t0 a0 Ha0; rewrite Hact in Ha0; by eapply (bi_kind _ Hbi)
             |intros t0 a0 Ha0; rewrite Hact in Ha0; rewrite Hh; by eapply (bi_bal _ Hbi)
             |intros t0 o Hn Ho; rewrite Hact in Hn; rewrite Hh; by eapply (bi_none _ Hbi)].
  Qed.

  Lemma bal_inv_reachable w s : reachable fx w g roots s -> bal_inv s.
  Proof.
    apply reachable_ind; [apply bal_inv_init|]. intros s0 l s1 Hr Hbi He.
    eapply bal_inv_step; [by eapply wf_reachable|done|by eapply exec_inv].
  Qed.

  Lemma nothing_outside_graph w s t o :
    reachable fx w g roots s -> actors s !! t = None -> obs_target o = t -> count_occ obs_eq_dec (hist s) o = 0.
  Proof. intros Hr. exact (bi_none _ (bal_inv_reachable w s Hr) t o). Qed.

  Lemma results_match_starts w s t a :
    reachable fx w g roots s -> actors s !! t = Some a ->
    Nat.b2n (ongoing a) + count_occ obs_eq_dec (hist s) (ObSucc t) + count_occ obs_eq_dec (hist s) (ObFail t)
      + count_occ obs_eq_dec (hist s) (ObCancel t) = count_occ obs_eq_dec (hist s) (ObStart t).
  Proof. intros Hr. exact (bi_bal _ (bal_inv_reachable w s Hr) t a). Qed.

  (* a success or a failure is always the result of a start *)
  Lemma result_needs_start w s t :
    reachable fx w g roots s -> (ObSucc t ∈ hist s \/ ObFail t ∈ hist s) -> ObStart t ∈ hist s.
  Proof.
    intros Hr Hres. pose proof (bal_inv_reachable w s Hr) as Hbi. apply nob_pos.
    destruct (actors s !! t) as [a|] eqn:Ha.
    - pose proof (bi_bal _ Hbi t a Ha). destruct Hres as [H1|H1]; apply nob_pos in H1; lia.
    - destruct Hres as [H1|H1]; apply nob_pos in H1.
      + rewrite (bi_none _ Hbi t (ObSucc t) Ha eq_refl) in H1. lia.
      + rewrite (bi_none _ Hbi t (ObFail t) Ha eq_refl) in H1. lia.
  Qed.

  (* one-shot: a target that failed never succeeds *)
  Lemma failed_never_succeeds s d : reachable1 s -> ObFail d ∈ hist s -> ObSucc d ∉ hist s.
  Proof.
    intros Hr Hf Hs. pose proof (bal_inv_reachable false s Hr) as Hbi.
    pose proof (at_most_once fx g roots s d Hr) as H1. unfold nstart in H1. fold (nob (ObStart d) (hist s)) in H1.
    apply nob_pos in Hf. apply nob_pos in Hs.
    destruct (actors s !! d) as [a|] eqn:Ha.
    - pose proof (bi_bal _ Hbi d a Ha). lia.
    - rewrite (bi_none _ Hbi d (ObSucc d) Ha eq_refl) in Hs. lia.
  Qed.

  (* transitive dependencies *)
  Inductive tdep : tid -> tid -> Prop :=
  | td_direct t kt deps d : g !! t = Some (kt, deps) -> d ∈ deps -> tdep t d
  | td_trans t kt deps x d : g !! t = Some (kt, deps) -> x ∈ deps -> tdep x d -> tdep t d.

  Lemma tdep_trans_r t x k deps d : tdep t x -> g !! x = Some (k, deps) -> d ∈ deps -> tdep t d.
  Proof.
    intros Htd Hg Hd. induction Htd as [t kt tdeps x Hgt Hx|t kt tdeps y x Hgt Hy Htd IH].
    - eapply td_trans; [exact Hgt|exact Hx|]. by eapply td_direct.
    - eapply td_trans; [exact Hgt|exact Hy|]. by apply IH.
  Qed.

  (* a target at or above a dependency that never succeeded can never be acknowledged for both kinds *)
  Lemma blocked w s d kd ddeps :
    reachable fx w g roots s -> g !! d = Some (kd, ddeps) -> kd <> AAggregate -> ObSucc d ∉ hist s ->
    forall x, (x = d \/ tdep x d) -> ~ (forall k, ready (hist s) k x).
  Proof.
    intros Hr Hgd Hna Hns.
    assert (Hstep : forall x kx xdeps y, g !! x = Some (kx, xdeps) -> y ∈ xdeps ->
              ~ (forall k, ready (hist s) k y) -> ~ (forall k, ready (hist s) k x)).
    { intros x kx xdeps y Hgx Hy Hny Hrx. apply Hny. intros k.
      assert (Hstart : ObStart x ∈ hist s -> ready (hist s) k y).
      { intros Hin. apply elem_of_list_split in Hin as (h1 & h2 & Heq).
        pose proof (start_ok_reachable fx w g roots s Hr h1 x h2 Heq kx xdeps Hgx y k Hy) as Hry.
        rewrite Heq. by apply ready_mono. }
      destruct kx.
      - specialize (Hrx KB). inversion Hrx as [? ? ? Hg2 Hs|? ? ? Hg2|? ? ? Hg2]; subst;
          assert (Heq2 := eq_trans (eq_sym Hgx) Hg2); try done.
        apply Hstart. eapply result_needs_start; [done|left; by apply Hs].
      - specialize (Hrx KS). inversion Hrx as [? ? ? Hg2|? ? ? Hg2 Hs|? ? ? Hg2]; subst;
          assert (Heq2 := eq_trans (eq_sym Hgx) Hg2); try done.
        apply Hstart. eapply result_needs_start; [done|left; by apply Hs].
      - specialize (Hrx k). inversion Hrx as [? ? ? Hg2|? ? ? Hg2|? ? ? Hg2 Hall]; subst;
          assert (Heq2 := eq_trans (eq_sym Hgx) Hg2); try done.
        injection Heq2 as <-. by apply Hall. }
    intros x [->|Htd].
    - intros Hrd. apply Hns. by eapply ready_succ.
    - induction Htd as [t kt deps d0 Hg Hd|t kt deps x d0 Hg Hx Htd IH].
      + eapply Hstep; [done|done|]. intros Hrd. apply Hns. by eapply ready_succ.
      + eapply Hstep; [done|done|]. by apply IH.
  Qed.

  Theorem dependents_never_start s d t :
    reachable1 s -> ObFail d ∈ hist s -> tdep t d -> ObStart t ∉ hist s.
  Proof.
    intros Hr Hf Htd Hin.
    pose proof (failed_never_succeeds s d Hr Hf) as Hns.
    (* d is a real (non-aggregate) target of the graph *)
    pose proof (result_needs_start false s d Hr (or_intror Hf)) as Hsd.
    pose proof (wf_reachable fx false g roots s Hr) as Hwf.
    assert (Hd : exists kd ddeps, g !! d = Some (kd, ddeps) /\ kd <> AAggregate).
    { pose proof (bal_inv_reachable false s Hr) as Hbi. destruct (actors s !! d) as [a|] eqn:Ha.
      - destruct (Hwf d a Ha) as [_ Hg]. exists (a_kind a), (a_deps a). split; [done|].
        (* an aggregate never starts *)
        clear -Hr Hsd Ha Hg. revert Hsd Ha Hg. revert a.
        pose proof (start_ok_reachable fx false g roots s Hr) as _.
        intros a Hsd Ha Hg Hagg.
        assert (Hno : forall s0, reachable1 s0 -> forall a0, actors s0 !! d = Some a0 -> a_kind a0 = AAggregate -> ObStart d ∉ hist s0).
        { apply (reachable_ind fx false g roots (fun s0 => forall a0, actors s0 !! d = Some a0 -> a_kind a0 = AAggregate -> ObStart d ∉ hist s0)).
          - intros a0 _ _ Hin. by apply elem_of_nil in Hin.
          - intros s0 l s1 Hr0 IH He a1 Ha1 Hk1.
            pose proof (wf_reachable fx false g roots s0 Hr0) as Hwf0.
            destruct (exec_inv _ _ _ _ _ He) as [t0 a0 e ok a0' os ob Ha0 Hst Hact Hh _ _ _ _ _ _ _ _ _ _ _|Hact _ Hh _ _ _|ts _ Hact _ Hh _ _ _ _].
            + rewrite Hact in Ha1. rewrite Hh. intros Hin. apply elem_of_app in Hin as [Hin|Hin].
              * destruct (decide (d = t0)) as [->|Hne].
                -- rewrite lookup_insert in Ha1. injection Ha1 as <-.
                   destruct (step_same_id _ _ _ _ _ _ _ Hst) as (_ & Hk' & _). eapply IH; [done|congruence|done].
                -- rewrite lookup_insert_ne in Ha1 by done. by eapply IH.
              * destruct (step_start _ _ _ _ _ _ _ Hst _ Hin) as (Hx & _ & _ & _ & Hnagg).
                destruct (Hwf0 t0 a0 Ha0) as [Hid0 _]. rewrite Hid0 in Hx. subst t0.
                rewrite lookup_insert in Ha1. injection Ha1 as <-.
                destruct (step_same_id _ _ _ _ _ _ _ Hst) as (_ & Hk' & _). congruence.
            + rewrite Hact in Ha1. rewrite Hh. by eapply IH.
            + rewrite Hact in Ha1. rewrite Hh. by eapply IH. }
        by eapply (Hno s Hr a Ha Hagg).
      - apply nob_pos in Hsd. rewrite (bi_none _ Hbi d (ObStart d) Ha eq_refl) in Hsd. lia. }
    destruct Hd as (kd & ddeps & Hgd & Hna).
    apply elem_of_list_split in Hin as (h1 & h2 & Heq).
    pose proof (start_ok_reachable fx false g roots s Hr h1 t h2 Heq) as Hso.
    assert (Hall : forall kt deps, g !! t = Some (kt, deps) -> forall y, y ∈ deps -> forall k, ready (hist s) k y).
    { intros kt deps Hg y Hy k. rewrite Heq. apply ready_mono. by eapply Hso. }
    inversion Htd as [t0 kt deps d0 Hg Hd|t0 kt deps x d0 Hg Hx Hxd]; subst.
    - eapply (blocked false s d kd ddeps Hr Hgd Hna Hns d); [by left|]. intros k. by eapply Hall.
    - eapply (blocked false s d kd ddeps Hr Hgd Hna Hns x); [by right|]. intros k. by eapply Hall.
  Qed.
End c07.
