(* Per-step fact about actor_step: a failure is observed only when a script fails or a spawn fails. *)
From Zinoma.Proofs Require Export ActorFacts.
Section facts.
  Context (fx ok : bool) (a : astate) (e : event) (a' : astate) (os : list out) (ob : list obs).
  Context (Hstep : actor_step fx ok a e = Some (a', os, ob)).
  Lemma step_fail_cause x : ObFail x ∈ ob -> e = EBuildDone RFailed \/ ok = false.
  Proof using Hstep.
    clear -Hstep. intros Hin. destruct ok; [|by right]. left.
    crush_step Hstep; try done; split_elem Hin.
  Qed.
End facts.
