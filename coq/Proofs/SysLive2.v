(* C04 progress argument, part 2: the invariant is preserved by every step taken while the root is in its loop. *)
From Zinoma.Proofs Require Export SysLive.

Lemma phase_back fx w s s' : step_inv fx w s s' -> ph s' = PRun -> ph s = PRun.
Proof.
  intros [t a e ok a' os ob _ _ _ _ _ _ _ _ _ _ _ (Hph & _) _ _ _|_ _ _ _ _ Hrs|ts _ _ _ _ _ _ (Hph & _) _] Hp.
  - by rewrite <- Hph.
  - destruct Hrs as [pre o rest Hp0 _ _ _ Hp' _ _ _|pre t rest _ Hp0 _ _ Hp' _ _ _|pre t act rest _ Hp0 _ _ Hp' _ _ _ _ _
                    |pre t act rest _ Hp0 _ _ Hp' _ _ _ _ _|_ Hp0 _ _ _ Hp' _ _ _ _|_ Hp0 _ _ _ Hp' _ _ _ _
                    |_ Hp' _ _ _ _|_ _ Hp' _ _ _ _|st0 Hp0 _ Hp' _ _ _ _]; try done; try congruence.
  - by rewrite <- Hph.
Qed.

Section live2.
  Context (g : graph) (roots : list tid).
  Notation wf := (SysInv.wf g).
  Notation live_inv := (live_inv g roots).

  (* the events that can occur while a one-shot run is inside the root loop *)
  Lemma event_plain s t a e :
    live_inv s -> oneshot_inv s -> actors s !! t = Some a ->
    (forall m, e = EMsg m -> msg_in s (ATarget t) m) -> (e = EInval -> t ∈ slot s) -> (e = ETerm -> t ∈ termq s) ->
    (e = EBuildDone RCancelled -> cancel_sent a = true) -> plain e.
  Proof.
    intros Hli Hoi Ha Hm Hi Ht Hc. destruct e as [[k r|k r|k d act|k d]| | |[]]; cbn; try done.
    - by eapply (li_nounreq _ _ _ Hli), Hm.
    - by eapply (oi_noinv _ Hoi), Hm.
    - specialize (Hi eq_refl). rewrite (oi_slot _ Hoi) in Hi. set_solver.
    - specialize (Ht eq_refl). rewrite (li_termq _ _ _ Hli) in Ht. set_solver.
    - specialize (Hc eq_refl). destruct (li_calm _ _ _ Hli t a Ha) as (_ & _ & Hcs). congruence.
  Qed.

  Lemma classic_fanned (a : astate) k : fanned a k \/ ~ fanned a k.
  Proof. unfold fanned. destruct (a_kind a); [destruct (decide (reqB a = ∅))|destruct (decide (reqS a = ∅))|destruct (decide (reqs a k = ∅))]; auto. Qed.

  Lemma classic_done (a : astate) k : done a k \/ ~ done a k.
  Proof. unfold done. destruct (a_kind a); [destruct (executed a)|destruct (executed a)|destruct (decide (unav a k = ∅))]; auto. Qed.

  Lemma plain_not_invalidating e : plain e -> ~ invalidating e.
  Proof. intros Hp [->|(k & d & ->)]; done. Qed.

  Section actor_step.
    Context (s s' : sys) (t : tid) (a : astate) (e : event) (ok : bool) (a' : astate) (os : list out) (ob : list obs).
    Context (Ha : actors s !! t = Some a) (Hst : actor_step true ok a e = Some (a', os, ob)).
    Context (Hact : actors s' = <[t := a']> (actors s)).
    Context (Hroot : root_same s s').
    Context (Hkeep : forall dst m, msg_in s dst m -> msg_in s' dst m \/ (dst = ATarget t /\ e = EMsg m)).
    Context (Hp : plain e).

    Lemma consumed_step R k d : consumed s R k d -> consumed s' R k d.
    Proof.
      destruct R as [|t0]; cbn.
      - destruct Hroot as (_ & HB & HS & _). destruct k; cbn; [by rewrite HB|by rewrite HS].
      - intros (a0 & Ha0 & Hn). rewrite Hact. destruct (decide (t0 = t)) as [->|Hne].
        + rewrite lookup_insert. exists a'. split; [done|]. assert (a0 = a) as -> by congruence.
          intros Hin. destruct (step_unav_grow _ _ _ _ _ _ _ Hst k d Hin) as [? | ->]; [done|done].
        + rewrite lookup_insert_ne by done. eauto.
    Qed.

    Lemma acked_step R k d : acked s R k d -> acked s' R k d.
    Proof.
      intros [[act Hm]|Hc]; [|right; by apply consumed_step].
      destruct (Hkeep _ _ Hm) as [Hm'|[-> ->]]; [left; eauto|].
      right. cbn. exists a'. split; [by rewrite Hact, lookup_insert|].
      by eapply (step_ok_consumed _ _ _ _ _ _ _ Hst).
    Qed.

    Context (Hwf : wf s) (Hli : live_inv s).
    Context (Hmsg : forall dst m, msg_in s' dst m -> msg_in s dst m \/ OMsg dst m ∈ os).
    Context (Hdel : forall dst m, OMsg dst m ∈ os -> msg_in s' dst m).
    Context (Hh : hist s' = hist s ++ ob).
    Context (Htq : termq s' ⊆ termq s).
    Context (Hm : forall m, e = EMsg m -> msg_in s (ATarget t) m).

    Lemma live_inv_actor_step : live_inv s'.
    Proof.
      destruct (Hwf t a Ha) as [Hid Hg].
      destruct (step_same_id _ _ _ _ _ _ _ Hst) as (Hi' & Hk' & Hd').
      pose proof (li_calm _ _ _ Hli t a Ha) as Hcalm.
      pose proof (plain_not_invalidating e Hp) as Hni.
      assert (Hown : forall k, own a' k <-> own a k) by (intros k; unfold own; by rewrite Hk').
      assert (Hreqs_keep : forall k R, R ∈ reqs a k -> R ∈ reqs a' k).
      { intros k R HR. destruct (decide (R ∈ reqs a' k)) as [|Hn]; [done|].
        rewrite (step_reqs_shrink _ _ _ _ _ _ _ Hst k R HR Hn) in Hp. done. }
      split.
      - (* li_dom *)
        intros t0 Hg0. rewrite Hact. destruct (decide (t0 = t)) as [->|Hne].
        + rewrite lookup_insert. eauto.
        + rewrite lookup_insert_ne by done. by apply (li_dom _ _ _ Hli).
      - (* li_calm *)
        intros t0 a0 Ha0. rewrite Hact in Ha0. destruct (decide (t0 = t)) as [->|Hne].
        + rewrite lookup_insert in Ha0. injection Ha0 as <-. by eapply step_calm.
        + rewrite lookup_insert_ne in Ha0 by done. by eapply (li_calm _ _ _ Hli).
      - (* li_termq *)
        rewrite (li_termq _ _ _ Hli) in Htq. set_solver.
      - (* li_nounreq *)
        intros dst k r Hin. destruct (Hmsg _ _ Hin) as [Hold|Hnew]; [by eapply (li_nounreq _ _ _ Hli)|].
        destruct (step_out_unreq_only _ _ _ _ _ _ _ Hst _ _ _ Hnew) as (k' & r' & ->). done.
      - (* li_req *)
        intros R d k ad Hw Had.
        (* either R already wanted d for k, or R = the stepping actor fanned out just now *)
        assert (Hcases : wants roots s R d k \/
                         (R = ATarget t /\ d ∈ a_deps a /\ OMsg (ATarget d) (MRequested k (ATarget t)) ∈ os)).
        { destruct R as [|t0]; cbn in Hw; [by left|].
          destruct Hw as (a0 & Ha0 & Hd0 & Hf0). rewrite Hact in Ha0. destruct (decide (t0 = t)) as [->|Hne].
          - rewrite lookup_insert in Ha0. injection Ha0 as <-. rewrite Hd' in Hd0.
            destruct (classic_fanned a k) as [Hfa|Hnf].
            + left. cbn. exists a. done.
            + right. split; [done|]. split; [done|]. rewrite <- Hid.
              unfold fanned in Hf0, Hnf. rewrite Hk' in Hf0.
              destruct (a_kind a) eqn:Hkind.
              * apply dec_stable in Hnf. apply set_choose_L in Hf0 as [r0 Hr0].
                destruct (step_reqs_grow _ _ _ _ _ _ _ Hst KB r0 Hr0) as [Hold | ->]; [cbn [reqs] in Hold; rewrite Hnf in Hold; set_solver|].
                eapply (step_fanout_first _ _ _ _ _ _ KB r0 k Hst); try done; unfold own; by rewrite Hkind.
              * apply dec_stable in Hnf. apply set_choose_L in Hf0 as [r0 Hr0].
                destruct (step_reqs_grow _ _ _ _ _ _ _ Hst KS r0 Hr0) as [Hold | ->]; [cbn [reqs] in Hold; rewrite Hnf in Hold; set_solver|].
                eapply (step_fanout_first _ _ _ _ _ _ KS r0 k Hst); try done; unfold own; by rewrite Hkind.
              * apply dec_stable in Hnf. apply set_choose_L in Hf0 as [r0 Hr0].
                destruct (step_reqs_grow _ _ _ _ _ _ _ Hst k r0 Hr0) as [Hold | ->]; [cbn [reqs] in Hold; rewrite Hnf in Hold; set_solver|].
                eapply (step_fanout_first _ _ _ _ _ _ k r0 k Hst); try done; unfold own; by rewrite Hkind.
          - rewrite lookup_insert_ne in Ha0 by done. left. cbn. eauto. }
        destruct Hcases as [Hold|(-> & Hdd & Hnew)]; [|left; by apply Hdel].
        rewrite Hact in Had. destruct (decide (d = t)) as [->|Hne].
        + rewrite lookup_insert in Had. injection Had as <-.
          destruct (li_req _ _ _ Hli R t k a Hold Ha) as [Hpend|[[Ho HR]|[Hno Hack]]].
          * destruct (Hkeep _ _ Hpend) as [? | [_ ->]]; [by left|].
            destruct (decide (own a k)) as [Ho|Hno].
            -- right; left. split; [by apply Hown|]. by eapply (step_register _ _ _ _ _ _ _ Hst).
            -- right; right. split; [by rewrite Hown|]. left. exists false. apply Hdel. rewrite <- Hid.
               by eapply (step_reply _ _ _ _ _ _ _ Hst).
          * right; left. split; [by apply Hown|by apply Hreqs_keep].
          * right; right. split; [by rewrite Hown|by apply acked_step].
        + rewrite lookup_insert_ne in Had by done.
          destruct (li_req _ _ _ Hli R d k ad Hold Had) as [Hpend|[?|[Hno Hack]]].
          * destruct (Hkeep _ _ Hpend) as [? | [[= ->] _]]; [by left|done].
          * by right; left.
          * right; right. split; [done|by apply acked_step].
      - (* li_ack *)
        intros d ad R k Had Ho HR Hdn. rewrite Hact in Had. destruct (decide (d = t)) as [->|Hne].
        + rewrite lookup_insert in Had. injection Had as <-. apply Hown in Ho.
          destruct (classic_done a k) as [Hda|Hnda].
          * destruct (decide (R ∈ reqs a k)) as [HRa|HRn].
            -- apply acked_step. by eapply (li_ack _ _ _ Hli t a).
            -- destruct (step_reqs_grow _ _ _ _ _ _ _ Hst k R HR) as [? | ->]; [done|].
               destruct (step_ack_late _ _ _ _ _ _ _ Hst Ho Hda HRn) as [act Hin].
               left. exists act. apply Hdel. by rewrite <- Hid.
          * destruct (step_ack_all _ _ _ _ _ _ _ Hst k R Ho Hnda Hdn HR) as [act Hin].
            left. exists act. apply Hdel. by rewrite <- Hid.
        + rewrite lookup_insert_ne in Had by done. apply acked_step. by eapply (li_ack _ _ _ Hli d ad).
      - (* li_nopend *)
        intros d ad Had. rewrite Hact in Had. destruct (decide (d = t)) as [->|Hne].
        + rewrite lookup_insert in Had. injection Had as <-. intros k Hk Hte Hr HB HS.
          eapply (step_no_pending_start _ _ _ _ _ _ _ Hst k); try done; [by rewrite <- Hk'|].
          by destruct (step_calm _ _ _ _ _ _ _ Hst Hp Hcalm).
        + rewrite lookup_insert_ne in Had by done. by eapply (li_nopend _ _ _ Hli).
      - (* li_flags *)
        intros d ad Had Hna Hte. rewrite Hact in Had. rewrite Hh. destruct (decide (d = t)) as [->|Hne].
        + rewrite lookup_insert in Had. injection Had as <-. rewrite Hk' in Hna.
          destruct (step_flags_progress _ _ _ _ _ _ _ Hst (ObFail t ∈ hist s) Hna Hp Hcalm
                      (li_flags _ _ _ Hli t a Ha Hna) Hte) as [?|[?|[?|Hf]]]; [by left|right; by left|..].
          * right; right. apply elem_of_app; by left.
          * right; right. apply elem_of_app; right. by rewrite <- Hid.
        + rewrite lookup_insert_ne in Had by done.
          destruct (li_flags _ _ _ Hli d ad Had Hna Hte) as [?|[?|?]]; [by left|right; by left|].
          right; right. apply elem_of_app; by left.
      - (* li_unavsub *)
        intros d ad k x Had Hx. rewrite Hact in Had. destruct (decide (d = t)) as [->|Hne].
        + rewrite lookup_insert in Had. injection Had as <-. rewrite Hd'.
          destruct (step_unav_grow _ _ _ _ _ _ _ Hst k x Hx) as [Hold | ->]; [by eapply (li_unavsub _ _ _ Hli t a)|done].
        + rewrite lookup_insert_ne in Had by done. by eapply (li_unavsub _ _ _ Hli).
      - (* li_rsub *)
        intros k x Hx. destruct Hroot as (_ & HB & HS & _). apply (li_rsub _ _ _ Hli k).
        destruct k; cbn in *; [by rewrite <- HB|by rewrite <- HS].
    Qed.
  End actor_step.
End live2.
