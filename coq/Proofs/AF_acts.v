(* Per-step fact(s) about actor_step: acts. *)
From Zinoma.Proofs Require Export ActorFacts.
Section facts.
  Context (fx ok : bool) (a : astate) (e : event) (a' : astate) (os : list out) (ob : list obs).
  Context (Hstep : actor_step fx ok a e = Some (a', os, ob)).
  Lemma step_acts_mono k d : d ∈ acts a k -> d ∈ acts a' k.
  Proof using Hstep.
    clear -Hstep. intros Hin. crush_step Hstep; aproj_all; try done; set_solver.
  Qed.
  Lemma step_acts_grow k d : d ∈ acts a' k -> d ∈ acts a k \/ (a_kind a = AAggregate /\ e = EMsg (MOk k d true)).
  Proof using Hstep.
    clear -Hstep. intros Hin. crush_step Hstep; aproj_all; try (by left);
      try (destruct_decide (decide (d ∈ acts a k)); [by left|right; split; [done|f_equal; f_equal; set_solver]]).
  Qed.
End facts.
