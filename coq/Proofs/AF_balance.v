(* Per-step fact about actor_step: every start is matched by exactly one result. *)
From Zinoma.Proofs Require Export ActorFacts AF_exit.
Definition nobs (o : obs) (h : list obs) : nat := count_occ obs_eq_dec h o.
Section facts.
  Context (fx ok : bool) (a : astate) (e : event) (a' : astate) (os : list out) (ob : list obs).
  Context (Hstep : actor_step fx ok a e = Some (a', os, ob)).
  Lemma step_result_balance : kind_ok a ->
    Nat.b2n (ongoing a') + nobs (ObSucc (a_id a)) ob + nobs (ObFail (a_id a)) ob + nobs (ObCancel (a_id a)) ob
    = Nat.b2n (ongoing a) + nobs (ObStart (a_id a)) ob.
  Proof using Hstep.
    clear -Hstep. unfold kind_ok, nobs. intros [H1 H2].
    crush_step Hstep; aproj_all; bool_hyps;
      cbn [count_occ app]; repeat (case_match; simplify_eq); cbn [Nat.b2n];
      try lia;
      try (destruct (ongoing a) eqn:Ho; [specialize (H1 eq_refl); congruence|cbn; lia]).
      all: repeat match goal with H : ongoing _ = _ |- _ => rewrite H end; cbn [Nat.b2n]; lia.
  Qed.
End facts.
