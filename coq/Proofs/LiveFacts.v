(* All per-step facts used by the progress argument of C04. *)
From Zinoma.Proofs Require Export LiveDefs LF_register LF_fanout LF_ackall LF_acklate LF_flags.
