From Zinoma.Proofs Require Export LiveDefs.
Ltac find_here := first [apply elem_of_list_here | apply elem_of_app; left; find_here | apply elem_of_app; right; find_here | apply elem_of_list_further; find_here].
Ltac absurd_bools :=
  exfalso; repeat match goal with H : _ && _ = false |- _ => apply andb_false_iff in H as [H|H] end;
  bool_hyps; try congruence; try contradiction; try done.
Section facts.
  Context (ok : bool) (a : astate) (a' : astate) (os : list out) (ob : list obs).
  (* LF4b (this is the FX1 repair): a requester that registers when the actor can already acknowledge is answered at once *)
  Lemma step_ack_late k r :
    actor_step true ok a (EMsg (MRequested k r)) = Some (a', os, ob) ->
    own a k -> done a k -> r ∉ reqs a k -> exists act, OMsg r (MOk k (a_id a) act) ∈ os.
  Proof.
    unfold own, done. intros Hstep Ho Hd Hn.
    destruct (a_kind a) eqn:Hk.
    - subst k. unfold actor_step in Hstep; rewrite Hk in Hstep. crush_step Hstep; aproj_all; bool_hyps; try congruence; try done;
        try (eexists; find_here; fail); absurd_bools.
    - subst k. unfold actor_step in Hstep; rewrite Hk in Hstep. crush_step Hstep; aproj_all; bool_hyps; try congruence; try done;
        try (eexists; find_here; fail); absurd_bools.
    - unfold actor_step in Hstep; rewrite Hk in Hstep. crush_step Hstep; aproj_all; bool_hyps; try congruence; try done;
        try (eexists; find_here; fail); absurd_bools.
  Qed.
End facts.
