(* Proofs about the state-file codec, part 2: decoding an encoding gives the value back (whatever follows it, and for
   every order in which the map entries were written), and therefore no strict prefix of an encoding decodes. *)
From Zinoma.Model Require Import Bytes Codec.
From Zinoma.Proofs Require Import Codec.
From Coq Require Import Lia.

(* ---- values that `serialize` can produce ---- *)
Definition str_ok (s : bytes) : Prop := utf8_ok s = true /\ N.of_nat (length s) < two64.
Definition dur_ok (d : duration) : Prop := d_secs d < two64 /\ d_nanos d < nanos_per_sec.
Definition fentry_ok (e : fentry) : Prop := str_ok (fst e) /\ dur_ok (fst (snd e)) /\ snd (snd e) < two64.
Definition centry_ok (e : centry) : Prop := str_ok (fst (fst e)) /\ str_ok (snd (fst e)) /\ str_ok (snd e).
Definition rstate_ok (r : res_state) : Prop :=
  Forall fentry_ok (rs_fs r) /\ Forall centry_ok (rs_cmd r) /\
  N.of_nat (length (rs_fs r)) < two64 /\ N.of_nat (length (rs_cmd r)) < two64.
Definition env_ok (e : env_state) : Prop :=
  rstate_ok (es_input e) /\ match es_output e with None => True | Some r => rstate_ok r end.

(* a map holds each key once (keys compared as the map compares them) *)
Section Distinct.
  Context {K V : Type} (keq : K -> K -> bool).

  Fixpoint distinct_keys (l : list (K * V)) : Prop :=
    match l with
    | [] => True
    | kv :: r => (forall kv', In kv' r -> keq (fst kv') (fst kv) = false) /\ distinct_keys r
    end.

  Lemma ainsert_fresh (k : K) (v : V) (m : list (K * V)) :
    (forall kv, In kv m -> keq k (fst kv) = false) -> ainsert keq k v m = m ++ [(k, v)].
  Proof.
    induction m as [|[k' v'] m IH]; intros H; cbn [ainsert app]; [reflexivity|].
    pose proof (H (k', v') (or_introl eq_refl)) as Hk. cbn [fst] in Hk. rewrite Hk. rewrite IH; [reflexivity|]. intros kv Hin. apply H. now right.
  Qed.

  Lemma fold_insert_distinct (l : list (K * V)) : forall acc,
    distinct_keys l -> (forall kv kv', In kv l -> In kv' acc -> keq (fst kv) (fst kv') = false) ->
    fold_left (fun m kv => ainsert keq (fst kv) (snd kv) m) l acc = acc ++ l.
  Proof.
    induction l as [|[k v] l IH]; intros acc Hd Hf; cbn [fold_left].
    - now rewrite app_nil_r.
    - destruct Hd as [Hd1 Hd2]. cbn [fst snd]. rewrite ainsert_fresh.
      + rewrite IH; [now rewrite <- app_assoc | exact Hd2 |].
        intros kv kv' Hin Hin'. apply in_app_or in Hin' as [Hin' | [<- | []]].
        * apply Hf; [now right | exact Hin'].
        * now apply Hd1.
      + intros kv Hin. apply (Hf (k, v) kv); [now left | exact Hin].
  Qed.

  Lemma amap_of_distinct (l : list (K * V)) : distinct_keys l -> amap_of keq l = l.
  Proof. intros Hd. unfold amap_of. rewrite fold_insert_distinct; [reflexivity | exact Hd | intros ? ? _ []]. Qed.
End Distinct.

Definition rstate_distinct (r : res_state) : Prop :=
  distinct_keys path_eqb (rs_fs r) /\ distinct_keys ckey_eqb (rs_cmd r).
Definition env_distinct (e : env_state) : Prop :=
  rstate_distinct (es_input e) /\ match es_output e with None => True | Some r => rstate_distinct r end.

Lemma canon_env_distinct e : env_distinct e -> canon_env e = e.
Proof.
  destruct e as [[ifs icmd] o]. intros [[H1 H2] H3]. unfold canon_env, canon_rstate.
  cbn [es_input es_output rs_fs rs_cmd] in *.
  rewrite (amap_of_distinct _ _ H1), (amap_of_distinct _ _ H2). f_equal.
  destruct o as [[ofs ocmd]|]; [|reflexivity]. destruct H3 as [H3 H4]. cbn [option_map rs_fs rs_cmd] in *.
  now rewrite (amap_of_distinct _ _ H3), (amap_of_distinct _ _ H4).
Qed.

(* ---- fixed-width integers ---- *)
Lemma le_bytes_length n x : length (le_bytes n x) = n.
Proof. revert x. induction n as [|n IH]; intros x; cbn; [reflexivity | now rewrite IH]. Qed.

Lemma le_value_le_bytes n x : le_value (le_bytes n x) = x mod 256 ^ N.of_nat n.
Proof.
  revert x. induction n as [|n IH]; intros x.
  - cbn. now rewrite N.mod_1_r.
  - cbn [le_bytes le_value]. rewrite IH, Nat2N.inj_succ, N.pow_succ_r'.
    rewrite N.mod_mul_r; [reflexivity | discriminate | apply N.pow_nonzero; discriminate].
Qed.

Lemma dec_fixed_le_bytes n x rest : x < 256 ^ N.of_nat n -> dec_fixed n (le_bytes n x ++ rest) = Some (x, rest).
Proof.
  intros Hx. unfold dec_fixed.
  rewrite <- (le_bytes_length n x) at 1. rewrite take_n_app, le_value_le_bytes, N.mod_small by exact Hx. reflexivity.
Qed.

Lemma rt_u64 x rest : x < two64 -> dec_u64 (enc_u64 x ++ rest) = Some (x, rest).
Proof. intros Hx. apply dec_fixed_le_bytes. exact Hx. Qed.

Lemma rt_u32 x rest : x < 4294967296 -> dec_u32 (enc_u32 x ++ rest) = Some (x, rest).
Proof. intros Hx. apply dec_fixed_le_bytes. exact Hx. Qed.

(* ---- strings, durations, entries ---- *)
Lemma take_N_app s rest : take_N (N.of_nat (length s)) (s ++ rest) = Some (s, rest).
Proof.
  unfold take_N. rewrite app_length, Nat2N.id.
  replace (N.of_nat (length s) <=? N.of_nat (length s + length rest)) with true by (symmetry; apply N.leb_le; lia).
  apply take_n_app.
Qed.

Lemma rt_str s rest : str_ok s -> dec_str (enc_str s ++ rest) = Some (s, rest).
Proof.
  intros [Hu Hl]. unfold dec_str, enc_str, enc_len, dbind. rewrite <- app_assoc, rt_u64 by exact Hl.
  rewrite take_N_app, Hu. reflexivity.
Qed.

Lemma rt_duration d rest : dur_ok d -> dec_duration (enc_duration d ++ rest) = Some (d, rest).
Proof.
  intros [Hs Hn]. unfold dec_duration, enc_duration, dbind. rewrite <- app_assoc, rt_u64 by exact Hs.
  rewrite rt_u32 by (unfold nanos_per_sec in Hn; lia).
  rewrite N.div_small, N.mod_small, N.add_0_r by exact Hn.
  apply N.ltb_lt in Hs. rewrite Hs. destruct d; reflexivity.
Qed.

Lemma rt_fentry e rest : fentry_ok e -> dec_fentry (enc_fentry e ++ rest) = Some (e, rest).
Proof.
  destruct e as [p [d h]]. intros [Hp [Hd Hh]]. cbn [fst snd] in *.
  unfold dec_fentry, enc_fentry, dbind. cbn [fst snd]. rewrite <- !app_assoc, rt_str by exact Hp.
  rewrite rt_duration by exact Hd. rewrite rt_u64 by exact Hh. reflexivity.
Qed.

Lemma rt_centry e rest : centry_ok e -> dec_centry (enc_centry e ++ rest) = Some (e, rest).
Proof.
  destruct e as [[c d] o]. intros [Hc [Hd Ho]]. cbn [fst snd] in *.
  unfold dec_centry, enc_centry, dbind. cbn [fst snd]. rewrite <- !app_assoc, rt_str by exact Hc.
  rewrite rt_str by exact Hd. rewrite rt_str by exact Ho. reflexivity.
Qed.

(* ---- sequences ---- *)
Lemma rt_elems {A} (d : decoder A) (e : A -> bytes) (l : list A) : forall fuel rest,
  (forall x r, In x l -> d (e x ++ r) = Some (x, r)) -> (length l <= fuel)%nat ->
  dec_elems d fuel (N.of_nat (length l)) (concat (map e l) ++ rest) = Some (l, rest).
Proof.
  induction l as [|x l IH]; intros fuel rest Hrt Hf.
  - destruct fuel; reflexivity.
  - destruct fuel as [|fuel]; [cbn in Hf; lia|].
    cbn [length map concat]. cbn [dec_elems].
    replace (N.of_nat (S (length l)) =? 0) with false by (symmetry; apply N.eqb_neq; lia).
    rewrite <- app_assoc, Hrt by now left.
    replace (N.of_nat (S (length l)) - 1) with (N.of_nat (length l)) by lia.
    rewrite IH; [reflexivity | | cbn in Hf; lia]. intros y r Hy. apply Hrt. now right.
Qed.

Lemma concat_map_length_ge {A} (e : A -> bytes) (l : list A) :
  (forall x, In x l -> (1 <= length (e x))%nat) -> (length l <= length (concat (map e l)))%nat.
Proof.
  induction l as [|x l IH]; intros H; cbn [map concat length]; [lia|].
  rewrite app_length. specialize (H x (or_introl eq_refl)) as Hx.
  assert (length l <= length (concat (map e l)))%nat by (apply IH; intros y Hy; apply H; now right). lia.
Qed.

Lemma rt_seq {A} (d : decoder A) (e : A -> bytes) (l : list A) rest :
  N.of_nat (length l) < two64 ->
  (forall x r, In x l -> d (e x ++ r) = Some (x, r)) -> (forall x, In x l -> (1 <= length (e x))%nat) ->
  dec_seq d (enc_seq e l ++ rest) = Some (l, rest).
Proof.
  intros Hl Hrt Hne. unfold dec_seq, enc_seq, enc_len, dbind. rewrite <- app_assoc, rt_u64 by exact Hl.
  apply rt_elems; [exact Hrt|]. rewrite app_length. pose proof (concat_map_length_ge e l Hne). lia.
Qed.

Lemma enc_str_nonempty s : (1 <= length (enc_str s))%nat.
Proof. unfold enc_str, enc_len, enc_u64. rewrite app_length, le_bytes_length. lia. Qed.

Lemma enc_fentry_nonempty e : (1 <= length (enc_fentry e))%nat.
Proof. unfold enc_fentry. rewrite app_length. pose proof (enc_str_nonempty (fst e)). lia. Qed.

Lemma enc_centry_nonempty e : (1 <= length (enc_centry e))%nat.
Proof. unfold enc_centry. rewrite app_length. pose proof (enc_str_nonempty (fst (fst e))). lia. Qed.

Lemma rt_rstate r rest : rstate_ok r -> dec_rstate (enc_rstate r ++ rest) = Some (r, rest).
Proof.
  destruct r as [fs cs]. intros [Hf [Hc [Hlf Hlc]]]. cbn [rs_fs rs_cmd] in *.
  unfold dec_rstate, enc_rstate, dbind. cbn [rs_fs rs_cmd]. rewrite <- app_assoc.
  rewrite (rt_seq dec_fentry enc_fentry); [| exact Hlf | | intros; apply enc_fentry_nonempty].
  - rewrite (rt_seq dec_centry enc_centry); [reflexivity | exact Hlc | | intros; apply enc_centry_nonempty].
    intros x r Hx. apply rt_centry. rewrite Forall_forall in Hc. now apply Hc.
  - intros x r Hx. apply rt_fentry. rewrite Forall_forall in Hf. now apply Hf.
Qed.

Lemma rt_env_raw e rest : env_ok e -> dec_env_raw (enc_env e ++ rest) = Some (e, rest).
Proof.
  destruct e as [i o]. intros [Hi Ho]. cbn [es_input es_output] in *.
  unfold dec_env_raw, enc_env, dbind. cbn [es_input es_output]. rewrite <- app_assoc, rt_rstate by exact Hi.
  destruct o as [r|]; cbn [enc_opt].
  - unfold dec_opt, dbind. change (1 :: enc_rstate r) with ([1] ++ enc_rstate r). rewrite <- app_assoc.
    change [1] with (le_bytes 1 1).
    unfold dec_u8. rewrite dec_fixed_le_bytes by (cbn; lia). cbn [N.eqb Pos.eqb].
    rewrite rt_rstate by exact Ho. reflexivity.
  - unfold dec_opt, dbind. change [0] with (le_bytes 1 0).
    unfold dec_u8. rewrite dec_fixed_le_bytes by (cbn; lia). reflexivity.
Qed.

(* C05: what was written in full decodes to what was written, whatever the order of the entries and whatever follows *)
Lemma dec_enc_env e rest : env_ok e -> env_distinct e -> dec_env (enc_env e ++ rest) = Some (e, rest).
Proof.
  intros Hok Hd. apply dec_env_some. exists e. split; [now apply rt_env_raw | now rewrite canon_env_distinct].
Qed.

(* C05: a write interrupted at ANY byte offset leaves bytes that do not decode *)
Lemma prefix_never_decodes e p : env_ok e -> strict_prefix p (enc_env e) -> dec_env p = None.
Proof.
  intros Hok Hp. apply dec_env_none.
  pose proof (rt_env_raw e [] Hok) as H.
  destruct (Parser_env_raw _ _ _ H) as [u [Hu [_ Hb]]].
  rewrite !app_nil_r in Hu. subst u. now apply Hb.
Qed.

(* more generally: whatever decodes, none of the strict prefixes of the consumed part decodes *)
Lemma decodable_prefix_free bs e rest :
  dec_env bs = Some (e, rest) ->
  exists used, bs = used ++ rest /\ forall p, strict_prefix p used -> dec_env p = None.
Proof.
  intros H. destruct (dec_env_parser _ _ _ H) as [u [Hu [_ Hb]]]. exists u. now split.
Qed.
