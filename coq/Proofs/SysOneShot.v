(* One-shot invariants: nothing is ever invalidated, so every target starts at most once (C08) and a failed
   target never succeeds, which blocks everything depending on it (C07). *)
From Zinoma.Proofs Require Export SysC01.

Section oneshot.
  Context (fx : bool) (g : graph) (roots : list tid).
  Notation reachable1 := (reachable fx false g roots).
  Notation wf := (wf g).

  Definition no_inval_msg (s : sys) : Prop :=
    forall dst k d, ~ msg_in s dst (MInvalidated k d).

  Definition nstart (t : tid) (h : list obs) : nat := count_occ obs_eq_dec h (ObStart t).

  Record oneshot_inv (s : sys) : Prop := {
    oi_slot : slot s = ∅;
    oi_noinv : no_inval_msg s;
    oi_once : forall t a, actors s !! t = Some a ->
                nstart t (hist s) <= 1 /\ (to_execute a = true -> nstart t (hist s) = 0);
    oi_other : forall t, actors s !! t = None -> nstart t (hist s) = 0
  }.

  Lemma nstart_app t h1 h2 : nstart t (h1 ++ h2) = nstart t h1 + nstart t h2.
  Proof. unfold nstart. apply count_occ_app. Qed.

  Lemma nstart_zero t h : (forall x, ObStart x ∈ h -> x <> t) -> nstart t h = 0.
  Proof.
    intros H. unfold nstart. apply count_occ_not_In. intros Hin. apply elem_of_list_In in Hin. by eapply H.
  Qed.

  Lemma nstart_pos t h : 0 < nstart t h -> ObStart t ∈ h.
  Proof. unfold nstart. intros H. apply elem_of_list_In. by eapply count_occ_In. Qed.

  Lemma oneshot_inv_init : oneshot_inv (init_sys g roots).
  Proof.
    split; cbn; try done.
    - intros [|d0] k d Hin; cbn in Hin; [by apply elem_of_nil in Hin|].
      destruct Hin as (l & Hl & Hin). revert Hl Hin. unfold init_inbox.
      assert (Hgen : forall rs ib, (forall d1 l1, ib !! d1 = Some l1 -> MInvalidated k d ∉ l1) ->
                forall l1, foldl (fun ib r => push_inbox (push_inbox ib r (MRequested KB ARoot)) r (MRequested KS ARoot)) ib rs !! d0 = Some l1 ->
                MInvalidated k d ∉ l1).
      { induction rs as [|r rs IH]; intros ib Hib l1; cbn; [by apply Hib|]. apply IH.
        intros d1 l2. rewrite !lookup_push_inbox. destruct (decide (d1 = r)) as [->|Hne].
        - rewrite decide_True by done. intros [= <-]. intros Hin.
          rewrite !elem_of_app, !elem_of_list_singleton in Hin. destruct Hin as [[Hin|?]|?]; try done.
          destruct (ib !! r) eqn:E; cbn in Hin; [by eapply Hib|by apply elem_of_nil in Hin].
        - apply Hib. }
      intros Hl Hin. eapply (Hgen roots ∅); [|done|done]. intros d1 l1. by rewrite lookup_empty.
    - intros t a _. unfold nstart. cbn. split; [lia|done].
  Qed.

  Lemma oneshot_inv_step s s' : wf s -> oneshot_inv s -> step_inv fx false s s' -> oneshot_inv s'.
  Proof.
    intros Hwf Hoi [t a e ok a' os ob Ha Hst Hact Hh Hmsg Herr Hm Hinv _ Hsl _ _ _ _ _|Hact Hib Hh Hsl Hrq _|ts Hw _ _ _ _ _ _ _];
      [| |done].
    - destruct (Hwf t a Ha) as [Hid Hg].
      assert (Hni : ~ invalidating e).
      { intros [->|(k & d & ->)].
        - specialize (Hinv eq_refl). rewrite (oi_slot _ Hoi) in Hinv. set_solver.
        - eapply (oi_noinv _ Hoi). by apply Hm. }
      split.
      + rewrite (oi_slot _ Hoi) in Hsl. set_solver.
      + intros dst k d Hin. destruct (Hmsg _ _ Hin) as [Hold|Hnew]; [by eapply (oi_noinv _ Hoi)|].
        destruct (step_out_inval _ _ _ _ _ _ _ Hst _ _ _ Hnew) as (_ & Hi & _). done.
      + intros t0 a0 Ha0. rewrite Hact in Ha0. rewrite Hh, nstart_app. destruct (decide (t0 = t)) as [->|Hne].
        * rewrite lookup_insert in Ha0. injection Ha0 as <-.
          destruct (oi_once _ Hoi t a Ha) as [Hle Hz].
          pose proof (step_start_count _ _ _ _ _ _ _ Hst t) as Hc. fold (nstart t ob) in Hc.
          destruct (to_execute a) eqn:Hte.
          -- rewrite (Hz eq_refl). split; [lia|]. intros Hte'.
             destruct (Nat.eq_dec (nstart t ob) 0) as [->|Hpos]; [done|].
             assert (Hin : ObStart t ∈ ob) by (apply nstart_pos; lia).
             destruct (step_start _ _ _ _ _ _ _ Hst _ Hin) as (_ & _ & _ & Hf & _). congruence.
          -- destruct (step_oneshot _ _ _ _ _ _ _ Hst Hni Hte) as [Hte' Hno].
             rewrite (nstart_zero t ob) by (intros x Hx _; by eapply Hno). split; [lia|]. congruence.
        * rewrite lookup_insert_ne in Ha0 by done.
          rewrite (nstart_zero t0 ob); [rewrite Nat.add_0_r; by apply (oi_once _ Hoi)|].
          intros x Hx. apply (step_obs_self _ _ _ _ _ _ _ Hst) in Hx. cbn in Hx. congruence.
      + intros t0 Hnone. rewrite Hact in Hnone. apply lookup_insert_None in Hnone as [Hnone Hne].
        rewrite Hh, nstart_app, (oi_other _ Hoi t0 Hnone). cbn.
        apply nstart_zero. intros x Hx. apply (step_obs_self _ _ _ _ _ _ _ Hst) in Hx. cbn in Hx. congruence.
    - split.
      + by rewrite Hsl, (oi_slot _ Hoi).
      + intros dst k d Hin. eapply (oi_noinv _ Hoi dst).
        destruct dst as [|d0]; cbn in *; [by apply Hrq|by rewrite <- Hib].
      + intros t0 a0 Ha0. rewrite Hact in Ha0. rewrite Hh. by apply (oi_once _ Hoi).
      + intros t0 Hn. rewrite Hact in Hn. rewrite Hh. by apply (oi_other _ Hoi).
  Qed.

  Lemma oneshot_inv_reachable s : reachable1 s -> oneshot_inv s.
  Proof.
    apply reachable_ind; [apply oneshot_inv_init|]. intros s0 l s1 Hr Hoi He.
    eapply oneshot_inv_step; [by eapply wf_reachable|done|by eapply exec_inv].
  Qed.

  (* C08: in a one-shot run no target is started twice *)
  Theorem at_most_once s t : reachable1 s -> nstart t (hist s) <= 1.
  Proof.
    intros Hr. pose proof (oneshot_inv_reachable s Hr) as Hoi.
    destruct (actors s !! t) as [a|] eqn:Ha.
    - by apply (oi_once _ Hoi t a).
    - rewrite (oi_other _ Hoi t Ha). lia.
  Qed.
End oneshot.
