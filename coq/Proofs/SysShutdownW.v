(* C10 in every mode: once termination has begun — normal end, failure, SIGINT/SIGTERM, also in watch mode with a rebuild cascade
   in flight — a continuation of bounded length ends in the exited state with the same status. *)
From Zinoma.Proofs Require Export Weights SysBound SysTerm.

Section shutdownW.
  Context (g : graph) (roots : list tid) (w : bool).
  Context (rank : tid -> nat).
  Context (Hrank : forall t k deps d, g !! t = Some (k, deps) -> d ∈ deps -> rank d < rank t).
  Notation Phi' := (PhiW (wokG g rank) (winvG g rank) (sokG g rank)).

  Theorem shutdown_completes_any_mode s st :
    reachable true w g roots s -> ph s = PTerminating st ->
    exists ls s', run_labels true w s ls = Some s' /\ ph s' = PExited st /\ length ls <= Phi' s.
  Proof.
    intros Hr Hp. destruct (reach_quiescentW g roots w rank Hrank (Phi' s) s Hr ltac:(lia)) as (ls & s' & Hrun & Hq & Hlen).
    exists ls, s'. split; [done|]. split; [|done].
    destruct (run_finishing true w st ls s s' Hrun (or_introl Hp)) as [Hp'|Hp']; [|done].
    pose proof (shutdown_never_stuck true w g roots s' st (reachable_run true w g roots ls s s' Hr Hrun) Hp') as Hns.
    congruence.
  Qed.
End shutdownW.
