(* Lemmas about target identifiers and names (Model/Names.v): equality tests, the `::` splitter, `try_parse` on bare and
   qualified spellings, injectivity of `display`, the `.output` reference syntax. Used by C09, C13, C18, C19. *)
From Zinoma.Model Require Import Bytes Cfg Names.
From Zinoma.Proofs Require Import Bytes.
From Coq Require Import Lia PeanoNat.

(* ---- equality tests ---- *)
Lemma opt_beq_eq a b : opt_beq a b = true <-> a = b.
Proof.
  destruct a as [x|], b as [y|]; cbn [opt_beq]; split; intro H; try discriminate; try reflexivity.
  - apply beq_eq in H. now subst.
  - injection H as ->. apply beq_refl.
Qed.

Lemma opt_beq_refl a : opt_beq a a = true.
Proof. now apply opt_beq_eq. Qed.

Lemma tid_eqb_eq a b : tid_eqb a b = true <-> a = b.
Proof.
  unfold tid_eqb. rewrite andb_true_iff, opt_beq_eq, beq_eq. destruct a, b; cbn. split.
  - intros [-> ->]. reflexivity.
  - intros [= -> ->]. now split.
Qed.

Lemma tid_eqb_refl a : tid_eqb a a = true.
Proof. now apply tid_eqb_eq. Qed.

Lemma tid_eqb_neq a b : tid_eqb a b = false <-> a <> b.
Proof.
  split.
  - intros H ->. now rewrite tid_eqb_refl in H.
  - intros H. destruct (tid_eqb a b) eqn:E; [|reflexivity]. apply tid_eqb_eq in E. contradiction.
Qed.

Lemma tid_eq_dec (a b : target_id) : {a = b} + {a <> b}.
Proof.
  destruct (tid_eqb a b) eqn:E; [left; now apply tid_eqb_eq | right; now apply tid_eqb_neq].
Qed.

Lemma existsb_tid_eqb t l : existsb (tid_eqb t) l = true <-> In t l.
Proof.
  rewrite existsb_exists. split.
  - intros [x [Hin Hx]]. apply tid_eqb_eq in Hx. now subst.
  - intros H. exists t. split; [exact H | apply tid_eqb_refl].
Qed.

Lemma existsb_beq s l : existsb (beq s) l = true <-> In s l.
Proof.
  rewrite existsb_exists. split.
  - intros [x [Hin Hx]]. apply beq_eq in Hx. now subst.
  - intros H. exists s. split; [exact H | apply beq_refl].
Qed.

(* ---- valid names: only word characters and hyphens, so neither ':' nor '.' ---- *)
Lemma valid_name_chars s b :
  valid_name s = true -> In b s -> is_word b || (b =? hyphen) = true.
Proof.
  destruct s as [|x r]; [discriminate|]. cbn [valid_name]. rewrite andb_true_iff. intros [Hx Hr] [<-|Hin].
  - now rewrite Hx.
  - rewrite forallb_forall in Hr. now apply Hr.
Qed.

Lemma valid_name_no_colon s : valid_name s = true -> ~ In colon s.
Proof. intros Hv Hin. pose proof (valid_name_chars _ _ Hv Hin) as H. vm_compute in H. discriminate. Qed.

Lemma valid_name_no_dot s : valid_name s = true -> ~ In dot s.
Proof. intros Hv Hin. pose proof (valid_name_chars _ _ Hv Hin) as H. vm_compute in H. discriminate. Qed.

Lemma valid_name_nonempty s : valid_name s = true -> s <> [].
Proof. destruct s; [discriminate | discriminate]. Qed.

(* ---- the `::` splitter ---- *)
Lemma split_cc_aux_nonnil k s : split_cc_aux k s <> [].
Proof.
  revert k. induction s as [|x s IH]; intros k; cbn [split_cc_aux]; [discriminate|].
  destruct k; [apply IH|].
  destruct s as [|y s']; [discriminate|].
  destruct ((x =? colon) && (y =? colon)); [discriminate|].
  destruct (split_cc_aux false (y :: s')) eqn:E; [now apply IH in E | discriminate].
Qed.

Lemma split_cc_no_colon s : ~ In colon s -> split_cc s = [s].
Proof.
  unfold split_cc. induction s as [|x s IH]; intros Hn; cbn [split_cc_aux]; [reflexivity|].
  destruct s as [|y s']; [reflexivity|].
  destruct (N.eqb_spec x colon) as [->|Hx]; [exfalso; apply Hn; now left|].
  cbn [andb]. rewrite IH; [reflexivity | intros Hin; apply Hn; now right].
Qed.

Lemma split_cc_qualified p t :
  ~ In colon p -> split_cc (p ++ [colon; colon] ++ t) = p :: split_cc t.
Proof.
  unfold split_cc. induction p as [|x p IH]; intros Hn.
  - cbn [app split_cc_aux]. rewrite N.eqb_refl. reflexivity.
  - change ((x :: p) ++ [colon; colon] ++ t) with (x :: (p ++ [colon; colon] ++ t)).
    cbn [split_cc_aux].
    destruct (p ++ [colon; colon] ++ t) as [|y r] eqn:E; [destruct p; discriminate|].
    destruct (N.eqb_spec x colon) as [->|Hx]; [exfalso; apply Hn; now left|].
    cbn [andb]. rewrite IH; [reflexivity | intros Hin; apply Hn; now right].
Qed.

(* ---- try_parse on the two spellings ---- *)
Lemma try_parse_bare s cur :
  ~ In colon s -> try_parse s cur = Some {| t_project := cur; t_name := s |}.
Proof. intros Hn. unfold try_parse. now rewrite split_cc_no_colon. Qed.

Lemma try_parse_qualified p t cur :
  ~ In colon p -> ~ In colon t ->
  try_parse (p ++ [colon; colon] ++ t) cur = Some {| t_project := Some p; t_name := t |}.
Proof.
  intros Hp Ht. unfold try_parse. rewrite split_cc_qualified by exact Hp. now rewrite split_cc_no_colon.
Qed.

(* an id whose names are free of ':' (in particular: valid names) *)
Definition colon_free_id (a : target_id) : Prop :=
  ~ In colon (t_name a) /\ (forall p, t_project a = Some p -> ~ In colon p).

Definition valid_id (a : target_id) : Prop :=
  valid_name (t_name a) = true /\ (forall p, t_project a = Some p -> valid_name p = true).

Lemma valid_id_colon_free a : valid_id a -> colon_free_id a.
Proof.
  intros [Hn Hp]. split; [now apply valid_name_no_colon|]. intros p E. apply valid_name_no_colon. now apply Hp.
Qed.

(* parsing the printed form gives the id back: with any current project when qualified, with its own project otherwise *)
Lemma try_parse_display a cur :
  colon_free_id a -> (t_project a = None -> cur = None) -> try_parse (display a) cur = Some a.
Proof.
  intros [Hn Hp] Hc. destruct a as [[p|] n]; unfold display; cbn [t_project t_name] in *.
  - apply try_parse_qualified; [now apply Hp | exact Hn].
  - rewrite (Hc eq_refl). now apply try_parse_bare.
Qed.

Lemma In_app_colon p t : In colon (p ++ [colon; colon] ++ t).
Proof. apply in_or_app. right. now left. Qed.

(* `display` is injective on ids with colon-free (in particular valid) names — also used by C18 *)
Lemma display_inj a b :
  colon_free_id a -> colon_free_id b -> display a = display b -> a = b.
Proof.
  intros Ha Hb E.
  destruct (t_project a) as [pa|] eqn:Ea, (t_project b) as [pb|] eqn:Eb.
  - pose proof (try_parse_display a None Ha (fun _ => eq_refl)) as H1.
    pose proof (try_parse_display b None Hb (fun _ => eq_refl)) as H2.
    rewrite E, H2 in H1. now injection H1 as ->.
  - exfalso. destruct Hb as [Hb _]. apply Hb. destruct a as [pa' na], b as [pb' nb]; cbn in *; subst.
    unfold display in E. cbn in E. rewrite <- E. apply In_app_colon.
  - exfalso. destruct Ha as [Ha _]. apply Ha. destruct a as [pa' na], b as [pb' nb]; cbn in *; subst.
    unfold display in E. cbn in E. rewrite E. apply In_app_colon.
  - destruct a as [pa' na], b as [pb' nb]; cbn in *; subst. unfold display in E. cbn in E. now subst.
Qed.

Lemma display_inj_valid a b : valid_id a -> valid_id b -> display a = display b -> a = b.
Proof. intros Ha Hb. apply display_inj; now apply valid_id_colon_free. Qed.

(* the printed form of a qualified id contains "::", a bare valid name does not: the two kinds of accepted
   command-line names never collide *)
Lemma display_qualified_has_colon a p : t_project a = Some p -> In colon (display a).
Proof. intros E. unfold display. rewrite E. apply In_app_colon. Qed.

(* ---- try_parse_many ---- *)
Lemma try_parse_many_spec l cur ids :
  try_parse_many l cur = Some ids <-> Forall2 (fun s id => try_parse s cur = Some id) l ids.
Proof.
  revert ids. induction l as [|s l IH]; intros ids; cbn [try_parse_many].
  - split; [intros [= <-]; constructor | intros H; inversion H; reflexivity].
  - destruct (try_parse s cur) as [t|] eqn:Et.
    + destruct (try_parse_many l cur) as [ts|] eqn:Em.
      * split.
        -- intros [= <-]. constructor; [exact Et | now apply IH].
        -- intros H. inversion H as [|s' id l' ids' H1 H2]; subst. rewrite Et in H1. injection H1 as <-.
           apply IH in H2. now injection H2 as <-.
      * split; [discriminate|]. intros H. inversion H as [|s' id l' ids' H1 H2]; subst. apply IH in H2. discriminate.
    + split; [discriminate|]. intros H. inversion H as [|s' id l' ids' H1 H2]; subst. congruence.
Qed.

Lemma try_parse_many_none l cur :
  try_parse_many l cur = None <-> exists s, In s l /\ try_parse s cur = None.
Proof.
  induction l as [|s l IH]; cbn [try_parse_many].
  - split; [discriminate | intros [s [[] _]]].
  - destruct (try_parse s cur) as [t|] eqn:Et.
    + destruct (try_parse_many l cur) as [ts|] eqn:Em.
      * split; [discriminate|]. intros [s' [[<-|Hin] Hs']]; [congruence|].
        destruct IH as [_ IH]. discriminate IH. now exists s'.
      * split; [|reflexivity]. intros _. destruct IH as [IH _]. destruct (IH eq_refl) as [s' [Hin Hs']].
        exists s'. split; [now right | exact Hs'].
    + split; [|reflexivity]. intros _. exists s. split; [now left | exact Et].
Qed.

Lemma try_parse_many_app l1 l2 cur :
  try_parse_many (l1 ++ l2) cur =
  match try_parse_many l1 cur, try_parse_many l2 cur with
  | Some a, Some b => Some (a ++ b)
  | _, _ => None
  end.
Proof.
  induction l1 as [|s l1 IH]; cbn [app try_parse_many].
  - now destruct (try_parse_many l2 cur).
  - destruct (try_parse s cur); [|reflexivity]. rewrite IH.
    destruct (try_parse_many l1 cur), (try_parse_many l2 cur); reflexivity.
Qed.

(* a string that splits into one piece is that piece *)
Lemma split_cc_single s a : split_cc s = [a] -> a = s.
Proof.
  revert a. unfold split_cc. induction s as [|x s IH]; intros a E; cbn [split_cc_aux] in E.
  - now injection E as <-.
  - destruct s as [|y s']; [now injection E as <-|].
    destruct ((x =? colon) && (y =? colon)); [injection E as <- E'; now apply split_cc_aux_nonnil in E'|].
    destruct (split_cc_aux false (y :: s')) as [|c cs] eqn:E2; [now apply split_cc_aux_nonnil in E2|].
    cbn [cons_head] in E. injection E as <- ->. now rewrite (IH c eq_refl).
Qed.

(* bare references inside a project mean that project; qualified ones mean the named project *)
Lemma try_parse_project s cur id :
  try_parse s cur = Some id ->
  (t_project id = cur /\ t_name id = s /\ split_cc s = [s]) \/
  (exists p t, split_cc s = [p; t] /\ id = {| t_project := Some p; t_name := t |}).
Proof.
  unfold try_parse. destruct (split_cc s) as [|a [|b [|c r]]] eqn:E; try discriminate.
  - intros [= <-]. left. apply split_cc_single in E. subst a. cbn. repeat split.
  - intros [= <-]. right. now exists a, b.
Qed.

(* ---- the `.output` reference syntax ---- *)
Lemma parse_output_ref_parses s r cur :
  parse_output_ref s = Some r -> exists id, try_parse r cur = Some id.
Proof.
  unfold parse_output_ref. destruct (strip_suffix s dot_output) as [r'|]; [|discriminate].
  destruct (valid_ref r') eqn:Ev; [|discriminate]. intros [= <-].
  unfold valid_ref in Ev. unfold try_parse.
  destruct (split_cc r') as [|a [|b [|c l]]]; try discriminate; eauto.
Qed.

(* a reference accepted by the syntax names valid (hence colon- and dot-free) project and target names *)
Lemma parse_output_ref_valid s r cur id :
  parse_output_ref s = Some r -> try_parse r cur = Some id ->
  valid_name (t_name id) = true /\ (t_project id = cur \/ exists p, t_project id = Some p /\ valid_name p = true).
Proof.
  unfold parse_output_ref. destruct (strip_suffix s dot_output) as [r'|]; [|discriminate].
  destruct (valid_ref r') eqn:Ev; [|discriminate]. intros [= <-].
  unfold valid_ref in Ev. unfold try_parse.
  destruct (split_cc r') as [|a [|b [|c l]]]; try discriminate.
  - intros [= <-]. cbn. split; [exact Ev | now left].
  - apply andb_true_iff in Ev as [Ha Hb]. intros [= <-]. cbn. split; [exact Hb | right; now exists a].
Qed.

Lemma parse_output_ref_suffix s r : parse_output_ref s = Some r -> s = r ++ dot_output.
Proof.
  unfold parse_output_ref, strip_suffix. destruct (ends_with s dot_output) eqn:E; [|discriminate].
  destruct (valid_ref _); [|discriminate]. intros [= <-].
  apply ends_with_spec in E as [r ->]. rewrite app_length, Nat.add_sub.
  now rewrite firstn_app, firstn_all, Nat.sub_diag, firstn_O, app_nil_r.
Qed.

(* a well-formed `X.output` string: parse_output_ref inverts the spelling *)
Lemma parse_output_ref_spelling r : valid_ref r = true -> parse_output_ref (r ++ dot_output) = Some r.
Proof.
  intros Hv. unfold parse_output_ref, strip_suffix.
  assert (E : ends_with (r ++ dot_output) dot_output = true) by (apply ends_with_spec; now exists r).
  rewrite E, app_length, Nat.add_sub, firstn_app, firstn_all, Nat.sub_diag, firstn_O, app_nil_r. now rewrite Hv.
Qed.

Lemma valid_ref_bare t : valid_name t = true -> valid_ref t = true.
Proof. intros Hv. unfold valid_ref. rewrite split_cc_no_colon by now apply valid_name_no_colon. exact Hv. Qed.

Lemma valid_ref_qualified p t :
  valid_name p = true -> valid_name t = true -> valid_ref (p ++ [colon; colon] ++ t) = true.
Proof.
  intros Hp Ht. unfold valid_ref. rewrite split_cc_qualified by now apply valid_name_no_colon.
  rewrite split_cc_no_colon by now apply valid_name_no_colon. now rewrite Hp, Ht.
Qed.

(* ---- C19: the two spellings of a root target ---- *)
Lemma bare_eq_qualified P t cur :
  valid_name P = true -> valid_name t = true ->
  try_parse t (Some P) = Some {| t_project := Some P; t_name := t |} /\
  try_parse (P ++ [colon; colon] ++ t) cur = Some {| t_project := Some P; t_name := t |}.
Proof.
  intros HP Ht. split.
  - apply try_parse_bare. now apply valid_name_no_colon.
  - apply try_parse_qualified; now apply valid_name_no_colon.
Qed.

Lemma valid_name_no_separator s : valid_name s = true -> ~ In colon s /\ ~ In dot s.
Proof. intros H. split; [now apply valid_name_no_colon | now apply valid_name_no_dot]. Qed.

(* a bare reference means the current project *)
Lemma try_parse_bare_inv s cur id :
  try_parse s cur = Some id -> ~ In colon s -> id = {| t_project := cur; t_name := s |}.
Proof. intros H Hn. rewrite (try_parse_bare s cur Hn) in H. now injection H as <-. Qed.

(* equal target names in different projects are different targets, with different printed forms *)
Lemma same_name_other_project p q n :
  p <> q -> ~ In colon p -> ~ In colon q -> ~ In colon n ->
  {| t_project := Some p; t_name := n |} <> {| t_project := Some q; t_name := n |} /\
  display {| t_project := Some p; t_name := n |} <> display {| t_project := Some q; t_name := n |}.
Proof.
  intros Hne Hp Hq Hn. split; [intros [= E]; contradiction|]. intros E.
  apply display_inj in E; [injection E as E'; contradiction | |]; split; cbn; try assumption; intros x [= <-]; assumption.
Qed.
