(* Per-step fact(s) about actor_step: oneshot. *)
From Zinoma.Proofs Require Export ActorFacts.
Section facts.
  Context (fx ok : bool) (a : astate) (e : event) (a' : astate) (os : list out) (ob : list obs).
  Context (Hstep : actor_step fx ok a e = Some (a', os, ob)).
  Lemma step_oneshot : ~ invalidating e -> to_execute a = false ->
    to_execute a' = false /\ (forall x, ObStart x ∉ ob).
  Proof using Hstep.
    clear -Hstep. unfold invalidating. intros Hni Hte.
    crush_step Hstep; bool_hyps; aproj_all; try congruence;
      try (exfalso; apply Hni; first [by left | right; eauto]; fail);
      (split; [first [done|congruence]|]); intros y Hy; split_elem Hy.
  Qed.
End facts.
