(* C11: in a one-shot run a service that was started is left running until termination begins (it is stopped only when
   zinoma shuts down); nobody ever sends an Unrequested message. *)
From Zinoma.Proofs Require Export SysTerm LF_stop.

Section keep.
  Context (fx : bool) (g : graph) (roots : list tid).

  Definition no_unreq (s : sys) : Prop := forall dst k r, ~ msg_in s dst (MUnrequested k r).

  Lemma no_unreq_reachable w s : reachable fx w g roots s -> no_unreq s.
  Proof.
    revert s. apply (reachable_ind fx w g roots no_unreq).
    - intros [|d] k r Hin; cbn in Hin; [by apply elem_of_nil in Hin|].
      destruct Hin as (l & Hl & Hin). destruct (init_inbox_msgs roots d l _ Hl Hin) as [_ [k' Heq]]. done.
    - intros s0 l s1 Hr IH He dst k r Hin.
      destruct (exec_inv _ _ _ _ _ He) as [t a e ok a' os ob Ha Hst Hact Hh Hmsg Herr Hm _ _ _ _ _ _ _ _|Hact Hib _ _ Hrq _|ts _ Hact Hib _ Hrq _ _ _].
      + destruct (Hmsg _ _ Hin) as [Hold|Hnew]; [by eapply IH|].
        destruct (step_out_unreq_only _ _ _ _ _ _ _ Hst _ _ _ Hnew) as (k' & r' & ->). eapply IH. by apply Hm.
      + eapply (IH dst). destruct dst as [|d]; cbn in *; [by apply Hrq|by rewrite <- Hib].
      + eapply (IH dst). destruct dst as [|d]; cbn in *; [by rewrite <- Hrq|by rewrite <- Hib].
  Qed.

  Definition before_termination (s : sys) : Prop := ph s = PRun \/ ph s = PWaitTerm.

  Record keep_inv (s : sys) : Prop := {
    ki_termq : termq s = ∅;
    ki_nostop : forall t, ObStop t ∉ hist s
  }.

  Lemma before_back s s' : step_inv fx false s s' -> before_termination s' -> before_termination s.
  Proof.
    intros [t a e ok a' os ob _ _ _ _ _ _ _ _ _ _ _ (Hph & _) _ _ _|_ _ _ _ _ Hrs|ts _ _ _ _ _ _ (Hph & _) _] Hb.
    - unfold before_termination in *. by rewrite <- Hph.
    - unfold before_termination in *.
      destruct Hrs as [pre o rest Hp0 _ _ _ Hp' _ _ _|pre t rest _ Hp0 _ _ Hp' _ _ _|pre t act rest _ Hp0 _ _ Hp' _ _ _ _ _
                      |pre t act rest _ Hp0 _ _ Hp' _ _ _ _ _|_ Hp0 _ _ _ Hp' _ _ _ _|_ Hp0 _ _ _ Hp' _ _ _ _
                      |_ Hp' _ _ _ _|_ _ Hp' _ _ _ _|st0 Hp0 _ Hp' _ _ _ _]; try (by left); try (rewrite Hp' in Hb; by destruct Hb);
        try (by rewrite <- Hp').
    - unfold before_termination in *. by rewrite <- Hph.
  Qed.

  Lemma keep_inv_reachable s : reachable fx false g roots s -> before_termination s -> keep_inv s.
  Proof.
    revert s. apply (reachable_ind fx false g roots (fun s => before_termination s -> keep_inv s)).
    - intros _. split; [done|]. intros t Hin. by apply elem_of_nil in Hin.
    - intros s0 l s1 Hr IH He Hb1.
      pose proof (exec_inv _ _ _ _ _ He) as Hsi. specialize (IH (before_back _ _ Hsi Hb1)).
      assert (Hr1 : reachable fx false g roots s1).
      { destruct Hr as [ls Hls]. exists (ls ++ [l]). clear -Hls He. revert Hls. generalize (init_sys g roots).
        induction ls as [|l1 ls IH1]; intros s2 H; cbn in *; [injection H as ->; by rewrite He|].
        destruct (exec fx false s2 l1); [by apply IH1|done]. }
      destruct Hsi as [t a e ok a' os ob Ha Hst Hact Hh _ _ Hm _ Hterm _ Htq _ _ _ _|Hact _ Hh _ _ Hrs|ts Hw _ _ _ _ _ _ _]; [| |done].
      + pose proof (wf_reachable fx false g roots s0 Hr) as Hwf. destruct (Hwf t a Ha) as [Hid Hg].
        split.
        * rewrite (ki_termq _ IH) in Htq. set_solver.
        * intros x Hin. rewrite Hh in Hin. apply elem_of_app in Hin as [Hin|Hin]; [by eapply (ki_nostop _ IH)|].
          pose proof (step_obs_self _ _ _ _ _ _ _ Hst _ Hin) as Hx. cbn in Hx. rewrite Hid in Hx. subst x.
          destruct (step_stop_cause _ _ _ _ _ _ _ Hst t Hin) as [->|[(k & r & ->)|[Hrun Hstart]]].
          -- specialize (Hterm eq_refl). rewrite (ki_termq _ IH) in Hterm. set_solver.
          -- eapply (no_unreq_reachable false s0 Hr). by apply Hm.
          -- (* a restart would be a second start of a one-shot run *)
             pose proof (bi_kind _ (bal_inv_reachable fx g roots false s0 Hr) t a Ha) as [_ Hks].
             destruct (single_instance fx g roots false s0 t a Hr Ha (Hks Hrun)) as [_ Htot].
             rewrite Hrun in Htot. cbn in Htot.
             assert (Hsucc : ObSucc t ∈ hist s0) by (apply nob_pos; lia).
             pose proof (result_needs_start fx g roots false s0 t Hr (or_introl Hsucc)) as Hst0.
             pose proof (at_most_once fx g roots s1 t Hr1) as Hle. unfold nstart in Hle. rewrite Hh, count_occ_app in Hle.
             apply elem_of_list_In in Hst0. apply (count_occ_In obs_eq_dec) in Hst0.
             apply elem_of_list_In in Hstart. apply (count_occ_In obs_eq_dec) in Hstart. lia.
      + split.
        * destruct Hrs as [pre o rest Hp0 _ _ _ Hp' _ Htq _|pre t rest _ Hp0 _ _ Hp' _ _ _|pre t act rest _ Hp0 _ _ Hp' _ _ _ Htq _
                          |pre t act rest _ Hp0 _ _ Hp' _ _ _ Htq _|_ Hp0 _ _ _ Hp' _ _ _ _|_ Hp0 _ _ _ Hp' _ _ Htq _
                          |_ Hp' _ _ Htq _|_ _ Hp' _ _ _ _|st0 Hp0 _ Hp' _ _ _ _];
            try (rewrite Htq; by apply (ki_termq _ IH)); unfold before_termination in Hb1; rewrite Hp' in Hb1; by destruct Hb1.
        * intros x. rewrite Hh. by apply (ki_nostop _ IH).
  Qed.

  (* C11: a service started by a one-shot run keeps running as long as termination has not begun: it is there while its
     dependents run, and while zinoma waits for a signal *)
  Theorem service_kept_until_termination s t :
    reachable fx false g roots s -> before_termination s -> ObStop t ∉ hist s.
  Proof. intros Hr Hb. by apply (ki_nostop _ (keep_inv_reachable s Hr Hb)). Qed.
End keep.
