(* C02, the contrapositives the property names: an added, removed, renamed or rewritten declared file, a changed command
   output, force the script to run. Each is a corollary of `skip_sound`. Also: what a completed write leaves is `enc_env`. *)
From Zinoma.Model Require Import Bytes Cfg Codec Incremental.
From Zinoma.Proofs Require Import Bytes Codec CodecRoundtrip CodecWrite IncrementalKeys Incremental.
From Coq Require Import Lia.

Section Changes.
  Variable hash : bytes -> N.
  Variables (w : iworld) (bs : bytes) (e : env_state) (rest : bytes) (input : resources) (output : option resources).
  Hypothesis Hw : worlds_ok w input output.
  Hypothesis Hdec : dec_env bs = Some (e, rest).

  (* a file that is listed now and was not recorded (added, or the new name of a renamed file) *)
  Lemma added_input_file_runs p :
    In p (w_list w (r_files input)) -> ~ In (pkey p) (keys pkey (rs_fs (es_input e))) ->
    decide_skip hash w (Some bs) input output = false.
  Proof.
    intros Hin Hnk. apply not_true_is_false. intros Hs.
    destruct (skip_sound hash w (Some bs) input output Hw Hs) as [bs' [e' [rest' [[= <-] [Hd [_ [[[Hsub _] _] _]]]]]]].
    rewrite Hdec in Hd. injection Hd as <- <-. apply Hnk. now apply Hsub.
  Qed.

  (* a file that was recorded and is not listed any more (removed, or the old name of a renamed file) *)
  Lemma removed_input_file_runs k :
    In k (keys pkey (rs_fs (es_input e))) -> ~ In k (map pkey (w_list w (r_files input))) ->
    decide_skip hash w (Some bs) input output = false.
  Proof.
    intros Hin Hnk. apply not_true_is_false. intros Hs.
    destruct (skip_sound hash w (Some bs) input output Hw Hs) as [bs' [e' [rest' [[= <-] [Hd [_ [[[_ Hsup] _] _]]]]]]].
    rewrite Hdec in Hd. injection Hd as <- <-. apply Hnk. now apply Hsup.
  Qed.

  (* a listed file whose mtime AND content hash both differ from the recorded ones (rewritten) *)
  Lemma rewritten_input_file_runs p m h m' c :
    In p (w_list w (r_files input)) -> alookup path_eqb p (rs_fs (es_input e)) = Some (m, h) ->
    w_mtime w p = Some m' -> m' <> m -> w_read w p = Some c -> hash c <> h ->
    decide_skip hash w (Some bs) input output = false.
  Proof.
    intros Hin Hlk Hm Hne Hr Hh. apply not_true_is_false. intros Hs.
    destruct (skip_sound hash w (Some bs) input output Hw Hs) as [bs' [e' [rest' [[= <-] [Hd [_ [[_ [Hfm _]] _]]]]]]].
    rewrite Hdec in Hd. injection Hd as <- <-.
    destruct (Hfm p Hin) as [m0 [h0 [Hlk0 [Hm0 | [m1 [c1 [_ [Hr1 Hh1]]]]]]]]; rewrite Hlk in Hlk0; injection Hlk0 as <- <-.
    - congruence.
    - rewrite Hr in Hr1. injection Hr1 as <-. congruence.
  Qed.

  (* a declared command that prints something else than the recorded text (or fails) *)
  Lemma changed_command_runs c :
    In c (r_cmds input) ->
    w_cmd w (cr_cmd c) (cr_dir c) <> alookup ckey_eqb (cr_cmd c, cr_dir c) (rs_cmd (es_input e)) ->
    decide_skip hash w (Some bs) input output = false.
  Proof.
    intros Hin Hne. apply not_true_is_false. intros Hs.
    destruct (skip_sound hash w (Some bs) input output Hw Hs) as [bs' [e' [rest' [[= <-] [Hd [_ [[_ [_ Hcm]] _]]]]]]].
    rewrite Hdec in Hd. injection Hd as <- <-. destruct (Hcm c Hin) as [o [Ho Hl]]. congruence.
  Qed.

  (* the same for the output resources: a record without output state, or an output that does not match *)
  Lemma changed_output_runs o :
    output = Some o ->
    (forall ro, es_output e = Some ro -> ~ res_matches hash w ro o) ->
    decide_skip hash w (Some bs) input output = false.
  Proof.
    intros Ho Hno. apply not_true_is_false. intros Hs.
    destruct (skip_sound hash w (Some bs) input output Hw Hs) as [bs' [e' [rest' [[= <-] [Hd [_ [_ Hout]]]]]]].
    rewrite Hdec in Hd. injection Hd as <- <-. rewrite Ho in Hout. destruct Hout as [ro [Hro Hm]]. now apply (Hno ro).
  Qed.
End Changes.

(* ---- a serialisation that completes has written exactly `enc_env` ---- *)
Lemma wr_then_ok a b : snd (wr_then a b) = true -> snd a = true /\ snd b = true /\ fst (wr_then a b) = fst a ++ fst b.
Proof. unfold wr_then. destruct (snd a) eqn:E; cbn [fst snd]; [now intros -> | intros H; rewrite E in H; discriminate]. Qed.

Lemma wr_all_ok {A} (f : A -> writer) (g : A -> bytes) (l : list A) :
  (forall x, snd (f x) = true -> fst (f x) = g x) -> snd (wr_all f l) = true -> fst (wr_all f l) = concat (map g l).
Proof.
  intros Hf. induction l as [|x l IH]; cbn [wr_all map concat]; [reflexivity|].
  intros H. apply wr_then_ok in H as [Hx [Hl ->]]. now rewrite (Hf x Hx), (IH Hl).
Qed.

Lemma wr_path_ok p : snd (wr_path p) = true -> fst (wr_path p) = enc_str p.
Proof. unfold wr_path. destruct (utf8_ok p); [reflexivity | discriminate]. Qed.

Lemma wr_fentry_ok e : snd (wr_fentry e) = true -> fst (wr_fentry e) = enc_fentry e.
Proof. unfold wr_fentry, enc_fentry. intros H. apply wr_then_ok in H as [Hp [_ ->]]. now rewrite (wr_path_ok _ Hp). Qed.

Lemma wr_centry_ok e : snd (wr_centry e) = true -> fst (wr_centry e) = enc_centry e.
Proof.
  unfold wr_centry, enc_centry. intros H. apply wr_then_ok in H as [_ [H ->]]. apply wr_then_ok in H as [Hp [_ ->]].
  now rewrite (wr_path_ok _ Hp).
Qed.

Lemma wr_seq_ok {A} (f : A -> writer) (g : A -> bytes) (l : list A) :
  (forall x, snd (f x) = true -> fst (f x) = g x) -> snd (wr_seq f l) = true -> fst (wr_seq f l) = enc_seq g l.
Proof.
  intros Hf H. unfold wr_seq in *. apply wr_then_ok in H as [_ [Hl ->]]. unfold enc_seq. now rewrite (wr_all_ok f g l Hf Hl).
Qed.

Lemma wr_rstate_ok r : snd (wr_rstate r) = true -> fst (wr_rstate r) = enc_rstate r.
Proof.
  unfold wr_rstate, enc_rstate. intros H. apply wr_then_ok in H as [Hf [Hc ->]].
  now rewrite (wr_seq_ok _ _ _ wr_fentry_ok Hf), (wr_seq_ok _ _ _ wr_centry_ok Hc).
Qed.

Lemma wr_env_ok e : snd (wr_env e) = true -> fst (wr_env e) = enc_env e.
Proof.
  unfold wr_env, enc_env. intros H. apply wr_then_ok in H as [Hi [Ho ->]]. rewrite (wr_rstate_ok _ Hi). f_equal.
  destruct (es_output e) as [r|]; cbn [enc_opt]; [|reflexivity].
  apply wr_then_ok in Ho as [_ [Hr ->]]. now rewrite (wr_rstate_ok _ Hr).
Qed.
