From Zinoma.Proofs Require Export ActorFacts.
Section facts.
  Context (fx ok : bool) (a : astate) (e : event) (a' : astate) (os : list out) (ob : list obs).
  Context (Hstep : actor_step fx ok a e = Some (a', os, ob)).

  (* the latest word "out of date" from d makes d unavailable *)
  Lemma step_unav_insert k d : e = EMsg (MInvalidated k d) -> d ∈ unav a' k.
  Proof using Hstep.
    clear -Hstep. intros ->. crush_step Hstep; aproj_all; try congruence; set_solver.
  Qed.

  (* a build whose run was invalidated in flight is not acknowledged when it completes *)
  Lemma step_invalidated_run_silent r :
    a_kind a = ABuild -> e = EBuildDone r -> (r = RCompleted \/ r = RSkipped) -> to_execute a = true ->
    executed a' = false /\ (forall dst k t act, OMsg dst (MOk k t act) ∉ os).
  Proof using Hstep.
    clear -Hstep. intros Hk -> Hr Hte. destruct Hr as [-> | ->]; crush_step Hstep; aproj_all; bool_hyps; try congruence;
      (split; [try done; try (by rewrite Hte)|intros dst k t act Hin; split_elem Hin]).
  Qed.

  (* a change notice or an out-of-date word from a dependency re-arms a build that had started: it will run again
     (at once if it can), is no longer `executed`, and every requester is told *)
  Lemma step_invalidation_rearms :
    a_kind a = ABuild -> (e = EInval \/ exists d, e = EMsg (MInvalidated KB d)) -> to_execute a = false ->
    executed a' = false /\ (to_execute a' = true \/ ObStart (a_id a) ∈ ob) /\
    (forall r, r ∈ reqB a -> OMsg r (MInvalidated KB (a_id a)) ∈ os).
  Proof using Hstep.
    clear -Hstep. intros Hk He Hte. destruct He as [He|[d He]]; subst e;
      crush_step Hstep; aproj_all; try congruence;
      repeat split; try done; try (by left); try (right; solve_elem; fail);
      try (intros r Hr; apply elem_send_to_requesters; exists r; aproj_all; split; [assumption|reflexivity]).
  Qed.
End facts.
