(* Known finding KF1 (property C06): a change of a declared input made WHILE the target's own script runs is recorded as
   seen — the state is computed after the script — so the re-run triggered by the change notification is skipped and
   the output stays built from the old input. Witness in the incremental model, evaluated by vm_compute. *)
From Zinoma.Model Require Import Incremental.
From Coq Require Import List NArith Bool.
Import ListNotations.
Open Scope N_scope.

Definition kf1_path : bytes := [47; 105; 110].                       (* "/in" *)
Definition kf1_input : resources :=
  {| r_files := [{| fr_paths := [kf1_path]; fr_exts := None |}]; r_cmds := [] |}.

(* a world whose only file /in has the given content and mtime *)
Definition kf1_world (content : bytes) (mt : N) : iworld := {|
  w_list := fun _ => [kf1_path];
  w_mtime := fun p => if beq p kf1_path then Some {| d_secs := mt; d_nanos := 0 |} else None;
  w_read := fun p => if beq p kf1_path then Some content else None;
  w_cmd := fun _ _ => None
|}.

Definition kf1_hash (b : bytes) : N := fold_left (fun a x => a * 257 + x + 1) b 0.

Definition kf1_old := kf1_world [111; 108; 100] 100.                  (* "old", what the script reads when it starts *)
Definition kf1_new := kf1_world [110; 101; 119] 200.                  (* "new", written while the script is running *)

(* the cycle: decision and script start in the old world, completion (and state recording) in the new one *)
Definition kf1_cycle : cycle := {|
  cy_input := kf1_input; cy_output := None; cy_w0 := kf1_old; cy_outcome := ScriptSucceeded; cy_w1 := kf1_new |}.

Definition kf1_disk : option bytes := c_disk (run_cycle kf1_hash ckey_eqb true kf1_cycle None None).

(* the worlds differ on the declared input, the cycle completes, and the next invocation — in the world as the change
   left it — is skipped although no script ever ran on the new content *)
Lemma kf1_change_during_build_absorbed :
  w_read kf1_old kf1_path <> w_read kf1_new kf1_path /\
  c_phase (run_cycle kf1_hash ckey_eqb true kf1_cycle None None) = PEnd CyCompleted /\
  decide_skip kf1_hash kf1_new kf1_disk kf1_input None = true.
Proof. vm_compute. repeat split; try reflexivity. discriminate. Qed.

(* had the state been recorded from the world the script started in, the re-run would not be skipped *)
Lemma kf1_start_snapshot_would_rerun :
  decide_skip kf1_hash kf1_new
    (c_disk (run_cycle kf1_hash ckey_eqb true
               {| cy_input := kf1_input; cy_output := None; cy_w0 := kf1_old; cy_outcome := ScriptSucceeded; cy_w1 := kf1_old |}
               None None))
    kf1_input None = false.
Proof. vm_compute. reflexivity. Qed.
