(* Per-step facts about the three actors: everything the system-level invariants need to know about
   actor_step, each proved once by case analysis along the control flow of the step. Part 1. *)
From Zinoma.Proofs Require Export ActorTac.

Definition same_id (a a' : astate) : Prop :=
  a_id a' = a_id a /\ a_kind a' = a_kind a /\ a_deps a' = a_deps a.

Definition obs_target (o : obs) : tid :=
  match o with
  | ObStart t | ObSucc t | ObFail t | ObStop t | ObCancel t | ObExit t => t
  end.

Definition invalidating (e : event) : Prop :=
  e = EInval \/ exists k d, e = EMsg (MInvalidated k d).

Section facts.
  Context (fx ok : bool) (a : astate) (e : event) (a' : astate) (os : list out) (ob : list obs).
  Context (Hstep : actor_step fx ok a e = Some (a', os, ob)).

  Lemma step_same_id : same_id a a'.
  Proof using Hstep.
    clear -Hstep. unfold same_id. crush_step Hstep; aproj; done.
  Qed.

  Lemma step_not_exited : exited a = false.
  Proof using Hstep. clear -Hstep. crush_step Hstep; done. Qed.

  (* every observation is about the actor itself *)
  Lemma step_obs_self : forall o, o ∈ ob -> obs_target o = a_id a.
  Proof using Hstep.
    clear -Hstep. intros o Ho. crush_step Hstep; split_elem Ho; aproj; done.
  Qed.

  (* a start happens only with every dependency available for both kinds, and clears to_execute *)
  Lemma step_start : forall x, ObStart x ∈ ob ->
    x = a_id a /\ unavB a' = ∅ /\ unavS a' = ∅ /\ to_execute a' = false /\ a_kind a <> AAggregate.
  Proof using Hstep.
    clear -Hstep. intros x Hx. crush_step Hstep; split_elem Hx; bool_hyps; aproj; done.
  Qed.
End facts.
