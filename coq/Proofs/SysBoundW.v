(* Every execution in every mode is bounded: the weighted potential strictly decreases at every step except signal
   deliveries and file-change notices, and a file-change notice adds at most the weight of an out-of-date message per
   notified target.  Hence: finitely many changes => finitely many steps (the rebuild cascade is finite). *)
From Zinoma.Proofs Require Export SysBound PotentialW.

Definition msumk {A} (f : tid -> A -> nat) (m : gmap tid A) : nat := map_fold (fun k x acc => f k x + acc) 0 m.

Lemma msumk_empty {A} (f : tid -> A -> nat) : msumk f ∅ = 0.
Proof. apply map_fold_empty. Qed.
Lemma msumk_insert_None {A} (f : tid -> A -> nat) m k x : m !! k = None -> msumk f (<[k:=x]> m) = f k x + msumk f m.
Proof. intros Hk. unfold msumk. rewrite map_fold_insert_L; [done| |done]. intros. lia. Qed.
Lemma msumk_insert_Some {A} (f : tid -> A -> nat) m k x y : m !! k = Some x -> msumk f (<[k:=y]> m) + f k x = f k y + msumk f m.
Proof.
  intros Hk. rewrite <- (insert_delete_insert m). rewrite msumk_insert_None by apply lookup_delete.
  rewrite <- (insert_delete m k x Hk) at 2. rewrite msumk_insert_None by apply lookup_delete. lia.
Qed.

Lemma sum_list_with_perm {A} (f : A -> nat) l1 l2 : l1 ≡ₚ l2 -> sum_list_with f l1 = sum_list_with f l2.
Proof. induction 1; cbn; lia. Qed.

Definition ssum (f : tid -> nat) (X : gset tid) : nat := sum_list_with f (elements X).

Lemma ssum_remove f (X : gset tid) t : t ∈ X -> ssum f (X ∖ {[t]}) + f t = ssum f X.
Proof.
  intros Hin. unfold ssum. rewrite (union_difference_singleton_L t X Hin) at 2.
  rewrite (sum_list_with_perm f _ _ (elements_union_singleton (X ∖ {[t]}) t ltac:(set_solver))). cbn. lia.
Qed.

Lemma ssum_insert f (X : gset tid) t : ssum f (X ∪ {[t]}) <= ssum f X + f t.
Proof.
  destruct (decide (t ∈ X)) as [Hin|Hnin].
  - assert (X ∪ {[t]} = X) as -> by set_solver. lia.
  - unfold ssum. rewrite (union_comm_L X {[t]}).
    rewrite (sum_list_with_perm f _ _ (elements_union_singleton X t Hnin)). cbn. lia.
Qed.

Lemma ssum_union_list f (X : gset tid) ts : ssum f (X ∪ list_to_set ts) <= ssum f X + sum_list_with f ts.
Proof.
  revert X. induction ts as [|t ts IH]; intros X; cbn.
  - rewrite union_empty_r_L. lia.
  - assert (X ∪ ({[t]} ∪ list_to_set ts) = (X ∪ {[t]}) ∪ list_to_set ts) as -> by set_solver.
    pose proof (IH (X ∪ {[t]})). pose proof (ssum_insert f X t). lia.
Qed.

Section boundw.
  Context (wok winv : aid -> nat) (sok sinv : tid -> nat).
  Notation wmsgW := (wmsgW wok winv).
  Notation woutsW := (woutsW wok winv).
  Notation potWk := (potWk wok sok).
  Notation wevW := (wevW wok winv).

  Definition wlW (t : tid) (l : list msg) : nat := sum_list_with (wmsgW (ATarget t)) l.
  Definition winvT (t : tid) : nat := winv (ATarget t).

  Definition PhiW (s : sys) : nat :=
    msum potWk (actors s) + msumk wlW (inbox s) + length (rootq s) + ssum winvT (slot s) + size (termq s)
    + phw (ph s) (size (actors s)).

  Lemma push_inbox_sumW ib d m : msumk wlW (push_inbox ib d m) = msumk wlW ib + wmsgW (ATarget d) m.
  Proof.
    unfold push_inbox. destruct (ib !! d) as [l|] eqn:Hd; cbn.
    - pose proof (msumk_insert_Some wlW ib d l (l ++ [m]) Hd) as H. unfold wlW in *. rewrite sum_list_with_app in H. cbn in H. lia.
    - rewrite msumk_insert_None by done. unfold wlW. cbn. lia.
  Qed.

  Lemma route_sumW os : forall ib rq ib' rq',
    route ib rq os = (ib', rq') -> msumk wlW ib' + length rq' = msumk wlW ib + length rq + woutsW os.
  Proof.
    induction os as [|o os IH]; intros ib rq ib' rq' H; cbn in H.
    - injection H as <- <-. cbn. lia.
    - change (woutsW (o :: os)) with (woutW wok winv o + woutsW os). destruct o as [[|d] m|t].
      + apply IH in H. rewrite app_length in H. cbn in *. lia.
      + apply IH in H. rewrite push_inbox_sumW in H. cbn. lia.
      + apply IH in H. rewrite app_length in H. cbn in *. lia.
  Qed.

  (* what the weights must satisfy in a state *)
  Definition weighted (s : sys) : Prop :=
    forall t a, actors s !! t = Some a -> a_id a = t /\ weights_ok wok winv sok sinv a /\ sums_ok wok winv sok sinv a.

  Lemma apply_step_phiW s t a e ok ib sl tq s' :
    actors s !! t = Some a -> not_unreq e -> weighted s -> weighted s' ->
    apply_step s t ib sl tq (actor_step true ok a e) = Some s' ->
    PhiW s' + msumk wlW (inbox s) + ssum winvT (slot s) + size (termq s) + 1
      <= PhiW s + msumk wlW ib + ssum winvT sl + size tq + wevW (ATarget t) e.
  Proof.
    intros Ha Hp Hws Hws' H. unfold apply_step in H.
    destruct (actor_step true ok a e) as [[[a' os] ob]|] eqn:Hst; [|done].
    destruct (route ib (rootq s) os) as [ib' rq'] eqn:Hr. injection H as <-.
    destruct (Hws t a Ha) as (Hid & Hw & Hs).
    assert (Ha' : actors (upd_actor s t a' ib' rq' sl tq (hist s ++ ob)) !! t = Some a') by (cbn; apply lookup_insert).
    destruct (Hws' t a' Ha') as (_ & _ & Hs').
    pose proof (actor_step_potW wok winv sok sinv _ _ _ _ _ _ Hst Hp Hw Hs Hs') as Hpot. rewrite Hid in Hpot.
    pose proof (route_sumW _ _ _ _ _ Hr) as Hrs.
    pose proof (msum_insert_Some potWk (actors s) t a a' Ha) as Hms.
    unfold PhiW. cbn [upd_actor actors inbox rootq termq slot ph].
    rewrite (map_size_insert_Some t a' (actors s)) by eauto. lia.
  Qed.

  (* cost of a file-change notice *)
  Definition change_cost (ts : list tid) : nat := sum_list_with winvT ts.

  Lemma wlW_mid t pre m rest : wlW t (pre ++ m :: rest) = wlW t (pre ++ rest) + wmsgW (ATarget t) m.
  Proof. unfold wlW. rewrite !sum_list_with_app. cbn. lia. Qed.

  Lemma root_consume_phiW w s pre o rest :
    ph s = PRun -> rootq s = pre ++ o :: rest -> PhiW (root_consume w s o (pre ++ rest)) + 1 <= PhiW s.
  Proof.
    intros Hrun Hq. unfold root_consume.
    assert (Hlen : length (rootq s) = S (length (pre ++ rest))) by (rewrite Hq, !app_length; cbn; lia).
    destruct w; [unfold PhiW; cbn; rewrite ?Hrun; cbn; lia|].
    destruct o as [[|d] [k r|k r|[] t act|k t]|t]; unfold PhiW; cbn; rewrite ?Hrun; cbn; rewrite ?size_dom; lia.
  Qed.

  Lemma exec_phiW w s l s' :
    weighted s -> weighted s' -> (forall dst k r, ~ msg_in s dst (MUnrequested k r)) ->
    exec true w s l = Some s' ->
    match l with
    | LSignal => PhiW s' = PhiW s
    | LChange ts => PhiW s' <= PhiW s + change_cost ts
    | _ => PhiW s' + 1 <= PhiW s
    end.
  Proof.
    intros Hws Hws' Hnun H. destruct l as [t ok|t ok|t|t r| | | | |ts| |t i ok|i]; cbn [exec] in H.
    - destruct (actors s !! t) as [a|] eqn:Ha; [|done].
      destruct (inbox s !! t) as [[|m rest]|] eqn:Hib; try done.
      assert (Hp : not_unreq (EMsg m)).
      { destruct m as [k r|k r|k d act|k d]; cbn; try done. apply (Hnun (ATarget t) k r). cbn. exists (MUnrequested k r :: rest).
        split; [done|apply elem_of_list_here]. }
      pose proof (apply_step_phiW _ _ _ _ _ _ _ _ _ Ha Hp Hws Hws' H) as Hphi.
      pose proof (msumk_insert_Some wlW (inbox s) t (m :: rest) rest Hib) as Hms.
      cbn [wevW PotentialW.wevW] in Hphi. change (wlW t (m :: rest)) with (wmsgW (ATarget t) m + wlW t rest) in Hms. lia.
    - destruct (actors s !! t) as [a|] eqn:Ha; [|done]. case_bool_decide as Hin; [|done].
      pose proof (apply_step_phiW _ _ _ EInval _ _ _ _ _ Ha I Hws Hws' H) as Hphi. cbn [wevW PotentialW.wevW] in Hphi.
      pose proof (ssum_remove winvT _ _ Hin). unfold winvT in *. lia.
    - destruct (actors s !! t) as [a|] eqn:Ha; [|done]. case_bool_decide as Hin; [|done].
      pose proof (apply_step_phiW _ _ _ ETerm _ _ _ _ _ Ha I Hws Hws' H) as Hphi. cbn [wevW PotentialW.wevW] in Hphi.
      pose proof (size_remove _ _ Hin). lia.
    - destruct (actors s !! t) as [a|] eqn:Ha; [|done].
      destruct (match r with RCancelled => cancel_sent a | _ => true end); [|done].
      pose proof (apply_step_phiW _ _ _ (EBuildDone r) _ _ _ _ _ Ha I Hws Hws' H) as Hphi. cbn [wevW PotentialW.wevW] in Hphi. lia.
    - destruct (root_running s && _) eqn:Hc; [|done].
      apply andb_true_iff in Hc as [Hrun _]. apply bool_decide_eq_true in Hrun.
      destruct (rootq s) as [|o rest] eqn:Hq; [done|]. injection H as <-.
      by apply (root_consume_phiW w s [] o rest).
    - destruct (root_running s && negb w && root_sets_empty s) eqn:Hc; [|done].
      apply andb_true_iff in Hc as [Hc _]. apply andb_true_iff in Hc as [Hrun _]. apply bool_decide_eq_true in Hrun.
      destruct (set_empty (r_svc s)); injection H as <-; unfold PhiW; cbn; rewrite ?Hrun; cbn; rewrite ?size_dom; lia.
    - destruct (ph s) eqn:Hph; try done; injection H as <-; unfold PhiW; cbn; by rewrite Hph.
    - destruct (sigq s && _) eqn:Hc; [|done]. injection H as <-.
      apply andb_true_iff in Hc as [_ Hp]. apply orb_true_iff in Hp.
      unfold PhiW. cbn. rewrite size_dom.
      destruct Hp as [Hp|Hp]; apply bool_decide_eq_true in Hp; rewrite Hp; cbn; lia.
    - destruct (w && _); [|done]. injection H as <-. unfold PhiW. cbn.
      pose proof (ssum_union_list winvT (slot s) ts). unfold change_cost. lia.
    - destruct (ph s) eqn:Hph; try done. destruct (all_exited s); [|done]. injection H as <-.
      unfold PhiW. cbn. rewrite Hph. cbn. lia.
    - destruct (actors s !! t) as [a|] eqn:Ha; [|done].
      destruct (inbox s !! t) as [l|] eqn:Hib; [|done].
      destruct (pick i l) as [[[pre m] rest]|] eqn:Hpk; [|done]. destruct (none_from _ _ pre); [|done].
      apply pick_spec in Hpk. subst l.
      assert (Hp : not_unreq (EMsg m)).
      { destruct m as [k r|k r|k d act|k d]; cbn; try done. apply (Hnun (ATarget t) k r). cbn. exists (pre ++ MUnrequested k r :: rest).
        split; [done|apply elem_of_mid]. }
      pose proof (apply_step_phiW _ _ _ _ _ _ _ _ _ Ha Hp Hws Hws' H) as Hphi.
      pose proof (msumk_insert_Some wlW (inbox s) t (pre ++ m :: rest) (pre ++ rest) Hib) as Hms.
      cbn [wevW PotentialW.wevW] in Hphi. rewrite wlW_mid in Hms. lia.
    - destruct (root_running s && _) eqn:Hc; [|done].
      apply andb_true_iff in Hc as [Hrun _]. apply bool_decide_eq_true in Hrun.
      destruct (pick i (rootq s)) as [[[pre o] rest]|] eqn:Hpk; [|done]. destruct (none_from _ _ pre); [|done].
      injection H as <-. apply pick_spec in Hpk. by apply root_consume_phiW.
  Qed.

  (* steps other than signal deliveries and file-change notices; total cost of the file-change notices *)
  Fixpoint internalW (ls : list label) : nat :=
    match ls with
    | [] => 0
    | (LSignal | LChange _) :: ls' => internalW ls'
    | _ :: ls' => S (internalW ls')
    end.
  Fixpoint changes_cost (ls : list label) : nat :=
    match ls with
    | [] => 0
    | LChange ts :: ls' => change_cost ts + changes_cost ls'
    | _ :: ls' => changes_cost ls'
    end.

  Context (g : graph) (roots : list tid) (w : bool).
  Context (Hweighted : forall s, reachable true w g roots s -> weighted s).

  Lemma run_boundedW ls : forall s0 s,
    reachable true w g roots s0 -> run_labels true w s0 ls = Some s -> internalW ls + PhiW s <= PhiW s0 + changes_cost ls.
  Proof.
    induction ls as [|l ls IH]; intros s0 s Hr H; cbn in H.
    - injection H as <-. cbn. lia.
    - destruct (exec true w s0 l) as [s1|] eqn:He; [|done].
      pose proof (reachable_step true g roots w s0 l s1 Hr He) as Hr1.
      pose proof (exec_phiW w s0 l s1 (Hweighted s0 Hr) (Hweighted s1 Hr1) (no_unreq_reachable true g roots w s0 Hr) He) as Hphi.
      specialize (IH s1 s Hr1 H).
      destruct l; cbn [internalW changes_cost]; lia.
  Qed.
End boundw.
