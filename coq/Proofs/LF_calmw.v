From Zinoma.Proofs Require Export LF_flags.
Section facts.
  Context (fx ok : bool) (a : astate) (e : event) (a' : astate) (os : list out) (ob : list obs).
  Context (Hstep : actor_step fx ok a e = Some (a', os, ob)).
  (* as long as no termination message is consumed, nothing terminates or cancels (watch mode included) *)
  Lemma step_calm_w : e <> ETerm -> calm a -> calm a'.
  Proof using Hstep.
    clear -Hstep. unfold calm. intros Hp (H1 & H2 & H3).
    destruct e as [[k r|k r|k d act|k d]| | |[]]; try done;
      crush_step Hstep; aproj_all; try congruence; try done.
  Qed.
End facts.
