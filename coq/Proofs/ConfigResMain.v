(* Composition with slice RES's main-level theorems (Proofs/ResolverMain.v): for every configuration the loader
   accepts, the rest of main — name listing, request parsing, resolution — never panics, reports only documented
   resolver errors, and performs no effect unless it runs. Kept in its own file: it is the only place where the
   C14 cone depends on another slice's PROOFS. *)
From Zinoma.Model Require Import Config Resolver.
From Zinoma.Proofs Require Import ConfigLoad ConfigRes ResolverSpec ResolverMain.
Require Zinoma.Proofs.Resolver.

Theorem loaded_main_never_panics fs canon root ord U fuel c ic req clean watch effs out :
  OrderOk ord -> Covers fs canon root U -> load_config fs canon ord fuel root = LOk c -> to_ir c = Some ic ->
  main_phases ic req clean watch = (effs, out) ->
  out <> OutPanic /\ (forall e, out = OutResolveError e -> Zinoma.Proofs.Resolver.reported_class e) /\ (out <> OutRan -> effs = []).
Proof.
  intros Hord HU Hc Hic Hm.
  destruct (loaded_resolver_preconditions fs canon root ord U fuel c ic Hord HU Hc Hic) as (Hrp & Hnv & _ & Hun).
  destruct (main_never_panics ic req clean watch effs out Hrp Hnv Hun Hm) as [H1 H2].
  split; [exact H1|]. split; [exact H2|]. exact (main_error_no_effect ic req clean watch effs out Hm).
Qed.
