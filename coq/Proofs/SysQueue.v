(* C04 "queues filling up": with the actors' output channel unbounded (the repair FX2) no queue capacity can block the engine
   for ever — whenever something is left to send, relay or handle, some step is possible, whatever the inbox capacity; with a
   bounded output channel (the pinned code, defect D3) a fan-out larger than the capacities reaches a state in which the root
   waits for room in an inbox whose owner waits for room in the output channel: nothing moves any more. *)
From Zinoma.Model Require Export SysQ.
From Zinoma.Proofs Require Export SysLive4.

Section progress.
  Context (fx1 : bool) (capI : nat) (HcapI : 1 <= capI).

  (* repaired: unbounded output channel *)
  Theorem no_capacity_deadlock s : qwork s -> exists l, is_Some (qexec fx1 capI None s l).
  Proof.
    assert (Hsend : forall t, pend s t <> [] -> exists l, is_Some (qexec fx1 capI None s l)).
    { intros t Hp. exists (QSend t). cbn. destruct (pend s t) as [|o rest]; [done|]. cbn. eauto. }
    assert (Hrecv : forall t a, qa s !! t = Some a -> exited a = false -> inq s t <> [] -> exists l, is_Some (qexec fx1 capI None s l)).
    { intros t a Ha Hex Hin. destruct (pend s t) as [|o rest] eqn:Hp; [|apply (Hsend t); by rewrite Hp].
      exists (QRecv t true). cbn. rewrite Ha, Hp. destruct (inq s t) as [|m rest]; [done|].
      destruct (actor_step_msg_some fx1 true a m Hex) as [[[a' os] ob] ->]. eauto. }
    assert (Hroot : forall o, qroot s = Some o -> exists l, is_Some (qexec fx1 capI None s l)).
    { intros o Ho. destruct o as [[|d] m|t].
      - exists QDeal. unfold qexec. rewrite Ho. eauto.
      - destruct (live s d) eqn:Hl; [|exists QDeal; unfold qexec; rewrite Ho, Hl; eauto].
        destruct (Nat.ltb (length (inq s d)) capI) eqn:Hroom.
        + exists QDeal. unfold qexec. rewrite Ho, Hl, Hroom. eauto.
        + (* the inbox is full, hence not empty: its owner can take a message (or finish sending) *)
          apply Nat.ltb_ge in Hroom. unfold live in Hl. destruct (qa s !! d) as [a|] eqn:Ha; [|done].
          apply negb_true_iff in Hl. apply (Hrecv d a Ha Hl). intros He. rewrite He in Hroom. cbn in Hroom. lia.
      - exists QDeal. unfold qexec. rewrite Ho. eauto. }
    intros [(t & _ & Hp)|[Hc|[Hr|(t & a & Ha & Hex & _ & Hin)]]].
    - by apply (Hsend t).
    - destruct (qroot s) as [o|] eqn:Ho; [by apply (Hroot o)|].
      exists QPop. cbn. rewrite Ho. destruct (qchan s); [done|eauto].
    - destruct (qroot s) as [o|] eqn:Ho; [by apply (Hroot o)|done].
    - by apply (Hrecv t a).
  Qed.
End progress.

(* pinned: the output channel is bounded.  Capacities 1 and 1, an aggregate 9 over five aggregates 1..5, requested: *)
Definition q_init : qsys := {|
  qa := <[9%N := init_actor 9%N AAggregate [1%N; 2%N; 3%N; 4%N; 5%N]]>
        (<[1%N := init_actor 1%N AAggregate []]> (<[2%N := init_actor 2%N AAggregate []]> (<[3%N := init_actor 3%N AAggregate []]>
        (<[4%N := init_actor 4%N AAggregate []]> (<[5%N := init_actor 5%N AAggregate []]> ∅)))));
  qpend := ∅; qin := {[ 9%N := [MRequested KB ARoot] ]}; qchan := []; qroot := None |}.

Definition q_schedule : list qlabel :=
  [QRecv 9%N true; QSend 9%N; QPop; QSend 9%N; QDeal; QRecv 1%N true; QPop; QSend 1%N; QDeal; QPop; QDeal;
   QSend 9%N; QRecv 2%N true; QPop; QSend 2%N; QDeal; QPop; QSend 9%N; QRecv 3%N true].

Lemma bounded_output_channel_deadlocks :
  exists s, qrun true 1 (Some 1) q_init q_schedule = Some s /\
            (qstuck true 1 (Some 1) s && bool_decide (pend s 9%N <> []) && bool_decide (qroot s <> None)) = true.
Proof.
  assert (H : match qrun true 1 (Some 1) q_init q_schedule with
              | Some s => qstuck true 1 (Some 1) s && bool_decide (pend s 9%N <> []) && bool_decide (qroot s <> None)
              | None => false end = true) by (vm_compute; reflexivity).
  destruct (qrun true 1 (Some 1) q_init q_schedule) as [s|]; [eauto|done].
Qed.

(* the same schedule with the output channel unbounded: the state it ends in is not stuck *)
Lemma unbounded_output_channel_goes_on :
  exists s, qrun true 1 None q_init q_schedule = Some s /\ qstuck true 1 None s = false.
Proof.
  assert (H : match qrun true 1 None q_init q_schedule with Some s => negb (qstuck true 1 None s) | None => false end = true)
    by (vm_compute; reflexivity).
  destruct (qrun true 1 None q_init q_schedule) as [s|]; [|done]. exists s. split; [done|]. by apply negb_true_iff.
Qed.
