(* C10 (logic of the shutdown): once termination has begun — normal completion, failed target or signal — nothing gets
   stuck: every actor has exited, still holds its termination message, or is a build waiting for the result of the
   cancellation it sent; so some step is always enabled until the process has exited. With C04_no_lost_wakeup: a quiescent
   state of a one-shot run is "waiting for a signal with a service alive" or "exited". *)
From Zinoma.Proofs Require Export SysC08 LF_term.

(* label-indexed inversion of an actor step *)
Lemma exec_label_actor fx w s l s' :
  exec fx w s l = Some s' ->
  match l with
  | LDeliver t ok => exists a m rest a' os ob, actors s !! t = Some a /\ inbox s !! t = Some (m :: rest) /\
       actor_step fx ok a (EMsg m) = Some (a', os, ob) /\ actors s' = <[t := a']> (actors s) /\ termq s' = termq s /\ ph s' = ph s
  | LDeliverAt t _ ok => exists a m (rest : list msg) a' os ob, actors s !! t = Some a /\ True /\
       actor_step fx ok a (EMsg m) = Some (a', os, ob) /\ actors s' = <[t := a']> (actors s) /\ termq s' = termq s /\ ph s' = ph s
  | LInval t ok => exists a a' os ob, actors s !! t = Some a /\
       actor_step fx ok a EInval = Some (a', os, ob) /\ actors s' = <[t := a']> (actors s) /\ termq s' = termq s /\ ph s' = ph s
  | LTermActor t => exists a a' os ob, actors s !! t = Some a /\ t ∈ termq s /\
       actor_step fx true a ETerm = Some (a', os, ob) /\ actors s' = <[t := a']> (actors s) /\ termq s' = termq s ∖ {[t]} /\ ph s' = ph s
  | LBuildDone t r => exists a a' os ob, actors s !! t = Some a /\
       actor_step fx true a (EBuildDone r) = Some (a', os, ob) /\ actors s' = <[t := a']> (actors s) /\ termq s' = termq s /\ ph s' = ph s
  | LChange _ => actors s' = actors s /\ termq s' = termq s /\ ph s' = ph s
  | _ => actors s' = actors s /\
         (forall st, ph s' = PTerminating st -> (ph s = PTerminating st /\ termq s' = termq s) \/ termq s' = dom (actors s))
  end.
Proof.
  assert (Happ : forall t ib sl tq r s1, apply_step s t ib sl tq r = Some s1 ->
            exists a' os ob, r = Some (a', os, ob) /\ actors s1 = <[t := a']> (actors s) /\ termq s1 = tq /\ ph s1 = ph s).
  { intros t ib sl tq r s1. unfold apply_step. destruct r as [[[a' os] ob]|]; [|done].
    destruct (route ib (rootq s) os). intros [= <-]. cbn. eauto 10. }
  assert (Hroot : forall o rest, ph s = PRun ->
            actors (root_consume w s o rest) = actors s /\
            (forall st, ph (root_consume w s o rest) = PTerminating st ->
               (ph s = PTerminating st /\ termq (root_consume w s o rest) = termq s) \/ termq (root_consume w s o rest) = dom (actors s))).
  { intros o rest Hrun. unfold root_consume. destruct w; [cbn; split; [done|]; intros st Hp; congruence|].
    destruct o as [[|d] [k r|k r|[] t1 act|k t1]|t1]; cbn; (split; [done|]); intros st Hp; try congruence; by right. }
  destruct l as [t ok|t ok|t|t r| | | | |ts| |t i ok|i]; cbn [exec]; intros H.
  - destruct (actors s !! t) as [a|] eqn:Ha; [|done]. destruct (inbox s !! t) as [[|m rest]|] eqn:Hib; try done.
    apply Happ in H as (a' & os & ob & Hst & H1 & H2 & H3). eauto 15.
  - destruct (actors s !! t) as [a|] eqn:Ha; [|done]. case_bool_decide; [|done].
    apply Happ in H as (a' & os & ob & Hst & H1 & H2 & H3). eauto 15.
  - destruct (actors s !! t) as [a|] eqn:Ha; [|done]. case_bool_decide; [|done].
    apply Happ in H as (a' & os & ob & Hst & H1 & H2 & H3). eauto 15.
  - destruct (actors s !! t) as [a|] eqn:Ha; [|done]. destruct (match r with RCancelled => cancel_sent a | _ => true end); [|done].
    apply Happ in H as (a' & os & ob & Hst & H1 & H2 & H3). eauto 15.
  - destruct (root_running s && _) eqn:Hc; [|done]. apply andb_true_iff in Hc as [Hrun _]. apply bool_decide_eq_true in Hrun.
    destruct (rootq s) as [|o rest]; [done|]. injection H as <-. by apply Hroot.
  - destruct (root_running s && _ && _) eqn:Hc; [|done].
    apply andb_true_iff in Hc as [Hc _]. apply andb_true_iff in Hc as [Hrun _]. apply bool_decide_eq_true in Hrun.
    destruct (set_empty (r_svc s)); injection H as <-; cbn; (split; [done|]); intros st Hp; try congruence; by right.
  - destruct (ph s) eqn:Hph; try done; injection H as <-; cbn; (split; [done|]); intros st0 Hp; left; (split; [congruence|done]).
  - destruct (sigq s && _); [|done]. injection H as <-. cbn. split; [done|]. intros st Hp. by right.
  - destruct (w && _); [|done]. by injection H as <-.
  - destruct (ph s); try done. destruct (all_exited s); [|done]. injection H as <-. cbn. split; [done|]. intros st0 Hp. done.
  - destruct (actors s !! t) as [a|] eqn:Ha; [|done]. destruct (inbox s !! t) as [l|] eqn:Hib; [|done].
    destruct (pick i l) as [[[pre m] rest]|]; [|done]. destruct (none_from _ _ pre); [|done].
    apply Happ in H as (a' & os & ob & Hst & H1 & H2 & H3). exists a, m, rest, a', os, ob. done.
  - destruct (root_running s && _) eqn:Hc; [|done]. apply andb_true_iff in Hc as [Hrun _]. apply bool_decide_eq_true in Hrun.
    destruct (pick i (rootq s)) as [[[pre o] rest]|]; [|done]. destruct (none_from _ _ pre); [|done]. injection H as <-.
    by apply Hroot.
Qed.

Section term.
  Context (fx w : bool) (g : graph) (roots : list tid).

  Definition winding_down (s : sys) (t : tid) (a : astate) : Prop :=
    exited a = true \/ t ∈ termq s \/
    (a_kind a = ABuild /\ term_recv a = true /\ ongoing a = true /\ cancel_sent a = true /\ exited a = false).

  Definition term_inv (s : sys) : Prop :=
    forall st, ph s = PTerminating st -> forall t a, actors s !! t = Some a -> winding_down s t a.

  Lemma term_inv_reachable s : reachable fx w g roots s -> term_inv s.
  Proof.
    revert s. apply (reachable_ind fx w g roots term_inv).
    - intros st Hp. done.
    - intros s0 l s1 Hr IH He st Hp t a Ha.
      pose proof (exec_label_actor _ _ _ _ _ He) as Hl.
      assert (Hother : forall t0 a0', actors s1 = <[t0 := a0']> (actors s0) -> termq s1 = termq s0 -> ph s1 = ph s0 -> t <> t0 ->
                winding_down s1 t a).
      { intros t0 a0' Hact Htq Hph Hne. rewrite Hact, lookup_insert_ne in Ha by done. rewrite Hph in Hp.
        destruct (IH st Hp t a Ha) as [?|[?|?]]; [by left|right; left; by rewrite Htq|by right; right]. }
      destruct l as [t0 ok|t0 ok|t0|t0 r| | | | |ts| |t0 i0 ok|i0].
      + destruct Hl as (a0 & m & rest & a0' & os & ob & Ha0 & _ & Hst & Hact & Htq & Hph).
        destruct (decide (t = t0)) as [->|Hne]; [|by eapply Hother].
        rewrite Hact, lookup_insert in Ha. injection Ha as <-. rewrite Hph in Hp.
        destruct (IH st Hp t0 a0 Ha0) as [Hex|[Hin|(Hk & H1 & H2 & H3 & H4)]].
        * rewrite (step_not_exited _ _ _ _ _ _ _ Hst) in Hex. done.
        * right; left. by rewrite Htq.
        * right; right. destruct (step_same_id _ _ _ _ _ _ _ Hst) as (_ & Hk' & _). rewrite Hk'. split; [done|].
          by eapply (step_cancelling_keeps _ _ _ _ _ _ _ Hst); eauto.
      + destruct Hl as (a0 & a0' & os & ob & Ha0 & Hst & Hact & Htq & Hph).
        destruct (decide (t = t0)) as [->|Hne]; [|by eapply Hother].
        rewrite Hact, lookup_insert in Ha. injection Ha as <-. rewrite Hph in Hp.
        destruct (IH st Hp t0 a0 Ha0) as [Hex|[Hin|(Hk & H1 & H2 & H3 & H4)]].
        * rewrite (step_not_exited _ _ _ _ _ _ _ Hst) in Hex. done.
        * right; left. by rewrite Htq.
        * right; right. destruct (step_same_id _ _ _ _ _ _ _ Hst) as (_ & Hk' & _). rewrite Hk'. split; [done|].
          by eapply (step_cancelling_keeps _ _ _ _ _ _ _ Hst); eauto.
      + destruct Hl as (a0 & a0' & os & ob & Ha0 & Hin0 & Hst & Hact & Htq & Hph).
        destruct (decide (t = t0)) as [->|Hne].
        * rewrite Hact, lookup_insert in Ha. injection Ha as <-.
          destruct (step_term _ _ _ _ _ _ _ Hst eq_refl) as [?|(Hk & H1 & H2 & H3 & H4)]; [by left|].
          right; right. destruct (step_same_id _ _ _ _ _ _ _ Hst) as (_ & Hk' & _). rewrite Hk'. done.
        * rewrite Hact, lookup_insert_ne in Ha by done. rewrite Hph in Hp.
          destruct (IH st Hp t a Ha) as [?|[?|?]]; [by left|right; left; rewrite Htq; set_solver|by right; right].
      + destruct Hl as (a0 & a0' & os & ob & Ha0 & Hst & Hact & Htq & Hph).
        destruct (decide (t = t0)) as [->|Hne]; [|by eapply Hother].
        rewrite Hact, lookup_insert in Ha. injection Ha as <-. rewrite Hph in Hp.
        destruct (IH st Hp t0 a0 Ha0) as [Hex|[Hin|(Hk & H1 & H2 & H3 & H4)]].
        * rewrite (step_not_exited _ _ _ _ _ _ _ Hst) in Hex. done.
        * right; left. by rewrite Htq.
        * left. by eapply (step_result_after_term _ _ _ _ _ _ _ Hst).
      + destruct Hl as [Hact Hroot]. rewrite Hact in Ha.
        destruct (Hroot st Hp) as [[Hp0 Htq]|Hdom].
        * destruct (IH st Hp0 t a Ha) as [?|[?|?]]; [by left|right; left; by rewrite Htq|by right; right].
        * right; left. rewrite Hdom. by apply elem_of_dom.
      + destruct Hl as [Hact Hroot]. rewrite Hact in Ha.
        destruct (Hroot st Hp) as [[Hp0 Htq]|Hdom].
        * destruct (IH st Hp0 t a Ha) as [?|[?|?]]; [by left|right; left; by rewrite Htq|by right; right].
        * right; left. rewrite Hdom. by apply elem_of_dom.
      + destruct Hl as [Hact Hroot]. rewrite Hact in Ha.
        destruct (Hroot st Hp) as [[Hp0 Htq]|Hdom].
        * destruct (IH st Hp0 t a Ha) as [?|[?|?]]; [by left|right; left; by rewrite Htq|by right; right].
        * right; left. rewrite Hdom. by apply elem_of_dom.
      + destruct Hl as [Hact Hroot]. rewrite Hact in Ha.
        destruct (Hroot st Hp) as [[Hp0 Htq]|Hdom].
        * destruct (IH st Hp0 t a Ha) as [?|[?|?]]; [by left|right; left; by rewrite Htq|by right; right].
        * right; left. rewrite Hdom. by apply elem_of_dom.
      + destruct Hl as (Hact & Htq & Hph). rewrite Hact in Ha. rewrite Hph in Hp.
        destruct (IH st Hp t a Ha) as [?|[?|?]]; [by left|right; left; by rewrite Htq|by right; right].
      + destruct Hl as [Hact Hroot]. rewrite Hact in Ha.
        destruct (Hroot st Hp) as [[Hp0 Htq]|Hdom].
        * destruct (IH st Hp0 t a Ha) as [?|[?|?]]; [by left|right; left; by rewrite Htq|by right; right].
        * right; left. rewrite Hdom. by apply elem_of_dom.
      + destruct Hl as (a0 & m & rest & a0' & os & ob & Ha0 & _ & Hst & Hact & Htq & Hph).
        destruct (decide (t = t0)) as [->|Hne]; [|by eapply Hother].
        rewrite Hact, lookup_insert in Ha. injection Ha as <-. rewrite Hph in Hp.
        destruct (IH st Hp t0 a0 Ha0) as [Hex|[Hin|(Hk & H1 & H2 & H3 & H4)]].
        * rewrite (step_not_exited _ _ _ _ _ _ _ Hst) in Hex. done.
        * right; left. by rewrite Htq.
        * right; right. destruct (step_same_id _ _ _ _ _ _ _ Hst) as (_ & Hk' & _). rewrite Hk'. split; [done|].
          by eapply (step_cancelling_keeps _ _ _ _ _ _ _ Hst); eauto.
      + destruct Hl as [Hact Hroot]. rewrite Hact in Ha.
        destruct (Hroot st Hp) as [[Hp0 Htq]|Hdom].
        * destruct (IH st Hp0 t a Ha) as [?|[?|?]]; [by left|right; left; by rewrite Htq|by right; right].
        * right; left. rewrite Hdom. by apply elem_of_dom.
  Qed.

  (* once termination has begun some step is always enabled: the shutdown never gets stuck *)
  Theorem shutdown_never_stuck s st :
    reachable fx w g roots s -> ph s = PTerminating st -> quiescent fx w s = false.
  Proof.
    intros Hr Hp. destruct (quiescent fx w s) eqn:Hq; [|done]. exfalso.
    pose proof (term_inv_reachable s Hr st Hp) as Hti.
    destruct (decide (map_Forall (fun _ a => exited a = true) (actors s))) as [Hall|Hnall].
    - pose proof (quiescent_spec _ _ _ LJoin Hq (candidate_root s _ ltac:(do 3 apply elem_of_list_further; apply elem_of_list_here))) as He.
      cbn in He. rewrite Hp in He. unfold all_exited in He. rewrite bool_decide_eq_true_2 in He by done. done.
    - apply map_not_Forall in Hnall as (t & a & Ha & Hne); [|apply _].
      destruct (Hti t a Ha) as [Hex|[Hin|(Hk & H1 & H2 & H3 & H4)]]; [done| |].
      + pose proof (quiescent_spec _ _ _ (LTermActor t) Hq) as He.
        assert (Hc : LTermActor t ∈ candidate_labels s).
        { eapply candidate_actor; [done|]. do 2 apply elem_of_list_further. apply elem_of_list_here. }
        specialize (He Hc). cbn in He. rewrite Ha in He. rewrite bool_decide_eq_true_2 in He by done.
        destruct (exited a) eqn:Hea; [done|].
        destruct (apply_step_some s t (inbox s) (slot s) (termq s ∖ {[t]}) _ (actor_step_term_some fx true a Hea)) as [x Hx].
        by rewrite Hx in He.
      + pose proof (quiescent_spec _ _ _ (LBuildDone t RCancelled) Hq) as He.
        assert (Hc : LBuildDone t RCancelled ∈ candidate_labels s).
        { eapply candidate_actor; [done|]. do 4 apply elem_of_list_further. apply elem_of_list_here. }
        specialize (He Hc). cbn in He. rewrite Ha, H3 in He.
        destruct (apply_step_some s t (inbox s) (slot s) (termq s) _ (actor_step_cancelled_some fx true a H4 Hk H2)) as [x Hx].
        by rewrite Hx in He.
  Qed.
End term.

(* C04: what a finished one-shot run looks like *)
Theorem quiescent_done (g : graph) (roots : list tid) (rank : tid -> nat) s :
  (forall t k deps d, g !! t = Some (k, deps) -> d ∈ deps -> is_Some (g !! d)) ->
  (forall r, r ∈ roots -> is_Some (g !! r)) ->
  (forall t k deps d, g !! t = Some (k, deps) -> d ∈ deps -> rank d < rank t) ->
  reachable true false g roots s -> quiescent true false s = true -> (forall t, ObFail t ∉ hist s) ->
  ph s = PWaitTerm \/ exists st, ph s = PExited st.
Proof.
  intros Hc Hro Hrk Hr Hq Hnf. destruct (ph s) as [| |st|st] eqn:Hp.
  - exfalso. by eapply (no_lost_wakeup g roots rank Hc Hro Hrk s).
  - by left.
  - pose proof (shutdown_never_stuck true false g roots s st Hr Hp) as Hns. congruence.
  - right. eauto.
Qed.
