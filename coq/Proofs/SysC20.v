(* C20: aggregates. *)
From Zinoma.Proofs Require Export SysSvc.

(* an aggregate without dependencies acknowledges a request at once, for either kind, with actual = false *)
Lemma empty_aggregate_acks fx ok t k r :
  exists a',
    actor_step fx ok (init_actor t AAggregate []) (EMsg (MRequested k r)) = Some (a', [OMsg r (MOk k t false)], []).
Proof.
  unfold actor_step, aggregate_step, aggregate_handle_msg. cbn [a_kind init_actor exited].
  assert (Hnin : bool_decide (r ∈ reqs (init_actor t AAggregate []) k) = false).
  { apply bool_decide_eq_false. destruct k; cbn; set_solver. }
  rewrite Hnin. cbn [negb].
  assert (Hsz : bool_decide (size (reqs (set_reqs (init_actor t AAggregate []) k (reqs (init_actor t AAggregate []) k ∪ {[r]})) k) = 1) = true).
  { apply bool_decide_eq_true. rewrite reqs_set_reqs. rewrite decide_True by done.
    destruct k; cbn; rewrite union_empty_l_L; apply size_singleton. }
  rewrite Hsz.
  assert (Hemp : set_empty (unav (set_reqs (init_actor t AAggregate []) k (reqs (init_actor t AAggregate []) k ∪ {[r]})) k) = true).
  { apply set_empty_true. rewrite unav_set_reqs. destruct k; reflexivity. }
  rewrite Hemp.
  assert (Hact : set_empty (acts (set_reqs (init_actor t AAggregate []) k (reqs (init_actor t AAggregate []) k ∪ {[r]})) k) = true).
  { apply set_empty_true. rewrite acts_set_reqs. destruct k; reflexivity. }
  rewrite Hact. cbn. eexists. unfold request_deps, send_to_deps. rewrite a_deps_set_reqs. cbn. reflexivity.
Qed.

Section c20.
  Context (fx : bool) (g : graph) (roots : list tid).

  (* an aggregate is acknowledged for a kind exactly when all its dependencies are *)
  Lemma ready_aggregate_iff h k d deps :
    g !! d = Some (AAggregate, deps) -> (ready g h k d <-> forall x, x ∈ deps -> ready g h k x).
  Proof.
    intros Hg. split.
    - intros Hr. inversion Hr as [? ? ? Hg2|? ? ? Hg2|? ? deps2 Hg2 Hall]; subst;
        assert (Heq := eq_trans (eq_sym Hg) Hg2); try done. by injection Heq as <-.
    - intros Hall. by eapply ready_aggregate.
  Qed.
End c20.
