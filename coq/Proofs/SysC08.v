(* C08: on success every needed target runs exactly once. *)
From Zinoma.Proofs Require Export SysLive4.

Section c08.
  Context (fx : bool) (g : graph) (roots : list tid).
  Notation ready := (ready g).

  (* readiness for both kinds propagates down the dependency relation *)
  Lemma ready_down w s x :
    reachable fx w g roots s -> (forall k, ready (hist s) k x) ->
    forall kx deps y, g !! x = Some (kx, deps) -> y ∈ deps -> forall k, ready (hist s) k y.
  Proof.
    intros Hr Hrx kx deps y Hgx Hy k.
    assert (Hstart : ObStart x ∈ hist s -> ready (hist s) k y).
    { intros Hin. apply elem_of_list_split in Hin as (h1 & h2 & Heq).
      pose proof (start_ok_reachable fx w g roots s Hr h1 x h2 Heq kx deps Hgx y k Hy) as Hry.
      rewrite Heq. by apply ready_mono. }
    destruct kx.
    - specialize (Hrx KB). inversion Hrx as [? ? ? Hg2 Hs|? ? ? Hg2|? ? ? Hg2]; subst;
        assert (Heq2 := eq_trans (eq_sym Hgx) Hg2); try done.
      apply Hstart. eapply result_needs_start; [done|left; by apply Hs].
    - specialize (Hrx KS). inversion Hrx as [? ? ? Hg2|? ? ? Hg2 Hs|? ? ? Hg2]; subst;
        assert (Heq2 := eq_trans (eq_sym Hgx) Hg2); try done.
      apply Hstart. eapply result_needs_start; [done|left; by apply Hs].
    - specialize (Hrx k). inversion Hrx as [? ? ? Hg2|? ? ? Hg2|? ? ? Hg2 Hall]; subst;
        assert (Heq2 := eq_trans (eq_sym Hgx) Hg2); try done.
      injection Heq2 as <-. by apply Hall.
  Qed.

  Lemma ready_closure w s x t :
    reachable fx w g roots s -> (forall k, ready (hist s) k x) -> tdep g x t -> forall k, ready (hist s) k t.
  Proof.
    intros Hr Hrx Htd. revert Hrx. induction Htd as [x kx deps y Hg Hy|x kx deps y t Hg Hy Htd IH]; intros Hrx.
    - by eapply ready_down.
    - apply IH. by eapply ready_down.
  Qed.

  (* one-shot: when the root has received every acknowledgement (it is about to exit 0 or to wait for a signal), every
     build and service in the dependency closure of the requested targets was started exactly once and succeeded *)
  Theorem exactly_once_on_success s r t kt deps :
    reachable fx false g roots s -> r_unavB s = ∅ -> r_unavS s = ∅ -> r ∈ roots -> (t = r \/ tdep g r t) ->
    g !! t = Some (kt, deps) -> kt <> AAggregate ->
    count_occ obs_eq_dec (hist s) (ObStart t) = 1 /\ ObSucc t ∈ hist s.
  Proof.
    intros Hr HB HS Hin Hdep Hg Hna.
    assert (Hrr : forall k, ready (hist s) k r) by (intros k; by eapply (root_idle_all_ready fx g roots false s)).
    assert (Hrt : forall k, ready (hist s) k t).
    { destruct Hdep as [->|Htd]; [done|by eapply ready_closure]. }
    pose proof (ready_succ g (hist s) t kt deps Hg Hna Hrt) as Hs.
    split; [|done].
    pose proof (at_most_once fx g roots s t Hr) as Hle. unfold nstart in Hle.
    pose proof (result_needs_start fx g roots false s t Hr (or_introl Hs)) as Hst.
    apply elem_of_list_In in Hst. apply (count_occ_In obs_eq_dec) in Hst. lia.
  Qed.
End c08.
