(* Soundness, completeness and rejection for the resolver, proved on the removal-free `add_target_p` and transferred
   to the faithful `resolve` by ResolverPure.resolve_pure.
   Invariant of the map of finished targets (`sorted_ok`): it is a topological order — every entry is the resolved
   target `rtarget_of cfg t` asked for by the spec and all its dependencies were finished BEFORE it. *)
From Zinoma.Model Require Import Bytes Cfg Names Ext Resolver.
From Zinoma.Proofs Require Import Bytes Names ResolverSpec ResolverPure.
From Coq Require Import Relations Lia PeanoNat.
Local Open Scope nat_scope.

Inductive sorted_ok (cfg : iconfig) : tmap -> Prop :=
| so_nil : sorted_ok cfg []
| so_cons t rt m :
    sorted_ok cfg m -> ~ In t (tmap_keys m) -> rtarget_of cfg t = Some rt ->
    (forall d, In d (rt_deps rt) -> In d (tmap_keys m)) -> sorted_ok cfg ((t, rt) :: m).

Lemma tmap_keys_app a b : tmap_keys (a ++ b) = tmap_keys a ++ tmap_keys b.
Proof. unfold tmap_keys. apply map_app. Qed.

Lemma tmap_get_cons k v m t : tmap_get ((k, v) :: m) t = if tid_eqb t k then Some v else tmap_get m t.
Proof. reflexivity. Qed.

Lemma tmap_get_in_keys m t rt : tmap_get m t = Some rt -> In t (tmap_keys m).
Proof. intros H. apply tmap_mem_in. unfold tmap_mem. now rewrite H. Qed.

Lemma in_keys_get m t : In t (tmap_keys m) -> exists rt, tmap_get m t = Some rt.
Proof.
  intros H. apply tmap_mem_in in H. unfold tmap_mem in H. destruct (tmap_get m t) as [rt|]; [eauto | discriminate].
Qed.

Lemma sorted_ok_get cfg m t rt :
  sorted_ok cfg m -> tmap_get m t = Some rt ->
  rtarget_of cfg t = Some rt /\ (forall d, In d (rt_deps rt) -> In d (tmap_keys m)).
Proof.
  induction 1 as [|k v m Hs IH Hk Hv Hd]; [discriminate|].
  rewrite tmap_get_cons. destruct (tid_eqb t k) eqn:E.
  - apply tid_eqb_eq in E. subst k. intros [= <-]. split; [exact Hv|]. intros d Hin. right. now apply Hd.
  - intros Hg. destruct (IH Hg) as [H1 H2]. split; [exact H1|]. intros d Hin. right. now apply H2.
Qed.

Lemma sorted_ok_nodup cfg m : sorted_ok cfg m -> NoDup (tmap_keys m).
Proof. induction 1; cbn; constructor; assumption. Qed.

(* what rtarget_of says about a finished target *)
Lemma rtarget_of_inv cfg t rt :
  rtarget_of cfg t = Some rt ->
  exists dir yt deps orefs outs,
    lookup_yt cfg t = Some (dir, yt) /\ all_some (declared_refs t yt) = Some deps /\
    all_some (output_refs t yt) = Some orefs /\ all_some (map (producer_output cfg) orefs) = Some outs /\
    rt = {| rt_id := t; rt_dir := dir; rt_deps := deps ++ orefs; rt_kind := yt_kind yt; rt_script := yt_script yt;
            rt_input := {| r_files := own_files (yt_input yt) dir ++ flat_map r_files outs;
                           r_cmds := own_cmds (yt_input yt) dir ++ flat_map r_cmds outs |};
            rt_output := {| r_files := out_files (yt_output yt) dir; r_cmds := out_cmds (yt_output yt) dir |} |}.
Proof.
  unfold rtarget_of. destruct (lookup_yt cfg t) as [[dir yt]|]; [|discriminate].
  destruct (all_some (declared_refs t yt)) as [deps|] eqn:Ed; [|discriminate].
  destruct (all_some (output_refs t yt)) as [orefs|] eqn:Er; [|discriminate].
  destruct (all_some (map _ orefs)) as [outs|] eqn:Eo; [|discriminate]. intros [= <-].
  exists dir, yt, deps, orefs, outs. now repeat split.
Qed.

Lemma rtarget_of_producer cfg d dep :
  rtarget_of cfg d = Some dep -> rt_kind dep = TBuild -> producer_output cfg d = Some (rt_output dep).
Proof.
  intros H Hk. destruct (rtarget_of_inv _ _ _ H) as (dir & yt & deps & orefs & outs & Hl & _ & _ & _ & ->).
  cbn in Hk |- *. unfold producer_output. now rewrite Hl, Hk.
Qed.

Lemma rtarget_of_nonbuild cfg d dep :
  rtarget_of cfg d = Some dep -> rt_kind dep <> TBuild ->
  exists dx yx, lookup_yt cfg d = Some (dx, yx) /\ yt_kind yx <> TBuild.
Proof.
  intros H Hk. destruct (rtarget_of_inv _ _ _ H) as (dir & yt & deps & orefs & outs & Hl & _ & _ & _ & ->).
  cbn in Hk. eauto.
Qed.

Lemma all_some_in_rev {A} (l : list (option A)) r a : all_some l = Some r -> In a r -> In (Some a) l.
Proof. intros H Hin. apply in_somes. now rewrite (all_some_somes _ _ H). Qed.

(* ---- the loop over the `.output` dependencies ---- *)
Lemma set_input_set_input rt a b : set_input (set_input rt a) b = set_input rt b.
Proof. reflexivity. Qed.

Lemma extend_inputs_spec cfg m : sorted_ok cfg m -> forall fi rt,
  rt_kind rt <> TAggregate \/ fi = [] ->
  (forall d, In d fi -> In d (tmap_keys m)) ->
  match extend_inputs m rt fi with
  | Ok rt' =>
      exists outs, all_some (map (producer_output cfg) fi) = Some outs /\
        rt' = set_input rt {| r_files := r_files (rt_input rt) ++ flat_map r_files outs;
                              r_cmds := r_cmds (rt_input rt) ++ flat_map r_cmds outs |}
  | Err e => e = ENotABuildOutput /\ exists x dx yx, In x fi /\ lookup_yt cfg x = Some (dx, yx) /\ yt_kind yx <> TBuild
  end.
Proof.
  intros Hs. induction fi as [|d fi IH]; intros rt Hk Hin; cbn [extend_inputs].
  - exists []. split; [reflexivity|]. cbn. rewrite !app_nil_r. destruct rt as [i di ds k s [f c] o]. reflexivity.
  - destruct (in_keys_get m d (Hin d (or_introl eq_refl))) as [dep Hg]. rewrite Hg.
    destruct (sorted_ok_get _ _ _ _ Hs Hg) as [Hdep _].
    destruct Hk as [Hk|Hk]; [|discriminate].
    destruct (rt_kind dep) eqn:Ekd.
    + unfold extend_input. destruct (rt_kind rt) eqn:Ekr; try contradiction.
      * specialize (IH (set_input rt (resources_extend (rt_input rt) (rt_output dep)))).
        cbn [set_input rt_kind] in IH. rewrite Ekr in IH.
        specialize (IH (or_introl Hk) (fun x Hx => Hin x (or_intror Hx))).
        destruct (extend_inputs m _ fi) as [rt'|e].
        -- destruct IH as [outs [Ho ->]]. exists (rt_output dep :: outs). split.
           ++ cbn [map all_some]. rewrite (rtarget_of_producer _ _ _ Hdep Ekd), Ho. reflexivity.
           ++ rewrite set_input_set_input. cbn [set_input rt_input resources_extend r_files r_cmds flat_map].
              now rewrite !app_assoc.
        -- destruct IH as [-> (x & dx & yx & Hx & Hl & Hne)]. split; [reflexivity|]. exists x, dx, yx.
           split; [now right | now split].
      * specialize (IH (set_input rt (resources_extend (rt_input rt) (rt_output dep)))).
        cbn [set_input rt_kind] in IH. rewrite Ekr in IH.
        specialize (IH (or_introl Hk) (fun x Hx => Hin x (or_intror Hx))).
        destruct (extend_inputs m _ fi) as [rt'|e].
        -- destruct IH as [outs [Ho ->]]. exists (rt_output dep :: outs). split.
           ++ cbn [map all_some]. rewrite (rtarget_of_producer _ _ _ Hdep Ekd), Ho. reflexivity.
           ++ rewrite set_input_set_input. cbn [set_input rt_input resources_extend r_files r_cmds flat_map].
              now rewrite !app_assoc.
        -- destruct IH as [-> (x & dx & yx & Hx & Hl & Hne)]. split; [reflexivity|]. exists x, dx, yx.
           split; [now right | now split].
    + split; [reflexivity|]. destruct (rtarget_of_nonbuild _ _ _ Hdep) as (dx & yx & Hl & Hne); [congruence|].
      exists d, dx, yx. split; [now left | now split].
    + split; [reflexivity|]. destruct (rtarget_of_nonbuild _ _ _ Hdep) as (dx & yx & Hl & Hne); [congruence|].
      exists d, dx, yx. split; [now left | now split].
Qed.

Lemma NoDup_snoc {A} (l : list A) x : NoDup l -> ~ In x l -> NoDup (l ++ [x]).
Proof.
  induction 1 as [|a l Ha Hl IH]; intros Hx; cbn.
  - constructor; [intros [] | constructor].
  - constructor.
    + intros H. apply in_app_or in H as [H|[<-|[]]]; [contradiction|]. apply Hx. now left.
    + apply IH. intros H. apply Hx. now right.
Qed.

(* ---- the main induction ---- *)
Section Sound.
  Variable cfg : iconfig.
  Variable R : target_id -> Prop.
  Hypothesis R_step : forall a b, R a -> edge cfg a b -> R b.

  Definition post (m : tmap) (t : target_id) (parents : list target_id) (res : result tmap) : Prop :=
    match res with
    | Ok m' => sorted_ok cfg m' /\ In t (tmap_keys m') /\
               exists new, m' = new ++ m /\ forall k, In k (tmap_keys new) -> R k /\ ~ In k parents
    | Err e => defect cfg R e
    end.

  Lemma fold_spec fuel parents (Pre : target_id -> Prop)
    (IH : forall m t, sorted_ok cfg m -> Pre t -> post m t parents (add_target_p cfg fuel m t parents)) :
    forall ds m, sorted_ok cfg m -> (forall d, In d ds -> Pre d) ->
      match fold_res (fun m' d => add_target_p cfg fuel m' d parents) m ds with
      | Ok m' => sorted_ok cfg m' /\ (forall d, In d ds -> In d (tmap_keys m')) /\
                 exists new, m' = new ++ m /\ forall k, In k (tmap_keys new) -> R k /\ ~ In k parents
      | Err e => defect cfg R e
      end.
  Proof.
    induction ds as [|d ds IHds]; intros m Hs Hpre; cbn [fold_res].
    - split; [exact Hs|]. split; [intros d []|]. exists []. split; [reflexivity | intros k []].
    - pose proof (IH m d Hs (Hpre d (or_introl eq_refl))) as H1. unfold post in H1.
      destruct (add_target_p cfg fuel m d parents) as [m1|e]; [|exact H1].
      destruct H1 as (Hs1 & Hd1 & new1 & -> & Hnew1).
      specialize (IHds (new1 ++ m) Hs1 (fun x Hx => Hpre x (or_intror Hx))).
      revert IHds.
      match goal with |- context [fold_res ?f ?a ?b] => destruct (fold_res f a b) as [m2|e] end; intros IHds; [|exact IHds].
      destruct IHds as (Hs2 & Hd2 & new2 & -> & Hnew2).
      split; [exact Hs2|]. split.
      + intros x [<-|Hx]; [|now apply Hd2]. rewrite tmap_keys_app. apply in_or_app. now right.
      + exists (new2 ++ new1). split; [now rewrite app_assoc|]. intros k Hk. rewrite tmap_keys_app in Hk.
        apply in_app_or in Hk as [Hk|Hk]; [now apply Hnew2 | now apply Hnew1].
  Qed.

  Lemma add_target_p_spec : forall fuel parents m t,
    sorted_ok cfg m -> R t ->
    (forall p, In p parents -> clos_trans _ (edge cfg) p t) ->
    NoDup parents -> (forall p, In p parents -> In p (list_all_targets cfg)) ->
    n_targets cfg < length parents + fuel ->
    post m t parents (add_target_p cfg fuel m t parents).
  Proof.
    induction fuel as [|fuel IH]; intros parents m t Hs HR Hchain Hnd Hall Hlen.
    - exfalso. pose proof (NoDup_incl_length Hnd Hall) as Hle. unfold n_targets in Hlen. lia.
    - cbn [add_target_p].
      destruct (tmap_mem m t) eqn:Emem.
      { cbn. split; [exact Hs|]. split; [now apply tmap_mem_in|]. exists []. split; [reflexivity | intros k []]. }
      destruct (existsb (tid_eqb t) parents) eqn:Ecirc.
      { cbn. apply existsb_tid_eqb in Ecirc. exact (DCycle cfg R t HR (Hchain t Ecirc)). }
      assert (Hnp : ~ In t parents).
      { intros H. apply existsb_tid_eqb in H. congruence. }
      assert (Hnm : ~ In t (tmap_keys m)).
      { intros H. apply tmap_mem_in in H. congruence. }
      destruct (proj_dir cfg (t_project t)) as [pd|] eqn:Epd.
      2:{ cbn. unfold proj_dir in Epd. destruct (lookup_project cfg (t_project t)) as [dp|] eqn:Elp; [discriminate|].
          destruct (t_project t) as [p|] eqn:Etp.
          - exact (DProject cfg R t p HR Etp Elp).
          - exact (DUnwrap cfg R t HR Etp Elp). }
      destruct (lookup_yt cfg t) as [[dir yt]|] eqn:Elt.
      2:{ cbn. unfold proj_dir in Epd. unfold lookup_yt in Elt.
          destruct (lookup_project cfg (t_project t)) as [[d pr]|] eqn:Elp; [|discriminate].
          destruct (lookup_ytarget pr (t_name t)) eqn:Ely; [discriminate|].
          exact (DTarget cfg R t d pr HR Elp Ely). }
      destruct (transform_target t yt dir) as [[rt0 fi]|e] eqn:Ett.
      2:{ cbn. destruct (transform_target_err _ _ _ _ Ett) as [[-> [s [Hin Hs']]]|[-> [s [Hin Hs']]]].
          - exact (DInvalidName cfg R t dir yt s HR Elt Hin Hs').
          - exact (DInvalidInput cfg R t dir yt s HR Elt Hin Hs'). }
      destruct (transform_target_ok _ _ _ _ _ Ett) as (deps & Hdeps & Hfi & Hrt0).
      cbv zeta.
      assert (Hrd : rt_deps (extend_dependencies rt0 fi) = deps ++ fi) by (subst rt0; reflexivity).
      rewrite Hrd.
      assert (Hedge : forall d, In d (deps ++ fi) -> edge cfg t d).
      { intros d Hd. unfold edge, refs. rewrite Elt, (all_some_somes _ _ Hdeps), (all_some_somes _ _ Hfi). exact Hd. }
      assert (Hnd' : NoDup (parents ++ [t])).
      { now apply NoDup_snoc. }
      pose proof (fold_spec fuel (parents ++ [t]) (edge cfg t)
        (fun m' d Hs' Hpre => IH (parents ++ [t]) m' d Hs' (R_step t d HR Hpre)
           (fun p Hp => match in_app_or _ _ _ Hp with
                        | or_introl H => t_trans _ _ _ _ _ (Hchain p H) (t_step _ _ _ _ Hpre)
                        | or_intror (or_introl H) => eq_ind t (fun x => clos_trans _ (edge cfg) x d) (t_step _ _ _ _ Hpre) p H
                        | or_intror (or_intror H) => match H with end
                        end)
           Hnd'
           (fun p Hp => match in_app_or _ _ _ Hp with
                        | or_introl H => Hall p H
                        | or_intror (or_introl H) => eq_ind t (fun x => In x (list_all_targets cfg)) (lookup_yt_in_all _ _ _ Elt) p H
                        | or_intror (or_intror H) => match H with end
                        end)
           ltac:(rewrite app_length; cbn; lia))
        (deps ++ fi) m Hs Hedge) as Hfold.
      revert Hfold.
      match goal with |- context [fold_res ?f ?a ?b] => destruct (fold_res f a b) as [m2|e] end; intros Hfold; [|exact Hfold].
      destruct Hfold as (Hs2 & Hd2 & new & -> & Hnew).
      assert (Hkind : rt_kind (extend_dependencies rt0 fi) <> TAggregate \/ fi = []).
      { subst rt0. cbn. destruct (yt_kind yt) eqn:Ek; [left; discriminate | left; discriminate | right].
        rewrite (output_refs_aggregate t yt Ek) in Hfi. now injection Hfi as <-. }
      pose proof (extend_inputs_spec cfg (new ++ m) Hs2 fi (extend_dependencies rt0 fi) Hkind
                    (fun d Hd => Hd2 d (in_or_app _ _ _ (or_intror Hd)))) as Hext.
      destruct (extend_inputs (new ++ m) (extend_dependencies rt0 fi) fi) as [rt2|e].
      + destruct Hext as [outs [Houts ->]]. cbn.
        assert (Hnk : ~ In t (tmap_keys (new ++ m))).
        { rewrite tmap_keys_app. intros H. apply in_app_or in H as [H|H]; [|contradiction].
          apply Hnew in H as [_ H]. apply H. apply in_or_app. right. now left. }
        split; [|split].
        * constructor; [exact Hs2 | exact Hnk | | ].
          -- unfold rtarget_of. rewrite Elt, Hdeps, Hfi, Houts. subst rt0. reflexivity.
          -- cbn [set_input rt_deps]. rewrite Hrd. exact Hd2.
        * now left.
        * exists ((t, set_input (extend_dependencies rt0 fi)
                        {| r_files := r_files (rt_input (extend_dependencies rt0 fi)) ++ flat_map r_files outs;
                           r_cmds := r_cmds (rt_input (extend_dependencies rt0 fi)) ++ flat_map r_cmds outs |}) :: new).
          split; [reflexivity|]. intros k [<-|Hk]; [now split|].
          destruct (Hnew k Hk) as [H1 H2]. split; [exact H1|]. intros H. apply H2. apply in_or_app. now left.
      + cbn. destruct Hext as [-> (x & dx & yx & Hx & Hl & Hne)].
        exact (DNotBuild cfg R t dir yt x dx yx HR Elt (all_some_in_rev _ _ _ Hfi Hx) Hl Hne).
  Qed.
End Sound.

(* ---- unqualified ids stay inside an unnamed project ---- *)
Lemma edge_none_project cfg a b :
  edge cfg a b -> t_project b = None -> t_project a = None /\ lookup_project cfg None <> None.
Proof.
  unfold edge, refs. destruct (lookup_yt cfg a) as [[dir yt]|] eqn:El; [|intros []].
  intros Hin Hb.
  assert (Hpa : t_project a = None).
  { apply in_app_or in Hin as [Hin|Hin]; apply in_somes in Hin.
    - unfold declared_refs in Hin. apply in_map_iff in Hin as [s [Hs _]].
      destruct (try_parse_project _ _ _ Hs) as [[H _]|(p & t & _ & ->)]; [congruence | discriminate].
    - unfold output_refs in Hin. apply in_map_iff in Hin as [s [Hs _]]. unfold parse_oref in Hs.
      destruct (parse_output_ref s); [|discriminate].
      destruct (try_parse_project _ _ _ Hs) as [[H _]|(p & t & _ & ->)]; [congruence | discriminate]. }
  split; [exact Hpa|]. unfold lookup_yt in El. rewrite Hpa in El.
  destruct (lookup_project cfg None); [discriminate | discriminate].
Qed.

Lemma reach_none_project cfg roots t :
  roots_wf cfg roots -> reach cfg roots t -> t_project t = None -> lookup_project cfg None <> None.
Proof.
  intros Hwf [r [Hr Hp]]. apply clos_rt_rtn1 in Hp. induction Hp as [|b c Hbc Hp IH].
  - now apply Hwf.
  - intros Hc. now destruct (edge_none_project _ _ _ Hbc Hc).
Qed.

(* ---- acyclicity: the position in the map is a rank ---- *)
Fixpoint rank (m : tmap) (t : target_id) : nat :=
  match m with
  | [] => 0
  | (k, _) :: m' => if tid_eqb t k then S (length m') else rank m' t
  end.

Lemma rank_le m t : rank m t <= length m.
Proof. induction m as [|[k v] m IH]; cbn; [lia|]. destruct (tid_eqb t k); lia. Qed.

Lemma rank_edge cfg m a b :
  sorted_ok cfg m -> In a (tmap_keys m) -> edge cfg a b -> In b (tmap_keys m) /\ rank m b < rank m a.
Proof.
  induction 1 as [|k rt m Hs IH Hk Hv Hd]; [intros []|]. intros Ha He.
  assert (Hnotk : forall x, In x (tmap_keys m) -> tid_eqb x k = false).
  { intros x Hx. apply tid_eqb_neq. intros ->. contradiction. }
  cbn [rank]. destruct (tid_eqb a k) eqn:Eak.
  - apply tid_eqb_eq in Eak. subst a. unfold edge in He. rewrite <- (rtarget_of_deps _ _ _ Hv) in He.
    pose proof (Hd b He) as Hb. split; [now right|]. rewrite (Hnotk b Hb). pose proof (rank_le m b). lia.
  - destruct Ha as [Ha|Ha]; [cbn in Ha; subst; now rewrite tid_eqb_refl in Eak|].
    destruct (IH Ha He) as [Hb Hlt]. split; [now right|]. now rewrite (Hnotk b Hb).
Qed.

Lemma rank_path cfg m a b :
  sorted_ok cfg m -> clos_trans _ (edge cfg) a b -> In a (tmap_keys m) -> In b (tmap_keys m) /\ rank m b < rank m a.
Proof.
  intros Hs. induction 1 as [a b He|a b c _ IH1 _ IH2]; intros Ha.
  - now apply (rank_edge cfg).
  - destruct (IH1 Ha) as [Hb H1]. destruct (IH2 Hb) as [Hc H2]. split; [exact Hc | lia].
Qed.

(* ---- the resolver, top level ---- *)
Lemma closed_keys_reach cfg roots m :
  sorted_ok cfg m -> (forall r, In r roots -> In r (tmap_keys m)) ->
  forall t, reach cfg roots t -> In t (tmap_keys m).
Proof.
  intros Hs Hr t [r [Hin Hp]]. apply clos_rt_rtn1 in Hp. induction Hp as [|b c Hbc Hp IH].
  - now apply Hr.
  - now destruct (rank_edge cfg m b c Hs IH Hbc).
Qed.

Theorem resolve_p_spec cfg roots fuel :
  n_targets cfg < fuel ->
  match resolve_p cfg roots fuel with
  | Ok m => sorted_ok cfg m /\ (forall t, In t (tmap_keys m) <-> reach cfg roots t)
  | Err e => defect cfg (reach cfg roots) e
  end.
Proof.
  intros Hfuel. unfold resolve_p.
  pose proof (fold_spec cfg (reach cfg roots) fuel [] (fun t => In t roots)
    (fun m t Hs Ht => add_target_p_spec cfg (reach cfg roots) (reach_step cfg roots)
                        fuel [] m t Hs (reach_root cfg roots t Ht)
                        (fun p (Hp : In p []) => match Hp with end) (NoDup_nil _)
                        (fun p (Hp : In p []) => match Hp with end) Hfuel)
    roots [] (so_nil cfg) (fun d Hd => Hd)) as H.
  revert H.
  match goal with |- context [fold_res ?f ?a ?b] => destruct (fold_res f a b) as [m|e] end; intros H; [|exact H].
  destruct H as (Hs & Hroots & new & -> & Hnew). rewrite app_nil_r in *.
  split; [exact Hs|]. intros t. split.
  - intros Ht. now apply Hnew.
  - now apply closed_keys_reach.
Qed.

(* a configuration whose resolution succeeds has no reachable defect *)
Lemma sorted_ok_not_broken cfg roots m :
  sorted_ok cfg m -> (forall t, reach cfg roots t -> In t (tmap_keys m)) -> ~ broken cfg roots.
Proof.
  intros Hs Hreach [e Hd].
  assert (Hof : forall t, reach cfg roots t -> exists rt, rtarget_of cfg t = Some rt).
  { intros t Ht. destruct (in_keys_get m t (Hreach t Ht)) as [rt Hg]. exists rt. now destruct (sorted_ok_get _ _ _ _ Hs Hg). }
  destruct Hd as [t p Ht Hp Hl|t dir pr Ht Hl Hy|t Ht Hc|t dir yt x dx yx Ht Hl Hx Hlx Hk|t dir yt s Ht Hl Hin Hs'|t dir yt s Ht Hl Hin Hs'|t Ht Hp Hl];
    destruct (Hof t Ht) as [rt Hrt].
  - destruct (rtarget_of_inv _ _ _ Hrt) as (d & y & _ & _ & _ & Hly & _). unfold lookup_yt in Hly. rewrite Hp, Hl in Hly. discriminate.
  - destruct (rtarget_of_inv _ _ _ Hrt) as (d & y & _ & _ & _ & Hly & _). unfold lookup_yt in Hly. rewrite Hl, Hy in Hly. discriminate.
  - destruct (rank_path cfg m t t Hs Hc (Hreach t Ht)) as [_ H]. lia.
  - destruct (rtarget_of_inv _ _ _ Hrt) as (d & y & deps & orefs & outs & Hly & _ & Ho & Hp & _).
    rewrite Hl in Hly. injection Hly as <- <-.
    destruct (all_some_in _ _ Ho _ Hx) as [x' [[= <-] Hx']].
    destruct (all_some_map_in _ _ _ Hp x Hx') as [res [Hres _]].
    unfold producer_output in Hres. rewrite Hlx in Hres. destruct (yt_kind yx); [now apply Hk | discriminate | discriminate].
  - destruct (rtarget_of_inv _ _ _ Hrt) as (d & y & deps & orefs & outs & Hly & _ & Ho & _).
    rewrite Hl in Hly. injection Hly as <- <-.
    unfold output_refs in Ho. destruct (all_some_map_in _ _ _ Ho s Hin) as [id [Hid _]].
    unfold parse_oref in Hid. rewrite Hs' in Hid. discriminate.
  - destruct (rtarget_of_inv _ _ _ Hrt) as (d & y & deps & orefs & outs & Hly & Hdp & _).
    rewrite Hl in Hly. injection Hly as <- <-.
    unfold declared_refs in Hdp. destruct (all_some_map_in _ _ _ Hdp s Hin) as [id [Hid _]]. congruence.
  - destruct (rtarget_of_inv _ _ _ Hrt) as (d & y & _ & _ & _ & Hly & _). unfold lookup_yt in Hly. rewrite Hp, Hl in Hly. discriminate.
Qed.

(* requests parsed by main never meet the `unwrap` *)
Lemma no_unwrap_defect cfg roots : roots_wf cfg roots -> ~ defect cfg (reach cfg roots) EPanicUnwrap.
Proof.
  intros Hwf Hd. inversion Hd as [| | | | | |t Ht Hp Hl]. exact (reach_none_project cfg roots t Hwf Ht Hp Hl).
Qed.
