(* Who talks to whom, and the meaning of the `actual` flag (C11 keep-alive, C20). *)
From Zinoma.Proofs Require Export SysProc.

Section svc.
  Context (fx : bool) (g : graph) (roots : list tid).
  Notation wf := (wf g).

  Definition dep (t d : tid) : Prop := exists kt deps, g !! t = Some (kt, deps) /\ d ∈ deps.

  (* a requester of d is the root (then d was requested on the command line) or a target depending on d *)
  Definition req_ok (d : tid) (r : aid) : Prop :=
    match r with ARoot => d ∈ roots | ATarget t => dep t d end.

  Inductive svc_behind : tid -> Prop :=
  | sb_service d deps : g !! d = Some (AService, deps) -> svc_behind d
  | sb_aggregate d deps x : g !! d = Some (AAggregate, deps) -> x ∈ deps -> svc_behind x -> svc_behind d.

  Record talk_inv (s : sys) : Prop := {
    ti_req : forall d k r, msg_in s (ATarget d) (MRequested k r) -> req_ok d r;
    ti_reqs : forall d a k r, actors s !! d = Some a -> r ∈ reqs a k -> req_ok d r;
    ti_ok : forall dst k d act, msg_in s dst (MOk k d act) -> req_ok d dst;
    ti_act : forall dst d act, msg_in s dst (MOk KS d act) -> (act = true <-> svc_behind d);
    ti_acts : forall t a, actors s !! t = Some a -> a_kind a = AAggregate ->
       (forall x, x ∈ actS a -> x ∈ a_deps a /\ svc_behind x) /\
       (forall x, x ∈ a_deps a -> x ∉ unavS a -> svc_behind x -> x ∈ actS a);
    ti_root : (forall r, r ∈ r_svc s -> r ∈ roots /\ svc_behind r) /\
              (forall r, r ∈ roots -> r ∉ r_unavS s -> svc_behind r -> r ∈ r_svc s)
  }.

  Lemma init_inbox_msgs rs d l m :
    init_inbox rs !! d = Some l -> m ∈ l -> d ∈ rs /\ exists k, m = MRequested k ARoot.
  Proof.
    unfold init_inbox.
    assert (Hgen : forall rs ib, (forall d1 l1 m1, ib !! d1 = Some l1 -> m1 ∈ l1 -> d1 ∈ rs ++ [] /\ exists k, m1 = MRequested k ARoot) ->
              forall d1 l1 m1, foldl (fun ib r => push_inbox (push_inbox ib r (MRequested KB ARoot)) r (MRequested KS ARoot)) ib rs !! d1 = Some l1 ->
              m1 ∈ l1 -> d1 ∈ rs ++ [] /\ exists k, m1 = MRequested k ARoot); [|].
    2:{ intros Hl Hm. destruct (Hgen rs ∅) with (d1 := d) (l1 := l) (m1 := m) as [H1 H2]; try done.
        - intros d1 l1 m1. by rewrite lookup_empty.
        - rewrite app_nil_r in H1. done. }
    clear. intros rs. rewrite app_nil_r. revert rs.
    assert (Hg2 : forall rs acc ib, (forall d1 l1 m1, ib !! d1 = Some l1 -> m1 ∈ l1 -> d1 ∈ acc /\ exists k, m1 = MRequested k ARoot) ->
              forall d1 l1 m1, foldl (fun ib r => push_inbox (push_inbox ib r (MRequested KB ARoot)) r (MRequested KS ARoot)) ib rs !! d1 = Some l1 ->
              m1 ∈ l1 -> d1 ∈ acc ++ rs /\ exists k, m1 = MRequested k ARoot).
    { induction rs as [|r rs IH]; intros acc ib Hib d1 l1 m1; cbn.
      - rewrite app_nil_r. apply Hib.
      - intros Hl Hm. destruct (IH (acc ++ [r]) (push_inbox (push_inbox ib r (MRequested KB ARoot)) r (MRequested KS ARoot))) with (d1 := d1) (l1 := l1) (m1 := m1) as [H1 H2]; try done.
        + intros d2 l2 m2. rewrite !lookup_push_inbox. destruct (decide (d2 = r)) as [->|Hne].
          * rewrite decide_True by done. intros [= <-] Hin.
            rewrite !elem_of_app, !elem_of_list_singleton in Hin. split; [apply elem_of_app; right; apply elem_of_list_here|].
            destruct Hin as [[Hin|->]|->]; eauto.
            destruct (ib !! r) eqn:E; cbn in Hin; [by eapply Hib|by apply elem_of_nil in Hin].
          * intros Hl2 Hm2. destruct (Hib d2 l2 m2 Hl2 Hm2). split; [apply elem_of_app; by left|done].
        + split; [|done]. by rewrite <- app_assoc in H1. }
    intros rs ib Hib d1 l1 m1 Hl Hm. by apply (Hg2 rs [] ib).
  Qed.

  Lemma talk_inv_init : talk_inv (init_sys g roots).
  Proof.
    split; cbn.
    - intros d k r (l & Hl & Hin). destruct (init_inbox_msgs roots d l _ Hl Hin) as [Hd [k' Heq]]. injection Heq as -> ->. done.
    - intros d a k r Ha Hr. apply (init_actor_lookup g roots) in Ha as (kk & deps & _ & ->). destruct k; cbn in Hr; set_solver.
    - intros [|d0] k d act Hin; cbn in Hin; [by apply elem_of_nil in Hin|].
      destruct Hin as (l & Hl & Hin). destruct (init_inbox_msgs roots d0 l _ Hl Hin) as [_ [k' Heq]]. done.
    - intros [|d0] d act Hin; cbn in Hin; [by apply elem_of_nil in Hin|].
      destruct Hin as (l & Hl & Hin). destruct (init_inbox_msgs roots d0 l _ Hl Hin) as [_ [k' Heq]]. done.
    - intros t a Ha Hk. apply (init_actor_lookup g roots) in Ha as (kk & deps & _ & ->). cbn. split; [set_solver|].
      intros x Hx Hn. exfalso. apply Hn. by apply elem_of_list_to_set.
    - split; [set_solver|]. intros r Hr Hn. exfalso. apply Hn. by apply elem_of_list_to_set.
  Qed.
End svc.
