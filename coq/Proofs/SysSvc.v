(* Who talks to whom, and the meaning of the `actual` flag (C11 keep-alive, C20). *)
From Zinoma.Proofs Require Export SysProc.

Section svc.
  Context (fx : bool) (g : graph) (roots : list tid).
  Notation wf := (wf g).

  Definition dep (t d : tid) : Prop := exists kt deps, g !! t = Some (kt, deps) /\ d ∈ deps.

  (* a requester of d is the root (then d was requested on the command line) or a target depending on d *)
  Definition req_ok (d : tid) (r : aid) : Prop :=
    match r with ARoot => d ∈ roots | ATarget t => dep t d end.

  Inductive svc_behind : tid -> Prop :=
  | sb_service d deps : g !! d = Some (AService, deps) -> svc_behind d
  | sb_aggregate d deps x : g !! d = Some (AAggregate, deps) -> x ∈ deps -> svc_behind x -> svc_behind d.

  Record talk_inv (s : sys) : Prop := {
    ti_req : forall d k r, msg_in s (ATarget d) (MRequested k r) -> req_ok d r;
    ti_reqs : forall d a k r, actors s !! d = Some a -> r ∈ reqs a k -> req_ok d r;
    ti_ok : forall dst k d act, msg_in s dst (MOk k d act) -> req_ok d dst;
    ti_act : forall dst d act, msg_in s dst (MOk KS d act) -> (act = true <-> svc_behind d);
    ti_acts : forall t a, actors s !! t = Some a -> a_kind a = AAggregate ->
       (forall x, x ∈ actS a -> x ∈ a_deps a /\ svc_behind x) /\
       (forall x, x ∈ a_deps a -> x ∉ unavS a -> svc_behind x -> x ∈ actS a);
    ti_root : (forall r, r ∈ r_svc s -> r ∈ roots /\ svc_behind r) /\
              (forall r, r ∈ roots -> r ∉ r_unavS s -> svc_behind r -> r ∈ r_svc s)
  }.

  Lemma init_inbox_msgs_gen rs : forall acc ib,
    (forall d l m, ib !! d = Some l -> m ∈ l -> d ∈ acc /\ exists k, m = MRequested k ARoot) ->
    forall d l m,
      foldl (fun ib r => push_inbox (push_inbox ib r (MRequested KB ARoot)) r (MRequested KS ARoot)) ib rs !! d = Some l ->
      m ∈ l -> d ∈ acc ++ rs /\ exists k, m = MRequested k ARoot.
  Proof.
    induction rs as [|r rs IH]; intros acc ib Hib d l m; cbn.
    - rewrite app_nil_r. apply Hib.
    - intros Hl Hm.
      destruct (IH (acc ++ [r]) (push_inbox (push_inbox ib r (MRequested KB ARoot)) r (MRequested KS ARoot))) with (d := d) (l := l) (m := m) as [H1 H2]; try done.
      + intros d2 l2 m2. rewrite !lookup_push_inbox. destruct (decide (d2 = r)) as [->|Hne].
        * rewrite decide_True by done. intros [= <-] Hin.
          rewrite !elem_of_app, !elem_of_list_singleton in Hin. split; [apply elem_of_app; right; apply elem_of_list_here|].
          destruct Hin as [[Hin | ->] | ->]; eauto.
          destruct (ib !! r) eqn:E; cbn in Hin; [by eapply Hib|by apply elem_of_nil in Hin].
        * intros Hl2 Hm2. destruct (Hib d2 l2 m2 Hl2 Hm2). split; [apply elem_of_app; by left|done].
      + split; [|done]. by rewrite <- app_assoc in H1.
  Qed.

  Lemma init_inbox_msgs rs d l m :
    init_inbox rs !! d = Some l -> m ∈ l -> d ∈ rs /\ exists k, m = MRequested k ARoot.
  Proof.
    unfold init_inbox. intros Hl Hm.
    destruct (init_inbox_msgs_gen rs [] ∅) with (d := d) (l := l) (m := m) as [H1 H2]; try done.
  Qed.

  Lemma talk_inv_init : talk_inv (init_sys g roots).
  Proof.
    split; cbn.
    - intros d k r (l & Hl & Hin). destruct (init_inbox_msgs roots d l _ Hl Hin) as [Hd [k' Heq]]. injection Heq as -> ->. done.
    - intros d a k r Ha Hr. apply (init_actor_lookup g roots) in Ha as (kk & deps & _ & ->). destruct k; cbn in Hr; set_solver.
    - intros [|d0] k d act Hin; cbn in Hin; [by apply elem_of_nil in Hin|].
      destruct Hin as (l & Hl & Hin). destruct (init_inbox_msgs roots d0 l _ Hl Hin) as [_ [k' Heq]]. done.
    - intros [|d0] d act Hin; cbn in Hin; [by apply elem_of_nil in Hin|].
      destruct Hin as (l & Hl & Hin). destruct (init_inbox_msgs roots d0 l _ Hl Hin) as [_ [k' Heq]]. done.
    - intros t a Ha Hk. apply (init_actor_lookup g roots) in Ha as (kk & deps & _ & ->). cbn. split; [set_solver|].
      intros x Hx Hn. exfalso. apply Hn. by apply elem_of_list_to_set.
    - split; [set_solver|]. intros r Hr Hn. exfalso. apply Hn. by apply elem_of_list_to_set.
  Qed.

  Lemma dep_wf s t a d : wf s -> actors s !! t = Some a -> dep t d -> d ∈ a_deps a.
  Proof.
    intros Hwf Ha (kt & deps & Hg & Hd). destruct (Hwf t a Ha) as [_ Hg'].
    assert (Heq := eq_trans (eq_sym Hg) Hg'). by injection Heq as -> ->.
  Qed.

  Lemma msg_in_root_step s s' dst m :
    inbox s' = inbox s -> (forall o, o ∈ rootq s' -> o ∈ rootq s) -> msg_in s' dst m -> msg_in s dst m.
  Proof. intros Hib Hrq. destruct dst as [|d]; cbn; [apply Hrq|by rewrite Hib]. Qed.

  Lemma talk_inv_step w s s' : wf s -> talk_inv s -> step_inv fx w s s' -> talk_inv s'.
  Proof.
    intros Hwf Hti [t a e ok a' os ob Ha Hst Hact Hh Hmsg Herr Hm _ _ _ _ (Hph & HuB & HuS & Hsv & _) _ _ _
                   |Hact Hib Hh _ Hrq Hrs|ts _ Hact Hib Hh Hrq _ (Hph & HuB & HuS & Hsv & _) _].
    - destruct (Hwf t a Ha) as [Hid Hg].
      destruct (step_same_id _ _ _ _ _ _ _ Hst) as (Hi' & Hk' & Hd').
      assert (Hreqs' : forall k r, r ∈ reqs a' k -> req_ok t r).
      { intros k r Hr. destruct (step_reqs_grow _ _ _ _ _ _ _ Hst k r Hr) as [Hold | ->].
        - by eapply (ti_reqs _ Hti).
        - eapply (ti_req _ Hti). by apply Hm. }
      assert (Hacts' : a_kind a = AAggregate ->
                (forall x, x ∈ actS a' -> x ∈ a_deps a /\ svc_behind x) /\
                (forall x, x ∈ a_deps a -> x ∉ unavS a' -> svc_behind x -> x ∈ actS a')).
      { intros Hagg. destruct (ti_acts _ Hti t a Ha Hagg) as [IH1 IH2]. split.
        - intros x Hx. destruct (step_acts_grow _ _ _ _ _ _ _ Hst KS x Hx) as [Hold | [_ ->]]; [by apply IH1|].
          specialize (Hm _ eq_refl). split.
          + eapply dep_wf; [done|done|]. by apply (ti_ok _ Hti _ _ _ _ Hm).
          + by apply (ti_act _ Hti _ _ _ Hm).
        - intros x Hx Hn Hsb. destruct (decide (x ∈ unavS a)) as [Hin|Hnin].
          + destruct (step_unav_shrink _ _ _ _ _ _ _ Hst KS x Hin Hn) as [act ->].
            specialize (Hm _ eq_refl). assert (act = true) as -> by (by apply (ti_act _ Hti _ _ _ Hm)).
            by eapply (step_acts_add _ _ _ _ _ _ _ Hst KS x).
          + eapply (step_acts_mono _ _ _ _ _ _ _ Hst KS). by apply IH2. }
      split.
      + intros d k r Hin. destruct (Hmsg _ _ Hin) as [Hold|Hnew]; [by eapply (ti_req _ Hti)|].
        destruct (step_out_req _ _ _ _ _ _ _ Hst _ _ _ Hnew) as (-> & d0 & [= <-] & Hd0).
        rewrite Hid. cbn. by exists (a_kind a), (a_deps a).
      + intros d a0 k r Ha0 Hr. rewrite Hact in Ha0. destruct (decide (d = t)) as [->|Hne].
        * rewrite lookup_insert in Ha0. injection Ha0 as <-. by eapply Hreqs'.
        * rewrite lookup_insert_ne in Ha0 by done. by eapply (ti_reqs _ Hti).
      + intros dst k d act Hin. destruct (Hmsg _ _ Hin) as [Hold|Hnew]; [by eapply (ti_ok _ Hti)|].
        destruct (step_out_ok _ _ _ _ _ _ _ Hst _ _ _ _ Hnew) as [-> _]. rewrite Hid.
        destruct (step_out_ok_dest _ _ _ _ _ _ _ Hst _ _ _ _ Hnew) as [Hr | [k' ->]]; [by eapply Hreqs'|].
        eapply (ti_req _ Hti). by apply Hm.
      + intros dst d act Hin. destruct (Hmsg _ _ Hin) as [Hold|Hnew]; [by eapply (ti_act _ Hti)|].
        destruct (step_out_ok _ _ _ _ _ _ _ Hst _ _ _ _ Hnew) as [-> Hj]. rewrite Hid. unfold ok_just in Hj.
        destruct (a_kind a) eqn:Hk.
        * subst act. split; [done|]. intros Hsb. inversion Hsb as [? ? Hg2|? ? ? Hg2]; subst;
            assert (Heq := eq_trans (eq_sym Hg) Hg2); done.
        * destruct Hj as [-> _]. split; [|done]. intros _. by eapply sb_service.
        * destruct Hj as [Hemp ->]. destruct (Hacts' eq_refl) as [H1 H2]. cbn in Hemp. rewrite negb_true_iff, set_empty_false. cbn. split.
          -- intros Hne. apply set_choose_L in Hne as [x Hx]. destruct (H1 x Hx) as [Hxd Hsb].
             by eapply (sb_aggregate t (a_deps a) x).
          -- intros Hsb Heq. inversion Hsb as [? ? Hg2|? deps x Hg2 Hx Hsx]; subst;
               assert (Heq2 := eq_trans (eq_sym Hg) Hg2); [done|]. injection Heq2 as <-.
             assert (x ∈ actS a') as Hin' by (apply H2; [done|rewrite Hemp; set_solver|done]).
             rewrite Heq in Hin'. set_solver.
      + intros t0 a0 Ha0 Hk0. rewrite Hact in Ha0. destruct (decide (t0 = t)) as [->|Hne].
        * rewrite lookup_insert in Ha0. injection Ha0 as <-. rewrite Hk' in Hk0. rewrite Hd'. by apply Hacts'.
        * rewrite lookup_insert_ne in Ha0 by done. by eapply (ti_acts _ Hti).
      + rewrite Hsv, HuS. apply (ti_root _ Hti).
    - assert (Hmi : forall dst m, msg_in s' dst m -> msg_in s dst m) by (intros; by eapply msg_in_root_step).
      split.
      + intros d k r Hin. eapply (ti_req _ Hti). by apply Hmi.
      + intros d a0 k r Ha0. rewrite Hact in Ha0. by eapply (ti_reqs _ Hti).
      + intros dst k d act Hin. eapply (ti_ok _ Hti). by apply Hmi.
      + intros dst d act Hin. eapply (ti_act _ Hti). by apply Hmi.
      + intros t0 a0 Ha0. rewrite Hact in Ha0. by eapply (ti_acts _ Hti).
      + destruct (ti_root _ Hti) as [R1 R2].
        destruct Hrs as [pre o rest Hp Hq Hq' _ Hp' (H1&H2&H3) _ _
                        |pre t rest _ Hp Hq Hq' Hp' (H1&H2&H3) _ _
                        |pre t act rest _ Hp Hq Hq' Hp' H1 H2 H3 _ _
                        |pre t act rest _ Hp Hq Hq' Hp' H1 H2 H3 _ _
                        |_ Hp HB HS Hsv0 Hp' _ (H1&H2&H3) _ _
                        |_ Hp HB HS Hsv0 Hp' _ (H1&H2&H3) _ _
                        |_ Hp' _ (H1&H2&H3) _ _
                        |_ _ Hp' _ (H1&H2&H3) _ _
                        |st Hp _ Hp' _ (H1&H2&H3) _ _]; try (rewrite H3, H2; by split).
        assert (Hin : msg_in s ARoot (MOk KS t act)) by (cbn; rewrite Hq; apply elem_of_mid).
        pose proof (ti_ok _ Hti _ _ _ _ Hin) as Hroot. cbn in Hroot.
        pose proof (ti_act _ Hti _ _ _ Hin) as Hact'.
        rewrite H3, H2. split.
        * intros r Hr. destruct act.
          -- apply elem_of_union in Hr as [Hr|Hr]; [by apply R1|]. apply elem_of_singleton in Hr as ->.
             split; [done|by apply Hact'].
          -- by apply R1.
        * intros r Hr Hn Hsb. destruct (decide (r = t)) as [->|Hne].
          -- assert (act = true) as -> by (by apply Hact'). set_solver.
          -- assert (r ∈ r_svc s) by (apply R2; [done|set_solver|done]). destruct act; set_solver.
    - assert (Hmi : forall dst m, msg_in s' dst m -> msg_in s dst m).
      { intros [|d] m; cbn; [by rewrite Hrq|by rewrite Hib]. }
      split.
      + intros d k r Hin. eapply (ti_req _ Hti). by apply Hmi.
      + intros d a0 k r Ha0. rewrite Hact in Ha0. by eapply (ti_reqs _ Hti).
      + intros dst k d act Hin. eapply (ti_ok _ Hti). by apply Hmi.
      + intros dst d act Hin. eapply (ti_act _ Hti). by apply Hmi.
      + intros t0 a0 Ha0. rewrite Hact in Ha0. by eapply (ti_acts _ Hti).
      + rewrite Hsv, HuS. apply (ti_root _ Hti).
  Qed.

  Lemma talk_inv_reachable w s : reachable fx w g roots s -> talk_inv s.
  Proof.
    apply reachable_ind; [apply talk_inv_init|]. intros s0 l s1 Hr Hti He.
    eapply talk_inv_step; [by eapply wf_reachable|done|by eapply exec_inv].
  Qed.

  (* C11: when the one-shot loop has received every acknowledgement, zinoma stays alive exactly when a requested
     target is, or aggregates, a service *)
  Theorem keepalive_iff w s :
    reachable fx w g roots s -> r_unavS s = ∅ ->
    (r_svc s <> ∅ <-> exists r, r ∈ roots /\ svc_behind r).
  Proof.
    intros Hr HS. destruct (ti_root _ (talk_inv_reachable w s Hr)) as [R1 R2]. split.
    - intros Hne. apply set_choose_L in Hne as [r Hin]. exists r. by apply R1.
    - intros (r & Hin & Hsb) Heq. assert (r ∈ r_svc s) by (apply R2; [done|rewrite HS; set_solver|done]).
      rewrite Heq in H. set_solver.
  Qed.

  Lemma service_started_before_dependents w s :
    reachable fx w g roots s ->
    forall h1 t h2, hist s = h1 ++ ObStart t :: h2 ->
    forall d deps, eff_dep g t d -> g !! d = Some (AService, deps) -> ObSucc d ∈ h1.
  Proof.
    intros Hr h1 t h2 Heq d deps Heff Hg.
    by eapply (start_after_deps_ready fx w g roots s Hr h1 t h2 Heq d AService deps).
  Qed.

  (* C20: an aggregate has a service behind it exactly when one of its dependencies has *)
  Theorem svc_behind_aggregate d deps :
    g !! d = Some (AAggregate, deps) -> (svc_behind d <-> exists x, x ∈ deps /\ svc_behind x).
  Proof.
    intros Hg. split.
    - intros Hsb. inversion Hsb as [? ? Hg2|? deps2 x Hg2 Hx Hsx]; subst;
        assert (Heq := eq_trans (eq_sym Hg) Hg2); [done|]. injection Heq as <-. eauto.
    - intros (x & Hx & Hsb). by eapply sb_aggregate.
  Qed.
End svc.
