(* Per-step facts, sender side of the watch-mode invariant: after every step of an actor, the LAST word (Ok / out of date)
   it sent to a requester in that step, if any, says whether the actor can acknowledge now; if it sent none, its
   availability did not change (old requester) or it is unavailable (new requester).  Repaired handlers (fx = true). *)
From Zinoma.Proofs Require Export Words LiveDefs AF_executed.

Definition availb (a : astate) (k : kind) : bool :=
  match a_kind a with ABuild | AService => executed a | AAggregate => set_empty (unav a k) end.

Definition fok (a : astate) : Prop := executed a = true -> to_execute a = false.
Definition wflags (a : astate) : Prop :=
  (executed a = true -> to_execute a = false) /\ (ongoing a = true -> executed a = false).

Definition lw (R : tid) (os : list out) (k : kind) (d : tid) : option bool := lastw (msgs_to R os) k d.

Lemma lw_nil R k d : lw R [] k d = None.
Proof. done. Qed.
Lemma lw_app R o1 o2 k d : lw R (o1 ++ o2) k d = match lw R o2 k d with Some b => Some b | None => lw R o1 k d end.
Proof. unfold lw. by rewrite msgs_to_app, lastw_app. Qed.

Lemma lw_none R os k d : (forall m, OMsg (ATarget R) m ∈ os -> mword m k d = None) -> lw R os k d = None.
Proof. intros H. apply lastw_none. intros m Hm. apply H. by apply elem_of_msgs_to. Qed.

Lemma lw_all R os k d b :
  (forall m, OMsg (ATarget R) m ∈ os -> mword m k d = Some b) -> (exists m, OMsg (ATarget R) m ∈ os) -> lw R os k d = Some b.
Proof.
  intros Hall [m0 Hm0]. unfold lw. destruct (lastw (msgs_to R os) k d) as [b'|] eqn:E.
  - destruct (lastw_some _ _ _ _ E) as (m & Hin & Hw). apply elem_of_msgs_to in Hin. rewrite (Hall m Hin) in Hw. congruence.
  - exfalso. apply elem_of_msgs_to in Hm0.
    assert (Hn : forall l, lastw l k d = None -> forall m, m ∈ l -> mword m k d = None).
    { induction l as [|x l IH]; intros Hl m Hin; [by apply elem_of_nil in Hin|]. cbn in Hl.
      destruct (lastw l k d) eqn:El; [done|]. apply elem_of_cons in Hin as [->|Hin]; [done|by apply IH]. }
    pose proof (Hn _ E m0 Hm0) as Hc. apply elem_of_msgs_to in Hm0. rewrite (Hall m0 Hm0) in Hc. done.
Qed.

Lemma lw_requesters_ok R a k' k act :
  lw R (send_to_requesters a k' (MOk k' (a_id a) act)) k (a_id a)
  = if decide (k' = k /\ ATarget R ∈ reqs a k') then Some true else None.
Proof.
  destruct (decide (k' = k /\ ATarget R ∈ reqs a k')) as [[-> Hin]|Hn].
  - apply lw_all.
    + intros m Hm. apply elem_send_to_requesters in Hm as (r & _ & [= _ ->]). apply mword_ok_eq.
    + exists (MOk k (a_id a) act). apply elem_send_to_requesters. eauto.
  - apply lw_none. intros m Hm. apply elem_send_to_requesters in Hm as (r & Hr & [= <- ->]).
    unfold mword, word_of. rewrite decide_False; [done|]. intros [-> _]. apply Hn. done.
Qed.

Lemma lw_requesters_inval R a k' k :
  lw R (send_to_requesters a k' (MInvalidated k' (a_id a))) k (a_id a)
  = if decide (k' = k /\ ATarget R ∈ reqs a k') then Some false else None.
Proof.
  destruct (decide (k' = k /\ ATarget R ∈ reqs a k')) as [[-> Hin]|Hn].
  - apply lw_all.
    + intros m Hm. apply elem_send_to_requesters in Hm as (r & _ & [= _ ->]). apply mword_inval_eq.
    + exists (MInvalidated k (a_id a)). apply elem_send_to_requesters. eauto.
  - apply lw_none. intros m Hm. apply elem_send_to_requesters in Hm as (r & Hr & [= <- ->]).
    unfold mword, word_of. rewrite decide_False; [done|]. intros [-> _]. apply Hn. done.
Qed.

Lemma lw_request_deps R a k' k d : lw R (request_deps a k') k d = None.
Proof. apply lw_none. intros m Hm. apply elem_request_deps in Hm as (x & _ & [= _ ->]). done. Qed.
Lemma lw_unrequest_deps R a k' k d : lw R (unrequest_deps a k') k d = None.
Proof. apply lw_none. intros m Hm. apply elem_unrequest_deps in Hm as (x & _ & [= _ ->]). done. Qed.

Lemma lw_single_ok R r k' k d act :
  lw R [OMsg r (MOk k' d act)] k d = if decide (r = ATarget R /\ k' = k) then Some true else None.
Proof.
  unfold lw, msgs_to. cbn. destruct r as [|R']; cbn.
  - rewrite decide_False by (intros [? _]; done). done.
  - destruct (decide (R' = R)) as [->|Hne]; cbn.
    + unfold mword, word_of. destruct (decide (k' = k)) as [->|Hk].
      * rewrite !decide_True by done. done.
      * rewrite !decide_False by (intros [? ?]; done). done.
    + rewrite decide_False; [done|]. intros [[= ->] _]. done.
Qed.

Lemma lw_single_err R t k d : lw R [OErr t] k d = None.
Proof. done. Qed.

(* what the lemma says, for an actor whose own kind is k, in terms of the fields *)
Definition lw_spec (R : tid) (id : tid) (k : kind) (os : list out)
           (rq rq' : gset aid) (av av' : bool) : Prop :=
  ATarget R ∈ rq' ->
  match lw R os k id with
  | Some b => b = av'
  | None => if decide (ATarget R ∈ rq) then av' = av else av' = false
  end.

Lemma build_top_fields a a2 ob :
  build_top a = (a2, ob) -> wflags a ->
  executed a2 = executed a /\ reqB a2 = reqB a /\ a_id a2 = a_id a /\ wflags a2.
Proof.
  unfold build_top, wflags. destruct (should_execute a KB && negb (ongoing a)) eqn:Hc; intros [= <- <-] [H1 H2]; [|done].
  apply andb_true_iff in Hc as [Hs Ho]. apply should_execute_true in Hs as (Hte & _).
  cbn. destruct (executed a) eqn:Hex; [rewrite H1 in Hte by done; done|]. done.
Qed.

Lemma notify_invalidated_B a a1 o R :
  notify_invalidated a KB = (a1, o) -> wflags a ->
  lw_spec R (a_id a) KB o (reqB a) (reqB a1) (executed a) (executed a1) /\ reqB a1 = reqB a /\ a_id a1 = a_id a /\
  ongoing a1 = ongoing a /\ (executed a1 = true -> to_execute a1 = false) /\ (executed a1 = true -> executed a = true).
Proof.
  unfold notify_invalidated, lw_spec, wflags. intros H [H1 H2]. destruct (to_execute a) eqn:Hte; injection H as <- <-.
  - split; [intros HR; rewrite lw_nil; by rewrite decide_True|]. repeat split; try done. rewrite Hte. exact H1.
  - cbn. split; [|repeat split; done]. intros HR. change (reqB a) with (reqs a KB). rewrite lw_requesters_inval.
    by rewrite decide_True.
Qed.

Lemma build_step_lastword a e a' os ob R :
  build_step true a e = Some (a', os, ob) -> wflags a ->
  lw_spec R (a_id a) KB os (reqB a) (reqB a') (executed a) (executed a') /\ wflags a'.
Proof.
  unfold build_step. destruct (exited a); [done|]. intros H Hw. pose proof Hw as [Hw1 Hw2].
  destruct e as [m| | |r].
  - destruct (build_handle_msg true a m) as [a1 o] eqn:Hm. destruct (build_top a1) as [a2 ob2] eqn:Ht.
    injection H as <- <- <-.
    assert (Hmid : lw_spec R (a_id a) KB o (reqB a) (reqB a1) (executed a) (executed a1) /\ a_id a1 = a_id a /\ wflags a1).
    { destruct m as [k r|k r|k d act|k d]; cbn [build_handle_msg] in Hm.
      - destruct k.
        + injection Hm as <- <-. cbn [reqB set_reqs executed a_id]. split; [|split; [done|by split]].
          unfold lw_spec. intros HR. rewrite lw_app.
          assert (Hfan : forall (b : bool) X Y, lw R (if b then request_deps X KB ++ request_deps Y KS else []) KB (a_id a) = None)
            by (intros [] X Y; [by rewrite lw_app, !lw_request_deps|done]).
          rewrite Hfan.
          destruct (decide (r ∈ reqB a)) as [Hin|Hnin].
          * rewrite (bool_decide_eq_true_2 _ Hin). cbn [negb andb]. rewrite lw_nil.
            rewrite decide_True by set_solver. done.
          * rewrite (bool_decide_eq_false_2 _ Hnin). cbn [negb andb]. destruct (executed a) eqn:Hex.
            -- rewrite lw_single_ok. destruct (decide (r = ATarget R /\ KB = KB)) as [[-> _]|Hn]; [done|].
               rewrite decide_True; [done|]. apply elem_of_union in HR as [?|HR]; [done|].
               apply elem_of_singleton in HR. exfalso. apply Hn. by split.
            -- rewrite lw_nil. by destruct (decide (ATarget R ∈ reqB a)).
        + injection Hm as <- <-. split; [|split; [done|by split]]. unfold lw_spec. intros HR.
          rewrite lw_single_ok. rewrite decide_False by (intros [_ ?]; done). by rewrite decide_True.
      - destruct (handle_unrequested a k r) as [a0 last] eqn:Hu. injection Hm as <- <-.
        unfold handle_unrequested in Hu. injection Hu as <- <-.
        split; [|split; [by destruct k|by destruct k]]. unfold lw_spec. intros HR.
        assert (Hl : forall (b : bool) X Y, lw R (if b then unrequest_deps X KB ++ unrequest_deps Y KS else []) KB (a_id a) = None)
          by (intros [] X Y; [by rewrite lw_app, !lw_unrequest_deps|done]).
        rewrite Hl. destruct k; cbn in *; (rewrite decide_True by set_solver); done.
      - injection Hm as <- <-. split; [|split; [by destruct k|by destruct k]]. unfold lw_spec. intros HR. rewrite lw_nil.
        destruct k; cbn in *; by rewrite decide_True.
      - destruct k.
        + set (a0 := set_unav a KB (unav a KB ∪ {[d]})) in *.
          destruct (notify_invalidated_B a0 a1 o R Hm Hw) as (Hs & Hrq & Hid & Hog & Hx1 & Hx2).
          split; [exact Hs|]. split; [exact Hid|]. split; [exact Hx1|]. rewrite Hog. intros Ho.
          destruct (executed a1) eqn:E; [|done]. specialize (Hx2 eq_refl). cbn in Hx2, Ho. rewrite Hw2 in Hx2 by done. done.
        + injection Hm as <- <-. split; [|split; [done|by split]]. unfold lw_spec. intros HR. rewrite lw_nil. cbn in *.
          by rewrite decide_True. }
    destruct Hmid as (Hs & Hid & Hw1').
    destruct (build_top_fields _ _ _ Ht Hw1') as (Hex & Hrq & _ & Hw2'). split; [|exact Hw2'].
    unfold lw_spec in *. rewrite Hex, Hrq. exact Hs.
  - destruct (notify_invalidated a KB) as [a1 o] eqn:Hn. destruct (build_top a1) as [a2 ob2] eqn:Ht. injection H as <- <- <-.
    destruct (notify_invalidated_B a a1 o R Hn Hw) as (Hs & Hrq & Hid & Hog & Hx1 & Hx2).
    assert (Hw1' : wflags a1).
    { split; [exact Hx1|]. rewrite Hog. intros Ho. destruct (executed a1) eqn:E; [|done]. specialize (Hx2 eq_refl).
      rewrite Hw2 in Hx2 by done. done. }
    destruct (build_top_fields _ _ _ Ht Hw1') as (Hex & Hrq2 & _ & Hw2'). split; [|exact Hw2'].
    unfold lw_spec in *. rewrite Hex, Hrq2. exact Hs.
  - destruct (ongoing a) eqn:Ho; injection H as <- <- <-; (split; [|by split; cbn; auto]);
      unfold lw_spec; intros HR; rewrite lw_nil; cbn in *; by rewrite decide_True.
  - destruct (ongoing a) eqn:Ho; [|done]. cbn [negb] in H. specialize (Hw2 eq_refl).
    set (a0 := set_proc a false false (term_recv a) false (running a)) in *.
    destruct (match r with
              | RFailed => (set_flags a0 (to_execute a0) false, [OErr (a_id a)], [ObFail (a_id a)])
              | RCancelled => (a0, [], [ObCancel (a_id a)])
              | _ => let '(a1, o) := notify_success a0 KB in (a1, o, [ObSucc (a_id a)])
              end) as [[a1 o] ob1] eqn:Hr.
    assert (Hmid : lw_spec R (a_id a) KB o (reqB a) (reqB a1) (executed a) (executed a1) /\ wflags a1 /\ a_id a1 = a_id a).
    { unfold lw_spec. destruct r; cbn in Hr; injection Hr as <- <- _; cbn [reqB executed set_flags set_proc a_id a0].
      - split; [|split; [|done]].
        + intros HR. destruct (to_execute a) eqn:Hte; cbn [negb].
          * rewrite lw_nil. by rewrite decide_True.
          * change (reqB a) with (reqs a0 KB) at 1. change (a_id a) with (a_id a0). rewrite lw_requesters_ok. by rewrite decide_True.
        + split; cbn; [by destruct (to_execute a)|done].
      - split; [|split; [|done]].
        + intros HR. destruct (to_execute a) eqn:Hte; cbn [negb].
          * rewrite lw_nil. by rewrite decide_True.
          * change (reqB a) with (reqs a0 KB) at 1. change (a_id a) with (a_id a0). rewrite lw_requesters_ok. by rewrite decide_True.
        + split; cbn; [by destruct (to_execute a)|done].
      - split; [|split; [|done]].
        + intros HR. rewrite lw_single_err. by rewrite decide_True.
        + split; cbn; done.
      - split; [|split; [|done]].
        + intros HR. rewrite lw_nil. by rewrite decide_True.
        + split; cbn; [exact Hw1|done]. }
    destruct Hmid as (Hs & Hw1' & Hid).
    destruct (term_recv a1).
    + injection H as <- <- _. split; [exact Hs|]. destruct Hw1' as [Hx Hy]. split; cbn; [exact Hx|done].
    + destruct (build_top a1) as [a2 ob2] eqn:Ht. injection H as <- <- _.
      destruct (build_top_fields _ _ _ Ht Hw1') as (Hex & Hrq & _ & Hw2'). split; [|exact Hw2'].
      unfold lw_spec in *. rewrite Hex, Hrq. exact Hs.
Qed.

Lemma lw_spec_comp R id k o1 o2 rq rq1 av av1 av2 :
  lw_spec R id k o1 rq rq1 av av1 -> lw_spec R id k o2 rq1 rq1 av1 av2 -> lw_spec R id k (o1 ++ o2) rq rq1 av av2.
Proof.
  unfold lw_spec. intros H1 H2 HR. specialize (H1 HR). specialize (H2 HR). rewrite lw_app.
  destruct (lw R o2 k id) as [b|]; [done|]. rewrite decide_True in H2 by done. subst av2. exact H1.
Qed.

(* service *)
Lemma service_top_lastword ok a a2 o ob R :
  service_top ok a = (a2, o, ob) -> fok a ->
  lw_spec R (a_id a) KS o (reqS a) (reqS a2) (executed a) (executed a2) /\ reqS a2 = reqS a /\ fok a2.
Proof.
  unfold service_top, lw_spec, fok. intros H Hw1. destruct (should_execute a KS) eqn:Hs.
  - apply should_execute_true in Hs as (Hte & _).
    assert (Hex : executed a = false) by (destruct (executed a); [rewrite Hw1 in Hte by done; done|done]).
    destruct ok; cbn in H; injection H as <- <- _; cbn [reqS executed to_execute set_flags set_proc negb].
    + split; [|split; done]. intros HR.
      match goal with |- context [send_to_requesters ?x KS _] => change (a_id a) with (a_id x); change (reqS a) with (reqs x KS) in HR end.
      rewrite lw_requesters_ok. by rewrite decide_True.
    + split; [|split; done]. intros HR. rewrite lw_single_err. by rewrite decide_True.
  - injection H as <- <- _. split; [|split; done]. intros HR. rewrite lw_nil. by rewrite decide_True.
Qed.

Lemma notify_invalidated_S a a1 o R :
  notify_invalidated a KS = (a1, o) -> fok a ->
  lw_spec R (a_id a) KS o (reqS a) (reqS a1) (executed a) (executed a1) /\ reqS a1 = reqS a /\ a_id a1 = a_id a /\ fok a1.
Proof.
  unfold notify_invalidated, lw_spec, fok. intros H H1. destruct (to_execute a) eqn:Hte; injection H as <- <-.
  - split; [intros HR; rewrite lw_nil; by rewrite decide_True|]. repeat split; try done. rewrite Hte. exact H1.
  - cbn. split; [|repeat split; done]. intros HR. change (reqS a) with (reqs a KS). rewrite lw_requesters_inval.
    by rewrite decide_True.
Qed.

Lemma service_handle_msg_lastword a m a1 o ob R :
  service_handle_msg true a m = (a1, o, ob) -> fok a ->
  lw_spec R (a_id a) KS o (reqS a) (reqS a1) (executed a) (executed a1) /\ a_id a1 = a_id a /\ fok a1.
Proof.
  intros Hm Hw.
  destruct m as [k r|k r|k d act|k d]; cbn [service_handle_msg] in Hm.
  - destruct k.
    + injection Hm as <- <- _. split; [|split; done]. unfold lw_spec. intros HR.
      rewrite lw_single_ok. rewrite decide_False by (intros [_ ?]; done). by rewrite decide_True.
    + injection Hm as <- <- _. cbn [reqS set_reqs executed a_id]. split; [|split; done].
      unfold lw_spec. intros HR. rewrite lw_app.
      assert (Hfan : forall (b : bool) X Y, lw R (if b then request_deps X KB ++ request_deps Y KS else []) KS (a_id a) = None)
        by (intros [] X Y; [by rewrite lw_app, !lw_request_deps|done]).
      rewrite Hfan.
      destruct (decide (r ∈ reqS a)) as [Hin|Hnin].
      * rewrite (bool_decide_eq_true_2 _ Hin). cbn [negb andb]. rewrite lw_nil.
        rewrite decide_True by set_solver. done.
      * rewrite (bool_decide_eq_false_2 _ Hnin). cbn [negb andb]. destruct (executed a) eqn:Hex.
        -- rewrite lw_single_ok. destruct (decide (r = ATarget R /\ KS = KS)) as [[-> _]|Hn]; [done|].
           rewrite decide_True; [done|]. apply elem_of_union in HR as [?|HR]; [done|].
           apply elem_of_singleton in HR. exfalso. apply Hn. by split.
        -- rewrite lw_nil. by destruct (decide (ATarget R ∈ reqS a)).
  - destruct (handle_unrequested a k r) as [a0 last] eqn:Hu.
    unfold handle_unrequested in Hu. injection Hu as <- <-.
    destruct (_ && bool_decide (k = KS)); injection Hm as <- <- _.
    + split; [|split; by destruct k]. unfold lw_spec. intros HR.
      rewrite lw_app, !lw_unrequest_deps. destruct k; cbn in *; (rewrite decide_True by set_solver); done.
    + split; [|split; by destruct k]. unfold lw_spec. intros HR. rewrite lw_nil.
      destruct k; cbn in *; (rewrite decide_True by set_solver); done.
  - injection Hm as <- <- _. split; [|split; by destruct k]. unfold lw_spec. intros HR. rewrite lw_nil.
    destruct k; cbn in *; by rewrite decide_True.
  - set (a0 := set_unav a k (unav a k ∪ {[d]})) in *.
    destruct (notify_invalidated a0 KS) as [a2 o2] eqn:Hn. injection Hm as <- <- _.
    assert (Hw0 : fok a0) by (by destruct k).
    destruct (notify_invalidated_S a0 a2 o2 R Hn Hw0) as (Hs & Hrq & Hid & Hw').
    split; [|split; [by destruct k|exact Hw']].
    assert (reqS a0 = reqS a) as <- by (by destruct k). assert (executed a0 = executed a) as <- by (by destruct k).
    assert (a_id a0 = a_id a) as <- by (by destruct k). exact Hs.
Qed.

Lemma service_step_lastword ok a e a' os ob R :
  service_step true ok a e = Some (a', os, ob) -> fok a ->
  lw_spec R (a_id a) KS os (reqS a) (reqS a') (executed a) (executed a') /\ fok a'.
Proof.
  unfold service_step. destruct (exited a); [done|]. intros H Hw. destruct e as [m| | |r]; [| | |done].
  - destruct (service_handle_msg true a m) as [[a1 o] ob1] eqn:Hm. destruct (service_top ok a1) as [[a2 o2] ob2] eqn:Ht.
    injection H as <- <- _.
    destruct (service_handle_msg_lastword a m a1 o ob1 R Hm Hw) as (Hs1 & Hid & Hw1).
    destruct (service_top_lastword ok a1 a2 o2 ob2 R Ht Hw1) as (Hs2 & Hrq & Hw2). split; [|exact Hw2].
    rewrite Hrq. rewrite Hid in Hs2. rewrite Hrq in Hs2. by eapply lw_spec_comp.
  - destruct (notify_invalidated a KS) as [a1 o] eqn:Hn. destruct (service_top ok a1) as [[a2 o2] ob2] eqn:Ht.
    injection H as <- <- _.
    destruct (notify_invalidated_S a a1 o R Hn Hw) as (Hs1 & Hrq1 & Hid & Hw1).
    destruct (service_top_lastword ok a1 a2 o2 ob2 R Ht Hw1) as (Hs2 & Hrq & Hw2). split; [|exact Hw2].
    rewrite Hrq. rewrite Hid in Hs2. rewrite Hrq in Hs2. by eapply lw_spec_comp.
  - injection H as <- <- _. split; [|done].
    unfold lw_spec. intros HR. rewrite lw_nil. cbn in *. by rewrite decide_True.
Qed.

(* aggregate: both kinds *)
Lemma aggregate_step_lastword a e a' os ob R k :
  aggregate_step a e = Some (a', os, ob) ->
  lw_spec R (a_id a) k os (reqs a k) (reqs a' k) (set_empty (unav a k)) (set_empty (unav a' k)).
Proof.
  unfold aggregate_step. destruct (exited a); [done|]. intros H. destruct e as [m| | |r]; [|done| |done].
  2:{ injection H as <- <- _. unfold lw_spec. intros HR. rewrite lw_nil. destruct k; cbn in *; by rewrite decide_True. }
  destruct (aggregate_handle_msg a m) as [a1 o] eqn:Hm. injection H as <- <- _.
  destruct m as [k' r|k' r|k' d act|k' d]; cbn [aggregate_handle_msg] in Hm.
  - (* Requested *)
    destruct (decide (r ∈ reqs a k')) as [Hin|Hnin].
    + rewrite (bool_decide_eq_true_2 _ Hin) in Hm. cbn [negb] in Hm. injection Hm as <- <-.
      unfold lw_spec. intros HR. rewrite lw_nil. rewrite reqs_set_reqs in HR. rewrite unav_set_reqs.
      destruct (decide (k = k')) as [->|Hne]; [rewrite decide_True by set_solver|rewrite decide_True by done]; done.
    + rewrite (bool_decide_eq_false_2 _ Hnin) in Hm. cbn [negb] in Hm. injection Hm as <- <-.
      unfold lw_spec. intros HR. rewrite lw_app. rewrite reqs_set_reqs in HR. rewrite !unav_set_reqs.
      assert (Hfan : forall (b : bool) X, lw R (if b then request_deps X k' else []) k (a_id a) = None)
        by (intros [] X; [by rewrite lw_request_deps|done]).
      rewrite Hfan. destruct (decide (k = k')) as [->|Hne].
      * destruct (set_empty (unav a k')) eqn:He.
        -- rewrite lw_single_ok. destruct (decide (r = ATarget R /\ k' = k')) as [[-> _]|Hn]; [done|].
           rewrite decide_True; [done|]. apply elem_of_union in HR as [?|HR]; [done|].
           apply elem_of_singleton in HR. exfalso. apply Hn. by split.
        -- rewrite lw_nil. by destruct (decide (ATarget R ∈ reqs a k')).
      * assert (Hl : forall (b : bool) x, lw R (if b then [OMsg r (MOk k' (a_id a) x)] else []) k (a_id a) = None).
        { intros [] x; [|done]. rewrite lw_single_ok. rewrite decide_False; [done|]. intros [_ ?]. by apply Hne. }
        rewrite Hl. by rewrite decide_True.
  - (* Unrequested *)
    destruct (handle_unrequested a k' r) as [a0 last] eqn:Hu. injection Hm as <- <-.
    unfold handle_unrequested in Hu. injection Hu as <- <-.
    unfold lw_spec. intros HR. rewrite reqs_set_reqs in HR. rewrite unav_set_reqs.
    assert (Hl : forall (b : bool) X, lw R (if b then unrequest_deps X k' else []) k (a_id a) = None)
      by (intros [] X; [by rewrite lw_unrequest_deps|done]).
    rewrite Hl. destruct (decide (k = k')); (rewrite decide_True by set_solver); done.
  - (* Ok *)
    injection Hm as <- <-.
    set (a1 := set_unav a k' (unav a k' ∖ {[d]})).
    set (a2 := if act then set_acts a1 k' (acts a1 k' ∪ {[d]}) else a1).
    assert (Hu2 : forall kk, unav a2 kk = unav a1 kk) by (intros kk; unfold a2; destruct act, k', kk; done).
    assert (Hr2 : forall kk, reqs a2 kk = reqs a kk) by (intros kk; unfold a2, a1; destruct act, k', kk; done).
    assert (Hi2 : a_id a2 = a_id a) by (unfold a2, a1; destruct act, k'; done).
    unfold lw_spec. rewrite Hr2, !Hu2. intros HR. unfold a1 at 2. rewrite unav_set_unav.
    destruct (decide (k = k')) as [->|Hne].
    + destruct (decide (d ∈ unav a k')) as [Hin|Hnin].
      * rewrite (bool_decide_eq_true_2 _ Hin). cbn [andb]. unfold a1. rewrite unav_set_unav, decide_True by done.
        destruct (set_empty (unav a k' ∖ {[d]})) eqn:He.
        -- rewrite <- Hi2. rewrite lw_requesters_ok. rewrite Hr2. by rewrite decide_True.
        -- rewrite lw_nil. rewrite decide_True by done. symmetry. apply set_empty_false. set_solver.
      * rewrite (bool_decide_eq_false_2 _ Hnin). cbn [andb]. rewrite lw_nil. rewrite decide_True by done.
        unfold a1. rewrite unav_set_unav, decide_True by done. by rewrite (difference_disjoint_L (unav a k') {[d]}) by set_solver.
    + assert (Hl : forall (b : bool) x, lw R (if b then send_to_requesters a2 k' (MOk k' (a_id a) x) else []) k (a_id a) = None).
      { intros [] x; [|done]. rewrite <- Hi2. rewrite lw_requesters_ok. rewrite decide_False; [done|]. intros [? _]. by apply Hne. }
      rewrite Hl. rewrite decide_True by done. unfold a1. by rewrite unav_set_unav, decide_False.
  - (* Invalidated *)
    injection Hm as <- <-. unfold lw_spec. rewrite reqs_set_unav, !unav_set_unav. intros HR.
    destruct (decide (k = k')) as [->|Hne].
    + assert (Hne' : set_empty (unav a k' ∪ {[d]}) = false) by (apply set_empty_false; set_solver).
      rewrite Hne'. destruct (decide (d ∈ unav a k')) as [Hin|Hnin].
      * rewrite (bool_decide_eq_true_2 _ Hin). cbn [negb andb]. rewrite lw_nil. rewrite decide_True by done.
        symmetry. apply set_empty_false. set_solver.
      * rewrite (bool_decide_eq_false_2 _ Hnin). cbn [negb andb]. rewrite decide_True by done.
        destruct (bool_decide (size (unav a k' ∪ {[d]}) = 1)) eqn:Hsz.
        -- set (a1 := set_unav a k' (unav a k' ∪ {[d]})).
           assert (Hid1 : a_id a1 = a_id a) by (unfold a1; by destruct k'). rewrite <- Hid1. rewrite lw_requesters_inval.
           rewrite decide_True; [done|]. split; [done|]. unfold a1. by rewrite reqs_set_unav.
        -- rewrite lw_nil. rewrite decide_True by done. symmetry. apply set_empty_false. intros Hemp.
           apply bool_decide_eq_false in Hsz. apply Hsz. rewrite Hemp. rewrite union_empty_l_L. apply size_singleton.
    + assert (Hl : forall (b : bool) X, lw R (if b then send_to_requesters X k' (MInvalidated k' (a_id a)) else []) k (a_id a) = None).
      { intros [] X; [|done]. apply lw_none. intros m Hm. apply elem_send_to_requesters in Hm as (x & _ & [= _ ->]).
        unfold mword, word_of. rewrite decide_False; [done|]. intros [? _]. by apply Hne. }
      rewrite Hl. by rewrite decide_True.
Qed.
