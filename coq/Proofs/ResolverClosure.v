(* Closure facts stated for reuse by other slices:
   - C20/C08: the closure of a request containing G = {G} ∪ the closure of the request with G replaced by its references;
   - C08: the resolver never produces anything outside the closure (and main touches nothing outside it);
   - C18: the resolved target of t does not depend on how t was reached — not on the request, and not on the entry
     project either, as long as the two configurations describe t and the producers it names identically. *)
From Zinoma.Model Require Import Bytes Cfg Names Ext Resolver.
From Zinoma.Proofs Require Import Bytes Names ResolverSpec ResolverPure ResolverSound Resolver.
From Coq Require Import Relations Lia PeanoNat.
Local Open Scope nat_scope.

Definition closure (cfg : iconfig) (roots : list target_id) (t : target_id) : Prop := reach cfg roots t.

Lemma reach_app cfg r1 r2 t : reach cfg (r1 ++ r2) t <-> reach cfg r1 t \/ reach cfg r2 t.
Proof.
  unfold reach. split.
  - intros [r [Hin Hp]]. apply in_app_or in Hin as [Hin|Hin]; [left | right]; now exists r.
  - intros [[r [Hin Hp]]|[r [Hin Hp]]]; exists r; (split; [apply in_or_app; tauto | exact Hp]).
Qed.

Lemma reach_single cfg g t : reach cfg [g] t <-> t = g \/ reach cfg (refs cfg g) t.
Proof.
  split.
  - intros [r [[<-|[]] Hp]]. apply clos_rt_rt1n in Hp. destruct Hp as [|y z Hxy Hyz]; [now left|].
    right. exists y. split; [exact Hxy | now apply clos_rt1n_rt].
  - intros [->|[r [Hin Hp]]].
    + exists g. split; [now left | apply rt_refl].
    + exists g. split; [now left|]. eapply rt_trans; [apply rt_step; exact Hin | exact Hp].
Qed.

(* requesting G (an aggregate, or any target) = requesting its references, plus G itself *)
Theorem closure_replace_by_refs cfg roots g t :
  closure cfg (roots ++ [g]) t <-> closure cfg (roots ++ refs cfg g) t \/ t = g.
Proof. unfold closure. rewrite !reach_app, reach_single. tauto. Qed.

(* for an aggregate the references are exactly its declared dependencies *)
Lemma refs_aggregate cfg g dir yt deps :
  lookup_yt cfg g = Some (dir, yt) -> yt_kind yt = TAggregate -> all_some (declared_refs g yt) = Some deps ->
  refs cfg g = deps.
Proof.
  intros Hl Hk Hd. unfold refs. rewrite Hl, (output_refs_aggregate g yt Hk), (all_some_somes _ _ Hd). cbn. apply app_nil_r.
Qed.

Theorem closure_aggregate cfg roots g rt m fuel t :
  n_targets cfg < fuel -> resolve cfg (roots ++ [g]) fuel = Ok m -> tmap_get m g = Some rt ->
  (closure cfg (roots ++ [g]) t <-> closure cfg (roots ++ rt_deps rt) t \/ t = g).
Proof.
  intros Hf Hr Hg. destruct (resolve_sound _ _ _ _ Hf Hr) as (_ & _ & Hrt & _).
  rewrite (rtarget_of_deps _ _ _ (Hrt _ _ Hg)). apply closure_replace_by_refs.
Qed.

(* nothing outside the closure is ever produced *)
Theorem resolve_dom_closure cfg roots fuel m t :
  n_targets cfg < fuel -> resolve cfg roots fuel = Ok m -> (In t (tmap_keys m) <-> closure cfg roots t).
Proof. intros Hf Hr. now destruct (resolve_sound _ _ _ _ Hf Hr) as (H & _). Qed.

(* monotone in the request *)
Lemma closure_mono cfg r1 r2 t : incl r1 r2 -> closure cfg r1 t -> closure cfg r2 t.
Proof. intros Hi [r [Hin Hp]]. exists r. split; [now apply Hi | exact Hp]. Qed.

(* ---- entry independence ---- *)
Theorem entry_independent_same_config cfg roots1 roots2 f1 f2 m1 m2 t r1 r2 :
  n_targets cfg < f1 -> n_targets cfg < f2 ->
  resolve cfg roots1 f1 = Ok m1 -> resolve cfg roots2 f2 = Ok m2 ->
  tmap_get m1 t = Some r1 -> tmap_get m2 t = Some r2 -> r1 = r2.
Proof.
  intros H1 H2 E1 E2 G1 G2.
  destruct (resolve_sound _ _ _ _ H1 E1) as (_ & _ & S1 & _). destruct (resolve_sound _ _ _ _ H2 E2) as (_ & _ & S2 & _).
  pose proof (S1 _ _ G1) as A. pose proof (S2 _ _ G2) as B. congruence.
Qed.

(* two configurations (e.g. the tree loaded from the importing root and from the target's own directory) that describe
   t and the targets t refers to identically give t the same resolved target *)
Theorem rtarget_of_ext cfg1 cfg2 t :
  lookup_yt cfg1 t = lookup_yt cfg2 t ->
  (forall x, In x (refs cfg1 t) -> lookup_yt cfg1 x = lookup_yt cfg2 x) ->
  rtarget_of cfg1 t = rtarget_of cfg2 t.
Proof.
  intros Ht Hx. unfold rtarget_of. rewrite <- Ht. destruct (lookup_yt cfg1 t) as [[dir yt]|] eqn:El; [|reflexivity].
  destruct (all_some (declared_refs t yt)) as [deps|]; [|reflexivity].
  destruct (all_some (output_refs t yt)) as [orefs|] eqn:Eo; [|reflexivity].
  assert (Hm : map (producer_output cfg1) orefs = map (producer_output cfg2) orefs).
  { apply map_ext_in. intros x Hin. unfold producer_output. rewrite Hx; [reflexivity|].
    unfold refs. rewrite El. apply in_or_app. right. now rewrite (all_some_somes _ _ Eo). }
  now rewrite Hm.
Qed.

Theorem entry_independent cfg1 cfg2 roots1 roots2 f1 f2 m1 m2 t r1 r2 :
  n_targets cfg1 < f1 -> n_targets cfg2 < f2 ->
  resolve cfg1 roots1 f1 = Ok m1 -> resolve cfg2 roots2 f2 = Ok m2 ->
  tmap_get m1 t = Some r1 -> tmap_get m2 t = Some r2 ->
  lookup_yt cfg1 t = lookup_yt cfg2 t ->
  (forall x, In x (rt_deps r1) -> lookup_yt cfg1 x = lookup_yt cfg2 x) ->
  r1 = r2.
Proof.
  intros H1 H2 E1 E2 G1 G2 Ht Hx.
  destruct (resolve_sound _ _ _ _ H1 E1) as (_ & _ & S1 & _). destruct (resolve_sound _ _ _ _ H2 E2) as (_ & _ & S2 & _).
  pose proof (S1 _ _ G1) as A. pose proof (S2 _ _ G2) as B.
  rewrite (rtarget_of_deps _ _ _ A) in Hx. rewrite (rtarget_of_ext cfg1 cfg2 t Ht Hx) in A. congruence.
Qed.

(* ---- C13: what the consumer inherits ---- *)
(* the input of a resolved target = its own resources, then the output resources of each `X.output` producer in the
   order of the references *)
Theorem inherited_input cfg roots fuel m t rt :
  n_targets cfg < fuel -> resolve cfg roots fuel = Ok m -> tmap_get m t = Some rt ->
  exists dir yt orefs,
    lookup_yt cfg t = Some (dir, yt) /\ all_some (output_refs t yt) = Some orefs /\
    (forall x, In x orefs -> In x (rt_deps rt) /\ exists rx, tmap_get m x = Some rx /\ rt_kind rx = TBuild) /\
    r_files (rt_input rt) =
      own_files (yt_input yt) dir ++
      flat_map (fun x => match tmap_get m x with Some rx => r_files (rt_output rx) | None => [] end) orefs /\
    r_cmds (rt_input rt) =
      own_cmds (yt_input yt) dir ++
      flat_map (fun x => match tmap_get m x with Some rx => r_cmds (rt_output rx) | None => [] end) orefs.
Proof.
  intros Hf Hr Hg. pose proof (resolve_spec cfg roots fuel Hf) as H. rewrite Hr in H. destruct H as [Hs Hk].
  destruct (sorted_ok_get _ _ _ _ Hs Hg) as [Hrt Hd].
  destruct (rtarget_of_inv _ _ _ Hrt) as (dir & yt & deps & orefs & outs & Hl & Hdp & Ho & Hp & Heq).
  exists dir, yt, orefs. split; [exact Hl|]. split; [exact Ho|].
  assert (Hprod : forall x, In x orefs -> exists rx, tmap_get m x = Some rx /\ rt_kind rx = TBuild /\
                                                producer_output cfg x = Some (rt_output rx)).
  { intros x Hx. rewrite Heq in Hd. cbn [rt_deps] in Hd.
    destruct (in_keys_get m x (Hd x (in_or_app _ _ _ (or_intror Hx)))) as [rx Hgx]. exists rx. split; [exact Hgx|].
    destruct (sorted_ok_get _ _ _ _ Hs Hgx) as [Hrx _].
    destruct (all_some_map_in _ _ _ Hp x Hx) as [res [Hres _]].
    destruct (rtarget_of_inv _ _ _ Hrx) as (dx & yx & dpx & orx & oux & Hlx & _ & _ & _ & Heqx).
    assert (Hkx : rt_kind rx = TBuild).
    { rewrite Heqx. cbn [rt_kind]. unfold producer_output in Hres. rewrite Hlx in Hres.
      destruct (yt_kind yx); [reflexivity | discriminate | discriminate]. }
    split; [exact Hkx|]. now apply rtarget_of_producer. }
  split.
  { intros x Hx. split.
    - rewrite Heq. cbn [rt_deps]. apply in_or_app. now right.
    - destruct (Hprod x Hx) as (rx & H1 & H2 & _). now exists rx. }
  assert (Houts : outs = map (fun x => match tmap_get m x with Some rx => rt_output rx | None => resources_empty end) orefs).
  { clear Ho Heq Hd. revert outs Hp. induction orefs as [|x orefs IH]; intros outs Hp; cbn [map all_some] in Hp |- *.
    - now injection Hp as <-.
    - destruct (Hprod x (or_introl eq_refl)) as (rx & Hgx & _ & Hpx). rewrite Hpx in Hp.
      destruct (all_some (map (producer_output cfg) orefs)) as [outs'|] eqn:E; [|discriminate]. injection Hp as <-.
      rewrite Hgx. f_equal. apply IH; [|reflexivity]. intros y Hy. apply Hprod. now right. }
  rewrite Heq. cbn [rt_input r_files r_cmds]. rewrite Houts. split; f_equal.
  - clear. induction orefs as [|x orefs IH]; [reflexivity|]. cbn [map flat_map]. rewrite IH.
    now destruct (tmap_get m x).
  - clear. induction orefs as [|x orefs IH]; [reflexivity|]. cbn [map flat_map]. rewrite IH.
    now destruct (tmap_get m x).
Qed.

(* the resources a target offers are bound to ITS project directory: absolute paths and command directories do not
   depend on who consumes them *)
Theorem output_bound_to_producer cfg roots fuel m x rx :
  n_targets cfg < fuel -> resolve cfg roots fuel = Ok m -> tmap_get m x = Some rx ->
  exists dx yx,
    lookup_yt cfg x = Some (dx, yx) /\ rt_dir rx = dx /\
    r_files (rt_output rx) = out_files (yt_output yx) dx /\ r_cmds (rt_output rx) = out_cmds (yt_output yx) dx.
Proof.
  intros Hf Hr Hg. destruct (resolve_sound _ _ _ _ Hf Hr) as (_ & _ & Hrt & _).
  destruct (rtarget_of_inv _ _ _ (Hrt _ _ Hg)) as (dx & yx & dpx & orx & oux & Hlx & _ & _ & _ & Heqx).
  exists dx, yx. rewrite Heqx. now repeat split.
Qed.

Lemma out_cmds_dir out dir c : In c (out_cmds out dir) -> cr_dir c = dir /\ In (YOCmd (cr_cmd c)) out.
Proof.
  unfold out_cmds. rewrite in_flat_map. intros [[p e|c'] [Hin Hc]]; [destruct Hc|]. destruct Hc as [<-|[]]. now split.
Qed.

Lemma out_files_paths out dir f :
  In f (out_files out dir) ->
  exists paths exts, In (YOFiles paths exts) out /\ fr_paths f = map (join_path dir) paths /\ fr_exts f = transform_extensions exts.
Proof.
  unfold out_files. rewrite in_flat_map. intros [[p e|c'] [Hin Hc]]; [|destruct Hc]. destruct Hc as [<-|[]].
  exists p, e. now repeat split.
Qed.

(* PathBuf::join on the shapes that matter: a relative path lands below the project directory, an absolute one is kept *)
Lemma join_path_relative dir x p :
  dir <> [] -> ends_with_slash dir = false -> N.eqb x slash = false -> join_path dir (x :: p) = dir ++ slash :: x :: p.
Proof.
  intros Hd Hs Hx. unfold join_path. rewrite Hx, Hs. destruct dir; [congruence | reflexivity].
Qed.

Lemma join_path_absolute dir p : join_path dir (slash :: p) = slash :: p.
Proof. reflexivity. Qed.

(* the form quoted by C13: an `X.output` item among the raw inputs of t makes X a dependency, X is a build target, and
   X's output resources appear, as a contiguous block and unchanged, in t's input (files and commands) *)
Lemma flat_map_segment {A B} (f : A -> list B) l x : In x l -> exists a b, flat_map f l = a ++ f x ++ b.
Proof.
  intros Hin. apply in_split in Hin as [l1 [l2 ->]]. exists (flat_map f l1), (flat_map f l2).
  now rewrite flat_map_app.
Qed.

Theorem inherits cfg roots fuel m t rt dir yt s :
  n_targets cfg < fuel -> resolve cfg roots fuel = Ok m -> tmap_get m t = Some rt ->
  lookup_yt cfg t = Some (dir, yt) -> In (YIDepOutput s) (yt_input yt) ->
  exists X rx,
    parse_oref (t_project t) s = Some X /\ In X (rt_deps rt) /\ tmap_get m X = Some rx /\ rt_kind rx = TBuild /\
    (exists a b, r_files (rt_input rt) = own_files (yt_input yt) dir ++ a ++ r_files (rt_output rx) ++ b) /\
    (exists a b, r_cmds (rt_input rt) = own_cmds (yt_input yt) dir ++ a ++ r_cmds (rt_output rx) ++ b).
Proof.
  intros Hf Hr Hg Hl Hin.
  destruct (inherited_input _ _ _ _ _ _ Hf Hr Hg) as (dir' & yt' & orefs & Hl' & Ho & Hx & Hfi & Hcm).
  rewrite Hl in Hl'. injection Hl' as <- <-.
  assert (Hs : In s (output_strings (yt_input yt))).
  { unfold output_strings. apply in_flat_map. exists (YIDepOutput s). split; [exact Hin | now left]. }
  unfold output_refs in Ho. destruct (all_some_map_in _ _ _ Ho s Hs) as [X [HX HXin]].
  destruct (Hx X HXin) as [Hdep [rx [Hgx Hkx]]]. exists X, rx. repeat split; try assumption.
  - destruct (flat_map_segment (fun x => match tmap_get m x with Some rx => r_files (rt_output rx) | None => [] end) orefs X HXin)
      as [a [b E]]. rewrite Hgx in E. exists a, b. now rewrite Hfi, E.
  - destruct (flat_map_segment (fun x => match tmap_get m x with Some rx => r_cmds (rt_output rx) | None => [] end) orefs X HXin)
      as [a [b E]]. rewrite Hgx in E. exists a, b. now rewrite Hcm, E.
Qed.

(* spelling of `.output` references: bare = the consumer's own project, qualified = the named project *)
Lemma parse_oref_bare cur x :
  valid_name x = true -> parse_oref cur (x ++ dot_output) = Some {| t_project := cur; t_name := x |}.
Proof.
  intros Hx. unfold parse_oref. rewrite (parse_output_ref_spelling x (valid_ref_bare x Hx)).
  apply try_parse_bare. now apply valid_name_no_colon.
Qed.

Lemma parse_oref_qualified cur p x :
  valid_name p = true -> valid_name x = true ->
  parse_oref cur ((p ++ [colon; colon] ++ x) ++ dot_output) = Some {| t_project := Some p; t_name := x |}.
Proof.
  intros Hp Hx. unfold parse_oref. rewrite (parse_output_ref_spelling _ (valid_ref_qualified p x Hp Hx)).
  apply try_parse_qualified; now apply valid_name_no_colon.
Qed.
