(* C17: locality of the start decision. *)
From Zinoma.Proofs Require Export SysC20.

Definition label_actor (l : label) : option tid :=
  match l with
  | LDeliver t _ | LInval t _ | LTermActor t | LBuildDone t _ | LDeliverAt t _ _ => Some t
  | _ => None
  end.

Lemma apply_step_frame s t ib sl tq r s' t0 :
  apply_step s t ib sl tq r = Some s' -> t0 <> t -> actors s' !! t0 = actors s !! t0.
Proof.
  unfold apply_step. destruct r as [[[a' os] ob]|]; [|done]. destruct (route ib (rootq s) os).
  intros [= <-] Hne. cbn. by rewrite lookup_insert_ne.
Qed.

Lemma exec_frame fx w s s' l t :
  exec fx w s l = Some s' -> label_actor l <> Some t -> actors s' !! t = actors s !! t.
Proof.
  destruct l as [t0 ok|t0 ok|t0|t0 r| | | | |ts| |t0 i ok|i]; cbn [exec label_actor]; intros H Hne.
  - destruct (actors s !! t0); [|done]. destruct (inbox s !! t0) as [[|m rest]|]; try done.
    eapply apply_step_frame; [done|congruence].
  - destruct (actors s !! t0); [|done]. case_bool_decide; [|done]. eapply apply_step_frame; [done|congruence].
  - destruct (actors s !! t0); [|done]. case_bool_decide; [|done]. eapply apply_step_frame; [done|congruence].
  - destruct (actors s !! t0) as [a|]; [|done]. destruct (match r with RCancelled => cancel_sent a | _ => true end); [|done].
    eapply apply_step_frame; [done|congruence].
  - destruct (root_running s && _); [|done]. destruct (rootq s) as [|o rest]; [done|].
    injection H as <-. unfold root_consume. destruct w; [done|].
    by destruct o as [[|d] [k r|k r|[] t1 act|k t1]|t1].
  - destruct (root_running s && _ && _); [|done]. destruct (set_empty (r_svc s)); by injection H as <-.
  - destruct (ph s); try done; by injection H as <-.
  - destruct (sigq s && _); [|done]. by injection H as <-.
  - destruct (w && _); [|done]. by injection H as <-.
  - destruct (ph s); try done. destruct (all_exited s); [|done]. by injection H as <-.
  - destruct (actors s !! t0); [|done]. destruct (inbox s !! t0) as [l|]; [|done].
    destruct (pick i l) as [[[pre m] rest]|]; [|done]. destruct (none_from _ _ pre); [|done].
    eapply apply_step_frame; [done|congruence].
  - destruct (root_running s && _); [|done]. destruct (pick i (rootq s)) as [[[pre o] rest]|]; [|done].
    destruct (none_from _ _ pre); [|done]. injection H as <-. unfold root_consume. destruct w; [done|].
    by destruct o as [[|d] [k r|k r|[] t1 act|k t1]|t1].
Qed.
