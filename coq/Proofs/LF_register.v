From Zinoma.Proofs Require Export LiveDefs.
Section facts.
  Context (fx ok : bool) (a : astate) (e : event) (a' : astate) (os : list out) (ob : list obs).
  Context (Hstep : actor_step fx ok a e = Some (a', os, ob)).
  (* LF1: a request of the actor's own kind registers the requester *)
  Lemma step_register k r : e = EMsg (MRequested k r) -> own a k -> r ∈ reqs a' k.
  Proof using Hstep.
    clear -Hstep. unfold own. intros -> Ho. crush_step Hstep; aproj_all; try congruence; set_solver.
  Qed.
  (* LF2: a request of the other kind is answered at once, with nothing behind it *)
  Lemma step_reply k r : e = EMsg (MRequested k r) -> ~ own a k -> OMsg r (MOk k (a_id a) false) ∈ os.
  Proof using Hstep.
    clear -Hstep. unfold own. intros -> Ho. crush_step Hstep; aproj_all; try congruence; try (exfalso; apply Ho; done);
      try (apply elem_of_app; left); solve_elem.
  Qed.
  (* LF6: an acknowledgement makes the dependency available *)
  Lemma step_ok_consumed k d act : e = EMsg (MOk k d act) -> d ∉ unav a' k.
  Proof using Hstep.
    clear -Hstep. intros ->. crush_step Hstep; aproj_all; try congruence; set_solver.
  Qed.
End facts.
