(* C04 progress argument, part 3: root steps, reachability, quiescence, and the theorem. *)
From Zinoma.Proofs Require Export SysLive2.

Section live3.
  Context (g : graph) (roots : list tid).
  Notation wf := (SysInv.wf g).
  Notation live_inv := (live_inv g roots).

  (* a root step that stays in the loop keeps termq, only shrinks what the root waits for, and loses no acknowledgement *)
  Lemma root_step_summary s s' :
    root_step false s s' -> actors s' = actors s -> inbox s' = inbox s -> ph s' = PRun ->
    termq s' = termq s /\ (forall k x, x ∈ r_unav s' k -> x ∈ r_unav s k) /\
    (forall R k d, acked s R k d -> acked s' R k d).
  Proof.
    intros Hrs Hact Hib Hp'.
    assert (Htgt : forall t0 k d act, msg_in s (ATarget t0) (MOk k d act) -> msg_in s' (ATarget t0) (MOk k d act))
      by (intros; cbn in *; by rewrite Hib).
    assert (Hct : forall t0 k d, consumed s (ATarget t0) k d -> consumed s' (ATarget t0) k d)
      by (intros; cbn in *; by rewrite Hact).
    destruct Hrs as [pre o rest Hp Hq Hq' Hign Hp'' (H1&H2&H3) Htq _
                    |pre t rest _ Hp Hq Hq' Hp'' _ _ _
                    |pre t act rest _ Hp Hq Hq' Hp'' H1 H2 H3 Htq _
                    |pre t act rest _ Hp Hq Hq' Hp'' H1 H2 H3 Htq _
                    |_ Hp HB HS Hsv0 Hp'' _ _ _ _
                    |_ Hp HB HS Hsv0 Hp'' _ _ _ _
                    |_ Hp'' Hq' (H1&H2&H3) Htq _
                    |_ _ Hp'' _ _ _ _
                    |st Hp _ Hp'' _ _ _ _]; try congruence.
    - split; [done|]. split; [intros [] x; cbn; by rewrite ?H1, ?H2|].
      intros [|t0] k d [[act Hm]|Hc]; [| |left; eauto|right; eauto].
      + left. exists act. cbn in *. rewrite Hq in Hm. rewrite Hq'. apply elem_of_mid_inv in Hm as [<-|?]; [|done].
        destruct Hign as [?|Hign]; done.
      + right. cbn in *. destruct k; cbn; by rewrite ?H1, ?H2.
    - split; [done|]. split; [intros [] x; cbn; rewrite ?H1, ?H2; set_solver|].
      intros [|t0] k d [[act0 Hm]|Hc]; [| |left; eauto|right; eauto].
      + cbn in Hm. rewrite Hq in Hm. apply elem_of_mid_inv in Hm as [Heq|?].
        * injection Heq as -> -> ->. right. cbn. rewrite H1. set_solver.
        * left. exists act0. cbn. by rewrite Hq'.
      + right. cbn in *. destruct k; cbn in *; rewrite ?H1, ?H2; set_solver.
    - split; [done|]. split; [intros [] x; cbn; rewrite ?H1, ?H2; set_solver|].
      intros [|t0] k d [[act0 Hm]|Hc]; [| |left; eauto|right; eauto].
      + cbn in Hm. rewrite Hq in Hm. apply elem_of_mid_inv in Hm as [Heq|?].
        * injection Heq as -> -> ->. right. cbn. rewrite H2. set_solver.
        * left. exists act0. cbn. by rewrite Hq'.
      + right. cbn in *. destruct k; cbn in *; rewrite ?H1, ?H2; set_solver.
    - split; [done|]. split; [intros [] x; cbn; by rewrite ?H1, ?H2|].
      intros [|t0] k d [[act Hm]|Hc]; [| |left; eauto|right; eauto].
      + left. exists act. cbn in *. by rewrite Hq'.
      + right. cbn in *. destruct k; cbn; by rewrite ?H1, ?H2.
  Qed.

  Lemma live_inv_root_step s s' :
    live_inv s -> actors s' = actors s -> inbox s' = inbox s -> hist s' = hist s ->
    (forall o, o ∈ rootq s' -> o ∈ rootq s) -> root_step false s s' -> ph s' = PRun -> live_inv s'.
  Proof.
    intros Hli Hact Hib Hh Hrq Hrs Hp'.
    destruct (root_step_summary s s' Hrs Hact Hib Hp') as (Htq & Hsub & Hacked).
    assert (Hmi : forall dst m, msg_in s' dst m -> msg_in s dst m).
    { intros [|d] m; cbn; [apply Hrq|by rewrite Hib]. }
    assert (Hw : forall R d k, wants roots s' R d k -> wants roots s R d k).
    { intros [|t0] d k; cbn; [done|by rewrite Hact]. }
    split.
    - intros t Hg. rewrite Hact. by apply (li_dom _ _ _ Hli).
    - intros t a. rewrite Hact. by apply (li_calm _ _ _ Hli).
    - rewrite Htq. by apply (li_termq _ _ _ Hli).
    - intros dst k r Hin. by eapply (li_nounreq _ _ _ Hli), Hmi.
    - intros R d k ad Hwn Had. rewrite Hact in Had.
      destruct (li_req _ _ _ Hli R d k ad (Hw _ _ _ Hwn) Had) as [Hpend|[?|[Hno Hack]]].
      + left. cbn in *. by rewrite Hib.
      + by right; left.
      + right; right. split; [done|by apply Hacked].
    - intros d ad R k Had Ho HR Hd. rewrite Hact in Had. apply Hacked. by eapply (li_ack _ _ _ Hli d ad).
    - intros d ad. rewrite Hact. by apply (li_nopend _ _ _ Hli).
    - intros d ad. rewrite Hact, Hh. by apply (li_flags _ _ _ Hli).
    - intros d ad k x. rewrite Hact. by apply (li_unavsub _ _ _ Hli).
    - intros k x Hx. apply (li_rsub _ _ _ Hli k). by apply Hsub.
  Qed.

  Lemma live_inv_reachable s : reachable true false g roots s -> ph s = PRun -> live_inv s.
  Proof.
    revert s. apply (reachable_ind true false g roots (fun s => ph s = PRun -> live_inv s)).
    - intros _. apply live_inv_init.
    - intros s0 l s1 Hr IH He Hp1.
      pose proof (exec_inv _ _ _ _ _ He) as Hsi.
      pose proof (phase_back _ _ _ _ Hsi Hp1) as Hp0. specialize (IH Hp0).
      pose proof (wf_reachable true false g roots s0 Hr) as Hwf.
      pose proof (oneshot_inv_reachable true g roots s0 Hr) as Hoi.
      destruct Hsi as [t a e ok a' os ob Ha Hst Hact Hh Hmsg Herr Hm Hinv Hterm Hsl Htq Hroot Hkeep Hdel Hcan
                      |Hact Hib Hh _ Hrq Hrs|ts Hw _ _ _ _ _ _ _]; [| |done].
      + assert (Hpl : plain e) by (by eapply (event_plain g roots s0 t a e)).
        by eapply (live_inv_actor_step g roots s0 s1 t a e ok a' os ob).
      + by eapply live_inv_root_step.
  Qed.
End live3.
