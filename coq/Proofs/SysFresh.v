(* Freshness (C06 / C01, any mode): the run a build is in, or was last acknowledged for, saw the LATEST success of each of its
   build dependencies — unless the out-of-date notice that says otherwise is already waiting in its inbox.
   ran_after h R x: some start of R in h has no success of x after it (so the last success of x precedes the last start of R). *)
From Zinoma.Proofs Require Export SysWatchLive4 AF_clean.

Definition ran_after (h : list obs) (R x : tid) : Prop :=
  exists h1 h2, h = h1 ++ ObStart R :: h2 /\ ObSucc x ∉ h2.

Lemma fresh_keep h ob R x : ran_after h R x -> ObSucc x ∉ ob -> ran_after (h ++ ob) R x.
Proof.
  intros (h1 & h2 & -> & Hn) Hob. exists h1, (h2 ++ ob). split; [by rewrite <- app_assoc|].
  intros Hin. apply elem_of_app in Hin as [?|?]; done.
Qed.

Lemma fresh_start h ob R x : ObStart R ∈ ob -> ObSucc x ∉ ob -> ran_after (h ++ ob) R x.
Proof.
  intros Hin Hn. apply elem_of_list_split in Hin as (o1 & o2 & ->).
  exists (h ++ o1), o2. split; [by rewrite <- app_assoc|]. intros Hs. apply Hn. apply elem_of_app. right. by apply elem_of_list_further.
Qed.

Lemma classic_clean a : clean a \/ ~ clean a.
Proof. unfold clean. destruct (executed a), (ongoing a), (to_execute a); first [left; tauto | right; intros [?|[? ?]]; done]. Qed.

Section freshness.
  Context (g : graph) (roots : list tid) (w : bool).
  Context (rank : tid -> nat).
  Context (Hclosed : forall t k deps d, g !! t = Some (k, deps) -> d ∈ deps -> is_Some (g !! d)).
  Context (Hrank : forall t k deps d, g !! t = Some (k, deps) -> d ∈ deps -> rank d < rank t).

  Record fresh_inv (s : sys) : Prop := {
    fi_unav : forall R aR, actors s !! R = Some aR -> a_kind aR <> AAggregate -> clean aR -> unavB aR = ∅;
    fi_fresh : forall R aR x ax, actors s !! R = Some aR -> a_kind aR <> AAggregate -> actors s !! x = Some ax -> a_kind ax = ABuild ->
                 x ∈ a_deps aR -> clean aR -> MInvalidated KB x ∉ inb (inbox s) R -> ran_after (hist s) R x
  }.

  Lemma fresh_inv_init : fresh_inv (init_sys g roots).
  Proof.
    split.
    - intros R aR HR _ Hc. apply (init_actor_lookup g roots) in HR as (k & deps & _ & ->). by destruct Hc as [?|[? _]].
    - intros R aR x ax HR _ _ _ _ Hc. apply (init_actor_lookup g roots) in HR as (k & deps & _ & ->). by destruct Hc as [?|[? _]].
  Qed.

  Lemma fresh_inv_step s l s' :
    reachable true w g roots s -> ph s = PRun -> exec true w s l = Some s' -> fresh_inv s -> fresh_inv s'.
  Proof.
    intros Hr Hp He Hfi.
    pose proof (winv_reachable g roots w rank Hclosed Hrank s Hr Hp) as Hwi.
    pose proof (wf_reachable true w g roots s Hr) as Hwf.
    destruct (exec_fifo _ _ _ _ _ He) as [t a e ok a' os ob pre rest Ha Hst Hact Hhead Hib Hph Htq Hterm Hh|Hact Hib Hpt Hh].
    2:{ split.
        - intros R aR. rewrite Hact. apply (fi_unav _ Hfi).
        - intros R aR x ax. rewrite Hact, Hib, Hh. apply (fi_fresh _ Hfi). }
    destruct (Hwf t a Ha) as [Hid Hg].
    destruct (step_same_id _ _ _ _ _ _ _ Hst) as (Hid' & Hk' & Hdeps').
    assert (Hlook : forall y ay, actors s' !! y = Some ay -> (y = t /\ ay = a') \/ (y <> t /\ actors s !! y = Some ay)).
    { intros y ay Hy. rewrite Hact in Hy. destruct (decide (y = t)) as [->|Hne].
      - rewrite lookup_insert in Hy. injection Hy as <-. by left.
      - rewrite lookup_insert_ne in Hy by done. by right. }
    assert (Hobs : forall y, y <> t -> ObSucc y ∉ ob).
    { intros y Hne Hin. pose proof (step_obs_self _ _ _ _ _ _ _ Hst _ Hin) as Ht. cbn in Ht. congruence. }
    split.
    - intros R aR HR Hk Hc. destruct (Hlook R aR HR) as [[-> ->]|[_ HR0]]; [|by apply (fi_unav _ Hfi R aR)].
      rewrite Hk' in Hk. eapply (step_clean_unav _ _ _ _ _ _ _ Hst Hk); [by apply (fi_unav _ Hfi t a)| |done].
      by destruct (wi_flags _ _ Hwi t a Ha).
    - intros R aR x ax HR HkR Hx Hkx Hdep Hc Hni. rewrite Hh.
      destruct (Hlook R aR HR) as [[-> ->]|[HneR HR0]].
      + (* R itself steps *)
        rewrite Hk' in HkR. rewrite Hdeps' in Hdep.
        assert (HxR : x <> t) by (by eapply (dep_ne g rank Hrank s t a x)).
        destruct (Hlook x ax Hx) as [[? _]|[_ Hx0]]; [done|].
        assert (Hibt : inb (inbox s') t = (pre ++ rest) ++ msgs_to t os) by (rewrite Hib; by rewrite decide_True).
        destruct (classic_clean a) as [Hca|Hnc].
        * (* it was clean: nothing of x happened; the notice was not there before either *)
          apply fresh_keep; [|by apply Hobs].
          apply (fi_fresh _ Hfi t a x ax Ha HkR Hx0 Hkx Hdep Hca).
          intros Hin. destruct e as [m| | |r].
          -- destruct Hhead as [Hhead _]. rewrite Hhead in Hin. apply elem_of_mid_inv in Hin as [<-|Hin].
             ++ (* the notice is being handled now: the build is re-armed, hence not clean *)
                pose proof (step_inval_rearmed _ _ _ _ _ _ _ Hst HkR x eq_refl) as Hte.
                destruct (wi_flags _ _ Hwi t a Ha) as [_ _].
                pose proof (step_wflagsK _ _ _ _ _ _ Hst (wi_flags _ _ Hwi t a Ha)) as [Hfok' _].
                destruct Hc as [Hex|[_ Hte']]; [rewrite (Hfok' Hex) in Hte; done|congruence].
             ++ apply Hni. rewrite Hibt. apply elem_of_app. by left.
          -- destruct Hhead as [-> ->]. apply Hni. rewrite Hibt. apply elem_of_app. by left.
          -- destruct Hhead as [-> ->]. apply Hni. rewrite Hibt. apply elem_of_app. by left.
          -- destruct Hhead as [-> ->]. apply Hni. rewrite Hibt. apply elem_of_app. by left.
        * (* it was not clean: it has just started *)
          apply fresh_start; [|by apply Hobs]. rewrite <- Hid. by eapply (step_clean_by_start _ _ _ _ _ _ _ Hst HkR).
      + (* another actor steps: R and its cleanliness are unchanged, its inbox only grows *)
        assert (HibR : inb (inbox s') R = inb (inbox s) R ++ msgs_to R os) by (rewrite Hib; by rewrite decide_False).
        assert (Hni0 : MInvalidated KB x ∉ inb (inbox s) R) by (intros Hin; apply Hni; rewrite HibR; apply elem_of_app; by left).
        destruct (Hlook x ax Hx) as [[-> ->]|[Hnex Hx0]].
        * (* x steps *)
          rewrite Hk' in Hkx.
          pose proof (fi_fresh _ Hfi R aR t a HR0 HkR Ha Hkx Hdep Hc Hni0) as Hf.
          destruct (decide (ObSucc t ∈ ob)) as [Hs|Hns]; [|by apply fresh_keep].
          exfalso.
          (* x completes now: it was in progress, hence could not acknowledge; R is clean, so it has recorded x as available:
             the latest word from x in R's inbox must be the out-of-date notice *)
          destruct (step_succ_was_ongoing _ _ _ _ _ _ _ Hst t Hkx Hs) as [Hon _].
          destruct (wi_flags _ _ Hwi t a Ha) as [_ Hrun]. pose proof (Hrun Hkx Hon) as Hex.
          pose proof (fi_unav _ Hfi R aR HR0 HkR Hc) as Hu.
          assert (Hown : own a KB) by (unfold own; by rewrite Hkx).
          destruct (decide (ATarget R ∈ reqs a KB)) as [Hreg|Hnreg].
          -- pose proof (wi_view _ _ Hwi R aR t a KB HR0 Ha Hown Hreg) as Hv.
             unfold availb in Hv. rewrite Hkx, Hex in Hv. unfold view in Hv.
             destruct (lastw (inb (inbox s) R) KB t) as [b|] eqn:E.
             ++ subst b. destruct (lastw_some _ _ _ _ E) as (m & Hin & Hw). apply mword_inval in Hw as ->. done.
             ++ apply bool_decide_eq_false in Hv. apply Hv. cbn. rewrite Hu. set_solver.
          -- destruct (wi_fresh _ _ Hwi R aR t a KB HR0 Ha Hdep Hown Hnreg) as [_ Hin]. cbn in Hin. rewrite Hu in Hin. set_solver.
        * (* a third actor steps *)
          apply fresh_keep; [|by apply Hobs]. by apply (fi_fresh _ Hfi R aR x ax).
  Qed.

  Lemma exec_ph_back l s s' : exec true w s l = Some s' -> ph s' = PRun -> ph s = PRun.
  Proof.
    intros He Hp. destruct (exec_fifo _ _ _ _ _ He) as [t a e ok a' os ob pre rest _ _ _ _ _ Hph _ _ _|_ _ Hpt _].
    - by rewrite <- Hph.
    - by destruct (Hpt Hp).
  Qed.

  Lemma fresh_inv_reachable s : reachable true w g roots s -> ph s = PRun -> fresh_inv s.
  Proof.
    revert s. apply (reachable_ind true w g roots (fun s => ph s = PRun -> fresh_inv s)).
    - intros _. apply fresh_inv_init.
    - intros s0 l s1 Hr IH He Hp1. pose proof (exec_ph_back l s0 s1 He Hp1) as Hp0.
      apply (fresh_inv_step s0 l s1 Hr Hp0 He). by apply IH.
  Qed.

  (* Repaired handlers, any mode, every closed acyclic graph, every sequence of changes, every interleaving and merge order.
     In every reachable state inside the root loop: if the build or service R is acknowledged (or, a build, its run is in progress and has
     not been re-armed) and no out-of-date notice from its build dependency x is waiting in R's inbox, then the last success of x
     precedes the last start of R: the run R is acknowledged for saw the latest output of x. *)
  Theorem acknowledged_run_is_fresh s R aR x ax :
    reachable true w g roots s -> ph s = PRun ->
    actors s !! R = Some aR -> a_kind aR <> AAggregate -> actors s !! x = Some ax -> a_kind ax = ABuild -> x ∈ a_deps aR ->
    clean aR -> MInvalidated KB x ∉ inb (inbox s) R -> ran_after (hist s) R x.
  Proof. intros Hr Hp. exact (fi_fresh _ (fresh_inv_reachable s Hr Hp) R aR x ax). Qed.

  (* ... in particular once the run has settled: every requested build ran last after the last success of each of its build
     dependencies *)
  Theorem settled_run_saw_latest_dependency s R aR x ax :
    reachable true w g roots s -> ph s = PRun -> quiescent true w s = true -> none_failed s ->
    actors s !! R = Some aR -> a_kind aR <> AAggregate -> (forall k, own aR k -> reqs aR k <> ∅) ->
    actors s !! x = Some ax -> a_kind ax = ABuild -> x ∈ a_deps aR ->
    ran_after (hist s) R x.
  Proof.
    intros Hr Hp Hq Hnf HR HkR Hreq Hx Hkx Hdep.
    eapply (acknowledged_run_is_fresh s R aR x ax); try done.
    - left. pose proof (quiescent_up_to_date g roots w rank Hclosed Hrank s Hr Hp Hq Hnf R aR) as Hav.
      unfold availb, own in *. destruct (a_kind aR) eqn:Hk; [| |done].
      + apply (Hav KB HR eq_refl). by apply Hreq.
      + apply (Hav KS HR eq_refl). by apply Hreq.
    - rewrite (wq3_inbox_empty g roots w rank Hclosed Hrank s Hr Hp Hq R aR HR). by intros ?%elem_of_nil.
  Qed.
End freshness.
