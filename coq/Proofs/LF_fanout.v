From Zinoma.Proofs Require Export LiveDefs.

(* LF3: the first registration fans the request out to every dependency (both kinds for builds and services) *)
Lemma step_fanout_first fx ok a a' os ob k r k' :
  actor_step fx ok a (EMsg (MRequested k r)) = Some (a', os, ob) ->
  own a k -> reqs a k = ∅ -> (a_kind a = AAggregate -> k' = k) ->
  forall d, d ∈ a_deps a -> OMsg (ATarget d) (MRequested k' (ATarget (a_id a))) ∈ os.
Proof.
  intros Hstep Ho Hemp Hk d Hd.
  assert (Hnin : bool_decide (r ∈ reqs a k) = false) by (apply bool_decide_eq_false; rewrite Hemp; set_solver).
  assert (Hsz : bool_decide (size (reqs a k ∪ {[r]}) = 1) = true).
  { apply bool_decide_eq_true. rewrite Hemp, union_empty_l_L. apply size_singleton. }
  assert (Hreq : forall x kk, OMsg (ATarget d) (MRequested kk (ATarget (a_id a))) ∈ request_deps (set_reqs a k x) kk).
  { intros x kk. apply elem_request_deps. exists d. autorewrite with aproj. split; [assumption|reflexivity]. }
  unfold own in Ho. unfold actor_step in Hstep. destruct (a_kind a) eqn:Hkind.
  - subst k. unfold build_step in Hstep. destruct (exited a); [done|]. cbn [build_handle_msg] in Hstep.
    cbn [reqs] in Hnin, Hsz. rewrite Hnin in Hstep. cbn [negb andb] in Hstep.
    assert (Hs2 : bool_decide (size (reqB (set_reqs a KB (reqB a ∪ {[r]}))) = 1) = true) by (cbn; exact Hsz).
    rewrite Hs2 in Hstep. destruct (build_top _) as [a2 ob2]. injection Hstep as <- <- <-.
    apply elem_of_app; left. destruct k'; apply elem_of_app; [left|right]; apply (Hreq _ _).
  - subst k. unfold service_step in Hstep. destruct (exited a); [done|]. cbn [service_handle_msg] in Hstep.
    cbn [reqs] in Hnin, Hsz. rewrite Hnin in Hstep. cbn [negb andb] in Hstep.
    assert (Hs2 : bool_decide (size (reqS (set_reqs a KS (reqS a ∪ {[r]}))) = 1) = true) by (cbn; exact Hsz).
    rewrite Hs2 in Hstep. destruct (service_top _ _) as [[a2 o2] ob2]. injection Hstep as <- <- <-.
    apply elem_of_app; left. apply elem_of_app; left. destruct k'; apply elem_of_app; [left|right]; apply (Hreq _ _).
  - specialize (Hk eq_refl). subst k'. unfold aggregate_step in Hstep. destruct (exited a); [done|].
    cbn [aggregate_handle_msg] in Hstep. rewrite Hnin in Hstep. cbn [negb] in Hstep.
    assert (Hs2 : bool_decide (size (reqs (set_reqs a k (reqs a k ∪ {[r]})) k) = 1) = true).
    { rewrite reqs_set_reqs, decide_True by done. exact Hsz. }
    rewrite Hs2 in Hstep. injection Hstep as <- <- <-. apply elem_of_app; left. apply (Hreq _ _).
Qed.
