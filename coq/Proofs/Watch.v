From Zinoma.Model Require Import Bytes Ext Watch.
From Zinoma.Proofs Require Import Bytes Ext.
From Coq Require Import Lia.

Lemma after_rec W o : w_rec (after W o) = w_rec W.
Proof. destruct o; reflexivity. Qed.
Lemma after_flat W o : w_flat (after W o) = w_flat W.
Proof. destruct o; reflexivity. Qed.

(* what does not depend on the inode watches is reported whatever happened before *)
Definition stably_reported (W : wset) (p : bytes) : bool :=
  existsb (fun d => lprefix (pseq d) (pseq p)) (w_rec W) ||
  existsb (fun d => match parent_seq (pseq p) with Some q => lbeq q d | None => false end) (w_flat W).

Lemma stably_reported_reported W p : stably_reported W p = true -> reported W p = true.
Proof.
  unfold stably_reported, reported. intros H. apply orb_true_iff in H as [H|H]; rewrite H; [reflexivity|].
  now rewrite orb_true_r.
Qed.

Lemma stably_after W o p : stably_reported (after W o) p = stably_reported W p.
Proof. unfold stably_reported. now rewrite after_rec, after_flat. Qed.

Lemma run_ops_stable : forall ops W,
  (forall o, In o ops -> stably_reported W (op_path o) = true) -> Forall (fun b => b = true) (run_ops W ops).
Proof.
  induction ops as [|o ops IH]; intros W H; cbn [run_ops]; constructor.
  - apply stably_reported_reported. apply H. now left.
  - apply IH. intros o' Ho'. rewrite stably_after. apply H. now right.
Qed.

Lemma in_file_dirs dirs files f q :
  In f files -> existsb (fun d => lprefix (pseq d) (pseq f)) dirs = false -> parent_seq (pseq f) = Some q -> In q (file_dirs dirs files).
Proof.
  intros Hin Hnc Hp. unfold file_dirs. apply in_flat_map. exists f. split; [exact Hin|]. rewrite Hnc, Hp. now left.
Qed.

(* AFTER THE REPAIR: every operation on a declared file — rewritten in place or replaced by a rename, any number of times, in any
   order — is reported (its path has a parent: it is not the root) *)
Lemma fixed_reports_every_change dirs files f q ops :
  In f files -> parent_seq (pseq f) = Some q ->
  (forall o, In o ops -> pseq (op_path o) = pseq f) ->
  Forall (fun b => b = true) (run_ops (watches_fixed dirs files) ops).
Proof.
  intros Hin Hp Hops. apply run_ops_stable. intros o Ho. unfold stably_reported, watches_fixed. cbn [w_rec w_flat].
  rewrite (Hops o Ho). destruct (existsb (fun d => lprefix (pseq d) (pseq f)) dirs) eqn:Hc; [reflexivity|].
  rewrite orb_false_l. apply existsb_exists. exists q. split; [now apply (in_file_dirs dirs files f q)|]. rewrite Hp. apply lbeq_refl.
Qed.

(* everything below a declared directory is reported, before and after the repair *)
Lemma below_declared_dir_reported dirs files d ops (fixed : bool) :
  In d dirs -> (forall o, In o ops -> lprefix (pseq d) (pseq (op_path o)) = true) ->
  Forall (fun b => b = true) (run_ops (if fixed then watches_fixed dirs files else watches_pinned dirs files) ops).
Proof.
  intros Hin Hops. apply run_ops_stable. intros o Ho. unfold stably_reported.
  assert (H : existsb (fun d0 => lprefix (pseq d0) (pseq (op_path o))) dirs = true).
  { apply existsb_exists. exists d. split; [exact Hin|now apply Hops]. }
  destruct fixed; cbn [watches_fixed watches_pinned w_rec]; now rewrite H.
Qed.

(* no declared file: the repair changes nothing *)
Lemma fixed_eq_pinned_without_files dirs : watches_fixed dirs [] = watches_pinned dirs [].
Proof. reflexivity. Qed.

(* D16, on the assumed semantics: before the repair one atomic save of a declared file ends the reports about it *)
Lemma pinned_file_watch_lost :
  let f := [47;112;47;99;111;110;102;47;115;46;105;110;105] in      (* "/p/conf/s.ini" *)
  run_ops (watches_pinned [] [f]) [OpReplace f; OpModify f; OpReplace f] = [true; false; false] /\
  run_ops (watches_fixed [] [f]) [OpReplace f; OpModify f; OpReplace f] = [true; true; true].
Proof. vm_compute. split; reflexivity. Qed.
