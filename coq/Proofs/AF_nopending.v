From Zinoma.Proofs Require Export ActorFacts.
Section facts.
  Context (fx ok : bool) (a : astate) (e : event) (a' : astate) (os : list out) (ob : list obs).
  Context (Hstep : actor_step fx ok a e = Some (a', os, ob)).
  (* at the end of every step the start condition has been acted upon: a build that is due is in progress, a service
     that is due has been (re)started (so its to_execute flag is cleared) *)
  Lemma step_no_pending_start k :
    a_kind a = (match k with KB => ABuild | KS => AService end) -> exited a' = false ->
    to_execute a' = true -> reqs a' k <> ∅ -> unavB a' = ∅ -> unavS a' = ∅ -> ongoing a' = true.
  Proof using Hstep.
    clear -Hstep. intros Hk Hex Hte Hreq HB HS.
    assert (Hse : forall x, to_execute x = true -> reqs x k <> ∅ -> unavB x = ∅ -> unavS x = ∅ -> should_execute x k = true).
    { intros x H1 H2 H3 H4. unfold should_execute. rewrite H1. cbn.
      apply andb_true_iff; split; [apply andb_true_iff; split|]; [apply negb_true_iff; by apply set_empty_false|by apply set_empty_true|by apply set_empty_true]. }
    destruct k; crush_step Hstep; aproj_all; try congruence; bool_hyps;
      try (match goal with H : should_execute ?x _ && _ = false |- _ =>
             rewrite (Hse x) in H by (aproj_all; done); cbn in H; apply negb_false_iff in H; aproj_all; done end);
      try (match goal with H : should_execute ?x _ = false |- _ =>
             rewrite (Hse x) in H by (aproj_all; done); done end);
      try congruence.
    all: match goal with H : should_execute ?x ?k && _ = false |- _ =>
           let Hs := fresh in
           assert (should_execute x k = true) as Hs by (apply Hse; cbn; first [assumption | congruence]);
           rewrite Hs in H; cbn in H; congruence end.
  Qed.
End facts.
