#!/bin/sh
# regenerates _CoqProject from the files present (Model/ Proofs/ Properties/ + Extract.v)
cd "$(dirname "$0")"
{
  echo "-Q . Zinoma"
  echo "-arg -w -arg -notation-overridden,-redundant-canonical-projection,-deprecated-hint-without-locality,-ambiguous-paths,-deprecated-instance-without-locality"
  ls Model/*.v Proofs/*.v Properties/*.v 2>/dev/null
  [ -f Extract.v ] && echo Extract.v
} > _CoqProject
coq_makefile -f _CoqProject -o Makefile >/dev/null
