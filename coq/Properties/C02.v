(* C02 — a build is skipped only when nothing it declares has changed.
   Property theorems only: each is closed by `exact <lemma>`; assumptions are printed by the check.
   Model: Model/Incremental.v (`decide_skip` = the code after the repairs FX3/FX4/FX5; the pinned code is `*_pinned`).
   `hash` stands for SeaHash: "recorded content" reads "content with the recorded hash" (DESIGN.md §3). The listing of a files
   resource is GIVEN (`w_list`, a set of paths: `worlds_ok`); slice FS relates it to the tree. *)
From Zinoma.Model Require Import Bytes Cfg Codec Incremental.
From Zinoma.Proofs Require Import Codec CodecRoundtrip IncrementalKeys Incremental IncrementalChanges IncrementalCycle
  IncrementalPinned IncrementalExamples.

(* a skip implies: a state file exists and decodes, the target declares inputs, and — for the input and for the output
   resources — the recorded file set equals the listed one, every listed file has the recorded mtime or the recorded
   content hash, and every declared command prints the recorded text *)
Theorem C02_skip_sound : forall hash w disk input output,
  worlds_ok w input output ->
  decide_skip hash w disk input output = true ->
  exists bs e rest, disk = Some bs /\ dec_env bs = Some (e, rest) /\ resources_is_empty input = false /\
                    env_matches hash w e input output.
Proof. exact skip_sound. Qed.

(* ... and that record was written, in full, by a run of this target whose script succeeded: over every history of cycles
   from an absent state file — whatever the worlds, outcomes (failure, spawn failure, cancellation) and crash points (any
   step, any byte offset of the write) — a skip names the cycle that recorded the state being compared *)
Theorem C02_skip_only_after_recorded_success : forall hash h w input output,
  Forall (fun cc => cycle_ok hash (fst cc)) h -> worlds_ok w input output ->
  decide_skip hash w (run_history hash ckey_eqb true h None) input output = true ->
  exists bs e, run_history hash ckey_eqb true h None = Some bs /\ written_by hash (map fst h) bs e /\
               dec_env bs = Some (e, []) /\ env_matches hash w e input output.
Proof. exact skip_after_recorded_success. Qed.

(* the absence of a record forces the script to run *)
Theorem C02_no_record_runs : forall hash w input output, decide_skip hash w None input output = false.
Proof. exact no_record_runs. Qed.

(* the changes the property names, each forcing the script to run (contrapositives of C02_skip_sound; `e` is the decoded record):
   a file listed now that was not recorded (added / new name of a renamed file) *)
Theorem C02_added_file_runs : forall hash w bs e rest input output,
  worlds_ok w input output -> dec_env bs = Some (e, rest) ->
  forall p, In p (w_list w (r_files input)) -> ~ In (pkey p) (keys pkey (rs_fs (es_input e))) ->
  decide_skip hash w (Some bs) input output = false.
Proof. exact added_input_file_runs. Qed.

(* a recorded file that is not listed any more (removed / old name of a renamed file) *)
Theorem C02_removed_file_runs : forall hash w bs e rest input output,
  worlds_ok w input output -> dec_env bs = Some (e, rest) ->
  forall k, In k (keys pkey (rs_fs (es_input e))) -> ~ In k (map pkey (w_list w (r_files input))) ->
  decide_skip hash w (Some bs) input output = false.
Proof. exact removed_input_file_runs. Qed.

(* a listed file with another mtime AND another content hash than recorded (rewritten) *)
Theorem C02_rewritten_file_runs : forall hash w bs e rest input output,
  worlds_ok w input output -> dec_env bs = Some (e, rest) ->
  forall p m h m' c,
  In p (w_list w (r_files input)) -> alookup path_eqb p (rs_fs (es_input e)) = Some (m, h) ->
  w_mtime w p = Some m' -> m' <> m -> w_read w p = Some c -> hash c <> h ->
  decide_skip hash w (Some bs) input output = false.
Proof. exact rewritten_input_file_runs. Qed.

(* a declared command that prints something else than the recorded text, or fails *)
Theorem C02_changed_command_runs : forall hash w bs e rest input output,
  worlds_ok w input output -> dec_env bs = Some (e, rest) ->
  forall c, In c (r_cmds input) ->
  w_cmd w (cr_cmd c) (cr_dir c) <> alookup ckey_eqb (cr_cmd c, cr_dir c) (rs_cmd (es_input e)) ->
  decide_skip hash w (Some bs) input output = false.
Proof. exact changed_command_runs. Qed.

(* the same on the output side: a record without output state, or whose output state does not match the declared outputs *)
Theorem C02_changed_output_runs : forall hash w bs e rest input output,
  worlds_ok w input output -> dec_env bs = Some (e, rest) ->
  forall o, output = Some o -> (forall ro, es_output e = Some ro -> ~ res_matches hash w ro o) ->
  decide_skip hash w (Some bs) input output = false.
Proof. exact changed_output_runs. Qed.

(* pinned code (DESIGN.md §7 D6): command outputs keyed by the command text only — the same text declared in two directories,
   one output changes to the other's value, the build is skipped *)
Theorem C02_keyed_by_text_refuted : forall hash : bytes -> N,
  exists input output w0 w1 e,
    current_env_pinned hash w0 input output = CurSome e /\
    (exists c, In c (r_cmds input) /\ w_cmd w1 (cr_cmd c) (cr_dir c) <> w_cmd w0 (cr_cmd c) (cr_dir c)) /\
    skip_on_record_pinned hash w1 (Some e) input output = true.
Proof. exact keyed_by_text_wrong_skip. Qed.

(* the same history on the repaired model: rebuilt *)
Theorem C02_keyed_by_dir_repaired : forall hash : bytes -> N,
  exists e, current_env hash ckey_eqb (world_pq txt_a txt_b) two_cmds (Some resources_empty) = CurSome e /\
            skip_on_record hash ckey_eqb true (world_pq txt_b txt_b) (Some e) two_cmds (Some resources_empty) = false.
Proof. exact keyed_by_dir_no_wrong_skip. Qed.

(* non-vacuity: after one successful cycle the same world is skipped; so is a changed mtime with the same content and a
   changed content with the same mtime (the property's "or"); a changed mtime AND content, or a changed command output, is not *)
Example C02_nonvacuous :
  ex_skip (ex_world 5 [1] txt_a) ex_disk = true /\ ex_skip (ex_world 7 [1] txt_a) ex_disk = true /\
  ex_skip (ex_world 5 [2] txt_a) ex_disk = true /\ ex_skip (ex_world 7 [2] txt_a) ex_disk = false /\
  ex_skip (ex_world 5 [1] txt_b) ex_disk = false /\ ex_skip (ex_world 5 [1] txt_a) None = false.
Proof. vm_compute. repeat split. Qed.

(* "whose script succeeded" is decided by engine/builder.rs (Model/Builder.v): completed = spawned, not cancelled, exit code 0 *)
From Zinoma.Model Require Import Builder.
From Zinoma.Proofs Require Import Builder.

Theorem C02_completed_iff_exit_zero : forall spawn_ok cancelled_first st,
  build_report spawn_ok cancelled_first st = RepCompleted <-> spawn_ok = true /\ cancelled_first = false /\ st = WExited 0%N.
Proof. exact completed_iff. Qed.
