(* C02 — a build is skipped only when nothing it declares has changed.
   Property theorems only: each is closed by `exact <lemma>`; assumptions are printed by the check.
   Model: Model/Incremental.v (`decide_skip` = the code after the repairs FX3/FX4/FX5; the pinned code is `*_pinned`).
   `hash` stands for SeaHash: "recorded content" reads "content with the recorded hash" (DESIGN.md §3). The listing of a files
   resource is GIVEN (`w_list`, a set of paths: `worlds_ok`); slice FS relates it to the tree. *)
From Zinoma.Model Require Import Bytes Cfg Codec Incremental.
From Zinoma.Proofs Require Import Codec CodecRoundtrip IncrementalKeys Incremental IncrementalCycle IncrementalPinned
  IncrementalExamples.

(* a skip implies: a state file exists and decodes, the target declares inputs, and — for the input and for the output
   resources — the recorded file set equals the listed one, every listed file has the recorded mtime or the recorded
   content hash, and every declared command prints the recorded text *)
Theorem C02_skip_sound : forall hash w disk input output,
  worlds_ok w input output ->
  decide_skip hash w disk input output = true ->
  exists bs e rest, disk = Some bs /\ dec_env bs = Some (e, rest) /\ resources_is_empty input = false /\
                    env_matches hash w e input output.
Proof. exact skip_sound. Qed.

(* ... and that record was written, in full, by a run of this target whose script succeeded: over every history of cycles
   from an absent state file — whatever the worlds, outcomes (failure, spawn failure, cancellation) and crash points (any
   step, any byte offset of the write) — a skip names the cycle that recorded the state being compared *)
Theorem C02_skip_only_after_recorded_success : forall hash h w input output,
  Forall (fun cc => cycle_ok hash (fst cc)) h -> worlds_ok w input output ->
  decide_skip hash w (run_history hash ckey_eqb true h None) input output = true ->
  exists bs e, run_history hash ckey_eqb true h None = Some bs /\ written_by hash (map fst h) bs e /\
               dec_env bs = Some (e, []) /\ env_matches hash w e input output.
Proof. exact skip_after_recorded_success. Qed.

(* the absence of a record forces the script to run *)
Theorem C02_no_record_runs : forall hash w input output, decide_skip hash w None input output = false.
Proof. exact no_record_runs. Qed.

(* pinned code (DESIGN.md §7 D6): command outputs keyed by the command text only — the same text declared in two directories,
   one output changes to the other's value, the build is skipped *)
Theorem C02_keyed_by_text_refuted : forall hash : bytes -> N,
  exists input output w0 w1 e,
    current_env_pinned hash w0 input output = CurSome e /\
    (exists c, In c (r_cmds input) /\ w_cmd w1 (cr_cmd c) (cr_dir c) <> w_cmd w0 (cr_cmd c) (cr_dir c)) /\
    skip_on_record_pinned hash w1 (Some e) input output = true.
Proof. exact keyed_by_text_wrong_skip. Qed.

(* the same history on the repaired model: rebuilt *)
Theorem C02_keyed_by_dir_repaired : forall hash : bytes -> N,
  exists e, current_env hash ckey_eqb (world_pq txt_a txt_b) two_cmds (Some resources_empty) = CurSome e /\
            skip_on_record hash ckey_eqb true (world_pq txt_b txt_b) (Some e) two_cmds (Some resources_empty) = false.
Proof. exact keyed_by_dir_no_wrong_skip. Qed.

(* non-vacuity: after one successful cycle the same world is skipped; so is a changed mtime with the same content and a
   changed content with the same mtime (the property's "or"); a changed mtime AND content, or a changed command output, is not *)
Example C02_nonvacuous :
  ex_skip (ex_world 5 [1] txt_a) ex_disk = true /\ ex_skip (ex_world 7 [1] txt_a) ex_disk = true /\
  ex_skip (ex_world 5 [2] txt_a) ex_disk = true /\ ex_skip (ex_world 7 [2] txt_a) ex_disk = false /\
  ex_skip (ex_world 5 [1] txt_b) ex_disk = false /\ ex_skip (ex_world 5 [1] txt_a) None = false.
Proof. vm_compute. repeat split. Qed.
