(* C18 — recorded state is per target and independent of how the target was reached.
   Property theorems only: each is closed by `exact <lemma>`; assumptions are printed by the check.
   Model: Model/Incremental.v (`checksums_path` = <project dir>/.zinoma/<qualified name>.checksums, the store of all state
   files, cycles and cleans acting on it), Model/Names.v (`display`, `valid_name`). *)
From Zinoma.Model Require Import Bytes Cfg Ext Names Codec Incremental.
From Zinoma.Proofs Require Import IncrementalStore IncrementalPinned IncrementalExamples.

(* the printed (qualified) name determines the target *)
Theorem C18_display_injective : forall a b, valid_id a -> valid_id b -> display a = display b -> a = b.
Proof. exact display_injective. Qed.

(* two targets share a state file only if they are the same target of the same project directory *)
Theorem C18_state_path_injective : forall da a db b,
  valid_id a -> valid_id b -> checksums_path da a = checksums_path db b -> da = db /\ a = b.
Proof. exact checksums_path_injective. Qed.

(* running another target — to success, failure, cancellation, or a crash at any step — leaves this target's record untouched *)
Theorem C18_frame : forall hash t t' c crash st,
  valid_id (rt_id t) -> valid_id (rt_id t') -> (rt_dir t, rt_id t) <> (rt_dir t', rt_id t') ->
  cycle_on_store hash t' c crash st (checksums_path (rt_dir t) (rt_id t)) = st (checksums_path (rt_dir t) (rt_id t)).
Proof. exact cycle_frame. Qed.

(* `--clean` of other targets leaves it untouched too *)
Theorem C18_clean_frame : forall ts st t,
  valid_id (rt_id t) -> (forall t', In t' ts -> valid_id (rt_id t') /\ (rt_dir t', rt_id t') <> (rt_dir t, rt_id t)) ->
  clean_requested ts st (checksums_path (rt_dir t) (rt_id t)) = st (checksums_path (rt_dir t) (rt_id t)).
Proof. exact clean_requested_frame. Qed.

(* a clean that does reach the target (it is in the cleaned closure, or a bare `--clean` removes the `.zinoma` of its project)
   removes its record — then the target is rebuilt (C02_no_record_runs), never wrongly skipped *)
Theorem C18_clean_removes_record : forall ts st t,
  In t ts -> clean_requested ts st (checksums_path (rt_dir t) (rt_id t)) = None.
Proof. exact clean_requested_removes. Qed.

Theorem C18_bare_clean_removes_record : forall dirs st t,
  In (rt_dir t) dirs -> clean_all dirs st (checksums_path (rt_dir t) (rt_id t)) = None.
Proof. exact clean_all_removes. Qed.

Theorem C18_bare_clean_frame : forall dirs st q,
  (forall d, In d dirs -> starts_with q (d ++ slash :: zinoma_name ++ [slash]) = false) -> clean_all dirs st q = st q.
Proof. exact clean_all_frame. Qed.

(* the skip decision of a target is a function of its own state file and of its own declared resources (their listing, the
   mtimes and contents of the listed files, the outputs of its commands) — of nothing else in the store or in the world.
   (That the same id, project directory and absolute resources are obtained from every entry point is C09/C13 of slice RES.) *)
Theorem C18_decision_depends_on_own : forall hash st st' w w' t,
  st (checksums_path (rt_dir t) (rt_id t)) = st' (checksums_path (rt_dir t) (rt_id t)) ->
  worlds_agree_on w w' (rt_input t) -> worlds_agree_on w w' (rt_output t) ->
  decide_skip hash w (st (checksums_path (rt_dir t) (rt_id t))) (rt_input t) (Some (rt_output t)) =
  decide_skip hash w' (st' (checksums_path (rt_dir t) (rt_id t))) (rt_input t) (Some (rt_output t)).
Proof. exact decision_depends_on_own. Qed.

(* non-vacuity: `x` of the root and `sub::x` in the same directory, and `x` in two directories: three distinct files *)
Example C18_nonvacuous :
  let x := [120] in let sub := [115; 117; 98] in
  checksums_path dir_p {| t_project := None; t_name := x |} =
    [47;112;47;46;122;105;110;111;109;97;47;120;46;99;104;101;99;107;115;117;109;115] /\
  beq (checksums_path dir_p {| t_project := None; t_name := x |})
      (checksums_path dir_p {| t_project := Some sub; t_name := x |}) = false /\
  beq (checksums_path dir_p {| t_project := None; t_name := x |})
      (checksums_path dir_q {| t_project := None; t_name := x |}) = false /\
  valid_name x = true /\ valid_name sub = true.
Proof. vm_compute. repeat split. Qed.
