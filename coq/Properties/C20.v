(* C20 — an aggregate is equivalent to requesting its dependencies.
   Property theorems only; proofs are in Proofs/SysC20.v, SysC20eq.v, SysSvc.v, SysRoot.v, ResolverClosure.v. *)
From Zinoma.Proofs Require Import SysC20 SysC20eq SysWitness ResolverClosure.
From Zinoma.Model Require Import Resolver.

(* what runs: requesting the aggregate G works on G plus exactly what requesting its dependencies works on *)
Theorem C20_closure :
  forall cfg roots g rt m fuel t,
    (n_targets cfg < fuel)%nat -> resolve cfg (roots ++ [g]) fuel = Ok m -> tmap_get m g = Some rt ->
    (closure cfg (roots ++ [g]) t <-> closure cfg (roots ++ rt_deps rt) t \/ t = g).
Proof. exact closure_aggregate. Qed.

(* acknowledgement (hence exit status and blocking): an aggregate is acknowledged for a kind exactly when all its
   dependencies are, at every moment of every run; with C11_keepalive / root_idle_all_ready the root sees the same thing
   whether it waits for G or for G's dependencies *)
Theorem C20_acknowledged_iff_dependencies :
  forall (g : graph) (h : list obs) (k : kind) (d : tid) (deps : list tid),
    g !! d = Some (AAggregate, deps) -> (ready g h k d <-> forall x, x ∈ deps -> ready g h k x).
Proof. exact ready_aggregate_iff. Qed.

(* liveness afterwards: G keeps zinoma alive exactly when one of its dependencies is (or aggregates) a service *)
Theorem C20_keepalive :
  forall (g : graph) (d : tid) (deps : list tid),
    g !! d = Some (AAggregate, deps) -> (svc_behind g d <-> exists x, x ∈ deps /\ svc_behind g x).
Proof. exact svc_behind_aggregate. Qed.

(* an aggregate with no dependency at all acknowledges both kinds at once, with nothing behind it *)
Theorem C20_empty_aggregate :
  forall (fx ok : bool) (t : tid) (k : kind) (r : aid),
    exists a', actor_step fx ok (init_actor t AAggregate []) (EMsg (MRequested k r))
               = Some (a', [OMsg r (MOk k t false)], []).
Proof. exact empty_aggregate_acks. Qed.

(* when the root has received every acknowledgement, every requested target — aggregate or not — is ready for both
   kinds, i.e. (unfolding C20_acknowledged_iff_dependencies through nested aggregates) every build behind it succeeded *)
Theorem C20_root_sees_dependencies :
  forall (fx w : bool) (g : graph) (roots : list tid) (s : sys),
    reachable fx w g roots s -> r_unavB s = ∅ -> r_unavS s = ∅ -> forall r k, r ∈ roots -> ready g (hist s) k r.
Proof. intros fx w g roots s. exact (root_idle_all_ready fx g roots w s). Qed.

(* THE EQUIVALENCE AS ONE STATEMENT about finished one-shot runs.  G an aggregate over ds, in any closed acyclic graph; s1 a finished
   run of `zinoma G`, s2 a finished run of `zinoma d1 ... dn` (repaired handlers, any interleaving and merge order; "finished" =
   nothing can happen any more; nothing failed, no termination signal among the labels).  Then both end the same way — both stay
   alive for their services, or both have exited with status 0 — and they ran the same builds and services: every target that is
   not an aggregate was started the same number of times (at most once) and succeeded in one run iff it did in the other.
   (With a failure both exit with an error: C07_failure_fails_the_run; what is blocked is the same by C20_acknowledged_iff_dependencies.) *)
Theorem C20_same_outcome :
  forall (g : graph) (rank : tid -> nat) (G : tid) (ds : list tid),
    (forall t k deps d, g !! t = Some (k, deps) -> d ∈ deps -> is_Some (g !! d)) ->
    (forall t k deps d, g !! t = Some (k, deps) -> d ∈ deps -> (rank d < rank t)%nat) ->
    g !! G = Some (AAggregate, ds) ->
    forall (ls1 : list label) (s1 : sys) (ls2 : list label) (s2 : sys),
      run_labels true false (init_sys g [G]) ls1 = Some s1 -> LSignal ∉ ls1 -> quiescent true false s1 = true ->
      (forall t, ObFail t ∉ hist s1) ->
      run_labels true false (init_sys g ds) ls2 = Some s2 -> LSignal ∉ ls2 -> quiescent true false s2 = true ->
      (forall t, ObFail t ∉ hist s2) ->
      ((ph s1 = PWaitTerm /\ ph s2 = PWaitTerm) \/ (ph s1 = PExited SOk /\ ph s2 = PExited SOk)) /\
      forall t kt deps, g !! t = Some (kt, deps) -> kt <> AAggregate ->
        count_occ obs_eq_dec (hist s1) (ObStart t) = count_occ obs_eq_dec (hist s2) (ObStart t) /\
        (count_occ obs_eq_dec (hist s1) (ObStart t) <= 1)%nat /\
        (ObSucc t ∈ hist s1 <-> ObSucc t ∈ hist s2).
Proof. exact aggregate_same_outcome. Qed.

(* the hypotheses are met: `5` aggregates the service `3` (which depends on the build `1`) and the build `4`; `zinoma 5` and
   `zinoma 3 4` both finish waiting for a signal with the service alive, having run 1, 3 and 4 once each *)
Example C20_same_outcome_run_of_the_aggregate :
  let g : graph := <[1%N := (ABuild, [])]> (<[3%N := (AService, [1%N])]> (<[4%N := (ABuild, [])]> (<[5%N := (AAggregate, [3%N; 4%N])]> ∅))) in
  exists s,
    run_labels true false (init_sys g [5%N])
      [LDeliver 5%N true; LDeliver 3%N true; LDeliver 5%N true; LDeliver 3%N true; LDeliver 1%N true; LDeliver 1%N true;
       LBuildDone 1%N RCompleted; LDeliver 3%N true; LDeliver 3%N true; LDeliver 5%N true; LDeliver 5%N true; LDeliver 4%N true;
       LDeliver 4%N true; LDeliver 5%N true; LBuildDone 4%N RCompleted; LDeliver 5%N true; LRoot; LRoot; LRootIdle] = Some s /\
    (quiescent true false s && bool_decide (ph s = PWaitTerm) &&
     bool_decide (hist s = [ObStart 1%N; ObSucc 1%N; ObStart 3%N; ObSucc 3%N; ObStart 4%N; ObSucc 4%N])) = true.
Proof. apply witness_intro. vm_compute. reflexivity. Qed.

Example C20_same_outcome_run_of_the_dependencies :
  let g : graph := <[1%N := (ABuild, [])]> (<[3%N := (AService, [1%N])]> (<[4%N := (ABuild, [])]> (<[5%N := (AAggregate, [3%N; 4%N])]> ∅))) in
  exists s,
    run_labels true false (init_sys g [3%N; 4%N])
      [LDeliver 3%N true; LDeliver 3%N true; LDeliver 1%N true; LDeliver 1%N true; LBuildDone 1%N RCompleted; LDeliver 3%N true;
       LDeliver 3%N true; LDeliver 4%N true; LDeliver 4%N true; LBuildDone 4%N RCompleted; LRoot; LRoot; LRoot; LRoot;
       LRootIdle] = Some s /\
    (quiescent true false s && bool_decide (ph s = PWaitTerm) &&
     bool_decide (hist s = [ObStart 1%N; ObSucc 1%N; ObStart 3%N; ObSucc 3%N; ObStart 4%N; ObSucc 4%N])) = true.
Proof. apply witness_intro. vm_compute. reflexivity. Qed.
