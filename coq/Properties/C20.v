(* C20 — an aggregate is equivalent to requesting its dependencies.
   Property theorems only; proofs are in Proofs/SysC20.v, Proofs/SysSvc.v, Proofs/SysRoot.v, Proofs/ResolverClosure.v. *)
From Zinoma.Proofs Require Import SysC20 ResolverClosure.
From Zinoma.Model Require Import Resolver.

(* what runs: requesting the aggregate G works on G plus exactly what requesting its dependencies works on *)
Theorem C20_closure :
  forall cfg roots g rt m fuel t,
    (n_targets cfg < fuel)%nat -> resolve cfg (roots ++ [g]) fuel = Ok m -> tmap_get m g = Some rt ->
    (closure cfg (roots ++ [g]) t <-> closure cfg (roots ++ rt_deps rt) t \/ t = g).
Proof. exact closure_aggregate. Qed.

(* acknowledgement (hence exit status and blocking): an aggregate is acknowledged for a kind exactly when all its
   dependencies are, at every moment of every run; with C11_keepalive / root_idle_all_ready the root sees the same thing
   whether it waits for G or for G's dependencies *)
Theorem C20_acknowledged_iff_dependencies :
  forall (g : graph) (h : list obs) (k : kind) (d : tid) (deps : list tid),
    g !! d = Some (AAggregate, deps) -> (ready g h k d <-> forall x, x ∈ deps -> ready g h k x).
Proof. exact ready_aggregate_iff. Qed.

(* liveness afterwards: G keeps zinoma alive exactly when one of its dependencies is (or aggregates) a service *)
Theorem C20_keepalive :
  forall (g : graph) (d : tid) (deps : list tid),
    g !! d = Some (AAggregate, deps) -> (svc_behind g d <-> exists x, x ∈ deps /\ svc_behind g x).
Proof. exact svc_behind_aggregate. Qed.

(* an aggregate with no dependency at all acknowledges both kinds at once, with nothing behind it *)
Theorem C20_empty_aggregate :
  forall (fx ok : bool) (t : tid) (k : kind) (r : aid),
    exists a', actor_step fx ok (init_actor t AAggregate []) (EMsg (MRequested k r))
               = Some (a', [OMsg r (MOk k t false)], []).
Proof. exact empty_aggregate_acks. Qed.

(* when the root has received every acknowledgement, every requested target — aggregate or not — is ready for both
   kinds, i.e. (unfolding C20_acknowledged_iff_dependencies through nested aggregates) every build behind it succeeded *)
Theorem C20_root_sees_dependencies :
  forall (fx w : bool) (g : graph) (roots : list tid) (s : sys),
    reachable fx w g roots s -> r_unavB s = ∅ -> r_unavS s = ∅ -> forall r k, r ∈ roots -> ready g (hist s) k r.
Proof. intros fx w g roots s. exact (root_idle_all_ready fx g roots w s). Qed.
