(* C15 — a files resource denotes exactly the matching regular files under its paths.
   Property theorems only: each is closed by `exact <lemma>`; assumptions are printed by the check.
   Model: Model/FsTree.v (`listing` = fs.rs list_files_in_paths: walkdir + filter_entry(!is_work_dir) + is_file +
   matches_extensions); trees are `node`s, `wf` = entry names unique and valid. *)
From Zinoma.Model Require Import Bytes Ext Cfg FsTree.
From Zinoma.Proofs Require Import Bytes Ext FsTree FsTreeClean.

(* membership in the listing of a files resource <-> the declarative reading:
   - `Reached t root p`: p is the declared path itself, or that path extended (Path::join) by the names of a descent
     from the directory the declared path denotes; the declared path is lstat'ed and followed if it is a symlink (only
     it); below it only real directories are entered (`get` never crosses a symlink); no name of the descent is
     ".zinoma", and the declared path itself is not named ".zinoma" (corner fixed by the code: a declared path that is a
     SYMLINK named ".zinoma" is not listed itself but its directory is walked - walkdir's filter only prunes entries whose
     own type is directory);
   - p resolves (symlinks followed, kernel rules, at most 40 links) to a regular file;
   - the file name of p ends with one of the extensions (no filter: every path). *)
Theorem C15_listing_spec : forall t r p,
  wf t = true ->
  (In p (listing t r) <->
   exists root, In root (fr_paths r) /\ Reached t root p /\ is_file t p = true
                /\ matches_extensions (fr_exts r) p = true).
Proof. exact listing_spec. Qed.

(* for an entry below the declared path the filter looks at the last name of the descent *)
Theorem C15_filter_on_entry_name : forall t root names p n,
  wf t = true -> get t n <> None -> (exists qd, n = qd ++ names) -> names <> [] -> p = joins root names ->
  file_name p = Some (last names []).
Proof. exact reached_below_file_name. Qed.

(* the entry a listed path names (lstat) IS the physical node the walk found: the directory qd the declared path denotes,
   extended by the names of a descent through real directories *)
Theorem C15_listed_entry_location : forall t root p,
  wf t = true -> Reached t root p -> p <> root ->
  exists qd names n, stat t root = Some (qd, KDir) /\ names <> [] /\ NoZinoma names /\
                     get t (qd ++ names) = Some n /\ p = joins root names /\
                     lstat t p = Some (qd ++ names, shallow n).
Proof. exact reached_entry_location. Qed.

(* it is a set: the code collects PathBufs (equal when their components are equal) into a HashSet *)
Theorem C15_listing_nodup : forall t r, NoDup (map path_key (listing_set t r)).
Proof. exact listing_set_nodup. Qed.

Theorem C15_listing_set_sound : forall t r p, In p (listing_set t r) -> In p (listing t r).
Proof. exact listing_set_sound. Qed.

Theorem C15_listing_set_complete : forall t r p,
  In p (listing t r) -> exists p', In p' (listing_set t r) /\ path_key p' = path_key p.
Proof. exact listing_set_complete. Qed.

(* a path that does not exist (missing, or a dangling / looping symlink) contributes nothing *)
Theorem C15_missing_contributes_nothing : forall t exts root,
  exists_ t root = false -> listing_path t exts root = [].
Proof. exact listing_path_missing. Qed.

Theorem C15_missing_path_is_neutral : forall t exts paths root,
  exists_ t root = false ->
  forall p, In p (listing_paths t exts (paths ++ [root])) <-> In p (listing_paths t exts paths).
Proof. exact listing_missing_path. Qed.

(* extension normalisation (ir.rs transform_extensions): empty entries dropped, a leading dot added, nothing left = no filter *)
Theorem C15_ext_normalise : forall o,
  transform_extensions o =
  match o with
  | None => None
  | Some l => if forallb is_nil l then None else Some (NormExts l)
  end.
Proof. exact transform_extensions_spec. Qed.

Theorem C15_ext_normalise_entries : forall l es e,
  transform_extensions (Some l) = Some es ->
  (In e es <-> exists e0, In e0 l /\ e0 <> [] /\ e = norm_ext e0).
Proof. exact transform_extensions_entries. Qed.

(* watching applies the same rule: every listed path passes the watcher's filter, unless its name is an editor temporary;
   needs "no component of the declared path is .zinoma" (the watcher inspects the whole event path: DESIGN.md KF2) *)
Theorem C15_watch_same_rule : forall t r p,
  wf t = true -> In p (listing t r) ->
  (forall root, In root (fr_paths r) -> in_work_dir root = false) ->
  tmp_editor_path p = false ->
  watch_filter (fr_exts r) p = true.
Proof. exact listed_path_watched. Qed.

(* cleaning an extension-filtered output iterates exactly this set (state and incremental comparison call
   listing_resources_set = the same walk; tied to the code by the three correspondences) *)
Theorem C15_same_set_everywhere : forall t r es,
  fr_exts r = Some es -> clean_resource t r = fold_ok (remove_listed false) t (listing_set t r).
Proof. exact clean_resource_ext. Qed.

(* non-vacuity: /src/a.o, /src/b.c, /src/sub/c.o, /src/.zinoma/d.o, /src/l.o -> a.o, /src/ld -> sub, /out -> src *)
Example C15_nonvacuous :
  let s (x : bytes) := x in
  let t := Dir [ (s [115;114;99], Dir [ (s [97;46;111], File 1 0); (s [98;46;99], File 2 0);
                                        (s [115;117;98], Dir [ (s [99;46;111], File 3 0) ]);
                                        (zinoma_name, Dir [ (s [100;46;111], File 4 0) ]);
                                        (s [108;46;111], Link (s [97;46;111]));
                                        (s [108;100], Link (s [115;117;98])) ]);
                 (s [111;117;116], Link (s [115;114;99])) ] in
  let r := {| fr_paths := [s [47;111;117;116]]; fr_exts := Some [s [46;111]] |} in
  wf t = true /\
  listing t r = [s [47;111;117;116;47;97;46;111]; s [47;111;117;116;47;115;117;98;47;99;46;111]; s [47;111;117;116;47;108;46;111]].
Proof. vm_compute. repeat split. Qed.
