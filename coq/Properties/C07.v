(* C07 — a failing target fails the run and blocks everything depending on it.
   Property theorems only; proofs are in Proofs/SysC07.v, SysNeeded.v, SysFailRun.v. *)
From Zinoma.Proofs Require Import SysOneShot SysC07 SysFailRun SysWitness.

(* one-shot: once a target has failed it never succeeds in this run *)
Theorem C07_failed_never_succeeds :
  forall (fx : bool) (g : graph) (roots : list tid) (s : sys) (d : tid),
    reachable fx false g roots s -> ObFail d ∈ hist s -> ObSucc d ∉ hist s.
Proof. exact failed_never_succeeds. Qed.

(* one-shot: no target that depends on a failed one, directly or transitively (through targets of any kind), ever starts —
   before or after the failure, under every interleaving with the other running targets *)
Theorem C07_dependents_never_start :
  forall (fx : bool) (g : graph) (roots : list tid) (s : sys) (d t : tid),
    reachable fx false g roots s -> ObFail d ∈ hist s -> tdep g t d -> ObStart t ∉ hist s.
Proof. exact dependents_never_start. Qed.

(* any mode: as long as a dependency has not succeeded, nothing at or above it can be acknowledged for both kinds
   (in watch mode: dependents stay blocked until the failed target is repaired and succeeds) *)
Theorem C07_blocked_until_success :
  forall (fx watch : bool) (g : graph) (roots : list tid) (s : sys) (d : tid) (kd : akind) (ddeps : list tid),
    reachable fx watch g roots s -> g !! d = Some (kd, ddeps) -> kd <> AAggregate -> ObSucc d ∉ hist s ->
    forall x, (x = d \/ tdep g x d) -> ~ (forall k, ready g (hist s) k x).
Proof. intros fx watch g roots s d kd ddeps. exact (blocked fx g roots watch s d kd ddeps). Qed.

(* "FAILS THE RUN".  One-shot, any closed or open graph, pinned or repaired handlers, any interleaving and merge order, no
   termination signal (`LSignal ∉ ls`: a SIGINT ends the run in its own way, C10): once a target has failed, the run is never
   in a successful end — not waiting for a signal with its services alive, not terminating or exited with status 0. *)
Theorem C07_failure_excludes_success :
  forall (fx : bool) (g : graph) (roots : list tid) (ls : list label) (s : sys) (t : tid),
    run_labels fx false (init_sys g roots) ls = Some s -> LSignal ∉ ls -> ObFail t ∈ hist s ->
    ph s <> PWaitTerm /\ ph s <> PTerminating SOk /\ ph s <> PExited SOk.
Proof. exact failure_excludes_success. Qed.

(* ... and when nothing can happen any more it HAS exited, with an error status naming a target that did fail: it does not hang
   in the root loop either (the error report is in the root's queue and the root is still reading: a failed target is needed by a
   requested one, so the set of unacknowledged requested targets never empties — SysNeeded.v, SysRoot.v). *)
Theorem C07_failure_fails_the_run :
  forall (fx : bool) (g : graph) (roots : list tid) (ls : list label) (s : sys) (t : tid),
    run_labels fx false (init_sys g roots) ls = Some s -> LSignal ∉ ls -> ObFail t ∈ hist s ->
    quiescent fx false s = true -> exists t', ph s = PExited (SErr t') /\ ObFail t' ∈ hist s.
Proof. exact failure_fails_the_run. Qed.

(* the hypotheses are met: `2: [5]`, `5` an aggregate of `[1, 3]`, `7` unrelated; 1 fails while 3 goes on and succeeds; the run ends
   quiescent, exited with the status naming 1; 2 never started, 7 never started *)
Example C07_failing_run :
  let g : graph := <[1%N := (ABuild, [])]> (<[3%N := (ABuild, [])]> (<[5%N := (AAggregate, [1%N; 3%N])]>
                   (<[2%N := (ABuild, [5%N])]> (<[7%N := (ABuild, [])]> ∅)))) in
  let ls := [LDeliver 2%N true; LDeliver 5%N true; LDeliver 1%N true; LBuildDone 1%N RFailed; LDeliver 3%N true;
             LBuildDone 3%N RCompleted; LDeliver 5%N true; LDeliver 1%N true; LDeliver 3%N true; LDeliver 5%N true;
             LDeliver 5%N true; LDeliver 5%N true; LDeliver 2%N true; LDeliver 2%N true; LRoot; LTermActor 1%N;
             LTermActor 3%N; LTermActor 7%N; LTermActor 5%N; LTermActor 2%N; LJoin] in
  exists s,
    run_labels true false (init_sys g [2%N]) ls = Some s /\
    (forallb (fun l => match l with LSignal => false | _ => true end) ls && quiescent true false s && bool_decide (ph s = PExited (SErr 1%N)) &&
     bool_decide (hist s = [ObStart 1%N; ObFail 1%N; ObStart 3%N; ObSucc 3%N; ObExit 1%N; ObExit 3%N; ObExit 7%N; ObExit 5%N;
                            ObExit 2%N])) = true.
Proof. apply witness_intro. vm_compute. reflexivity. Qed.
