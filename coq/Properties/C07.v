(* C07 — a failing target fails the run and blocks everything depending on it.
   Property theorems only; proofs are in Proofs/SysC07.v. *)
From Zinoma.Proofs Require Import SysOneShot SysC07.

(* one-shot: once a target has failed it never succeeds in this run *)
Theorem C07_failed_never_succeeds :
  forall (fx : bool) (g : graph) (roots : list tid) (s : sys) (d : tid),
    reachable fx false g roots s -> ObFail d ∈ hist s -> ObSucc d ∉ hist s.
Proof. exact failed_never_succeeds. Qed.

(* one-shot: no target that depends on a failed one, directly or transitively (through targets of any kind), ever starts —
   before or after the failure, under every interleaving with the other running targets *)
Theorem C07_dependents_never_start :
  forall (fx : bool) (g : graph) (roots : list tid) (s : sys) (d t : tid),
    reachable fx false g roots s -> ObFail d ∈ hist s -> tdep g t d -> ObStart t ∉ hist s.
Proof. exact dependents_never_start. Qed.

(* any mode: as long as a dependency has not succeeded, nothing at or above it can be acknowledged for both kinds
   (in watch mode: dependents stay blocked until the failed target is repaired and succeeds) *)
Theorem C07_blocked_until_success :
  forall (fx watch : bool) (g : graph) (roots : list tid) (s : sys) (d : tid) (kd : akind) (ddeps : list tid),
    reachable fx watch g roots s -> g !! d = Some (kd, ddeps) -> kd <> AAggregate -> ObSucc d ∉ hist s ->
    forall x, (x = d \/ tdep g x d) -> ~ (forall k, ready g (hist s) k x).
Proof. intros fx watch g roots s d kd ddeps. exact (blocked fx g roots watch s d kd ddeps). Qed.
