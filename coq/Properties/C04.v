(* C04 — one-shot runs terminate: no lost wake-up, no deadlock, whatever the graph.
   Property theorems only; proofs are in Proofs/SysWitness.v, Proofs/SysRoot.v, Proofs/SysLive*.v, Proofs/Potential.v, Proofs/SysBound.v. *)
From Zinoma.Proofs Require Import SysWitness SysLive4 SysTerm SysBound SysQueue.

(* The pinned handlers (before the FX1 repair, fx1 = false) lose a wake-up: `svc` service, `usesvc` build depending on it,
   `zinoma usesvc svc`. The schedule ends in a state where nothing can happen any more, no script failed, and the root is
   still waiting: zinoma idles forever and usesvc is never built. (Replayed on the real binary: defect D1.) *)
Theorem C04_late_requester_refuted :
  exists s, run_labels false false (init_sys g_d1 [2%N; 1%N]) sched_d1 = Some s /\
            (quiescent false false s && is_running s && negb (has_failure s)) = true.
Proof. exact d1_pinned_deadlock. Qed.

(* with the repair the same schedule goes on: the late requester is acknowledged *)
Theorem C04_late_requester_repaired :
  exists s, run_labels true false (init_sys g_d1 [2%N; 1%N]) sched_d1 = Some s /\
            negb (quiescent true false s) = true.
Proof. exact d1_repaired_goes_on. Qed.

(* safety half: the root leaves its loop normally only when every requested target is acknowledged for both kinds, i.e.
   every build behind it has succeeded in this run — it never exits 0 early *)
Theorem C04_normal_exit_means_all_ready :
  forall (fx w : bool) (g : graph) (roots : list tid) (s : sys),
    reachable fx w g roots s -> r_unavB s = ∅ -> r_unavS s = ∅ -> forall r k, r ∈ roots -> ready g (hist s) k r.
Proof. intros fx w g roots s. exact (root_idle_all_ready fx g roots w s). Qed.

(* THE LIVENESS HALF, for every graph: with the repaired handlers (fx1 = true), for every closed acyclic target graph
   (every dependency is a target of the graph; a rank function decreases along dependencies — both are guaranteed by
   C09 for every resolver output), every requested set within the graph and every interleaving of message delivery and
   script completion: a reachable state of a one-shot run in which nothing can happen any more (every inbox and the
   root queue drained, no script in progress — "every script terminates" is the enabledness of its completion) and in
   which no script has failed is never a state in which the root loop is still waiting. zinoma never remains idle
   waiting for an acknowledgement that will not come: no lost wake-up, no deadlock, whatever the depth, width or shape. *)
Theorem C04_no_lost_wakeup :
  forall (g : graph) (roots : list tid) (rank : tid -> nat),
    (forall t k deps d, g !! t = Some (k, deps) -> d ∈ deps -> is_Some (g !! d)) ->
    (forall r, r ∈ roots -> is_Some (g !! r)) ->
    (forall t k deps d, g !! t = Some (k, deps) -> d ∈ deps -> rank d < rank t) ->
    forall s, reachable true false g roots s -> quiescent true false s = true -> (forall t, ObFail t ∉ hist s) ->
    ph s <> PRun.
Proof. exact no_lost_wakeup. Qed.

(* ... and therefore a one-shot run in which nothing failed, once nothing can happen any more, has either exited or is
   waiting for a termination signal with a requested service alive (C11_keepalive_iff says when). *)
Theorem C04_quiescent_done :
  forall (g : graph) (roots : list tid) (rank : tid -> nat) (s : sys),
    (forall t k deps d, g !! t = Some (k, deps) -> d ∈ deps -> is_Some (g !! d)) ->
    (forall r, r ∈ roots -> is_Some (g !! r)) ->
    (forall t k deps d, g !! t = Some (k, deps) -> d ∈ deps -> rank d < rank t) ->
    reachable true false g roots s -> quiescent true false s = true -> (forall t, ObFail t ∉ hist s) ->
    ph s = PWaitTerm \/ exists st, ph s = PExited st.
Proof. exact quiescent_done. Qed.

(* NO LIVELOCK, with an explicit bound. Every one-shot execution — any graph (cyclic or not), any requested list, any
   interleaving, any number of signals, script failures and spawn errors, pinned or repaired handlers — makes at most
   8·(dependency edges) + 3·(targets) + 8·(requested ids) + 3 steps besides signal deliveries (`internal` counts the labels
   other than LSignal; `edges` sums the lengths of the dependency lists). Proof: the potential Phi (Proofs/SysBound.v: what
   every actor may still send, the weights of the messages in flight, the termination messages, the phase) strictly
   decreases at every such step. *)
Theorem C04_oneshot_steps_bounded :
  forall (fx : bool) (g : graph) (roots : list tid) (ls : list label) (s : sys),
    run_labels fx false (init_sys g roots) ls = Some s ->
    internal ls <= 8 * edges g + 3 * size g + 8 * length roots + 3.
Proof. exact oneshot_steps_bounded. Qed.

(* the same from any reachable state: no continuation makes more than Phi(s) steps besides signal deliveries *)
Theorem C04_continuations_bounded :
  forall (fx : bool) (g : graph) (roots : list tid) (ls : list label) (s0 s : sys),
    reachable fx false g roots s0 -> run_labels fx false s0 ls = Some s -> internal ls + Phi s <= Phi s0.
Proof. intros fx g roots ls s0 s. exact (run_bounded fx g roots ls s0 s). Qed.

(* TERMINATION. Repaired handlers, every closed acyclic graph, every requested set within it: from every reachable state
   of a one-shot run in which no script has failed, a continuation in which no script fails, of at most Phi(s) steps, ends
   with zinoma exited or kept alive by a requested service (C11_keepalive_iff says which). Together with the bound above
   (every continuation stops) and C04_quiescent_done (where it stops, it is done) this is the property for the model:
   if every script terminates, the one-shot run terminates. *)
Theorem C04_oneshot_terminates :
  forall (g : graph) (roots : list tid) (rank : tid -> nat) (s : sys),
    (forall t k deps d, g !! t = Some (k, deps) -> d ∈ deps -> is_Some (g !! d)) ->
    (forall r, r ∈ roots -> is_Some (g !! r)) ->
    (forall t k deps d, g !! t = Some (k, deps) -> d ∈ deps -> rank d < rank t) ->
    reachable true false g roots s -> (forall t, ObFail t ∉ hist s) ->
    exists ls s', run_labels true false s ls = Some s' /\ length ls <= Phi s /\
                  (ph s' = PWaitTerm \/ exists st, ph s' = PExited st).
Proof. exact oneshot_terminates. Qed.

(* the bound on a concrete project: `2: [1]` with service 1, requested 2 and 1 (the D1 project): at most 33 steps; the D1
   schedule makes 10 of them *)
Example C04_bound_d1 :
  8 * edges g_d1 + 3 * size g_d1 + 8 * length [2%N; 1%N] + 3 = 33 /\ Phi (init_sys g_d1 [2%N; 1%N]) <= 33 /\ internal sched_d1 = 10.
Proof. vm_compute. repeat split; lia. Qed.

(* THE ORDER OF DELIVERY the theorems of C01, C04, C06-C08, C10, C11, C17, C20 quantify over.  The code relays every actor
   output through one channel: the messages of ONE sender reach a destination in the order they were sent; messages of
   different senders in whatever order the channel interleaved them.  The model appends the outputs of a step to the inboxes
   at once, and lets a destination handle any message that no earlier message of the same sender precedes (labels LDeliverAt,
   LRootAt; LDeliver, LRoot = position 0): every merge of the per-sender streams is a possible handling order, which covers
   every interleaving the real relay can produce.  Below: the aggregate 3 may handle the acknowledgement of 2 before that of 1,
   but not the second message of 1 before its first. *)
Example C04_any_merge_of_the_senders_streams :
  let g : graph := <[1%N := (ABuild, [])]> (<[2%N := (ABuild, [])]> (<[3%N := (AAggregate, [1%N; 2%N])]> ∅)) in
  exists s,
    run_labels true false (init_sys g [3%N])
      [LDeliver 3%N true; LDeliver 3%N true; LDeliver 1%N true; LDeliver 1%N true; LDeliver 2%N true; LDeliver 2%N true;
       LBuildDone 1%N RCompleted] = Some s /\
    (bool_decide (inbox s !! 3%N = Some [MOk KS 1%N false; MOk KS 2%N false; MOk KB 1%N true]) &&
     bool_decide (is_Some (exec true false s (LDeliverAt 3%N 1 true))) &&
     bool_decide (exec true false s (LDeliverAt 3%N 2 true) = None)) = true.
Proof. apply witness_intro. vm_compute. reflexivity. Qed.

(* QUEUES FILLING UP (Model/SysQ.v: the same actors, the output channel and the inboxes with their capacities, handlers sending
   their outputs one by one, the root relaying them one by one).  With the output channel unbounded (the repair FX2), whatever
   the capacity of the inboxes (at least 1), the graph and the state: whenever something is left to send, to relay or to handle,
   some step is possible — a full queue never blocks the engine for ever. *)
Theorem C04_no_capacity_deadlock :
  forall (fx1 : bool) (capI : nat), 1 <= capI ->
  forall s : qsys, qwork s -> exists l, is_Some (qexec fx1 capI None s l).
Proof. exact no_capacity_deadlock. Qed.

(* The pinned code bounded the output channel as well (defect D3, fans wider than the capacity hang): with capacities 1 and
   1 an aggregate over five targets reaches a state in which the root waits for room in the inbox of 9 while 9, inside its
   handler, waits for room in the output channel: no step is possible although outputs are still to be sent and relayed.  The
   same schedule with the output channel unbounded ends in a state that is not stuck. *)
Theorem C04_bounded_output_channel_refuted :
  exists s, qrun true 1 (Some 1) q_init q_schedule = Some s /\
            (qstuck true 1 (Some 1) s && bool_decide (pend s 9%N <> []) && bool_decide (qroot s <> None)) = true.
Proof. exact bounded_output_channel_deadlocks. Qed.

Theorem C04_unbounded_output_channel_repaired :
  exists s, qrun true 1 None q_init q_schedule = Some s /\ qstuck true 1 None s = false.
Proof. exact unbounded_output_channel_goes_on. Qed.
