(* C04 — one-shot runs terminate: no lost wake-up, no deadlock, whatever the graph.
   Property theorems only; proofs are in Proofs/SysWitness.v, Proofs/SysRoot.v (and Proofs/SysLive*.v). *)
From Zinoma.Proofs Require Import SysWitness SysLive4 SysTerm.

(* The pinned handlers (before the FX1 repair, fx1 = false) lose a wake-up: `svc` service, `usesvc` build depending on it,
   `zinoma usesvc svc`. The schedule ends in a state where nothing can happen any more, no script failed, and the root is
   still waiting: zinoma idles forever and usesvc is never built. (Replayed on the real binary: defect D1.) *)
Theorem C04_late_requester_refuted :
  exists s, run_labels false false (init_sys g_d1 [2%N; 1%N]) sched_d1 = Some s /\
            (quiescent false false s && is_running s && negb (has_failure s)) = true.
Proof. exact d1_pinned_deadlock. Qed.

(* with the repair the same schedule goes on: the late requester is acknowledged *)
Theorem C04_late_requester_repaired :
  exists s, run_labels true false (init_sys g_d1 [2%N; 1%N]) sched_d1 = Some s /\
            negb (quiescent true false s) = true.
Proof. exact d1_repaired_goes_on. Qed.

(* safety half: the root leaves its loop normally only when every requested target is acknowledged for both kinds, i.e.
   every build behind it has succeeded in this run — it never exits 0 early *)
Theorem C04_normal_exit_means_all_ready :
  forall (fx w : bool) (g : graph) (roots : list tid) (s : sys),
    reachable fx w g roots s -> r_unavB s = ∅ -> r_unavS s = ∅ -> forall r k, r ∈ roots -> ready g (hist s) k r.
Proof. intros fx w g roots s. exact (root_idle_all_ready fx g roots w s). Qed.

(* THE LIVENESS HALF, for every graph: with the repaired handlers (fx1 = true), for every closed acyclic target graph
   (every dependency is a target of the graph; a rank function decreases along dependencies — both are guaranteed by
   C09 for every resolver output), every requested set within the graph and every interleaving of message delivery and
   script completion: a reachable state of a one-shot run in which nothing can happen any more (every inbox and the
   root queue drained, no script in progress — "every script terminates" is the enabledness of its completion) and in
   which no script has failed is never a state in which the root loop is still waiting. zinoma never remains idle
   waiting for an acknowledgement that will not come: no lost wake-up, no deadlock, whatever the depth, width or shape. *)
Theorem C04_no_lost_wakeup :
  forall (g : graph) (roots : list tid) (rank : tid -> nat),
    (forall t k deps d, g !! t = Some (k, deps) -> d ∈ deps -> is_Some (g !! d)) ->
    (forall r, r ∈ roots -> is_Some (g !! r)) ->
    (forall t k deps d, g !! t = Some (k, deps) -> d ∈ deps -> rank d < rank t) ->
    forall s, reachable true false g roots s -> quiescent true false s = true -> (forall t, ObFail t ∉ hist s) ->
    ph s <> PRun.
Proof. exact no_lost_wakeup. Qed.

(* ... and therefore a one-shot run in which nothing failed, once nothing can happen any more, has either exited or is
   waiting for a termination signal with a requested service alive (C11_keepalive_iff says when). *)
Theorem C04_quiescent_done :
  forall (g : graph) (roots : list tid) (rank : tid -> nat) (s : sys),
    (forall t k deps d, g !! t = Some (k, deps) -> d ∈ deps -> is_Some (g !! d)) ->
    (forall r, r ∈ roots -> is_Some (g !! r)) ->
    (forall t k deps d, g !! t = Some (k, deps) -> d ∈ deps -> rank d < rank t) ->
    reachable true false g roots s -> quiescent true false s = true -> (forall t, ObFail t ∉ hist s) ->
    ph s = PWaitTerm \/ exists st, ph s = PExited st.
Proof. exact quiescent_done. Qed.
