(* C12 — `--clean` deletes exactly the declared outputs and state, nothing else.
   Property theorems only: each is closed by `exact <lemma>`; assumptions are printed by the check.

   Model: Model/FsTree.v. `clean_phase t targets dirs requested` = main.rs lines 76-91 over clean.rs, work_dir.rs,
   storage.rs and std::fs (unlink, rmdir, remove_dir_all). `targets` = the resolved targets (closure of the requested
   ones, or all targets of all projects), `dirs` = every loaded project directory, both in the arbitrary iteration order
   of the code's HashMaps: every theorem holds for every order (C12_order_matters shows the result tree can depend on it).
   `removed t t' q`: something was at physical location q before and nothing is after. `sub t' t`: whatever t' has, t has
   with the same kind, content and link target. `lstat`: the entry a path names, a final symlink not followed.

   Full-strength exactness against a deletion set computed once on the initial tree is FALSE of the faithful model
   (sequential semantics: an output spelled through a symlink that an earlier step removed is not found any more), hence
   the property is stated as three theorems that are true for every order:
     nothing else is deleted + survivors unchanged  (C12_nothing_else_deleted, C12_everything_else_unchanged),
     everything declared is gone after a successful clean  (C12_outputs_gone, C12_state_absent_after_clean, C12_work_dirs_gone),
     nothing is deleted through a symbolic link  (C12_declared_symlink_removed_as_link, C12_filtered_outputs_delete_entries_only,
       C12_nothing_through_symlinks). *)
From Zinoma.Model Require Import Bytes Ext Cfg FsTree.
From Zinoma.Proofs Require Import Bytes Ext FsTree FsTreeClean.

(* Nothing else is deleted, survivors are unchanged - for every iteration order, also when the phase aborts on an error.
   DeletedSpec is read on the tree BEFORE the clean: state files of the targets in scope (targets requested) or every
   loaded project's .zinoma entry with all below it (bare --clean; a symlink: the link only); for each build target in
   scope and each files resource of its output: the entry a declared path names (lstat) with all physically below it
   (no extensions), or the entries of the listed files - C15's `listing` -, never a directory (extensions). *)
Theorem C12_nothing_else_deleted : forall t targets dirs requested,
  wf t = true ->
  let t' := fst (clean_phase t targets dirs requested) in
  sub t' t /\ wf t' = true /\ forall q, removed t t' q -> DeletedSpec t targets dirs requested q.
Proof. exact clean_phase_sound. Qed.

Theorem C12_everything_else_unchanged : forall t targets dirs requested,
  wf t = true ->
  forall q, ~ DeletedSpec t targets dirs requested q ->
  kind_at (fst (clean_phase t targets dirs requested)) q = kind_at t q.
Proof. exact clean_phase_frame. Qed.

(* scope: `--clean T...` touches only state files and outputs of the targets it was given (the closure, slice RES);
   bare `--clean` only the loaded projects' .zinoma and the outputs of the targets it was given (all of them) *)
Theorem C12_scope_requested : forall t targets dirs,
  wf t = true ->
  forall q, removed t (fst (clean_phase t targets dirs true)) q ->
  exists tg, In tg targets /\ (StateSpec t tg q \/ OutputSpec t tg q).
Proof. exact clean_phase_requested_scope. Qed.

Theorem C12_scope_bare : forall t targets dirs,
  wf t = true ->
  forall q, removed t (fst (clean_phase t targets dirs false)) q ->
  (exists d, In d dirs /\ WorkDirSpec t d q) \/ (exists tg, In tg targets /\ OutputSpec t tg q).
Proof. exact clean_phase_bare_scope. Qed.

(* After a clean phase that reported no error, for every order: each files resource of each build target in scope
   denotes nothing any more - at the moment tj it was cleaned (a tree between the final and the initial one) every file
   the code listed names nothing in the final tree / no plain declared path exists any more.
   Hypothesis NotRoot: no plain declared output path denotes the root of the tree. *)
Theorem C12_outputs_gone : forall t targets dirs requested,
  RootDir t ->
  (forall tg, In tg targets -> forall r, In r (r_files (rt_output tg)) -> NotRoot t r) ->
  snd (clean_phase t targets dirs requested) = true ->
  let t' := fst (clean_phase t targets dirs requested) in
  forall tg, In tg targets -> rt_kind tg = TBuild -> forall r, In r (r_files (rt_output tg)) ->
    exists tj, sub t' tj /\ sub tj t /\ ResourceGone r tj t'.
Proof. exact clean_phase_outputs_gone. Qed.

(* no target in scope has recorded state left (so none can be skipped: slice INC, no record => not skipped);
   bare --clean: for every target whose project directory is among the loaded ones *)
Theorem C12_state_absent_after_clean : forall t targets dirs requested,
  RootDir t ->
  (forall tg, In tg targets -> forall r, In r (r_files (rt_output tg)) -> NotRoot t r) ->
  snd (clean_phase t targets dirs requested) = true ->
  forall tg, In tg targets -> (requested = false -> In (rt_dir tg) dirs) ->
  exists_ (fst (clean_phase t targets dirs requested)) (state_path tg) = false.
Proof. exact clean_phase_state_absent. Qed.

Theorem C12_work_dirs_gone : forall t targets dirs,
  RootDir t ->
  (forall tg, In tg targets -> forall r, In r (r_files (rt_output tg)) -> NotRoot t r) ->
  snd (clean_phase t targets dirs false) = true ->
  forall d, In d dirs -> lstat (fst (clean_phase t targets dirs false)) (work_dir_path d) = None.
Proof. exact clean_phase_work_dirs_gone. Qed.

(* nothing through symlinks, plain outputs: a declared path that is a symlink - however it is spelled: "out", "out/",
   "out/." - loses at most the link itself; what it points to is untouched *)
Theorem C12_declared_symlink_removed_as_link : forall t p e tg,
  lstat t (normalise p) = Some (e, KLink tg) ->
  forall q, q <> e -> kind_at (fst (clean_path t p)) q = kind_at t q.
Proof. exact clean_path_symlink. Qed.

(* nothing through symlinks, extension-filtered outputs: only entries of listed files disappear (C15: found by descending
   through real directories below the declared path), each a regular file or a symlink - a listed symlink is removed as a
   link -, never a directory *)
Theorem C12_filtered_outputs_delete_entries_only : forall t r es,
  wf t = true -> fr_exts r = Some es ->
  forall q, removed t (fst (clean_resource t r)) q ->
  exists p e k, In p (listing t r) /\ lstat t p = Some (e, k) /\ k <> KDir /\ q = e.
Proof. exact clean_resource_ext_entries. Qed.

(* ... and physically: every removed location is the entry of a declared path itself (a file, or a symlink removed as a
   link), or lies below the directory a declared path denotes - the declared path alone may be a symlink, which is
   followed - through REAL directories only (`get` never crosses a symlink), no name on the way being ".zinoma" *)
Theorem C12_nothing_through_symlinks : forall t r es,
  wf t = true -> fr_exts r = Some es ->
  forall q, removed t (fst (clean_resource t r)) q ->
  exists root, In root (fr_paths r) /\
    ((exists k, lstat t root = Some (q, k) /\ k <> KDir) \/
     (exists qd names, stat t root = Some (qd, KDir) /\ names <> [] /\ NoZinoma names /\ q = qd ++ names /\
                       kind_at t q <> Some KDir)).
Proof. exact clean_resource_ext_physical. Qed.

(* services and aggregates declare no outputs: cleaning them touches nothing *)
Theorem C12_only_builds_have_outputs : forall t tg, rt_kind tg <> TBuild -> clean_outputs t tg = (t, true).
Proof. exact clean_outputs_non_build. Qed.

(* the result can depend on the iteration order of the target map (an output spelled through a symlink that is another
   target's output): the reason why all theorems above quantify over the order *)
Theorem C12_order_matters :
  exists t a b, snd (clean_phase t [a; b] [] true) = true /\ snd (clean_phase t [b; a] [] true) = true /\
    fst (clean_phase t [a; b] [] true) <> fst (clean_phase t [b; a] [] true).
Proof. exact order_matters. Qed.

(* ---- the pinned clean.rs (clean_outputs_gen true = without the two repairs) ---- *)
(* D14: a plain declared output "out/" that is a symlink to a directory: something NOT below the link entry is removed
   (the directory the link points to is emptied) and the clean fails *)
Theorem C12_pinned_trailing_slash_refuted :
  exists t tg q, wf t = true /\ rt_kind tg = TBuild /\
    (exists p, r_files (rt_output tg) = [ {| fr_paths := [p]; fr_exts := None |} ] /\
               exists e tgt, lstat t (normalise p) = Some (e, KLink tgt) /\ ~ Below e q) /\
    removed t (fst (clean_outputs_gen true t tg)) q /\ snd (clean_outputs_gen true t tg) = false.
Proof. exact pinned_trailing_slash_refuted. Qed.

(* D15: one file listed under two spellings: the pinned clean fails (NotFound on the second remove_file), the repaired one succeeds *)
Theorem C12_pinned_alias_refuted :
  exists t tg, wf t = true /\ snd (clean_outputs_gen true t tg) = false /\ snd (clean_outputs t tg) = true.
Proof. exact pinned_alias_refuted. Qed.

(* non-vacuity: a successful `--clean t` that deletes t's state file (not u's), the listed files of an extension-filtered
   output (a regular file and a symlink, not the non-matching file, not the nested .zinoma) and a plain output that is a
   symlink (as a link: its directory stays) *)
Example C12_nonvacuous :
  let tg := w_target [116] [ {| fr_paths := [p_out]; fr_exts := Some [b_dot_o] |};
                             {| fr_paths := [[47;103;101;110]]; fr_exts := None |} ] in
  wf w_tree2 = true /\ RootDir w_tree2 /\
  (let '(t', ok) := clean_phase w_tree2 [tg] [[47]] true in
   ok = true /\
   kind_at t' [zinoma_name; b_zin_state] = None /\ kind_at t' [zinoma_name; [117] ++ checksums_suffix] = Some (KFile 8 0) /\
   kind_at t' [b_out; b_r_o] = None /\ kind_at t' [b_out; [108;46;111]] = None /\
   kind_at t' [b_out; [107;46;99]] = Some (KFile 2 0) /\ kind_at t' [b_out; zinoma_name; b_r_o] = Some (KFile 3 0) /\
   kind_at t' [[103;101;110]] = None /\ kind_at t' [b_real; b_r_o] = Some (KFile 4 0)).
Proof. exact clean_phase_nonvacuous. Qed.
