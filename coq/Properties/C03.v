(* C03 — an unchanged target with declared inputs is skipped; a target without input is always executed.
   Property theorems only: each is closed by `exact <lemma>`; assumptions are printed by the check.
   Model: Model/Incremental.v, the code after the repairs FX3 (command outputs keyed by (text, directory)) and FX4 (no
   record consulted for a target without input). *)
From Zinoma.Model Require Import Bytes Cfg Codec Incremental.
From Zinoma.Proofs Require Import Codec CodecRoundtrip CodecWrite IncrementalKeys Incremental IncrementalCycle IncrementalPinned
  IncrementalExamples IncrementalCompose.

(* the state computed at a completion in world w1 could be stored (env_ok: what `serialize` accepts) and is on disk in full
   (whatever follows it); in the world w' nothing among the input and output resources has changed: same file sets, every
   file with the same mtime or the same content hash, every command printing the same. Then the invocation is skipped.
   `cmds_consistent_all`: two declared commands with the same text in the same directory print the same (determinism of a
   command at one instant). *)
Theorem C03_unchanged_skips : forall hash w1 w' input output e trailing,
  worlds_ok w1 input output -> worlds_ok w' input output -> cmds_consistent_all w1 input output ->
  current_env hash ckey_eqb w1 input output = CurSome e -> env_ok e ->
  unchanged_all hash w1 w' input output ->
  decide_skip hash w' (Some (enc_env e ++ trailing)) input output = true.
Proof. exact unchanged_skips. Qed.

(* in particular an untouched world is unchanged *)
Theorem C03_untouched_is_unchanged : forall hash w input output e,
  worlds_ok w input output -> current_env hash ckey_eqb w input output = CurSome e -> unchanged_all hash w w input output.
Proof. exact unchanged_refl. Qed.

(* a target that declares no input is always executed, whatever is on disk *)
Theorem C03_no_input_always_runs : forall hash w disk input output,
  resources_is_empty input = true -> decide_skip hash w disk input output = false.
Proof. exact no_input_runs. Qed.

(* FULL STATEMENT (C03_rerun_untouched_tree): for every project, the second invocation on the final tree of a successful first
   invocation starts no script of a target with inputs — under (H): once a target's state has been recorded, no later script of
   the same invocation changes a resource that target declares. PROVED HERE: the per-target step — a cycle that completes and
   records (through the machine of Model/Incremental.v, write included), followed by an invocation in a world where nothing the
   target declares has changed, ends `CySkipped` at its first step with the record untouched. The composition over all the
   targets of one invocation is C03_rerun_untouched_tree below. *)
Theorem C03_rerun_untouched_tree_partial : forall hash c c' d0 e,
  cycle_ok hash c -> cmds_consistent_all (cy_w1 c) (cy_input c) (cy_output c) ->
  decide_skip hash (cy_w0 c) d0 (cy_input c) (cy_output c) = false ->
  cy_outcome c = ScriptSucceeded ->
  current_env hash ckey_eqb (cy_w1 c) (cy_input c) (cy_output c) = CurSome e -> snd (wr_env e) = true ->
  cy_input c' = cy_input c -> cy_output c' = cy_output c ->
  worlds_ok (cy_w0 c') (cy_input c) (cy_output c) ->
  unchanged_all hash (cy_w1 c) (cy_w0 c') (cy_input c) (cy_output c) ->
  let d1 := c_disk (run_cycle hash ckey_eqb true c None d0) in
  forall n, cycle_run hash ckey_eqb true c' (S n) (cycle_init d1) = {| c_phase := PEnd CySkipped; c_disk := d1 |}.
Proof. exact rerun_unchanged_skips. Qed.

(* THE COMPOSITION (C03_rerun_untouched_tree). `inv`: the targets the first invocation executed, each with its cycle, in the
   order in which they ran; their state files are pairwise distinct (each target once: C08; distinct paths: C18); each ran
   its script (was not skipped), succeeded, recorded its state in full, and nothing it declares differs between the world its
   record was computed in and the world W in which the second invocation looks at it — (H): no later script of the same
   invocation, and nothing afterwards, changed a resource it declares. `inv2`: any subset of those targets, in any order, looked
   at in W. Then every target of the second invocation is skipped at its first step — no script runs — and every state file is
   left exactly as the first invocation wrote it. *)
Theorem C03_rerun_untouched_tree :
  forall (hash : bytes -> N) (inv inv2 : list (rtarget * cycle)) (st0 : state_store) (W : iworld),
    NoDup (map (fun tc => spath (fst tc)) inv) ->
    (forall t c, In (t, c) inv -> built_and_unchanged hash st0 W t c) ->
    (forall t c', In (t, c') inv2 -> exists c, In (t, c) inv /\ same_target_in W c c') ->
    let st1 := run_invocation hash inv st0 in
    (forall t c', In (t, c') inv2 ->
       run_cycle hash ckey_eqb true c' None (st1 (spath t)) = {| c_phase := PEnd CySkipped; c_disk := st1 (spath t) |}) /\
    (forall q, run_invocation hash inv2 st1 q = st1 q).
Proof. exact rerun_untouched_tree. Qed.

(* pinned code (DESIGN.md §7 D5): the same command text declared in two directories whose outputs differ — the state recorded
   in a world does not match that very world: rebuilt on every invocation of an untouched tree *)
Theorem C03_same_command_two_dirs_refuted : forall hash : bytes -> N,
  exists input output w e,
    current_env_pinned hash w input output = CurSome e /\
    skip_on_record_pinned hash w (Some e) input output = false.
Proof. exact keyed_by_text_spurious_rebuild. Qed.

Theorem C03_same_command_two_dirs_repaired : forall hash : bytes -> N,
  exists e, current_env hash ckey_eqb (world_pq txt_a txt_b) two_cmds (Some resources_empty) = CurSome e /\
            skip_on_record hash ckey_eqb true (world_pq txt_a txt_b) (Some e) two_cmds (Some resources_empty) = true.
Proof. exact keyed_by_dir_skips. Qed.

(* pinned code (DESIGN.md §7 D7): a stale or foreign empty record makes a target WITHOUT input skipped *)
Theorem C03_stale_empty_record_refuted : forall hash : bytes -> N,
  exists bs w, resources_is_empty resources_empty = true /\
               decide_skip_pinned hash w (Some bs) resources_empty (Some resources_empty) = true.
Proof. exact stale_empty_record_skips. Qed.

Theorem C03_stale_empty_record_repaired : forall hash : bytes -> N,
  decide_skip hash empty_world (Some empty_record_bytes) resources_empty (Some resources_empty) = false.
Proof. exact stale_empty_record_ignored. Qed.

(* non-vacuity: the hypotheses of C03_unchanged_skips hold of a concrete pair of worlds (a touched file with the same content) *)
Example C03_nonvacuous :
  ex_state_bytes = ex_disk /\ is_some ex_disk = true /\
  ex_skip (ex_world 7 [1] txt_a) ex_disk = true /\
  resources_is_empty ex_input = false.
Proof. vm_compute. repeat split. Qed.

(* HOW THE PER-INPUT VERDICTS ARE COMBINED (async_utils.rs `all` / `both`; Model/AsyncUtils.v).  "Is this input unchanged?" is
   evaluated concurrently, one future per path and per command; `all` scans the verdicts in the order the futures complete and
   answers false at the first false.  The answer is the conjunction, whatever the completion order: an unchanged target is
   skipped however the checks are scheduled. *)
From Zinoma.Model Require Import AsyncUtils.
From Zinoma.Proofs Require Import AsyncUtils.
From Coq Require Import Permutation.

Theorem C03_all_is_the_conjunction : forall l, all_results l = true <-> Forall (fun r => r = true) l.
Proof. exact all_results_spec. Qed.

Theorem C03_all_order_independent : forall l l', Permutation l l' -> all_results l = all_results l'.
Proof. exact all_results_perm. Qed.

Theorem C03_both_spec : forall a b, both a b = true <-> a = true /\ b = true.
Proof. exact both_spec. Qed.
