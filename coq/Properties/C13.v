(* C13 — `X.output` makes X's outputs inputs of the consumer, across projects (structural half).
   Property theorems only: each is closed by `exact <lemma>`; assumptions are printed by the check.
   All statements are about the faithful Resolver.resolve with any fuel above the number of targets.

   Behavioural half (a change to X's outputs re-runs the consumer, unchanged outputs let it be skipped, X is built first):
   the skip decision of slice INC (C02_skip_sound / C03_unchanged_skips over Incremental.eq_state) is a function of the
   consumer's `rt_input` (files with their absolute paths and filters, commands with their directories). By
   C13_inherited_input below that list CONTAINS the producer's output resources verbatim, so instantiating the INC
   theorems with `rt_input (m t)` gives: a producer output file/command whose content differs from the recorded one makes
   eq_state false (re-run), and an unchanged tree makes it true (skip) — for command resources with equal text in
   different directories only after INC's FX3 (key = (cmd, dir)). "X built first" is C01 on `rt_deps`, which contains X
   (C13_inherits). The black-box part of props/C13.py exercises exactly this composition on the real binary. *)
From Zinoma.Model Require Import Bytes Cfg Names Ext Resolver.
From Zinoma.Proofs Require Import Bytes Names ResolverSpec ResolverPure ResolverSound Resolver ResolverClosure.

(* an `X.output` item among the raw inputs of t: X is parsed in t's project unless qualified, is a dependency of t,
   is a BUILD target of the resolved map, and its output resources appear verbatim, as one block after t's own
   resources, in t's input — files and commands *)
Theorem C13_inherits : forall cfg roots fuel m t rt dir yt s,
  (n_targets cfg < fuel)%nat -> resolve cfg roots fuel = Ok m -> tmap_get m t = Some rt ->
  lookup_yt cfg t = Some (dir, yt) -> In (YIDepOutput s) (yt_input yt) ->
  exists X rx,
    parse_oref (t_project t) s = Some X /\ In X (rt_deps rt) /\ tmap_get m X = Some rx /\ rt_kind rx = TBuild /\
    (exists a b, r_files (rt_input rt) = own_files (yt_input yt) dir ++ a ++ r_files (rt_output rx) ++ b) /\
    (exists a b, r_cmds (rt_input rt) = own_cmds (yt_input yt) dir ++ a ++ r_cmds (rt_output rx) ++ b).
Proof. exact inherits. Qed.

(* the complete layout: own resources first, then each producer's outputs in the order of the references
   (chains and several producers; a producer named twice is inherited twice) *)
Theorem C13_inherited_input : forall cfg roots fuel m t rt,
  (n_targets cfg < fuel)%nat -> resolve cfg roots fuel = Ok m -> tmap_get m t = Some rt ->
  exists dir yt orefs,
    lookup_yt cfg t = Some (dir, yt) /\ all_some (output_refs t yt) = Some orefs /\
    (forall x, In x orefs -> In x (rt_deps rt) /\ exists rx, tmap_get m x = Some rx /\ rt_kind rx = TBuild) /\
    r_files (rt_input rt) =
      own_files (yt_input yt) dir ++
      flat_map (fun x => match tmap_get m x with Some rx => r_files (rt_output rx) | None => [] end) orefs /\
    r_cmds (rt_input rt) =
      own_cmds (yt_input yt) dir ++
      flat_map (fun x => match tmap_get m x with Some rx => r_cmds (rt_output rx) | None => [] end) orefs.
Proof. exact inherited_input. Qed.

(* what a producer offers is bound to the PRODUCER's project directory, whoever consumes it: file paths are joined to
   its directory, extensions normalised, commands run in its directory *)
Theorem C13_output_bound_to_producer : forall cfg roots fuel m x rx,
  (n_targets cfg < fuel)%nat -> resolve cfg roots fuel = Ok m -> tmap_get m x = Some rx ->
  exists dx yx,
    lookup_yt cfg x = Some (dx, yx) /\ rt_dir rx = dx /\
    r_files (rt_output rx) = out_files (yt_output yx) dx /\ r_cmds (rt_output rx) = out_cmds (yt_output yx) dx.
Proof. exact output_bound_to_producer. Qed.

Theorem C13_command_dir : forall out dir c,
  In c (out_cmds out dir) -> cr_dir c = dir /\ In (YOCmd (cr_cmd c)) out.
Proof. exact out_cmds_dir. Qed.

Theorem C13_file_paths : forall out dir f,
  In f (out_files out dir) ->
  exists paths exts, In (YOFiles paths exts) out /\ fr_paths f = map (join_path dir) paths /\ fr_exts f = transform_extensions exts.
Proof. exact out_files_paths. Qed.

Theorem C13_relative_path_below_project : forall dir x p,
  dir <> [] -> ends_with_slash dir = false -> N.eqb x slash = false -> join_path dir (x :: p) = dir ++ slash :: x :: p.
Proof. exact join_path_relative. Qed.

(* across projects: `x.output` means the consumer's own project, `p::x.output` project p *)
Theorem C13_bare_reference : forall cur x,
  valid_name x = true -> parse_oref cur (x ++ dot_output) = Some {| t_project := cur; t_name := x |}.
Proof. exact parse_oref_bare. Qed.

Theorem C13_qualified_reference : forall cur p x,
  valid_name p = true -> valid_name x = true ->
  parse_oref cur ((p ++ [colon; colon] ++ x) ++ dot_output) = Some {| t_project := Some p; t_name := x |}.
Proof. exact parse_oref_qualified. Qed.

(* the inherited resources do not depend on the request nor on the entry project (C18 uses this) *)
Theorem C13_entry_independent : forall cfg1 cfg2 roots1 roots2 f1 f2 m1 m2 t r1 r2,
  (n_targets cfg1 < f1)%nat -> (n_targets cfg2 < f2)%nat ->
  resolve cfg1 roots1 f1 = Ok m1 -> resolve cfg2 roots2 f2 = Ok m2 ->
  tmap_get m1 t = Some r1 -> tmap_get m2 t = Some r2 ->
  lookup_yt cfg1 t = lookup_yt cfg2 t ->
  (forall x, In x (rt_deps r1) -> lookup_yt cfg1 x = lookup_yt cfg2 x) ->
  r1 = r2.
Proof. exact entry_independent. Qed.

(* non-vacuity: root "/r" (named p): c = build, input [own.txt; q::x.output; cmd "v"]; project q at "/r/q": x = build with
   output files [val.txt] (extensions ["txt"; ""]) and command "v".  The consumer's input: own file below /r, then x's
   file below /r/q with the normalised filter; own command in /r, then x's command in /r/q although the text is equal. *)
Definition xp : bytes := [112].
Definition xq : bytes := [113].
Definition xc : bytes := [99].
Definition xx : bytes := [120].
Definition val_txt : bytes := [118; 97; 108; 46; 116; 120; 116].
Definition own_txt : bytes := [111; 119; 110; 46; 116; 120; 116].
Definition ex_cfg : iconfig :=
  {| ic_root_name := Some xp;
     ic_projects :=
       [(Some xp, ([47; 114], {| yp_name := Some xp; yp_imports := [(xq, [113])];
           yp_targets := [(xc, YBuild [] [116] [YIFiles [own_txt] None; YIDepOutput ((xq ++ [colon; colon] ++ xx) ++ dot_output); YICmd [118]] [])] |}));
        (Some xq, ([47; 114; 47; 113], {| yp_name := Some xq; yp_imports := [];
           yp_targets := [(xx, YBuild [] [116] [] [YOFiles [val_txt] (Some [[116; 120; 116]; []]); YOCmd [118]])] |}))] |}.

Example C13_nonvacuous :
  match resolve_default ex_cfg [{| t_project := Some xp; t_name := xc |}] with
  | Ok m => option_map (fun rt => (rt_deps rt, rt_input rt)) (tmap_get m {| t_project := Some xp; t_name := xc |})
  | Err _ => None
  end =
  Some ([{| t_project := Some xq; t_name := xx |}],
        {| r_files := [ {| fr_paths := [[47; 114; 47] ++ own_txt]; fr_exts := None |};
                        {| fr_paths := [[47; 114; 47; 113; 47] ++ val_txt]; fr_exts := Some [[46; 116; 120; 116]] |} ];
           r_cmds := [ {| cr_cmd := [118]; cr_dir := [47; 114] |}; {| cr_cmd := [118]; cr_dir := [47; 114; 47; 113] |} ] |}).
Proof. vm_compute. reflexivity. Qed.
