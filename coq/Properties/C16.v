(* C16 — the watcher reacts to relevant changes only, and survives any file name.
   Property theorems only: each is closed by `exact <lemma>`; assumptions are printed by the check. *)
From Zinoma.Model Require Import Bytes Ext.
From Zinoma.Proofs Require Import Bytes Ext.

(* the filter applied to each event path is total (a boolean for every byte string) and says exactly:
   not an editor temporary, no `.zinoma` component, name ends with one of the extensions (if any) *)
Theorem C16_filter_spec : forall exts p n,
  file_name p = Some n ->
  (watch_filter exts p = true <->
   ~ TmpEditorName n /\ ~ HasZinomaComponent p /\ NameMatches exts n).
Proof. exact watch_filter_spec. Qed.

Theorem C16_total_without_name : forall exts p,
  file_name p = None -> watch_filter exts p = negb (in_work_dir p) && no_filter exts.
Proof. exact watch_filter_no_name. Qed.

(* zinoma's own state writes (anything at or below <dir>/.zinoma) never trigger a target *)
Theorem C16_state_writes_ignored : forall exts d rest,
  watch_filter exts (d ++ slash :: zinoma_name ++ slash :: rest) = false.
Proof. exact state_writes_ignored. Qed.

Theorem C16_editor_temporaries_ignored : forall exts p n,
  file_name p = Some n -> TmpEditorName n -> watch_filter exts p = false.
Proof. exact tmp_ignored. Qed.

Theorem C16_other_extensions_ignored : forall es p n,
  file_name p = Some n -> (forall e, In e es -> ~ EndsWith n e) -> watch_filter (Some es) p = false.
Proof. exact other_extension_ignored. Qed.

(* non-vacuity: a concrete relevant path, a concrete temporary, a concrete state write *)
Example C16_nonvacuous :
  let src_main_rs := [115;114;99;47;109;97;105;110;46;114;115] in   (* "src/main.rs" *)
  let rs := [46;114;115] in                                           (* ".rs" *)
  file_name src_main_rs = Some [109;97;105;110;46;114;115] /\
  watch_filter (Some [rs]) src_main_rs = true /\
  watch_filter (Some [rs]) (src_main_rs ++ [tilde]) = false /\
  watch_filter None ([115;114;99] ++ slash :: zinoma_name ++ slash :: [120]) = false.
Proof. vm_compute. repeat split. Qed.
