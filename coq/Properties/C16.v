(* C16 — the watcher reacts to relevant changes only, and survives any file name.
   Property theorems only: each is closed by `exact <lemma>`; assumptions are printed by the check. *)
From Zinoma.Model Require Import Bytes Ext.
From Zinoma.Proofs Require Import Bytes Ext.

(* the filter applied to each event path is total (a boolean for every byte string) and says exactly:
   not an editor temporary, no `.zinoma` component, name ends with one of the extensions (if any) *)
Theorem C16_filter_spec : forall exts p n,
  file_name p = Some n ->
  (watch_filter exts p = true <->
   ~ TmpEditorName n /\ ~ HasZinomaComponent p /\ NameMatches exts n).
Proof. exact watch_filter_spec. Qed.

Theorem C16_total_without_name : forall exts p,
  file_name p = None -> watch_filter exts p = negb (in_work_dir p) && no_filter exts.
Proof. exact watch_filter_no_name. Qed.

(* zinoma's own state writes (anything at or below <dir>/.zinoma) never trigger a target *)
Theorem C16_state_writes_ignored : forall exts d rest,
  watch_filter exts (d ++ slash :: zinoma_name ++ slash :: rest) = false.
Proof. exact state_writes_ignored. Qed.

Theorem C16_editor_temporaries_ignored : forall exts p n,
  file_name p = Some n -> TmpEditorName n -> watch_filter exts p = false.
Proof. exact tmp_ignored. Qed.

Theorem C16_other_extensions_ignored : forall es p n,
  file_name p = Some n -> (forall e, In e es -> ~ EndsWith n e) -> watch_filter (Some es) p = false.
Proof. exact other_extension_ignored. Qed.

(* AFTER THE REPAIR OF D16 (an input declared as a FILE is also watched through its directory, so that it survives being replaced
   by a rename): the filter has one more conjunct, `other_in_file_dir files` — `files` = the declared paths watched as files.
   Paths are compared as Rust compares them, by components (`pkey`: root, leading `.`, Normal and `..` components). *)

(* the declared file itself, under any spelling with the same components, is filtered exactly as before *)
Theorem C16_declared_file_still_relevant : forall files exts f p,
  In f files -> pkey p = pkey f -> watch_filter2 files exts p = watch_filter exts p.
Proof. exact declared_file_any_spelling. Qed.

(* any OTHER file in the directory of a declared file never triggers the target: the extra watch reports the declared file only *)
Theorem C16_neighbour_of_declared_file_ignored : forall files exts f p d,
  In f files -> parent_key (pkey f) = Some d -> parent_key (pkey p) = Some d ->
  (forall f', In f' files -> pkey f' <> pkey p) ->
  watch_filter2 files exts p = false.
Proof. exact neighbour_of_declared_file_ignored. Qed.

(* frame: a path whose directory is not the directory of a declared file is filtered exactly as before (always so when no
   input is declared as a file): the theorems above about `watch_filter` carry over *)
Theorem C16_no_declared_file_no_change : forall files exts p,
  (forall f d q, In f files -> parent_key (pkey f) = Some d -> parent_key (pkey p) = Some q -> q <> d) ->
  watch_filter2 files exts p = watch_filter exts p.
Proof. exact no_declared_file_no_change. Qed.

Example C16_declared_file_nonvacuous :
  let conf_settings := [47;112;47;99;111;110;102;47;115;46;105;110;105] in      (* "/p/conf/s.ini" *)
  let conf_other := [47;112;47;99;111;110;102;47;111;46;105;110;105] in         (* "/p/conf/o.ini" *)
  let conf_dot_settings := [47;112;47;99;111;110;102;47;46;47;115;46;105;110;105] in   (* "/p/conf/./s.ini" *)
  let src_a := [47;112;47;115;114;99;47;97] in                                  (* "/p/src/a" *)
  watch_filter2 [conf_settings] None conf_settings = true /\
  watch_filter2 [conf_settings] None conf_dot_settings = true /\
  watch_filter2 [conf_settings] None conf_other = false /\
  watch_filter None conf_other = true /\
  watch_filter2 [conf_settings] None src_a = true.
Proof. vm_compute. repeat split. Qed.

(* non-vacuity: a concrete relevant path, a concrete temporary, a concrete state write *)
Example C16_nonvacuous :
  let src_main_rs := [115;114;99;47;109;97;105;110;46;114;115] in   (* "src/main.rs" *)
  let rs := [46;114;115] in                                           (* ".rs" *)
  file_name src_main_rs = Some [109;97;105;110;46;114;115] /\
  watch_filter (Some [rs]) src_main_rs = true /\
  watch_filter (Some [rs]) (src_main_rs ++ [tilde]) = false /\
  watch_filter None ([115;114;99] ++ slash :: zinoma_name ++ slash :: [120]) = false.
Proof. vm_compute. repeat split. Qed.
