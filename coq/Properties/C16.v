(* C16 — the watcher reacts to relevant changes only, and survives any file name.
   Property theorems only: each is closed by `exact <lemma>`; assumptions are printed by the check. *)
From Zinoma.Model Require Import Bytes Ext Watch.
From Zinoma.Proofs Require Import Bytes Ext Watch.

(* the filter applied to each event path is total (a boolean for every byte string) and says exactly:
   not an editor temporary, no `.zinoma` component, name ends with one of the extensions (if any) *)
Theorem C16_filter_spec : forall exts p n,
  file_name p = Some n ->
  (watch_filter exts p = true <->
   ~ TmpEditorName n /\ ~ HasZinomaComponent p /\ NameMatches exts n).
Proof. exact watch_filter_spec. Qed.

Theorem C16_total_without_name : forall exts p,
  file_name p = None -> watch_filter exts p = negb (in_work_dir p) && no_filter exts.
Proof. exact watch_filter_no_name. Qed.

(* zinoma's own state writes (anything at or below <dir>/.zinoma) never trigger a target *)
Theorem C16_state_writes_ignored : forall exts d rest,
  watch_filter exts (d ++ slash :: zinoma_name ++ slash :: rest) = false.
Proof. exact state_writes_ignored. Qed.

Theorem C16_editor_temporaries_ignored : forall exts p n,
  file_name p = Some n -> TmpEditorName n -> watch_filter exts p = false.
Proof. exact tmp_ignored. Qed.

Theorem C16_other_extensions_ignored : forall es p n,
  file_name p = Some n -> (forall e, In e es -> ~ EndsWith n e) -> watch_filter (Some es) p = false.
Proof. exact other_extension_ignored. Qed.

(* AFTER THE REPAIR OF D16 (an input declared as a FILE is also watched through its directory, so that it survives being replaced
   by a rename): the filter has one more conjunct, `other_in_file_dir declared files` — `declared` = every path of the watcher's
   group, `files` = those watched as files.  Paths are compared as Rust compares them, by components (`pseq`: RootDir, a leading
   CurDir, Normal and `..` components; `lprefix` = Path::starts_with, `parent_seq` = Path::parent). *)

(* a declared path — the watched file under any spelling with the same components, a declared directory, anything below a
   declared directory — is filtered exactly as before *)
Theorem C16_declared_path_still_relevant : forall declared files exts w p,
  In w declared -> lprefix (pseq w) (pseq p) = true -> watch_filter2 declared files exts p = watch_filter exts p.
Proof. exact declared_path_still_relevant. Qed.

(* anything else in the directory of a watched file never triggers the target: the extra watch reports the declared paths only *)
Theorem C16_neighbour_of_declared_file_ignored : forall declared files exts f p d,
  In f files -> parent_seq (pseq f) = Some d -> parent_seq (pseq p) = Some d ->
  (forall w, In w declared -> lprefix (pseq w) (pseq p) = false) ->
  watch_filter2 declared files exts p = false.
Proof. exact neighbour_of_declared_file_ignored. Qed.

(* frame: a path whose directory is not the directory of a watched file is filtered exactly as before (always so when no
   input is declared as a file): the theorems above about `watch_filter` carry over *)
Theorem C16_no_declared_file_no_change : forall declared files exts p,
  (forall f d q, In f files -> parent_seq (pseq f) = Some d -> parent_seq (pseq p) = Some q -> q <> d) ->
  watch_filter2 declared files exts p = watch_filter exts p.
Proof. exact no_declared_file_no_change. Qed.

(* ... in particular everything spelled below a declared directory: `d`, a separator, anything *)
Theorem C16_below_declared_dir_still_relevant : forall declared files exts d rest,
  In d declared -> d <> [] -> watch_filter2 declared files exts (d ++ slash :: rest) = watch_filter exts (d ++ slash :: rest).
Proof. exact below_declared_dir_still_relevant. Qed.

Theorem C16_lprefix_spec : forall a b, lprefix a b = true <-> exists r, b = a ++ r.
Proof. exact lprefix_spec. Qed.

Example C16_declared_file_nonvacuous :
  let conf_settings := [47;112;47;99;111;110;102;47;115;46;105;110;105] in      (* "/p/conf/s.ini" *)
  let conf_other := [47;112;47;99;111;110;102;47;111;46;105;110;105] in         (* "/p/conf/o.ini" *)
  let conf_dot_settings := [47;112;47;99;111;110;102;47;46;47;115;46;105;110;105] in   (* "/p/conf/./s.ini" *)
  let conf_sub := [47;112;47;99;111;110;102;47;115;117;98] in                   (* "/p/conf/sub", a declared directory *)
  let conf_sub_x := [47;112;47;99;111;110;102;47;115;117;98;47;120] in          (* "/p/conf/sub/x" *)
  let src_a := [47;112;47;115;114;99;47;97] in                                  (* "/p/src/a" *)
  let declared := [conf_settings; conf_sub] in
  watch_filter2 declared [conf_settings] None conf_settings = true /\
  watch_filter2 declared [conf_settings] None conf_dot_settings = true /\
  watch_filter2 declared [conf_settings] None conf_other = false /\
  watch_filter None conf_other = true /\
  watch_filter2 declared [conf_settings] None conf_sub = true /\
  watch_filter2 declared [conf_settings] None conf_sub_x = true /\
  watch_filter2 declared [conf_settings] None src_a = true.
Proof. vm_compute. repeat split. Qed.

(* WHICH OPERATIONS ARE REPORTED AT ALL (Model/Watch.v; the semantics of inotify watches is ASSUMED there: a directory watch
   reports its children by name, a watch on a file follows the inode and dies when the path gets a new one).  `run_ops W ops` =
   one flag per operation: was it reported to the callback?  The watches of one group of declared paths: `watches_pinned dirs
   files` before the repair of D16, `watches_fixed dirs files` after it (the directory of every declared file that no declared
   directory covers is watched too). *)

(* after the repair every operation on a declared file — rewritten in place or replaced by a rename, any number of times in any
   order — is reported *)
Theorem C16_fixed_reports_every_change_of_a_declared_file : forall dirs files f q ops,
  In f files -> parent_seq (pseq f) = Some q ->
  (forall o, In o ops -> pseq (op_path o) = pseq f) ->
  Forall (fun b => b = true) (run_ops (watches_fixed dirs files) ops).
Proof. exact fixed_reports_every_change. Qed.

(* D16: before the repair, after ONE atomic save of a declared file nothing about it is reported any more *)
Theorem C16_pinned_file_watch_lost_refuted :
  let f := [47;112;47;99;111;110;102;47;115;46;105;110;105] in      (* "/p/conf/s.ini" *)
  run_ops (watches_pinned [] [f]) [OpReplace f; OpModify f; OpReplace f] = [true; false; false] /\
  run_ops (watches_fixed [] [f]) [OpReplace f; OpModify f; OpReplace f] = [true; true; true].
Proof. exact pinned_file_watch_lost. Qed.

(* operations below a declared directory are reported, before and after the repair; with no declared file the repair adds nothing *)
Theorem C16_below_declared_dir_reported : forall dirs files d ops (fixed : bool),
  In d dirs -> (forall o, In o ops -> lprefix (pseq d) (pseq (op_path o)) = true) ->
  Forall (fun b => b = true) (run_ops (if fixed then watches_fixed dirs files else watches_pinned dirs files) ops).
Proof. exact below_declared_dir_reported. Qed.

Theorem C16_fixed_eq_pinned_without_files : forall dirs, watches_fixed dirs [] = watches_pinned dirs [].
Proof. exact fixed_eq_pinned_without_files. Qed.

(* non-vacuity: a concrete relevant path, a concrete temporary, a concrete state write *)
Example C16_nonvacuous :
  let src_main_rs := [115;114;99;47;109;97;105;110;46;114;115] in   (* "src/main.rs" *)
  let rs := [46;114;115] in                                           (* ".rs" *)
  file_name src_main_rs = Some [109;97;105;110;46;114;115] /\
  watch_filter (Some [rs]) src_main_rs = true /\
  watch_filter (Some [rs]) (src_main_rs ++ [tilde]) = false /\
  watch_filter None ([115;114;99] ++ slash :: zinoma_name ++ slash :: [120]) = false.
Proof. vm_compute. repeat split. Qed.
