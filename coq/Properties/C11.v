(* C11 — services: kept alive when requested, transient when only depended on; never two instances at once.
   Property theorems only; proofs are in Proofs/SysProc.v, Proofs/SysSvc.v, Proofs/SysC01.v. *)
From Zinoma.Proofs Require Import SysSvc SysSvcKeep.

(* at every instant of every run (every prefix of the history) a service has at most one live instance, stops never
   exceed spawns, and the number of live instances is the actor's `running` flag: a restart stops the old instance first *)
Theorem C11_single_instance :
  forall (fx w : bool) (g : graph) (roots : list tid) (s : sys) (t : tid) (a : astate),
    reachable fx w g roots s -> actors s !! t = Some a -> a_kind a = AService ->
    (forall h1 h2, hist s = h1 ++ h2 ->
       nob (ObStop t) h1 <= nob (ObSucc t) h1 /\ nob (ObSucc t) h1 <= nob (ObStop t) h1 + 1) /\
    nob (ObSucc t) (hist s) = nob (ObStop t) (hist s) + Nat.b2n (running a).
Proof. intros fx w g roots s t a. exact (single_instance fx g roots w s t a). Qed.

(* when the one-shot loop has received every acknowledgement, zinoma stays alive (waits for a termination signal)
   exactly when a requested target is a service or aggregates one, directly or through nested aggregates *)
Theorem C11_keepalive_iff :
  forall (fx w : bool) (g : graph) (roots : list tid) (s : sys),
    reachable fx w g roots s -> r_unavS s = ∅ ->
    (r_svc s <> ∅ <-> exists r, r ∈ roots /\ svc_behind g r).
Proof. intros fx w g roots s. exact (keepalive_iff fx g roots w s). Qed.

(* a service that is a dependency is started before its dependents (instance of C01) *)
Theorem C11_started_before_dependents :
  forall (fx w : bool) (g : graph) (roots : list tid) (s : sys),
    reachable fx w g roots s ->
    forall h1 t h2, hist s = h1 ++ ObStart t :: h2 ->
    forall d deps, eff_dep g t d -> g !! d = Some (AService, deps) -> ObSucc d ∈ h1.
Proof. intros fx w g roots s. exact (service_started_before_dependents fx g roots w s). Qed.

(* one-shot: a service that was started is left running as long as termination has not begun — it is there while the builds
   that depend on it run, and while zinoma waits for a signal; it is stopped only by the shutdown (C10: which never gets
   stuck and leaves nothing behind). Nobody ever sends an Unrequested message. *)
Theorem C11_service_kept_until_termination :
  forall (fx : bool) (g : graph) (roots : list tid) (s : sys) (t : tid),
    reachable fx false g roots s -> (ph s = PRun \/ ph s = PWaitTerm) -> ObStop t ∉ hist s.
Proof. exact service_kept_until_termination. Qed.
