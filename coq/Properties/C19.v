(* C19 — target names resolve uniquely; root targets work bare and qualified.
   Property theorems only: each is closed by `exact <lemma>`; assumptions are printed by the check.
   Vocabulary: Names.try_parse / display (domain.rs TargetId), Resolver.available_names (the names clap accepts:
   ir.rs list_all_available_target_names), Resolver.list_all_targets, Resolver.resolve.
   Hypotheses on the loaded configuration (established by the loader, slice CFG / C14):
     names_valid cfg        every project and target name matches ^\w[-\w]*$
     only_root_unnamed cfg  an unnamed project can only be the root (unnamed imports are rejected)
   "Uniquely" additionally needs pairwise distinct project names (FX7, C14): lookups are by project name. *)
From Zinoma.Model Require Import Bytes Cfg Names Ext Resolver.
From Zinoma.Proofs Require Import Bytes Names ResolverSpec ResolverPure ResolverSound Resolver ResolverMain.

(* with the root project named P, `t` and `P::t` denote the same id (whatever the current project for the qualified one) *)
Theorem C19_bare_eq_qualified : forall P t cur,
  valid_name P = true -> valid_name t = true ->
  try_parse t (Some P) = Some {| t_project := Some P; t_name := t |} /\
  try_parse (P ++ [colon; colon] ++ t) cur = Some {| t_project := Some P; t_name := t |}.
Proof. exact bare_eq_qualified. Qed.

(* valid names never contain ':' (hence no "::") nor '.', so a name is never mistaken for a qualified name or a
   `.output` reference *)
Theorem C19_valid_names_no_separator : forall s, valid_name s = true -> ~ In colon s /\ ~ In dot s.
Proof. exact valid_name_no_separator. Qed.

(* the accepted command-line names are exactly: the printed form of every loaded target, plus the bare names of the
   root project's targets when the root is named *)
Theorem C19_accepted_names : forall cfg names,
  available_names cfg = Some names ->
  forall s, In s names <->
    (exists id, In id (list_all_targets cfg) /\ s = display id) \/
    (exists p dir pr yt, ic_root_name cfg = Some p /\ lookup_project cfg (Some p) = Some (dir, pr) /\ In (s, yt) (yp_targets pr)).
Proof. exact accepted_names_spec. Qed.

(* every loaded target is requestable by its printed form `project::target` (bare for an unnamed root), which parses
   back to the target's id; a target of the named root project also by its bare name, which parses to the SAME id *)
Theorem C19_every_target_requestable : forall cfg names id,
  names_valid cfg -> only_root_unnamed cfg -> available_names cfg = Some names -> In id (list_all_targets cfg) ->
  In (display id) names /\ try_parse (display id) (ic_root_name cfg) = Some id /\
  (t_project id = ic_root_name cfg -> lookup_project cfg (ic_root_name cfg) <> None ->
   (exists dir pr yt, lookup_project cfg (ic_root_name cfg) = Some (dir, pr) /\ In (t_name id, yt) (yp_targets pr)) ->
   In (t_name id) names /\ try_parse (t_name id) (ic_root_name cfg) = Some id).
Proof. exact every_target_requestable. Qed.

(* conversely every accepted name denotes a loaded target (so main's `try_parse_many(..).unwrap()` cannot panic) *)
Theorem C19_accepted_names_denote_targets : forall cfg names s,
  names_valid cfg -> only_root_unnamed cfg -> available_names cfg = Some names -> In s names ->
  exists id, try_parse s (ic_root_name cfg) = Some id /\ In id (list_all_targets cfg).
Proof. exact accepted_names_parse. Qed.

(* asking for a target twice — e.g. in both spellings, which denote one id — gives the same resolved map as asking once;
   with C09_sound (NoDup of the keys) the target is loaded once, and with C08 it runs once *)
Theorem C19_both_spellings_once : forall cfg fuel r1 a r2 r3,
  resolve cfg (r1 ++ a :: r2 ++ a :: r3) (S fuel) = resolve cfg (r1 ++ a :: r2 ++ r3) (S fuel).
Proof. exact resolve_duplicate_root. Qed.

(* inside project p a bare reference means a target of p (the resolver parses the references of t with
   current project = t_project t, see C09_deps / declared_refs / output_refs) … *)
Theorem C19_bare_means_same_project : forall s cur id,
  try_parse s cur = Some id -> ~ In colon s -> id = {| t_project := cur; t_name := s |}.
Proof. exact try_parse_bare_inv. Qed.

(* … so equal target names in different projects are different targets with different printed forms … *)
Theorem C19_same_name_other_project : forall p q n,
  p <> q -> ~ In colon p -> ~ In colon q -> ~ In colon n ->
  {| t_project := Some p; t_name := n |} <> {| t_project := Some q; t_name := n |} /\
  display {| t_project := Some p; t_name := n |} <> display {| t_project := Some q; t_name := n |}.
Proof. exact same_name_other_project. Qed.

(* … and the printed form identifies the target (also used for the state-file names of C18) *)
Theorem C19_display_injective : forall a b, valid_id a -> valid_id b -> display a = display b -> a = b.
Proof. exact display_inj_valid. Qed.

(* "uniquely": with pairwise distinct project names (FX7, C14) a project name means one project, whatever the order of the
   hash map the projects are kept in *)
Theorem C19_unique_project : forall cfg pn dp,
  NoDup (map fst (ic_projects cfg)) -> In (pn, dp) (ic_projects cfg) -> lookup_project cfg pn = Some dp.
Proof. exact unique_project. Qed.

(* non-vacuity: root "p" with targets t, u; imported "q" with target t.  Accepted names, both spellings of p::t,
   and the two different targets called t. *)
Definition xp : bytes := [112].
Definition xq : bytes := [113].
Definition xt : bytes := [116].
Definition xu : bytes := [117].
Definition ex_cfg : iconfig :=
  {| ic_root_name := Some xp;
     ic_projects :=
       [(Some xp, ([47; 114], {| yp_name := Some xp; yp_imports := [(xq, [113])];
                                yp_targets := [(xt, YBuild [xq ++ [colon; colon] ++ xt] [120] [] []); (xu, YAggregate [xt])] |}));
        (Some xq, ([47; 114; 47; 113], {| yp_name := Some xq; yp_imports := [];
                                          yp_targets := [(xt, YBuild [] [121] [] [])] |}))] |}.

Example C19_nonvacuous :
  available_names ex_cfg = Some [xp ++ [colon; colon] ++ xt; xp ++ [colon; colon] ++ xu; xq ++ [colon; colon] ++ xt; xt; xu] /\
  try_parse_many [xt; xp ++ [colon; colon] ++ xt] (Some xp) =
    Some [{| t_project := Some xp; t_name := xt |}; {| t_project := Some xp; t_name := xt |}] /\
  match resolve_default ex_cfg [{| t_project := Some xp; t_name := xt |}; {| t_project := Some xp; t_name := xt |}] with
  | Ok m => map (fun kv => (display (fst kv), rt_script (snd kv))) m
  | Err _ => []
  end = [(xp ++ [colon; colon] ++ xt, [120]); (xq ++ [colon; colon] ++ xt, [121])].
Proof. vm_compute. repeat split. Qed.
