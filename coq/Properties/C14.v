(* C14 — configuration is validated strictly, totally and deterministically.
   Property theorems only: each is closed by `exact <lemma>`; assumptions are printed by the check.
   Model: Model/Config.v (serde acceptance of a YAML value, Config::load, ir::Config::from, main up to the first effect).
   Vocabulary (Proofs/ConfigSchema.v, Proofs/ConfigLoad.v):
     ProjectDenotes v p   the YAML value v matches the schema and denotes the project p (declarative grammar)
     proj fs d p          the file of directory d denotes the valid project p (schema + name syntax)
     Reach fs canon r d   d is reachable from the root r through import edges
     OrderOk ord          ord d is a permutation of the imports of d: any HashMap iteration order
     Covers fs canon r U  U lists (at least) the reachable directories; fuel > length U suffices. *)
From Zinoma.Model Require Import Config.
From Zinoma.Proofs Require Import ConfigSchema ConfigLoad ConfigMain ConfigExamples ConfigRes ConfigResMain.
Require Zinoma.Proofs.Resolver.
From Coq Require Import Permutation.

(* ---- strict: what serde accepts is exactly the grammar (no unknown key at any level, a target is the first of
        build / service / aggregate that its mapping matches, resources and scalars well typed) ---- *)
Theorem C14_schema_accepts_iff : forall v p, accept_project v = Some p <-> ProjectDenotes v p.
Proof. exact accept_project_iff. Qed.

Theorem C14_schema_matches : forall v, accept_project v <> None <-> MatchesSchema v.
Proof. exact accept_project_matches. Qed.

(* each target is exactly one of build / service / aggregate: a mapping never matches aggregate together with another
   kind, and matches both build and service only when it spells the script field as the integer key 1 (then build wins) *)
Theorem C14_exactly_one_kind : forall v,
  (IsBuild v -> IsAggregate v -> False) /\ (IsService v -> IsAggregate v -> False) /\
  (IsBuild v -> IsService v -> UsesIndexKey v 1).
Proof. exact kinds_exclusive. Qed.

Theorem C14_index_key_overlap :
  IsBuild (YMap [(YNat 1 [49], YStr b_x)]) /\ IsService (YMap [(YNat 1 [49], YStr b_x)]) /\
  accept_target (YMap [(YNat 1 [49], YStr b_x)]) = Some (YBuild [] b_x [] []).
Proof. exact index_key_overlap. Qed.

(* a mapping with a repeated key (targets, imports): keys end up distinct and each reads its last value in document
   order; this is a function of the document, no hash order is involved *)
Theorem C14_repeated_key_last_wins : forall (V : Type) (es : list (bytes * V)),
  NoDup (map fst (hm_of_list es)) /\ forall k, hm_get k (hm_of_list es) = last_binding k es.
Proof. exact @hm_of_list_spec. Qed.

(* the grammar is wider than the documented mapping form in three positional spellings (model of the code that exists) *)
Theorem C14_positional_spellings_accepted :
  accept_project (YSeq []) = Some {| yp_name := None; yp_imports := []; yp_targets := [] |} /\
  accept_project (YMap [(YStr k_targets, YMap [(YStr b_t, YMap [(YNat 1 [49], YStr b_x)])])])
    = Some {| yp_name := None; yp_imports := []; yp_targets := [(b_t, YBuild [] b_x [] [])] |} /\
  accept_project (YMap [(YStr k_name, YNat 5 [53])]) = Some {| yp_name := Some [53]; yp_imports := []; yp_targets := [] |}.
Proof. exact lenient_forms. Qed.

(* ---- deterministic: verdict and loaded map are the same for every iteration order of every imports map ---- *)
Theorem C14_loader_order_independent : forall fs canon root ord1 ord2 U f1 f2,
  OrderOk ord1 -> OrderOk ord2 -> Covers fs canon root U -> (length U < f1)%nat -> (length U < f2)%nat ->
  match load_config fs canon ord1 f1 root, load_config fs canon ord2 f2 root with
  | LOk c1, LOk c2 =>
      yc_root c1 = yc_root c2 /\ Permutation (yc_projects c1) (yc_projects c2) /\
      (forall x, vis_get x (yc_projects c1) = vis_get x (yc_projects c2))
  | LErr _, LErr _ => True
  | _, _ => False
  end.
Proof. exact load_order_independent. Qed.

(* the same for the loader without the uniqueness test (pinned code): the traversal itself is order independent *)
Theorem C14_pinned_loader_order_independent : forall fs canon root ord1 ord2 U f1 f2,
  OrderOk ord1 -> OrderOk ord2 -> Covers fs canon root U -> (length U < f1)%nat -> (length U < f2)%nat ->
  match load_config_pinned fs canon ord1 f1 root, load_config_pinned fs canon ord2 f2 root with
  | LOk c1, LOk c2 =>
      yc_root c1 = yc_root c2 /\ Permutation (yc_projects c1) (yc_projects c2) /\
      (forall x, vis_get x (yc_projects c1) = vis_get x (yc_projects c2))
  | LErr _, LErr _ => True
  | _, _ => False
  end.
Proof. exact pinned_order_independent. Qed.

(* a successful load holds exactly the reachable directories, each with the project its file denotes *)
Theorem C14_loader_spec : forall fs canon root ord,
  OrderOk ord -> forall U, Covers fs canon root U -> forall fuel c,
  load_config fs canon ord fuel root = LOk c ->
  yc_root c = root /\ LoadedSpec fs canon root (yc_projects c) /\ NamesInjective fs canon root.
Proof. exact load_ok. Qed.

(* the verdict, declaratively: accepted iff every reachable directory has a valid project file whose imports
   resolve to projects of the right name, and names are unique *)
Theorem C14_loader_verdict : forall fs canon root ord,
  OrderOk ord -> forall U, Covers fs canon root U -> forall fuel, (length U < fuel)%nat ->
  ((exists c, load_config fs canon ord fuel root = LOk c) <-> Good fs canon root /\ NamesInjective fs canon root).
Proof. exact load_verdict. Qed.

(* every error is explained by a defect at a directory reachable from the root *)
Theorem C14_load_error_explained : forall fs canon root ord,
  OrderOk ord -> forall U, Covers fs canon root U -> forall fuel, (length U < fuel)%nat -> forall e,
  load_config fs canon ord fuel root = LErr e ->
  (e = LE_DuplicateProjectName /\ Good fs canon root /\ NameClash fs canon root) \/
  (exists x, Reach fs canon root x /\ Defect fs canon x e).
Proof. exact load_err. Qed.

(* import cycles and self-imports terminate: with fuel > number of directories the recursion never runs out, and the
   HashMap index `projects[&import_dir]` never panics *)
Theorem C14_import_cycles_terminate : forall fs canon root ord,
  OrderOk ord -> forall U, Covers fs canon root U -> forall fuel, (length U < fuel)%nat -> forall e,
  load_config fs canon ord fuel root = LErr e -> e <> LE_Fuel /\ e <> LE_PanicIndex.
Proof. exact load_never_internal. Qed.

(* ---- import names ---- *)
Theorem C14_import_name_checked : forall fs canon root ord U fuel c,
  OrderOk ord -> Covers fs canon root U -> load_config fs canon ord fuel root = LOk c ->
  (forall x p nm rel, vis_get x (yc_projects c) = Some p -> In (nm, rel) (yp_imports p) ->
     exists y q, canon x rel = Some y /\ vis_get y (yc_projects c) = Some q /\ yp_name q = Some nm) /\
  (forall x p, vis_get x (yc_projects c) = Some p -> yp_name p = None -> x = root).
Proof. exact load_import_name_checked. Qed.

(* ---- project names unique (after FX7): lookup by name is a function ---- *)
Theorem C14_names_injective : forall fs canon root ord U fuel c,
  OrderOk ord -> Covers fs canon root U -> load_config fs canon ord fuel root = LOk c ->
  forall x y p q, vis_get x (yc_projects c) = Some p -> vis_get y (yc_projects c) = Some q ->
    yp_name p = yp_name q -> x = y.
Proof. exact load_names_injective. Qed.

(* ir::Config::from collects the projects in HashMap order: with unique names every order gives the same lookups *)
Theorem C14_ir_lookup_order_independent : forall fs canon root vis,
  LoadedSpec fs canon root vis -> NamesInjective fs canon root -> forall order n,
  Permutation vis order ->
  match to_ir {| yc_root := root; yc_projects := vis |}, to_ir_ordered {| yc_root := root; yc_projects := vis |} order with
  | Some ic, Some ic' =>
      ic_root_name ic' = ic_root_name ic /\ ir_lookup n (ic_projects ic') = ir_lookup n (ic_projects ic)
  | _, _ => False
  end.
Proof. exact to_ir_any_order. Qed.

(* ... and the same names are offered on the command line *)
Theorem C14_offered_names_order_independent : forall fs canon root vis,
  LoadedSpec fs canon root vis -> NamesInjective fs canon root -> forall order,
  Permutation vis order ->
  match to_ir {| yc_root := root; yc_projects := vis |}, to_ir_ordered {| yc_root := root; yc_projects := vis |} order with
  | Some ic, Some ic' =>
      match ir_available_names ic, ir_available_names ic' with
      | Some names, Some names' => Permutation names names'
      | _, _ => False
      end
  | _, _ => False
  end.
Proof. exact to_ir_any_order_names. Qed.

(* pinned behaviour (defect D10): two directories named `x` are accepted and which one `x` denotes depends on the order *)
Theorem C14_duplicate_name_refuted :
  exists c o1 o2,
    load_config_pinned d10_fs d10_canon id_order 3 b_r = LOk c /\
    Permutation (yc_projects c) o1 /\ Permutation (yc_projects c) o2 /\
    option_map fst (d10_meaning o1) = Some b_r /\ option_map fst (d10_meaning o2) = Some b_s.
Proof. exact d10_refuted. Qed.

Theorem C14_duplicate_name_rejected_after_fix :
  load_config d10_fs d10_canon id_order 3 b_r = LErr LE_DuplicateProjectName.
Proof. exact d10_fixed. Qed.

(* ---- total: no panic on the path to the first effect ---- *)
Theorem C14_total : forall fs canon ord resolve E effects_of,
  OrderOk ord -> forall root U, Covers fs canon root U -> forall fuel, (length U < fuel)%nat -> forall req clean watch,
  fst (main_front fs canon ord resolve E effects_of fuel root req clean watch) <> FO_Panic /\
  (forall e, fst (main_front fs canon ord resolve E effects_of fuel root req clean watch) = FO_LoadError e ->
             e <> LE_Fuel /\ e <> LE_PanicIndex).
Proof. exact front_total. Qed.

(* the `unwrap` of main.rs on try_parse_many: every name offered to clap parses *)
Theorem C14_offered_names_parse : forall fs canon root vis,
  LoadedSpec fs canon root vis -> forall ic, to_ir {| yc_root := root; yc_projects := vis |} = Some ic ->
  exists names, ir_available_names ic = Some names /\
                forall s, In s names -> try_parse s (ic_root_name ic) <> None.
Proof. exact ir_available_parse. Qed.

(* the `unwrap` of ir.rs in "Project {} does not exist": an id without project arises only under an unnamed root,
   whose key None is present *)
Theorem C14_unqualified_id_has_project : forall fs canon root vis,
  LoadedSpec fs canon root vis -> forall ic s id, to_ir {| yc_root := root; yc_projects := vis |} = Some ic ->
  try_parse s (ic_root_name ic) = Some id -> t_project id = None ->
  ir_lookup None (ic_projects ic) <> None.
Proof. exact ir_unqualified_has_project. Qed.

(* the hypotheses of the resolver's theorems (slice RES) hold of every loaded configuration *)
Theorem C14_resolver_preconditions : forall fs canon root ord U fuel c ic,
  OrderOk ord -> Covers fs canon root U -> load_config fs canon ord fuel root = LOk c -> to_ir c = Some ic ->
  Resolver.lookup_project ic (ic_root_name ic) <> None /\
  (forall pn dir pr, In (pn, (dir, pr)) (ic_projects ic) ->
     (forall p, pn = Some p -> valid_name p = true) /\
     (forall n yt, In (n, yt) (yp_targets pr) -> valid_name n = true)) /\
  NoDup (map fst (ic_projects ic)) /\
  (forall dp, In (None, dp) (ic_projects ic) -> ic_root_name ic = None).
Proof. exact loaded_resolver_preconditions. Qed.

(* composed with slice RES's theorems about the rest of main (name listing, request parsing, resolution: the real
   `main_phases` model): after ANY accepted load, main never panics, reports only documented resolver errors, and has
   performed no effect unless it runs *)
Theorem C14_whole_main_never_panics : forall fs canon root ord U fuel c ic req clean watch effs out,
  OrderOk ord -> Covers fs canon root U -> load_config fs canon ord fuel root = LOk c -> to_ir c = Some ic ->
  Resolver.main_phases ic req clean watch = (effs, out) ->
  out <> Resolver.OutPanic /\ (forall e, out = Resolver.OutResolveError e -> Zinoma.Proofs.Resolver.reported_class e) /\
  (out <> Resolver.OutRan -> effs = []).
Proof. exact loaded_main_never_panics. Qed.

(* ---- errors precede effects ---- *)
Theorem C14_error_before_effects : forall fs canon ord resolve E effects_of fuel root req clean watch,
  (forall ids, fst (main_front fs canon ord resolve E effects_of fuel root req clean watch) <> FO_Proceed ids) ->
  snd (main_front fs canon ord resolve E effects_of fuel root req clean watch) = [].
Proof. exact front_error_before_effects. Qed.

(* non-vacuity: a layout with an import cycle and a self-import satisfies the hypotheses, loads under two different
   orders to the same directories, and main proceeds on a bare and a qualified request *)
Example C14_nonvacuous :
  OrderOk id_order /\ OrderOk rev_order /\ Covers cyc_fs cyc_canon b_r [b_r; b_s] /\
  (exists c1 c2, load_config cyc_fs cyc_canon id_order 3 b_r = LOk c1 /\
                 load_config cyc_fs cyc_canon rev_order 3 b_r = LOk c2 /\
                 map fst (yc_projects c1) = [b_s; b_r] /\ map fst (yc_projects c2) = [b_s; b_r]) /\
  fst (main_front cyc_fs cyc_canon id_order (fun _ _ => true) unit (fun _ _ _ _ => [tt]) 3 b_r
         (Some [b_t; b_s ++ [58; 58] ++ b_t]) true false)
  = FO_Proceed [ {| t_project := Some b_r; t_name := b_t |}; {| t_project := Some b_s; t_name := b_t |} ].
Proof. exact (conj id_order_ok (conj rev_order_ok (conj cyc_covers (conj cyc_loads cyc_front_proceeds)))). Qed.
