(* C10 — every exit path leaves no spawned process behind.
   Property theorems only; proofs are in Proofs/SysProc.v, Proofs/SysRoot.v, Proofs/SysTerm.v, Proofs/SysBound.v. *)
From Zinoma.Proofs Require Import SysProc SysTerm SysBound SysShutdownW SysSignal SysWitness.

(* any mode, any interleaving, whichever way out (normal completion, failed target, signal): an actor that has left its
   loop holds neither a build script nor a service process — the kill and the reaping happen before the loop is left *)
Theorem C10_exited_actor_holds_no_process :
  forall (fx w : bool) (g : graph) (roots : list tid) (s : sys) (t : tid) (a : astate),
    reachable fx w g roots s -> actors s !! t = Some a -> exited a = true -> ongoing a = false /\ running a = false.
Proof. intros fx w g roots s t a. exact (exited_holds_no_process fx g roots w s t a). Qed.

(* the process exits only after every actor task has ended, hence with no script or service left *)
Theorem C10_no_child_after_exit :
  forall (fx w : bool) (g : graph) (roots : list tid) (s : sys) (st : status) (t : tid) (a : astate),
    reachable fx w g roots s -> ph s = PExited st -> actors s !! t = Some a -> ongoing a = false /\ running a = false.
Proof. intros fx w g roots s st t a. exact (no_child_after_exit fx g roots w s st t a). Qed.

(* an error status names a target whose failure really happened *)
Theorem C10_error_status_names_a_failure :
  forall (fx w : bool) (g : graph) (roots : list tid) (s : sys) (t : tid),
    reachable fx w g roots s -> status_of (ph s) = Some (SErr t) -> ObFail t ∈ hist s.
Proof. intros fx w g roots s t. exact (status_names_failure fx g roots w s t). Qed.

(* the logic of the shutdown never gets stuck: once termination has begun (normal completion, a failed target, SIGINT or
   SIGTERM at any moment, any mode, any number of messages in flight) some step is enabled until the process has exited —
   every actor has exited, still holds its termination message, or is a build whose cancellation result is due; no step
   waits for a script to finish by itself (a cancelled script is killed) *)
Theorem C10_shutdown_never_stuck :
  forall (fx w : bool) (g : graph) (roots : list tid) (s : sys) (st : status),
    reachable fx w g roots s -> ph s = PTerminating st -> quiescent fx w s = false.
Proof. intros fx w g roots s st. exact (shutdown_never_stuck fx w g roots s st). Qed.

(* non-vacuity: `b: [a]` requested, a signal arrives while a's script runs: the script is cancelled, both actors end, the
   process exits with nothing left *)
Example C10_nonvacuous :
  let g : graph := <[1%N := (ABuild, [])]> (<[2%N := (ABuild, [1%N])]> ∅) in
  exists s,
    run_labels true false (init_sys g [2%N])
      [LDeliver 2%N true; LDeliver 1%N true; LSignal; LRootSignal; LTermActor 1%N; LTermActor 2%N;
       LBuildDone 1%N RCancelled; LJoin] = Some s /\
    ph s = PExited SOk /\ hist s = [ObStart 1%N; ObExit 2%N; ObCancel 1%N; ObExit 1%N].
Proof. eexists. vm_compute. repeat split; reflexivity. Qed.

(* SHUTDOWN COMPLETES (one-shot). Once termination has begun — failed target, normal end, or signal consumed — a continuation
   of at most Phi(s) steps ends in the exited state with the same status; no continuation is longer (C04_continuations_bounded)
   and none gets stuck before the exit (C10_shutdown_never_stuck). The number of steps does not depend on any script: a
   script in progress is cancelled (killed), never awaited. *)
Theorem C10_oneshot_shutdown_completes :
  forall (fx : bool) (g : graph) (roots : list tid) (s : sys) (st : status),
    reachable fx false g roots s -> ph s = PTerminating st ->
    exists ls s', run_labels fx false s ls = Some s' /\ ph s' = PExited st /\ length ls <= Phi s.
Proof. exact shutdown_completes. Qed.

(* ... IN EVERY MODE (watch mode included: a signal arriving with a rebuild cascade in flight, builds in progress, services up):
   with the repaired handlers, for every acyclic graph, from every reachable state in which termination has begun, a continuation
   of at most PhiW(s) steps — PhiW the weighted potential of C06_rebuild_cascade_is_finite — ends in the exited state with the same
   status; by that theorem no continuation without further file changes is longer. *)
Theorem C10_shutdown_completes_any_mode :
  forall (g : graph) (roots : list tid) (w : bool) (rank : tid -> nat),
    (forall t k deps d, g !! t = Some (k, deps) -> d ∈ deps -> (rank d < rank t)%nat) ->
    forall (s : sys) (st : status),
      reachable true w g roots s -> ph s = PTerminating st ->
      exists ls s', run_labels true w s ls = Some s' /\ ph s' = PExited st /\
                    (length ls <= PhiW (wokG g rank) (winvG g rank) (sokG g rank) s)%nat.
Proof. exact shutdown_completes_any_mode. Qed.

(* the hypotheses are met in watch mode with a cascade in flight: `2: [1]` watched, first run done, the input of 1 changes, 1 is
   being rebuilt (its script is in progress, 2 is out of date) when the signal arrives and the root begins the termination *)
Example C10_terminating_mid_cascade :
  let g : graph := <[1%N := (ABuild, [])]> (<[2%N := (ABuild, [1%N])]> ∅) in
  exists s,
    run_labels true true (init_sys g [2%N])
      [LDeliver 2%N true; LDeliver 1%N true; LDeliver 1%N true; LBuildDone 1%N RCompleted; LDeliver 2%N true;
       LDeliver 2%N true; LDeliver 2%N true; LBuildDone 2%N RCompleted; LRoot; LRoot;
       LChange [1%N]; LInval 1%N true; LSignal; LRootSignal] = Some s /\
    (bool_decide (ph s = PTerminating SOk) && negb (quiescent true true s) &&
     bool_decide (hist s = [ObStart 1%N; ObSucc 1%N; ObStart 2%N; ObSucc 2%N; ObStart 1%N])) = true.
Proof. apply witness_intro. vm_compute. reflexivity. Qed.

(* "A TERMINATION SIGNAL IS ALWAYS HONOURED, ALSO WHILE MANY MESSAGES ARE IN FLIGHT": in any state that has not exited a signal can
   arrive, and — whatever the inboxes and the root's queue hold (they are left untouched) — as long as the root has not begun to
   terminate it can consume the pending signal, which begins the termination of EVERY actor (the termination message goes to all
   of them); from there C10_shutdown_never_stuck and C10_shutdown_completes_any_mode. *)
Theorem C10_signal_can_always_arrive :
  forall (fx w : bool) (s : sys), (forall st, ph s <> PExited st) ->
    exists s', exec fx w s LSignal = Some s' /\ sigq s' = true /\ ph s' = ph s.
Proof. exact signal_can_always_arrive. Qed.

Theorem C10_signal_always_honoured :
  forall (fx w : bool) (s : sys), sigq s = true -> (ph s = PRun \/ ph s = PWaitTerm) ->
    exists s', exec fx w s LRootSignal = Some s' /\ ph s' = PTerminating SOk /\ termq s' = dom (actors s) /\
               inbox s' = inbox s /\ rootq s' = rootq s /\ actors s' = actors s.
Proof. exact signal_always_honoured. Qed.
