(* C01 — a target never starts before all of its dependencies are ready.
   Property theorems only; proofs are in Proofs/SysC01.v. *)
From Zinoma.Proofs Require Import SysC01 ActorWords SysWatchLive2.

(* For every reachable state of the system (any graph the resolver can output, any requested set, one-shot or watch
   mode, with or without the FX1 repair, any interleaving of deliveries, completions, failures, change notices and
   termination): whenever the history contains a start of t, every dependency of t — direct, or reached through
   aggregate targets only — that is a build or a service has a success recorded EARLIER in the history
   (build: its script completed or was skipped; service: its process was spawned). *)
Theorem C01_start_after_deps_ready :
  forall (fx watch : bool) (g : graph) (roots : list tid) (s : sys),
    reachable fx watch g roots s ->
    forall h1 t h2, hist s = h1 ++ ObStart t :: h2 ->
    forall d kd deps, eff_dep g t d -> g !! d = Some (kd, deps) -> kd <> AAggregate -> ObSucc d ∈ h1.
Proof. exact start_after_deps_ready. Qed.

(* the invariant behind it, usable by the other engine properties: an acknowledgement Ok{k,d} in flight, an
   acknowledged dependency, and an `executed` flag are always justified by the history *)
Theorem C01_acknowledgements_justified :
  forall (fx watch : bool) (g : graph) (roots : list tid) (s : sys),
    reachable fx watch g roots s -> ready_inv g s.
Proof. exact ready_inv_reachable. Qed.

(* watch mode, "the latest word": take ANY sequence of events an actor has handled since it was launched (messages, change
   notices, build results, with or without the FX1 repair — every interleaving of the system projects to such a sequence). If
   the last step starts the target, then for every dependency and for both kinds the LATEST word received from that dependency
   (Ok or out-of-date) is Ok: a target never starts while the latest word from a dependency is that it is out of date, nor
   before any word came. *)
Theorem C01_watch_latest_word :
  forall (fx : bool) (t : tid) (kd : akind) (deps : list tid) (es : list (bool * event)) (a' : astate) (ob : list obs),
    run_events fx (init_actor t kd deps) es = Some (a', ob) -> ObStart t ∈ ob ->
    forall d k, d ∈ deps -> lastword es k d = Some true.
Proof. exact start_needs_latest_ok. Qed.

(* ... and at system level (repaired handlers, any mode, every closed acyclic graph, every interleaving and merge order): in
   every reachable state inside the root loop, whatever a target has RECORDED as available — the record its start condition
   reads — is available now (a build or service: its last execution completed and nothing invalidated it since; an aggregate:
   every dependency acknowledged), unless the out-of-date notice that says otherwise is already waiting in the target's own
   inbox.  A target therefore never starts on a dependency that is out of date without the notice being on its way. *)
Theorem C01_recorded_available_is_available :
  forall (g : graph) (roots : list tid) (w : bool) (rank : tid -> nat),
    (forall t k deps d, g !! t = Some (k, deps) -> d ∈ deps -> is_Some (g !! d)) ->
    (forall t k deps d, g !! t = Some (k, deps) -> d ∈ deps -> rank d < rank t) ->
    forall s, reachable true w g roots s -> ph s = PRun ->
    forall R aR d ad k, actors s !! R = Some aR -> actors s !! d = Some ad -> own ad k -> ATarget R ∈ reqs ad k ->
      d ∉ unav aR k -> availb ad k = true \/ MInvalidated k d ∈ inb (inbox s) R.
Proof. exact recorded_available. Qed.

(* non-vacuity: a two-target project `b: [a]` reaches a state whose history is start a, success a, start b *)
Example C01_nonvacuous :
  let g : graph := <[1%N := (ABuild, [])]> (<[2%N := (ABuild, [1%N])]> ∅) in
  exists s,
    run_labels true false (init_sys g [2%N])
      [LDeliver 2%N true; LDeliver 2%N true; LDeliver 1%N true; LDeliver 1%N true; LBuildDone 1%N RCompleted;
       LDeliver 2%N true; LDeliver 2%N true] = Some s /\
    hist s = [ObStart 1%N; ObSucc 1%N; ObStart 2%N].
Proof. eexists. vm_compute. split; reflexivity. Qed.
