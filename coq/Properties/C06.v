(* C06 — watch mode converges: the last change always ends up built.
   Property theorems only; proofs are in Proofs/SysWatch.v, Proofs/AF_watch.v, Proofs/WatchKF1.v, Proofs/AF_lastword*.v,
   Proofs/SysFifo.v, Proofs/SysWatchLive*.v, Proofs/PotentialW.v, Proofs/SysBoundW.v, Proofs/Weights.v.
   Safety half (what is proved for every graph, change sequence and interleaving): a change notice or an out-of-date word
   from a dependency re-arms the target and is passed on to every requester; a run that was invalidated in flight is never
   acknowledged; an acknowledged target is not waiting to run again; a target does not start while the latest word from a
   dependency is "out of date" (with C01). Convergence: the system-level invariant C06_latest_word_tracks_availability and
   the stuck-freedom theorem C06_quiescent_up_to_date (end of file) hold for every graph, change sequence and interleaving;
   C06_rebuild_cascade_is_finite bounds the number of steps of EVERY run by a constant plus a constant per change notice, and
   C06_settles gives the continuation that reaches quiescence: together, once changes stop the run settles, up to date.
   KNOWN FINDING KF1: a change of a target's own declared input made while its script runs is absorbed by a skip; witness
   below, replayed on the real binary (defect D12). *)
From Zinoma.Proofs Require Import SysWatch WatchKF1 SysWatchLive2 SysWatchLive3 SysWatchLive4 SysFresh SysFreshAgg SysPrecise Weights.
From Zinoma.Model Require Import Incremental.

Theorem C06_invalidation_rearms_and_propagates :
  forall (fx ok : bool) (a : astate) (e : event) (a' : astate) (os : list out) (ob : list obs),
    actor_step fx ok a e = Some (a', os, ob) ->
    a_kind a = ABuild -> (e = EInval \/ exists d, e = EMsg (MInvalidated KB d)) -> to_execute a = false ->
    executed a' = false /\ (to_execute a' = true \/ ObStart (a_id a) ∈ ob) /\
    (forall r, r ∈ reqB a -> OMsg r (MInvalidated KB (a_id a)) ∈ os).
Proof. exact step_invalidation_rearms. Qed.

Theorem C06_invalidated_run_is_not_acknowledged :
  forall (fx ok : bool) (a : astate) (e : event) (a' : astate) (os : list out) (ob : list obs) (r : bres),
    actor_step fx ok a e = Some (a', os, ob) ->
    a_kind a = ABuild -> e = EBuildDone r -> (r = RCompleted \/ r = RSkipped) -> to_execute a = true ->
    executed a' = false /\ (forall dst k t act, OMsg dst (MOk k t act) ∉ os).
Proof. intros fx ok a e a' os ob r H. exact (step_invalidated_run_silent fx ok a e a' os ob H r). Qed.

Theorem C06_acknowledged_means_not_rearmed :
  forall (fx w : bool) (g : graph) (roots : list tid) (s : sys) (t : tid) (a : astate),
    reachable fx w g roots s -> actors s !! t = Some a -> executed a = true -> to_execute a = false.
Proof. intros fx w g roots s t a. exact (flags_ok_reachable fx g roots w s t a). Qed.

Theorem C06_out_of_date_word_blocks :
  forall (fx ok : bool) (a : astate) (e : event) (a' : astate) (os : list out) (ob : list obs) (k : kind) (d : tid),
    actor_step fx ok a e = Some (a', os, ob) -> e = EMsg (MInvalidated k d) -> d ∈ unav a' k.
Proof. intros fx ok a e a' os ob k d H. exact (step_unav_insert fx ok a e a' os ob H k d). Qed.

Theorem C06_unavailable_until_ok :
  forall (fx ok : bool) (a : astate) (e : event) (a' : astate) (os : list out) (ob : list obs) (k : kind) (d : tid),
    actor_step fx ok a e = Some (a', os, ob) -> d ∈ unav a k -> d ∉ unav a' k -> exists act, e = EMsg (MOk k d act).
Proof. intros fx ok a e a' os ob k d H. exact (step_unav_shrink fx ok a e a' os ob H k d). Qed.

Theorem C06_dropped_notice_is_redundant :
  forall (fx : bool) (s : sys) (ts : list tid) (s' : sys),
    exec fx true s (LChange ts) = Some s' -> slot s' = slot s ∪ list_to_set ts.
Proof. exact change_keeps_pending. Qed.

(* KNOWN FINDING KF1 (defect D12): the state is recorded from the world as it is when the script ENDS; a change of a
   declared input made while the script runs is therefore recorded as seen, and the re-run that the change notification
   triggers is skipped. *)
Theorem C06_change_during_own_build_absorbed_KF1 :
  w_read kf1_old kf1_path <> w_read kf1_new kf1_path /\
  c_phase (run_cycle kf1_hash ckey_eqb true kf1_cycle None None) = PEnd CyCompleted /\
  decide_skip kf1_hash kf1_new kf1_disk kf1_input None = true.
Proof. exact kf1_change_during_build_absorbed. Qed.

(* THE LATEST WORD TRACKS AVAILABILITY (repaired handlers; watch mode and one-shot alike; every closed acyclic graph, every
   sequence of file changes, every interleaving). In every reachable state inside the root loop, for every target d and every
   target R registered as a requester of d for a kind d runs: what R believes about d — the last Ok / out-of-date word from d
   still waiting in R's inbox, or else what R has recorded — is exactly whether d can acknowledge now (a build or service:
   its last execution completed and nothing invalidated it since; an aggregate: every dependency acknowledged).  No
   acknowledgement and no out-of-date notice is ever lost, duplicated into a wrong state, or overtaken. *)
Theorem C06_latest_word_tracks_availability :
  forall (g : graph) (roots : list tid) (w : bool) (rank : tid -> nat),
    (forall t k deps d, g !! t = Some (k, deps) -> d ∈ deps -> is_Some (g !! d)) ->
    (forall t k deps d, g !! t = Some (k, deps) -> d ∈ deps -> (rank d < rank t)%nat) ->
    forall s, reachable true w g roots s -> ph s = PRun ->
    forall R aR d ad k, actors s !! R = Some aR -> actors s !! d = Some ad -> own ad k -> ATarget R ∈ reqs ad k ->
      view s R aR k d = availb ad k.
Proof. exact latest_word_tracks_availability. Qed.

(* CONVERGENCE, the stuck-freedom half (repaired handlers, watch mode and one-shot alike, every closed acyclic graph, every
   finite sequence of file changes at any moments, every interleaving): a reachable state inside the root loop in which
   nothing can happen any more — every change notice, message and script result has been handled, no script is in progress —
   and in which no target is in the failed state, is a state in which EVERY requested target is up to date: each build or
   service has completed an execution that no later change or out-of-date notice has revoked (C06_invalidated_run_is_not_
   acknowledged), each aggregate has every dependency acknowledged.  No target is left waiting forever for a word that will
   not come, and no detected change is left unbuilt. *)
Theorem C06_quiescent_up_to_date :
  forall (g : graph) (roots : list tid) (w : bool) (rank : tid -> nat),
    (forall t k deps d, g !! t = Some (k, deps) -> d ∈ deps -> is_Some (g !! d)) ->
    (forall t k deps d, g !! t = Some (k, deps) -> d ∈ deps -> (rank d < rank t)%nat) ->
    forall s, reachable true w g roots s -> ph s = PRun -> quiescent true w s = true -> none_failed s ->
    forall d ad k, actors s !! d = Some ad -> own ad k -> reqs ad k <> ∅ -> availb ad k = true.
Proof. exact quiescent_up_to_date. Qed.

(* ... and with failures (C06 together with C07): in a reachable state inside the root loop in which nothing can happen any
   more, every requested target is up to date EXCEPT the targets whose own last run failed (`failed_state`: flag cleared, not
   running, not succeeded) and the targets that depend, directly or through any chain, on such a target (`blocked_by_failure`): those
   wait for the repair, nothing else does. *)
Theorem C06_quiescent_up_to_date_or_blocked :
  forall (g : graph) (roots : list tid) (w : bool) (rank : tid -> nat),
    (forall t k deps d, g !! t = Some (k, deps) -> d ∈ deps -> is_Some (g !! d)) ->
    (forall t k deps d, g !! t = Some (k, deps) -> d ∈ deps -> (rank d < rank t)%nat) ->
    forall s, reachable true w g roots s -> ph s = PRun -> quiescent true w s = true ->
    forall d ad k, actors s !! d = Some ad -> own ad k -> reqs ad k <> ∅ -> availb ad k = true \/ blocked_by_failure s d.
Proof. exact quiescent_up_to_date_or_blocked. Qed.

(* such a state: `2: [1]` watched, the script of 1 fails: quiescent, 1 failed, 2 not started *)
Example C06_quiescent_with_a_failure :
  let g : graph := <[1%N := (ABuild, [])]> (<[2%N := (ABuild, [1%N])]> ∅) in
  exists s,
    run_labels true true (init_sys g [2%N])
      [LDeliver 2%N true; LDeliver 1%N true; LDeliver 1%N true; LDeliver 2%N true; LDeliver 2%N true; LRoot;
       LBuildDone 1%N RFailed; LRoot] = Some s /\
    (quiescent true true s && is_running s && bool_decide (hist s = [ObStart 1%N; ObFail 1%N])) = true.
Proof. apply witness_intro. vm_compute. reflexivity. Qed.

(* NO DETECTED CHANGE IS ABSORBED AT THE ENGINE LEVEL.  s1: a reachable state in which a change notice for the build or service
   t is pending (the watcher reported a change of one of its declared inputs: `LChange`).  However the run continues from there
   — more changes, other targets, any interleaving — if it reaches a state s2 in which nothing can happen any more, nothing is
   failed and t is requested, then an execution of t has STARTED AFTER s1: the history of s2 is the history of s1 followed by
   a suffix containing `ObStart t`.  (Whether that execution then really runs the script or is found `Not Modified` is the
   incremental layer's decision: C02, and the known finding KF1 when the change fell inside t's own previous run.) *)
Theorem C06_detected_change_is_rebuilt :
  forall (g : graph) (roots : list tid) (w : bool) (rank : tid -> nat),
    (forall t k deps d, g !! t = Some (k, deps) -> d ∈ deps -> is_Some (g !! d)) ->
    (forall t k deps d, g !! t = Some (k, deps) -> d ∈ deps -> (rank d < rank t)%nat) ->
    forall (s1 : sys) (ls : list label) (s2 : sys) (t : tid) (a2 : astate) (k : kind),
      reachable true w g roots s1 -> t ∈ slot s1 ->
      run_labels true w s1 ls = Some s2 ->
      ph s2 = PRun -> quiescent true w s2 = true -> none_failed s2 ->
      actors s2 !! t = Some a2 -> a_kind a2 <> AAggregate -> own a2 k -> reqs a2 k <> ∅ ->
      exists h', hist s2 = hist s1 ++ h' /\ ObStart t ∈ h'.
Proof. exact detected_change_is_rebuilt. Qed.

(* FRESHNESS: "re-run by an execution that started after its dependencies finished their own re-run".  `ran_after h R x`: some start
   of R in the history h has no success of x after it — the last success of x precedes the last start of R.  In every reachable
   state inside the root loop (repaired handlers, any mode, every closed acyclic graph, change sequence, interleaving and merge
   order): if the build or service R is acknowledged (or, for a build, its run is in progress and has not been re-armed), and no
   out-of-date notice from its build dependency x is waiting in R's inbox, then the run R stands on saw the latest output of x
   (a service: it was restarted after x's last success). *)
Theorem C06_acknowledged_run_is_fresh :
  forall (g : graph) (roots : list tid) (w : bool) (rank : tid -> nat),
    (forall t k deps d, g !! t = Some (k, deps) -> d ∈ deps -> is_Some (g !! d)) ->
    (forall t k deps d, g !! t = Some (k, deps) -> d ∈ deps -> (rank d < rank t)%nat) ->
    forall (s : sys) (R : tid) (aR : astate) (x : tid) (ax : astate),
      reachable true w g roots s -> ph s = PRun ->
      actors s !! R = Some aR -> a_kind aR <> AAggregate -> actors s !! x = Some ax -> a_kind ax = ABuild -> x ∈ a_deps aR ->
      clean aR -> MInvalidated KB x ∉ inb (inbox s) R -> ran_after (hist s) R x.
Proof. exact acknowledged_run_is_fresh. Qed.

(* ... and once the run has settled (nothing can happen any more, nothing failed): every requested build or service ran last
   AFTER the last success of each of its build dependencies — applied along a chain of builds: after the whole chain below it re-ran. *)
Theorem C06_settled_run_saw_latest_dependency :
  forall (g : graph) (roots : list tid) (w : bool) (rank : tid -> nat),
    (forall t k deps d, g !! t = Some (k, deps) -> d ∈ deps -> is_Some (g !! d)) ->
    (forall t k deps d, g !! t = Some (k, deps) -> d ∈ deps -> (rank d < rank t)%nat) ->
    forall (s : sys) (R : tid) (aR : astate) (x : tid) (ax : astate),
      reachable true w g roots s -> ph s = PRun -> quiescent true w s = true -> none_failed s ->
      actors s !! R = Some aR -> a_kind aR <> AAggregate -> (forall k, own aR k -> reqs aR k <> ∅) ->
      actors s !! x = Some ax -> a_kind ax = ABuild -> x ∈ a_deps aR ->
      ran_after (hist s) R x.
Proof. exact settled_run_saw_latest_dependency. Qed.

(* ... THROUGH AGGREGATES ("directly or through a dependency's rebuilt outputs", with aggregate targets — the usual way to group
   dependencies — in between).  `quiet_path s R x`: R reaches the build x directly or through aggregate targets only, and along the
   way no out-of-date notice from a child is waiting in its parent's inbox.  Then the run R stands on started after the last
   success of x. *)
Theorem C06_acknowledged_run_is_fresh_through_aggregates :
  forall (g : graph) (roots : list tid) (w : bool) (rank : tid -> nat),
    (forall t k deps d, g !! t = Some (k, deps) -> d ∈ deps -> is_Some (g !! d)) ->
    (forall t k deps d, g !! t = Some (k, deps) -> d ∈ deps -> (rank d < rank t)%nat) ->
    forall (s : sys) (R : tid) (aR : astate) (x : tid) (ax : astate),
      reachable true w g roots s -> ph s = PRun ->
      actors s !! R = Some aR -> a_kind aR <> AAggregate -> actors s !! x = Some ax -> a_kind ax = ABuild ->
      clean aR -> quiet_path s R x -> ran_after (hist s) R x.
Proof. exact acknowledged_run_is_fresh_through_aggregates. Qed.

(* the path notion, spelled out: constructors of `quiet_path` *)
Theorem C06_quiet_path_direct : forall s P aP x,
  actors s !! P = Some aP -> x ∈ a_deps aP -> MInvalidated KB x ∉ inb (inbox s) P -> quiet_path s P x.
Proof. exact qp_direct. Qed.
Theorem C06_quiet_path_via : forall s P aP m am x,
  actors s !! P = Some aP -> m ∈ a_deps aP -> actors s !! m = Some am -> a_kind am = AAggregate ->
  MInvalidated KB m ∉ inb (inbox s) P -> quiet_path s m x -> quiet_path s P x.
Proof. exact qp_via. Qed.

(* ... and once the run has settled: every requested build or service ran last after the last success of EVERY build it reaches
   directly or through aggregates (`agg_path`: the same paths, no condition on inboxes — they are empty) *)
Theorem C06_settled_run_saw_latest_through_aggregates :
  forall (g : graph) (roots : list tid) (w : bool) (rank : tid -> nat),
    (forall t k deps d, g !! t = Some (k, deps) -> d ∈ deps -> is_Some (g !! d)) ->
    (forall t k deps d, g !! t = Some (k, deps) -> d ∈ deps -> (rank d < rank t)%nat) ->
    forall (s : sys) (R : tid) (aR : astate) (x : tid) (ax : astate),
      reachable true w g roots s -> ph s = PRun -> quiescent true w s = true -> none_failed s ->
      actors s !! R = Some aR -> a_kind aR <> AAggregate -> (forall k, own aR k -> reqs aR k <> ∅) ->
      actors s !! x = Some ax -> a_kind ax = ABuild -> agg_path s R x ->
      ran_after (hist s) R x.
Proof. exact settled_run_saw_latest_through_aggregates. Qed.

Theorem C06_agg_path_direct : forall s P aP x, actors s !! P = Some aP -> x ∈ a_deps aP -> agg_path s P x.
Proof. exact ap_direct. Qed.
Theorem C06_agg_path_via : forall s P aP m am x,
  actors s !! P = Some aP -> m ∈ a_deps aP -> actors s !! m = Some am -> a_kind am = AAggregate -> agg_path s m x -> agg_path s P x.
Proof. exact ap_via. Qed.

(* PRECISION: changes re-run only what depends on them.  `un` = any set of targets closed under dependencies (with a target, everything
   it depends on).  In every mode, every graph, pinned or repaired handlers, every interleaving: in a run whose change notices
   (`LChange ts`) never name a target of that set, no target of the set is started twice — whatever is rebuilt elsewhere, however
   often. *)
Theorem C06_unaffected_targets_start_once :
  forall (fx w : bool) (g : graph) (roots : list tid) (un : tid -> bool),
    (forall t kt deps d, un t = true -> g !! t = Some (kt, deps) -> d ∈ deps -> un d = true) ->
    forall (ls : list label) (s : sys) (t : tid),
      run_labels fx w (init_sys g roots) ls = Some s ->
      (forall ts, LChange ts ∈ ls -> forall x, x ∈ ts -> un x = false) ->
      un t = true -> (count_occ obs_eq_dec (hist s) (ObStart t) <= 1)%nat.
Proof. exact unaffected_targets_start_once. Qed.

Theorem C06_none_failedb_spec : forall s, none_failedb s = true -> none_failed s.
Proof. exact none_failedb_spec. Qed.

(* the hypotheses are met after a change: `2: [1]` watched; first run, then the input of 1 changes: 1 is re-run, then 2; the
   final state is quiescent, nothing failed, and the history shows both targets run twice *)
Example C06_quiescent_after_change :
  let g : graph := <[1%N := (ABuild, [])]> (<[2%N := (ABuild, [1%N])]> ∅) in
  exists s,
    run_labels true true (init_sys g [2%N])
      [LDeliver 2%N true; LDeliver 1%N true; LDeliver 1%N true; LBuildDone 1%N RCompleted; LDeliver 2%N true;
       LDeliver 2%N true; LDeliver 2%N true; LBuildDone 2%N RCompleted; LRoot; LRoot;
       LChange [1%N];
       LInval 1%N true; LBuildDone 1%N RCompleted; LDeliver 2%N true; LDeliver 2%N true; LBuildDone 2%N RCompleted;
       LRoot; LRoot] = Some s /\
    (quiescent true true s && is_running s && none_failedb s &&
     bool_decide (hist s = [ObStart 1%N; ObSucc 1%N; ObStart 2%N; ObSucc 2%N; ObStart 1%N; ObSucc 1%N; ObStart 2%N; ObSucc 2%N])) = true.
Proof. apply witness_intro. vm_compute. reflexivity. Qed.

(* ... and with an aggregate in between: `2: [5]`, `5` an aggregate of `[1]`, watched; first run, then the input of 1 changes: 1 is
   re-run, the aggregate passes the word on, 2 is re-run after 1 has succeeded; quiescent, nothing failed *)
Example C06_quiescent_after_change_through_aggregate :
  let g : graph := <[1%N := (ABuild, [])]> (<[5%N := (AAggregate, [1%N])]> (<[2%N := (ABuild, [5%N])]> ∅)) in
  exists s,
    run_labels true true (init_sys g [2%N])
      [LDeliver 2%N true; LDeliver 5%N true; LDeliver 1%N true; LBuildDone 1%N RCompleted; LDeliver 5%N true;
       LDeliver 1%N true; LDeliver 5%N true; LDeliver 5%N true; LDeliver 2%N true; LDeliver 2%N true; LDeliver 2%N true;
       LBuildDone 2%N RCompleted; LRoot; LRoot;
       LChange [1%N];
       LInval 1%N true; LBuildDone 1%N RCompleted; LDeliver 5%N true; LDeliver 5%N true; LDeliver 2%N true;
       LDeliver 2%N true; LBuildDone 2%N RCompleted; LRoot; LRoot] = Some s /\
    (quiescent true true s && is_running s && none_failedb s &&
     bool_decide (hist s = [ObStart 1%N; ObSucc 1%N; ObStart 2%N; ObSucc 2%N; ObStart 1%N; ObSucc 1%N; ObStart 2%N; ObSucc 2%N])) = true.
Proof. apply witness_intro. vm_compute. reflexivity. Qed.

(* ... with an unrelated target next to it: `2: [1]` and `7`, both requested, watched; the input of 1 changes: 1 and 2 run twice,
   7 once (C06_unaffected_targets_start_once with un = {7}) *)
Example C06_unaffected_target_runs_once :
  let g : graph := <[1%N := (ABuild, [])]> (<[2%N := (ABuild, [1%N])]> (<[7%N := (ABuild, [])]> ∅)) in
  exists s,
    run_labels true true (init_sys g [2%N; 7%N])
      [LDeliver 7%N true; LDeliver 7%N true; LBuildDone 7%N RCompleted; LDeliver 2%N true; LDeliver 1%N true; LDeliver 1%N true;
       LBuildDone 1%N RCompleted; LDeliver 2%N true; LDeliver 2%N true; LDeliver 2%N true; LBuildDone 2%N RCompleted;
       LRoot; LRoot; LRoot; LRoot;
       LChange [1%N];
       LInval 1%N true; LBuildDone 1%N RCompleted; LDeliver 2%N true; LDeliver 2%N true; LBuildDone 2%N RCompleted;
       LRoot; LRoot] = Some s /\
    (quiescent true true s && none_failedb s &&
     bool_decide (hist s = [ObStart 7%N; ObSucc 7%N; ObStart 1%N; ObSucc 1%N; ObStart 2%N; ObSucc 2%N;
                            ObStart 1%N; ObSucc 1%N; ObStart 2%N; ObSucc 2%N])) = true.
Proof. apply witness_intro. vm_compute. reflexivity. Qed.



(* THE REBUILD CASCADE IS FINITE (repaired handlers; watch mode and one-shot alike; every graph whose dependencies decrease a
   rank, i.e. every acyclic graph; every interleaving; script failures, spawn errors, signals included). Every execution makes
   at most  PhiW(initial state) + sum over its file-change notices of the weight of the notified targets  steps other than
   signal deliveries and change notices (`internalW` counts them, `changes_cost` sums `winvG` over the notified targets).
   The weights are built from the graph (Proofs/Weights.v): an out-of-date notice to R weighs as much as everything R may do
   in response — its own notices to its dependents, its re-run, the acknowledgements that follow — by recursion towards the
   dependents; the potential PhiW (Proofs/SysBoundW.v) adds what every actor may still send, the messages in flight, the
   pending change notices, the root queue, the termination messages and the phase; every step strictly decreases it and a
   change notice increases it by at most its cost.  Finitely many changes => finitely many steps. *)
Theorem C06_rebuild_cascade_is_finite :
  forall (g : graph) (roots : list tid) (w : bool) (rank : tid -> nat),
    (forall t k deps d, g !! t = Some (k, deps) -> d ∈ deps -> (rank d < rank t)%nat) ->
    forall (ls : list label) (s : sys),
      run_labels true w (init_sys g roots) ls = Some s ->
      (internalW ls + PhiW (wokG g rank) (winvG g rank) (sokG g rank) s
       <= PhiW (wokG g rank) (winvG g rank) (sokG g rank) (init_sys g roots) + changes_cost (winvG g rank) ls)%nat.
Proof. exact steps_bounded_by_changes. Qed.

(* ONCE CHANGES STOP THE RUN SETTLES: from every reachable state a continuation without file changes, signals or failing
   scripts reaches, within PhiW(s) steps, a state in which nothing can happen any more (and by the theorem above no
   continuation without file changes is longer than PhiW(s)); by C06_quiescent_up_to_date every requested target is then up
   to date unless a script failed. *)
Theorem C06_settles :
  forall (g : graph) (roots : list tid) (w : bool) (rank : tid -> nat),
    (forall t k deps d, g !! t = Some (k, deps) -> d ∈ deps -> (rank d < rank t)%nat) ->
    forall s, reachable true w g roots s ->
    exists ls s', run_labels true w s ls = Some s' /\ quiescent true w s' = true /\
                  (length ls <= PhiW (wokG g rank) (winvG g rank) (sokG g rank) s)%nat.
Proof.
  intros g roots w rank Hrank s Hr. exact (reach_quiescentW g roots w rank Hrank _ s Hr (le_n _)).
Qed.

(* the bound on a concrete project: `2: [1]` watched with rank = the id; the run of C06_quiescent_after_change makes 17
   steps besides its one change notice, within the bound 27 + 12 *)
Example C06_bound_concrete :
  let g : graph := <[1%N := (ABuild, [])]> (<[2%N := (ABuild, [1%N])]> ∅) in
  let rk : tid -> nat := N.to_nat in
  PhiW (wokG g rk) (winvG g rk) (sokG g rk) (init_sys g [2%N]) = 27%nat /\ winvG g rk (ATarget 1%N) = 12%nat.
Proof. vm_compute. split; reflexivity. Qed.
