(* C06 — watch mode converges: the last change always ends up built.
   Property theorems only; proofs are in Proofs/SysWatch.v, Proofs/AF_watch.v, Proofs/WatchKF1.v.
   Safety half (what is proved for every graph, change sequence and interleaving): a change notice or an out-of-date word
   from a dependency re-arms the target and is passed on to every requester; a run that was invalidated in flight is never
   acknowledged; an acknowledged target is not waiting to run again; a target does not start while the latest word from a
   dependency is "out of date" (with C01). The convergence (liveness) half is decided on the real binary (props/C06.py).
   KNOWN FINDING KF1: a change of a target's own declared input made while its script runs is absorbed by a skip; witness
   below, replayed on the real binary (defect D12). *)
From Zinoma.Proofs Require Import SysWatch WatchKF1.
From Zinoma.Model Require Import Incremental.

Theorem C06_invalidation_rearms_and_propagates :
  forall (fx ok : bool) (a : astate) (e : event) (a' : astate) (os : list out) (ob : list obs),
    actor_step fx ok a e = Some (a', os, ob) ->
    a_kind a = ABuild -> (e = EInval \/ exists d, e = EMsg (MInvalidated KB d)) -> to_execute a = false ->
    executed a' = false /\ (to_execute a' = true \/ ObStart (a_id a) ∈ ob) /\
    (forall r, r ∈ reqB a -> OMsg r (MInvalidated KB (a_id a)) ∈ os).
Proof. exact step_invalidation_rearms. Qed.

Theorem C06_invalidated_run_is_not_acknowledged :
  forall (fx ok : bool) (a : astate) (e : event) (a' : astate) (os : list out) (ob : list obs) (r : bres),
    actor_step fx ok a e = Some (a', os, ob) ->
    a_kind a = ABuild -> e = EBuildDone r -> (r = RCompleted \/ r = RSkipped) -> to_execute a = true ->
    executed a' = false /\ (forall dst k t act, OMsg dst (MOk k t act) ∉ os).
Proof. intros fx ok a e a' os ob r H. exact (step_invalidated_run_silent fx ok a e a' os ob H r). Qed.

Theorem C06_acknowledged_means_not_rearmed :
  forall (fx w : bool) (g : graph) (roots : list tid) (s : sys) (t : tid) (a : astate),
    reachable fx w g roots s -> actors s !! t = Some a -> executed a = true -> to_execute a = false.
Proof. intros fx w g roots s t a. exact (flags_ok_reachable fx g roots w s t a). Qed.

Theorem C06_out_of_date_word_blocks :
  forall (fx ok : bool) (a : astate) (e : event) (a' : astate) (os : list out) (ob : list obs) (k : kind) (d : tid),
    actor_step fx ok a e = Some (a', os, ob) -> e = EMsg (MInvalidated k d) -> d ∈ unav a' k.
Proof. intros fx ok a e a' os ob k d H. exact (step_unav_insert fx ok a e a' os ob H k d). Qed.

Theorem C06_unavailable_until_ok :
  forall (fx ok : bool) (a : astate) (e : event) (a' : astate) (os : list out) (ob : list obs) (k : kind) (d : tid),
    actor_step fx ok a e = Some (a', os, ob) -> d ∈ unav a k -> d ∉ unav a' k -> exists act, e = EMsg (MOk k d act).
Proof. intros fx ok a e a' os ob k d H. exact (step_unav_shrink fx ok a e a' os ob H k d). Qed.

Theorem C06_dropped_notice_is_redundant :
  forall (fx : bool) (s : sys) (ts : list tid) (s' : sys),
    exec fx true s (LChange ts) = Some s' -> slot s' = slot s ∪ list_to_set ts.
Proof. exact change_keeps_pending. Qed.

(* KNOWN FINDING KF1 (defect D12): the state is recorded from the world as it is when the script ENDS; a change of a
   declared input made while the script runs is therefore recorded as seen, and the re-run that the change notification
   triggers is skipped. *)
Theorem C06_change_during_own_build_absorbed_KF1 :
  w_read kf1_old kf1_path <> w_read kf1_new kf1_path /\
  c_phase (run_cycle kf1_hash ckey_eqb true kf1_cycle None None) = PEnd CyCompleted /\
  decide_skip kf1_hash kf1_new kf1_disk kf1_input None = true.
Proof. exact kf1_change_during_build_absorbed. Qed.
