(* C08 — each needed target runs exactly once per one-shot run; others never.
   Property theorems only; proofs are in Proofs/SysOneShot.v, Proofs/SysC07.v. *)
From Zinoma.Proofs Require Import SysOneShot SysC07 SysC08 SysNeeded.

(* In a one-shot run (no change notification exists), whatever the interleaving of the duplicate requests, no target is
   started twice. *)
Theorem C08_at_most_once :
  forall (fx : bool) (g : graph) (roots : list tid) (s : sys) (t : tid),
    reachable fx false g roots s -> count_occ obs_eq_dec (hist s) (ObStart t) <= 1.
Proof. exact at_most_once. Qed.

(* nothing that is not a target of the resolved graph is ever started, succeeds or fails *)
Theorem C08_nothing_outside_graph :
  forall (fx watch : bool) (g : graph) (roots : list tid) (s : sys) (t : tid) (o : obs),
    reachable fx watch g roots s -> actors s !! t = None -> obs_target o = t ->
    count_occ obs_eq_dec (hist s) o = 0.
Proof. intros fx watch g roots s t o. exact (nothing_outside_graph fx g roots watch s t o). Qed.

(* every success or failure is the result of a start, and every start has at most one result *)
Theorem C08_results_match_starts :
  forall (fx watch : bool) (g : graph) (roots : list tid) (s : sys) (t : tid) (a : astate),
    reachable fx watch g roots s -> actors s !! t = Some a ->
    Nat.b2n (ongoing a) + count_occ obs_eq_dec (hist s) (ObSucc t) + count_occ obs_eq_dec (hist s) (ObFail t)
      + count_occ obs_eq_dec (hist s) (ObCancel t) = count_occ obs_eq_dec (hist s) (ObStart t).
Proof. intros fx watch g roots s t a. exact (results_match_starts fx g roots watch s t a). Qed.

(* one-shot, success: when the root has received every acknowledgement (it then exits 0, or waits for a signal if a service
   is behind a requested target), every build and service in the dependency closure of the requested targets — however many
   targets depend on it, also when it is requested explicitly as well — was started exactly once and succeeded.
   (That the root does get there is C04_no_lost_wakeup.) *)
Theorem C08_exactly_once_on_success :
  forall (fx : bool) (g : graph) (roots : list tid) (s : sys) (r t : tid) (kt : akind) (deps : list tid),
    reachable fx false g roots s -> r_unavB s = ∅ -> r_unavS s = ∅ -> r ∈ roots -> (t = r \/ tdep g r t) ->
    g !! t = Some (kt, deps) -> kt <> AAggregate ->
    count_occ obs_eq_dec (hist s) (ObStart t) = 1 /\ ObSucc t ∈ hist s.
Proof. exact exactly_once_on_success. Qed.

(* "OTHERS NEVER", inside the resolved graph too.  Every mode, every graph, pinned or repaired handlers, every interleaving: only a
   requested target, or a target a requested one depends on (directly or transitively), is ever started ... *)
Theorem C08_only_needed_targets_start :
  forall (fx : bool) (g : graph) (roots : list tid) (w : bool) (s : sys) (t : tid),
    reachable fx w g roots s -> ObStart t ∈ hist s -> exists r, r ∈ roots /\ (t = r \/ tdep g r t).
Proof. exact only_needed_targets_start. Qed.

(* ... or is even sent a request: the actors of the other targets are never spoken to (the code launches an actor at the first
   message forwarded to it: for the other targets no actor, no watcher, no script ever exists) *)
Theorem C08_only_needed_targets_requested :
  forall (fx : bool) (g : graph) (roots : list tid) (w : bool) (s : sys) (d : tid) (k : kind) (r : aid),
    reachable fx w g roots s -> msg_in s (ATarget d) (MRequested k r) -> exists r0, r0 ∈ roots /\ (d = r0 \/ tdep g r0 d).
Proof. exact only_needed_targets_requested. Qed.
