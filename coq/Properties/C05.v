(* C05 — failed, interrupted or crashed builds are never remembered as done.
   Property theorems only: each is closed by `exact <lemma>`; assumptions are printed by the check.
   Model: Model/Codec.v (the state-file format, decoder after FX5) and Model/Incremental.v (the build cycle as a machine over
   the state file: read/decide, delete, script, compute, create, write byte by byte; the process may die after any step). *)
From Zinoma.Model Require Import Bytes Cfg Codec Incremental.
From Zinoma.Proofs Require Import Codec CodecRoundtrip CodecWrite IncrementalKeys Incremental IncrementalChanges IncrementalCycle
  IncrementalExamples.

(* ---- the codec ---- *)
(* a record written in full decodes to what was written — for every order in which the map entries were emitted (the
   entry lists are arbitrary) and whatever bytes follow *)
Theorem C05_roundtrip : forall e rest,
  env_ok e -> env_distinct e -> dec_env (enc_env e ++ rest) = Some (e, rest).
Proof. exact dec_enc_env. Qed.

(* a write that stops at ANY byte offset before the end leaves a file that does not decode *)
Theorem C05_prefix_never_decodes : forall e p,
  env_ok e -> strict_prefix p (enc_env e) -> dec_env p = None.
Proof. exact prefix_never_decodes. Qed.

(* the same for every decodable byte string, not only for encodings: the consumed part is prefix-free *)
Theorem C05_decodable_prefix_free : forall bs e rest,
  dec_env bs = Some (e, rest) ->
  exists used, bs = used ++ rest /\ forall p, strict_prefix p used -> dec_env p = None.
Proof. exact decodable_prefix_free. Qed.

(* the decoder answers on every byte string: no input makes it stuck (and no length field is trusted: Model/Codec.v take_N) *)
Theorem C05_decode_total : forall bs, dec_env bs = None \/ exists e rest, dec_env bs = Some (e, rest).
Proof. exact dec_env_total. Qed.

(* what `serialize_into` leaves in the file (`wr_env`: it stops at the first path that is not UTF-8): cut at any byte offset,
   or abandoned on a serialisation error, the file does not decode; completed, it decodes to the value *)
Theorem C05_interrupted_or_failed_write_never_decodes : forall e p t,
  env_repr e -> fst (wr_env e) = p ++ t -> t <> [] \/ snd (wr_env e) = false -> dec_env p = None.
Proof. exact wr_env_partial. Qed.

Theorem C05_completed_write_decodes : forall e rest,
  env_repr e -> env_distinct e -> snd (wr_env e) = true -> dec_env (fst (wr_env e) ++ rest) = Some (e, rest).
Proof. exact wr_env_complete. Qed.

(* and a completed serialisation has written exactly the encoding *)
Theorem C05_completed_write_is_enc : forall e, snd (wr_env e) = true -> fst (wr_env e) = enc_env e.
Proof. exact wr_env_ok. Qed.

(* ---- the cycle ---- *)
(* after ANY number of steps of the cycle (= the process died there, or the cycle ended), a state file that decodes is either
   the old record, untouched (nothing was decided yet, or the decision was taken and nothing else, or the build was skipped),
   or the record of THIS cycle: the script succeeded, the state is the one computed after it, and it is on disk in full *)
Theorem C05_record_only_after_success : forall hash c d0,
  (forall e, current_env hash ckey_eqb (cy_w1 c) (cy_input c) (cy_output c) = CurSome e -> env_repr e) ->
  worlds_ok (cy_w1 c) (cy_input c) (cy_output c) ->
  forall n bs e rest,
  let s := cycle_run hash ckey_eqb true c n (cycle_init d0) in
  c_disk s = Some bs -> dec_env bs = Some (e, rest) ->
  (c_disk s = d0 /\ (c_phase s = PStart \/ c_phase s = PDecided \/ c_phase s = PEnd CySkipped)) \/
  (fully_written hash c s e /\ rest = [] /\ (c_phase s = PWriting [] true \/ c_phase s = PEnd CyCompleted)).
Proof. exact record_only_after_success. Qed.

(* hence: from the deletion of the old record until the new one is on disk in full — script failed, could not be spawned,
   was cancelled, zinoma died at any step or any byte offset of the write, the state could not be computed or stored — the
   next invocation runs the script, in EVERY world *)
Theorem C05_no_skip_after_interruption : forall hash c d0,
  (forall e, current_env hash ckey_eqb (cy_w1 c) (cy_input c) (cy_output c) = CurSome e -> env_repr e) ->
  worlds_ok (cy_w1 c) (cy_input c) (cy_output c) ->
  forall n w',
  let s := cycle_run hash ckey_eqb true c n (cycle_init d0) in
  c_phase s <> PStart -> c_phase s <> PDecided -> c_phase s <> PEnd CySkipped ->
  (forall e, ~ fully_written hash c s e) ->
  decide_skip hash w' (c_disk s) (cy_input c) (cy_output c) = false.
Proof. exact no_skip_after_interruption. Qed.

(* dying between the decision to run and the deletion of the old record: the same world decides to run again *)
Theorem C05_decided_then_same_decision : forall hash c d0 n,
  let s := cycle_run hash ckey_eqb true c n (cycle_init d0) in
  c_phase s = PDecided -> decide_skip hash (cy_w0 c) (c_disk s) (cy_input c) (cy_output c) = false.
Proof. exact decided_then_same_decision. Qed.

(* a failing or cancelled script ends the cycle with no state file at all *)
Theorem C05_unsuccessful_leaves_nothing : forall hash c d0 n,
  let s := cycle_run hash ckey_eqb true c n (cycle_init d0) in
  c_phase s = PEnd CyFailed \/ c_phase s = PEnd CyCancelled -> c_disk s = None /\ cy_outcome c <> ScriptSucceeded.
Proof. exact unsuccessful_leaves_nothing. Qed.

(* a truncated, corrupted or foreign state file: dropped by the read path at the first step, the script runs (never an error,
   never a skip) *)
Theorem C05_undecodable_rebuilds : forall hash c d0 bs,
  d0 = Some bs -> dec_env bs = None -> resources_is_empty (cy_input c) = false ->
  cycle_run hash ckey_eqb true c 1 (cycle_init d0) = {| c_phase := PDecided; c_disk := None |} /\
  (exists r, c_phase (run_cycle hash ckey_eqb true c None d0) = PEnd r /\ r <> CySkipped).
Proof. exact undecodable_rebuilds. Qed.

(* a decodable foreign record leads to a skip only if it matches the current state: Properties/C02.v C02_skip_sound *)

(* every cycle ends within `cycle_fuel` steps (the crash point `None` of `run_cycle` means "no crash") *)
Theorem C05_cycle_ends : forall hash c d0, is_end (run_cycle hash ckey_eqb true c None d0).
Proof. exact run_cycle_ends. Qed.

(* over histories: from an absent state file, through any cycles with any outcomes and crash points, a state file that
   decodes is the full record of a cycle whose script succeeded *)
Theorem C05_history_invariant : forall hash h bs e rest,
  Forall (fun cc => cycle_ok hash (fst cc)) h ->
  run_history hash ckey_eqb true h None = Some bs -> dec_env bs = Some (e, rest) ->
  rest = [] /\ written_by hash (map fst h) bs e.
Proof. exact history_invariant. Qed.

(* non-vacuity: a concrete cycle whose record is 104 bytes long. Dying after any of the first 108 steps (decision, deletion,
   script, computation, creation, each of the first 103 bytes) leaves a state on which the same world is NOT skipped; with the
   last byte written it is. Failed and cancelled scripts: never skipped afterwards. *)
Example C05_nonvacuous :
  option_map (@length N) ex_disk = Some 104%nat /\
  forallb (fun n => negb (ex_skip_after_crash ScriptSucceeded n)) (seq 0 109) = true /\
  ex_skip_after_crash ScriptSucceeded 109 = true /\
  forallb (fun n => negb (ex_skip_after_crash ScriptFailed n)) (seq 0 12) = true /\
  forallb (fun n => negb (ex_skip_after_crash ScriptCancelled n)) (seq 0 12) = true /\
  forallb (fun n => negb (ex_skip_after_crash SpawnFailed n)) (seq 0 12) = true.
Proof. vm_compute. repeat split. Qed.

(* WHAT COUNTS AS A SUCCESSFUL SCRIPT (engine/builder.rs; Model/Builder.v).  The premise "the script succeeded" of the theorems above
   is decided by build_target: a run is reported as completed exactly when the shell was spawned, the run was not cancelled, and
   the shell EXITED WITH CODE 0 — every other exit code and every death by a signal is a failure, a cancelled run is never a
   completed one. *)
From Zinoma.Model Require Import Builder.
From Zinoma.Proofs Require Import Builder.

Theorem C05_completed_iff_exit_zero : forall spawn_ok cancelled_first st,
  build_report spawn_ok cancelled_first st = RepCompleted <-> spawn_ok = true /\ cancelled_first = false /\ st = WExited 0%N.
Proof. exact completed_iff. Qed.

Theorem C05_signal_death_is_failure : forall spawn_ok sg, build_report spawn_ok false (WSignaled sg) = RepFailed.
Proof. exact signal_death_is_failure. Qed.

Theorem C05_cancelled_is_never_completed : forall spawn_ok st, build_report spawn_ok true st <> RepCompleted.
Proof. exact cancelled_is_never_completed. Qed.
