(* C17 — independent targets run concurrently; nothing waits for a non-dependency.
   Property theorems only; proofs are in Proofs/SysStep.v, Proofs/SysC17.v, Proofs/SysC17live.v. *)
From Zinoma.Proofs Require Import SysC17 SysC17live.

(* a step of one actor changes no other actor's state: whether a target starts is decided from its own state, which only
   events addressed to it can change *)
Theorem C17_steps_are_local :
  forall (fx w : bool) (s s' : sys) (l : label) (t : tid),
    exec fx w s l = Some s' -> label_actor l <> Some t -> actors s' !! t = actors s !! t.
Proof. exact exec_frame. Qed.

(* a target whose dependencies are all acknowledged starts in the very step that delivers the last acknowledgement,
   whatever the other targets are doing (nothing else is consulted) *)
Theorem C17_starts_as_soon_as_ready :
  forall (fx ok : bool) (a : astate) (e : event) (a' : astate) (os : list out) (ob : list obs) (k : kind),
    actor_step fx ok a e = Some (a', os, ob) ->
    a_kind a = (match k with KB => ABuild | KS => AService end) -> exited a' = false ->
    to_execute a' = true -> reqs a' k <> ∅ -> unavB a' = ∅ -> unavS a' = ∅ -> ongoing a' = true.
Proof. intros fx ok a e a' os ob k H. exact (step_no_pending_start fx ok a e a' os ob H k). Qed.

(* two independent builds can be in progress at the same time: a reachable state of the project {a, b, top: [a, b]} *)
Example C17_antichain_coexists :
  let g : graph := <[1%N := (ABuild, [])]> (<[2%N := (ABuild, [])]> (<[3%N := (AAggregate, [1%N; 2%N])]> ∅)) in
  exists s a1 a2,
    run_labels true false (init_sys g [3%N])
      [LDeliver 3%N true; LDeliver 1%N true; LDeliver 2%N true] = Some s /\
    actors s !! 1%N = Some a1 /\ actors s !! 2%N = Some a2 /\ ongoing a1 = true /\ ongoing a2 = true.
Proof. do 3 eexists. vm_compute. repeat split; reflexivity. Qed.

(* C17 as a progress statement. One-shot run, any closed acyclic graph, any requested set, any interleaving. Take a reachable
   state inside the root loop in which every message sent so far has been handled and no script failed. Let t be a
   requested build or service such that no target of its dependency cone (what it depends on, directly or transitively) has
   a script in progress. Then t itself is in progress or has completed: whatever the targets OUTSIDE its cone are doing,
   however long their scripts take, t is not waiting for them. *)
Theorem C17_start_needs_no_foreign_completion :
  forall (g : graph) (roots : list tid) (rank : tid -> nat),
    (forall t k deps d, g !! t = Some (k, deps) -> d ∈ deps -> is_Some (g !! d)) ->
    (forall t k deps d, g !! t = Some (k, deps) -> d ∈ deps -> rank d < rank t) ->
    forall (s : sys) (t : tid) (a : astate) (k : kind),
      reachable true false g roots s -> ph s = PRun -> (forall x, ObFail x ∉ hist s) ->
      (forall x, exec true false s (LDeliver x true) = None) ->
      actors s !! t = Some a -> own a k -> reqs a k <> ∅ ->
      (forall d ad, tdep g t d -> actors s !! d = Some ad -> ongoing ad = false) ->
      done a k \/ ongoing a = true.
Proof. exact start_needs_no_foreign_completion. Qed.

(* the message hypothesis in computable form *)
Theorem C17_delivered_all_spec :
  forall s, delivered_all s = true -> forall x, exec true false s (LDeliver x true) = None.
Proof. exact delivered_all_spec. Qed.

(* the hypotheses are met with a foreign build in progress: project {1; 2; 3: [2]}, requested 1 and 3; after 2 completed and
   every message was delivered, 1 (unrelated to 3) is still in progress, 2 is not, and 3 is in progress *)
Example C17_foreign_build_in_progress :
  let g : graph := <[1%N := (ABuild, [])]> (<[2%N := (ABuild, [])]> (<[3%N := (ABuild, [2%N])]> ∅)) in
  exists s,
    run_labels true false (init_sys g [1%N; 3%N])
      [LDeliver 1%N true; LDeliver 1%N true; LDeliver 3%N true; LDeliver 3%N true; LDeliver 2%N true; LDeliver 2%N true;
       LDeliver 3%N true; LBuildDone 2%N RCompleted; LDeliver 3%N true] = Some s /\
    (is_running s && delivered_all s && negb (has_failure s) &&
     ongoing_of s 1%N && negb (ongoing_of s 2%N) && ongoing_of s 3%N) = true.
Proof. apply witness_intro. vm_compute. reflexivity. Qed.
