(* C17 — independent targets run concurrently; nothing waits for a non-dependency.
   Property theorems only; proofs are in Proofs/SysStep.v, Proofs/SysC17.v. *)
From Zinoma.Proofs Require Import SysC17.

(* a step of one actor changes no other actor's state: whether a target starts is decided from its own state, which only
   events addressed to it can change *)
Theorem C17_steps_are_local :
  forall (fx w : bool) (s s' : sys) (l : label) (t : tid),
    exec fx w s l = Some s' -> label_actor l <> Some t -> actors s' !! t = actors s !! t.
Proof. exact exec_frame. Qed.

(* a target whose dependencies are all acknowledged starts in the very step that delivers the last acknowledgement,
   whatever the other targets are doing (nothing else is consulted) *)
Theorem C17_starts_as_soon_as_ready :
  forall (fx ok : bool) (a : astate) (e : event) (a' : astate) (os : list out) (ob : list obs) (k : kind),
    actor_step fx ok a e = Some (a', os, ob) ->
    a_kind a = (match k with KB => ABuild | KS => AService end) -> exited a' = false ->
    to_execute a' = true -> reqs a' k <> ∅ -> unavB a' = ∅ -> unavS a' = ∅ -> ongoing a' = true.
Proof. intros fx ok a e a' os ob k H. exact (step_no_pending_start fx ok a e a' os ob H k). Qed.

(* two independent builds can be in progress at the same time: a reachable state of the project {a, b, top: [a, b]} *)
Example C17_antichain_coexists :
  let g : graph := <[1%N := (ABuild, [])]> (<[2%N := (ABuild, [])]> (<[3%N := (AAggregate, [1%N; 2%N])]> ∅)) in
  exists s a1 a2,
    run_labels true false (init_sys g [3%N])
      [LDeliver 3%N true; LDeliver 1%N true; LDeliver 2%N true] = Some s /\
    actors s !! 1%N = Some a1 /\ actors s !! 2%N = Some a2 /\ ongoing a1 = true /\ ongoing a2 = true.
Proof. do 3 eexists. vm_compute. repeat split; reflexivity. Qed.
