(* C09 — requested set = dependency closure; broken graphs are rejected up front.
   Property theorems only: each is closed by `exact <lemma>`; assumptions are printed by the check.
   All statements are about the FAITHFUL model Resolver.resolve (the depth-first `add_target` of config/ir.rs, including
   the removal of converted yaml targets from the configuration) with the default fuel S (number of targets).
   Vocabulary (Proofs/ResolverSpec.v):
     refs cfg t      the references of t as written — `dependencies` then the `X.output` inputs — each parsed in t's OWN
                     project unless qualified (Names.try_parse … (t_project t))
     reach cfg roots the reflexive-transitive closure of the requested targets under refs
     defect cfg R e  a target in R with a defect of class e: unknown project / unknown target / on a cycle (self-loops and
                     cycles away from the root included) / `.output` of a non-build / malformed `.output` string /
                     malformed dependency name (a::b::c) [/ API-level only: unqualified id without an unnamed project]
     broken cfg roots := exists e, defect cfg (reach cfg roots) e *)
From Zinoma.Model Require Import Bytes Cfg Names Ext Resolver.
From Zinoma.Proofs Require Import Bytes Names ResolverSpec ResolverPure ResolverSound Resolver ResolverMain.

(* soundness: an accepted request is resolved to EXACTLY its dependency closure, each target once, every entry is the
   target the configuration describes, and the result is acyclic (explicit rank function) *)
Theorem C09_sound : forall cfg roots m,
  resolve cfg roots (S (n_targets cfg)) = Ok m ->
  (forall t, In t (tmap_keys m) <-> reach cfg roots t) /\
  NoDup (tmap_keys m) /\
  (forall t rt, tmap_get m t = Some rt -> rtarget_of cfg t = Some rt) /\
  (exists rank : target_id -> nat, forall t rt d, tmap_get m t = Some rt -> In d (rt_deps rt) -> (rank d < rank t)%nat).
Proof. exact resolve_default_sound. Qed.

(* the dependency list of a resolved target = its declared dependencies followed by its `.output` references, in order,
   duplicates kept, all of them resolved too; every `.output` reference is a build target *)
Theorem C09_deps : forall cfg roots m t rt,
  resolve cfg roots (S (n_targets cfg)) = Ok m -> tmap_get m t = Some rt ->
  exists dir yt deps orefs,
    lookup_yt cfg t = Some (dir, yt) /\
    all_some (declared_refs t yt) = Some deps /\ all_some (output_refs t yt) = Some orefs /\
    rt_id rt = t /\ rt_dir rt = dir /\ rt_kind rt = yt_kind yt /\ rt_script rt = yt_script yt /\
    rt_deps rt = deps ++ orefs /\
    (forall d, In d (deps ++ orefs) -> In d (tmap_keys m)) /\
    (forall x, In x orefs -> exists rx, tmap_get m x = Some rx /\ rt_kind rx = TBuild).
Proof. exact resolve_default_deps. Qed.

(* how a reference is read (`refs` parses every string of target t with current project t_project t): an unqualified string
   means a target of the referring target's own project, `p::n` means target n of project p *)
Theorem C09_reference_resolution : forall s cur id,
  try_parse s cur = Some id ->
  (t_project id = cur /\ t_name id = s /\ split_cc s = [s]) \/
  (exists p t, split_cc s = [p; t] /\ id = {| t_project := Some p; t_name := t |}).
Proof. exact try_parse_project. Qed.

(* completeness: nothing but a reachable defect makes the resolver refuse *)
Theorem C09_complete : forall cfg roots,
  ~ broken cfg roots -> exists m, resolve cfg roots (S (n_targets cfg)) = Ok m.
Proof. exact resolve_complete. Qed.

(* rejection: a broken configuration is refused, and the error reported is the class of SOME reachable defect
   (which one is met first depends on the traversal order; the property only needs one) *)
Theorem C09_rejects : forall cfg roots,
  broken cfg roots -> exists e, resolve cfg roots (S (n_targets cfg)) = Err e /\ defect cfg (reach cfg roots) e.
Proof. exact resolve_rejects. Qed.

(* a cyclic project never hangs: the default fuel is never exhausted and the recursion's own panics (HashMap index,
   extend_input unwrap, regex-capture unwrap) are unreachable, on every configuration and request; the remaining
   `unwrap` (ir.rs "Project {} does not exist" with an unqualified id) needs an id main never builds *)
Theorem C09_fuel_suffices : forall cfg roots e,
  resolve cfg roots (S (n_targets cfg)) = Err e -> reported_class e \/ e = EPanicUnwrap.
Proof. exact resolve_total. Qed.

Theorem C09_no_unwrap_from_main : forall cfg roots e,
  roots_wf cfg roots -> resolve cfg roots (S (n_targets cfg)) = Err e -> reported_class e.
Proof. exact resolve_no_panic. Qed.

(* the verdict and the resolved map depend on the SET of requested targets only — not on their order or multiplicity
   (without requested targets main lists them by iterating hash maps); on a broken configuration both orders refuse, possibly
   with different classes *)
Theorem C09_request_order_irrelevant : forall cfg r1 r2 f1 f2,
  (forall x, In x r1 <-> In x r2) -> (n_targets cfg < f1)%nat -> (n_targets cfg < f2)%nat ->
  match resolve cfg r1 f1, resolve cfg r2 f2 with
  | Ok m1, Ok m2 => forall t, tmap_get m1 t = tmap_get m2 t
  | Err _, Err _ => True
  | _, _ => False
  end.
Proof. exact resolve_request_order. Qed.

(* … nor on the iteration order of the projects hash map, when project names are pairwise distinct (FX7); more generally
   the resolver sees the configuration through name lookups only *)
Theorem C09_project_order_irrelevant : forall cfg1 cfg2 roots fuel,
  NoDup (map fst (ic_projects cfg1)) -> Permutation.Permutation (ic_projects cfg1) (ic_projects cfg2) ->
  resolve cfg1 roots fuel = resolve cfg2 roots fuel.
Proof. exact resolve_project_order. Qed.

Theorem C09_lookups_only : forall cfg1 cfg2 roots fuel,
  (forall p, proj_dir cfg1 p = proj_dir cfg2 p) -> (forall t, lookup_yt cfg1 t = lookup_yt cfg2 t) ->
  resolve cfg1 roots fuel = resolve cfg2 roots fuel.
Proof. exact resolve_config_ext. Qed.

(* the removal of converted targets from the configuration is never observed *)
Theorem C09_removal_unobservable : forall cfg roots fuel, resolve cfg roots fuel = resolve_p cfg roots fuel.
Proof. exact resolve_pure. Qed.

(* refusing happens before any effect: main performs no state deletion, no cleaning and starts no actor unless loading,
   the name check, parsing and resolution all succeeded; and then only targets of the closure are touched *)
Theorem C09_no_effect_on_error : forall cfg req clean watch effs out,
  main_phases cfg req clean watch = (effs, out) -> out <> OutRan -> effs = [].
Proof. exact main_error_no_effect. Qed.

Theorem C09_effects_within_closure : forall cfg req clean watch effs,
  main_phases cfg req clean watch = (effs, OutRan) ->
  exists roots m,
    resolve_default cfg roots = Ok m /\
    match req with
    | Some names => try_parse_many names (ic_root_name cfg) = Some roots
    | None => roots = list_all_targets cfg
    end /\
    forall f t, In f effs -> In t (effect_targets f) -> In t (tmap_keys m).
Proof. exact main_effects_in_closure. Qed.

(* non-vacuity: project "/r" (unnamed) with  a: build, dependencies [b, b], input [b.output]   b: build, output out.txt
   c: build depending on itself through d.  Requesting a resolves {a, b}; requesting c is refused as circular although
   the cycle c -> d -> c … and requesting a never looks at it. *)
Definition ex_a : bytes := [97].
Definition ex_b : bytes := [98].
Definition ex_c : bytes := [99].
Definition ex_d : bytes := [100].
Definition ex_cfg : iconfig :=
  {| ic_root_name := None;
     ic_projects :=
       [(None, ([47; 114],
          {| yp_name := None; yp_imports := [];
             yp_targets :=
               [(ex_a, YBuild [ex_b; ex_b] [116] [YIDepOutput (ex_b ++ dot_output)] []);
                (ex_b, YBuild [] [116] [] [YOFiles [[111; 117; 116; 46; 116; 120; 116]] None]);
                (ex_c, YBuild [ex_d] [116] [] []);
                (ex_d, YAggregate [ex_c])] |}))] |}.
Definition ex_id (n : bytes) : target_id := {| t_project := None; t_name := n |}.

Example C09_nonvacuous :
  match resolve ex_cfg [ex_id ex_a] (S (n_targets ex_cfg)) with
  | Ok m => (tmap_keys m, option_map rt_deps (tmap_get m (ex_id ex_a)))
  | Err _ => ([], None)
  end = ([ex_id ex_a; ex_id ex_b], Some [ex_id ex_b; ex_id ex_b; ex_id ex_b]) /\
  resolve ex_cfg [ex_id ex_a; ex_id ex_c] (S (n_targets ex_cfg)) = Err ECircular /\
  resolve ex_cfg [ex_id ex_d] (S (n_targets ex_cfg)) = Err ECircular /\
  fst (main_phases ex_cfg (Some [ex_c]) true false) = [].
Proof. vm_compute. repeat split. Qed.
