# Slice RES (C09, C19, C13): generators of abstract multi-project configurations, rendering to real zinoma.yml files,
# encoding for the model runner, canonical result parsing, an independent property oracle, and black-box helpers
# driving the real binary.   Modes: harness/m_resolve.rs (implementation) and runner/drv_resolve.ml (extracted model).
import json
import os
import re
import shutil
import subprocess

import vf

try:
    import yaml as _pyyaml
except Exception:          # pragma: no cover
    _pyyaml = None

TOKEN = '/@'

# ------------------------------------------------------------------------------------------- abstract configurations


class Tgt:
    def __init__(self, kind, deps=None, script='true', inp=None, out=None):
        self.kind = kind                # 'B' | 'S' | 'A'
        self.deps = deps or []          # strings as written in `dependencies`
        self.script = script
        self.inp = inp or []            # ('F', [paths], exts|None) | ('C', cmd) | ('O', string)
        self.out = out or []            # ('F', [paths], exts|None) | ('C', cmd)

    def copy(self):
        return Tgt(self.kind, list(self.deps), self.script, list(self.inp), list(self.out))


class Proj:
    def __init__(self, name, rel, imports=None, targets=None):
        self.name = name                # str | None
        self.rel = rel                  # directory relative to the case directory
        self.imports = imports or []    # (import name, index of the imported project, spelling 'rel'|'abs')
        self.targets = targets or []    # (name, Tgt) in document order, names distinct

    def get(self, n):
        for (k, t) in self.targets:
            if k == n:
                return t
        return None


class Cfg:
    """projects[0] is the root project. Project names are pairwise distinct (None only for the root)."""

    def __init__(self, projects):
        self.projects = projects

    def loaded(self):
        """indices of the projects the loader reaches through imports, in discovery order"""
        seen = [0]
        todo = [0]
        while todo:
            i = todo.pop(0)
            for (_, j, _) in self.projects[i].imports:
                if j not in seen:
                    seen.append(j)
                    todo.append(j)
        return seen

    def by_name(self, name):
        for i in self.loaded():
            if self.projects[i].name == name:
                return self.projects[i]
        return None

    def all_ids(self):
        return [(self.projects[i].name, n) for i in self.loaded() for (n, _) in self.projects[i].targets]

    def n_targets(self):
        return len(self.all_ids())


# ------------------------------------------------------------------------------------------- independent oracle
# (the reading of the property text, written without looking at the resolver's algorithm: closure by BFS, cycles by
#  reachability, classes of defects as sets)

NAME_RE = re.compile(r'\w[-\w]*\Z')
OUT_RE = re.compile(r'((\w[-\w]*::)?\w[-\w]*)\.output\Z')


def parse_id(s, cur):
    parts = s.split('::')
    if len(parts) == 2:
        return (parts[0], parts[1])
    if len(parts) == 1:
        return (cur, parts[0])
    return None


def display(tid):
    return tid[1] if tid[0] is None else tid[0] + '::' + tid[1]


def accepted_names(cfg):
    names = [display(t) for t in cfg.all_ids()]
    root = cfg.projects[0]
    if root.name is not None:
        names += [n for (n, _) in root.targets]
    return names


def lookup(cfg, tid):
    """'noproject' | 'notarget' | (Proj, Tgt)"""
    p = cfg.by_name(tid[0])
    if p is None:
        return 'noproject'
    t = p.get(tid[1])
    if t is None:
        return 'notarget'
    return (p, t)


def references(tid, t):
    """(declared ids or None entries for unparseable strings, output-ref ids or None entries)"""
    decl = [parse_id(s, tid[0]) for s in t.deps]
    outs = []
    if t.kind != 'A':
        for it in t.inp:
            if it[0] == 'O':
                m = OUT_RE.match(it[1])
                outs.append(parse_id(m.group(1), tid[0]) if m else None)
    return decl, outs


def defects(cfg, roots):
    """set of defect classes with a reachable witness, and the reachable id set (through every parseable reference)"""
    found = set()
    reach = []
    todo = list(roots)
    succ = {}
    while todo:
        x = todo.pop()
        if x in succ:
            continue
        succ[x] = []
        reach.append(x)
        lk = lookup(cfg, x)
        if lk == 'noproject':
            found.add('ProjectNotFound' if x[0] is not None else 'PANIC')
            continue
        if lk == 'notarget':
            found.add('TargetNotFound')
            continue
        p, t = lk
        decl, outs = references(x, t)
        if any(d is None for d in decl):
            found.add('InvalidTargetName')
        if any(o is None for o in outs):
            found.add('InvalidInput')
        for o in outs:
            if o is not None:
                lo = lookup(cfg, o)
                if isinstance(lo, tuple) and lo[1].kind != 'B':
                    found.add('NotABuildOutput')
        succ[x] = [d for d in decl + outs if d is not None]
        todo.extend(succ[x])
    # a reachable node that reaches itself through at least one edge
    for x in reach:
        seen = set()
        st = list(succ[x])
        while st:
            y = st.pop()
            if y == x:
                found.add('Circular')
                break
            if y in seen:
                continue
            seen.add(y)
            st.extend(succ.get(y, []))
    return found, set(reach)


def norm_exts(exts):
    if exts is None:
        return None
    s = sorted(set((e if e.startswith('.') else '.' + e).encode() for e in exts if e != ''))
    return s or None


def case_dir_of(cfg, p):
    return getattr(cfg, 'base', TOKEN) + '/' + p.rel


def expected_resources(cfg, p, items):
    files, cmds = [], []
    d = case_dir_of(cfg, p)
    for it in items:
        if it[0] == 'F':
            files.append(([os.path.join(d, x).encode() for x in it[1]], norm_exts(it[2])))
        elif it[0] == 'C':
            cmds.append((it[1].encode(), d.encode()))
    return files, cmds


def expected_target(cfg, tid):
    """the resolved target the property text asks for (None when something about it is broken)"""
    lk = lookup(cfg, tid)
    if not isinstance(lk, tuple):
        return None
    p, t = lk
    decl, outs = references(tid, t)
    if any(d is None for d in decl) or any(o is None for o in outs):
        return None
    inf, inc = expected_resources(cfg, p, t.inp if t.kind != 'A' else [])
    for o in outs:
        lo = lookup(cfg, o)
        if not isinstance(lo, tuple) or lo[1].kind != 'B':
            return None
        f, c = expected_resources(cfg, lo[0], lo[1].out)
        inf += f
        inc += c
    outf, outc = expected_resources(cfg, p, t.out if t.kind == 'B' else [])
    return {'id': tid, 'k': t.kind, 'dir': case_dir_of(cfg, p).encode(), 'deps': decl + outs,
            'script': (t.script if t.kind != 'A' else '').encode(), 'inF': inf, 'inC': inc, 'outF': outf, 'outC': outc}


# ------------------------------------------------------------------------------------------- result lines

def _unhex(h):
    return b'' if h in ('_', '-') else bytes.fromhex(h)


def _tid(s):
    p, n = s.split('~')
    return (None if p == 'N' else _unhex(p[1:]).decode(), _unhex(n).decode())


def _files(s):
    if s == '-':
        return []
    out = []
    for fr in s.split('+'):
        paths, exts = fr.split('/')
        out.append(([] if paths == '-' else [_unhex(x) for x in paths.split(',')],
                    None if exts == 'N' else [_unhex(x) for x in exts.split(',')]))
    return out


def _cmds(s):
    if s == '-':
        return []
    return [tuple(_unhex(x) for x in c.split('@')) for c in s.split(',')]


def parse_result(rest):
    """'names=.. cli=.. res=.. T:..' -> dict(names, cli, res, targets{tid: dict})"""
    f = rest.split(' ')
    d = {'names': None, 'cli': None, 'res': None, 'targets': {}}
    for tok in f:
        if tok.startswith('names='):
            v = tok[6:]
            d['names'] = [] if v == '-' else sorted(_unhex(x).decode('utf-8', 'replace') for x in v.split(','))
        elif tok.startswith('cli='):
            d['cli'] = tok[4:]
        elif tok.startswith('res='):
            d['res'] = tok[4:]
        elif tok.startswith('T:'):
            kv = {}
            parts = tok.split(';')
            tid = _tid(parts[0][2:])
            for p in parts[1:]:
                k, _, v = p.partition('=')
                kv[k] = v
            d['targets'][tid] = {
                'id': tid, 'k': kv['k'], 'dir': _unhex(kv['dir']),
                'deps': [] if kv['deps'] == '-' else [_tid(x) for x in kv['deps'].split(',')],
                'script': _unhex(kv['script']), 'inF': _files(kv['inF']), 'inC': _cmds(kv['inC']),
                'outF': _files(kv['outF']), 'outC': _cmds(kv['outC'])}
    return d


def project_line(rest, proj):
    """the part of a result line a property looks at.
       'graph' (C09): verdict / error class, key set, kinds, dependency lists
       'names' (C19): accepted names, CLI verdict, verdict, key set, ids and dirs
       'resources' (C13): verdict, dependency lists, kinds, input/output resources and dirs"""
    d = parse_result(rest)
    ts = d['targets']
    if proj == 'graph':
        return (d['res'], tuple(sorted((display(t), v['k'], tuple(display(x) for x in v['deps'])) for t, v in ts.items())))
    if proj == 'names':
        return (tuple(d['names'] or ()), d['cli'], d['res'].split(':')[0] if d['res'] else None,
                tuple(sorted((str(t), v['dir']) for t, v in ts.items())))
    if proj == 'resources':
        return (d['res'].split(':')[0] if d['res'] else None,
                tuple(sorted((display(t), v['k'], v['dir'], tuple(display(x) for x in v['deps']), repr(v['inF']), repr(v['inC']),
                              repr(v['outF']), repr(v['outC'])) for t, v in ts.items())))
    return rest


def oracle(cfg, roots_mode, roots, impl):
    """Does the implementation's behaviour on this case violate the property text?  Returns (verdict, reason) with
       verdict in 'ok' | 'violates' | 'unknown'.  impl = parse_result(...)"""
    res = impl['res'] or ''
    names = sorted(accepted_names(cfg))
    if impl['names'] is not None and impl['names'] != names and not res.startswith('LOADERR'):
        return 'violates', 'accepted command-line names differ from {qualified names of every loaded target} + {bare root names}'
    if roots_mode == 'REQ':
        ok = all(r in names for r in roots)
        if (impl['cli'] == 'ok') != ok:
            return 'violates', 'a requested name is %s although it is %s the accepted names' % (
                'accepted' if impl['cli'] == 'ok' else 'rejected', 'outside' if not ok else 'among')
        if not ok:
            return 'ok', ''
    if roots_mode in ('REQ', 'RAW'):
        ids = [parse_id(r, cfg.projects[0].name) for r in roots]
        if any(i is None for i in ids):
            return ('ok', '') if res == 'ERR:InvalidTargetName' else ('violates', 'malformed requested name not rejected')
    elif roots_mode == 'ALL':
        ids = cfg.all_ids()
    else:
        ids = list(roots)
    found, reach = defects(cfg, ids)
    if res.startswith('PANIC'):
        if roots_mode in ('IDS', 'RAW') and 'PANIC' in found:
            return 'ok', 'API-level only: an unqualified id without an unnamed project (not reachable from main)'
        return 'violates', 'the resolver panics'
    if res.startswith('ERR:'):
        cls = res[4:]
        if cls in found:
            return 'ok', ''
        if not found:
            return 'violates', 'a configuration without any reachable defect is rejected (%s)' % cls
        return 'violates', 'rejected with class %s but the reachable defects are %s' % (cls, sorted(found))
    if res == 'OK':
        if found:
            return 'violates', 'accepted although a reachable reference is broken: %s' % sorted(found)
        keys = set(impl['targets'].keys())
        if keys != reach:
            return 'violates', 'resolved set != dependency closure: extra %s missing %s' % (
                sorted(map(display, keys - reach)), sorted(map(display, reach - keys)))
        for t in keys:
            exp = expected_target(cfg, t)
            got = impl['targets'][t]
            for k in ('k', 'dir', 'deps', 'script', 'inF', 'inC', 'outF', 'outC'):
                if exp[k] != got[k]:
                    return 'violates', 'target %s: field %s is %r, the property text asks for %r' % (display(t), k, got[k], exp[k])
        return 'ok', ''
    return 'unknown', 'unexpected result %r' % res


# ------------------------------------------------------------------------------------------- rendering

def _yaml_target(t):
    d = {}
    if t.kind == 'A':
        d['dependencies'] = list(t.deps)
        return d
    if t.deps:
        d['dependencies'] = list(t.deps)
    d['build' if t.kind == 'B' else 'service'] = t.script

    def res(items):
        out = []
        for it in items:
            if it[0] == 'F':
                e = {'paths': list(it[1])}
                if it[2] is not None:
                    e['extensions'] = list(it[2])
                out.append(e)
            elif it[0] == 'C':
                out.append({'cmd_stdout': it[1]})
            else:
                out.append(it[1])
        return out
    if t.inp:
        d['input'] = res(t.inp)
    if t.kind == 'B' and t.out:
        d['output'] = res(t.out)
    return d


def render(cfg, case_dir, style='json'):
    """writes <case_dir>/<rel>/zinoma.yml for every project (also the ones nobody imports)"""
    for p in cfg.projects:
        d = os.path.join(case_dir, p.rel)
        os.makedirs(d, exist_ok=True)
        doc = {}
        if p.name is not None:
            doc['name'] = p.name
        if p.imports:
            imp = {}
            for (n, j, spelling) in p.imports:
                tgt = os.path.join(case_dir, cfg.projects[j].rel)
                imp[n] = tgt if spelling == 'abs' else os.path.relpath(tgt, d)
            doc['imports'] = imp
        doc['targets'] = {n: _yaml_target(t) for (n, t) in p.targets}
        with open(os.path.join(d, 'zinoma.yml'), 'w', encoding='utf-8') as f:
            if style == 'block' and _pyyaml is not None:
                _pyyaml.safe_dump(doc, f, allow_unicode=True, default_flow_style=False, sort_keys=False)
            else:
                json.dump(doc, f, ensure_ascii=False, indent=1)


def _opt(s):
    return 'N' if s is None else 'S' + vf.hexs(s)


def _exts(e):
    return 'N' if e is None else 'E:' + ','.join(vf.hexs(x) for x in e)


def tid_field(t):
    return _opt(t[0]) + '~' + vf.hexs(t[1])


def encode(cfg, cid, case_dir, prefix, mode, args):
    """the case block: first line for the harness (real directory), the rest for the model (abstract configuration)"""
    root_dir = os.path.join(case_dir, cfg.projects[0].rel)
    if mode in ('REQ', 'RAW'):
        a = ' '.join(vf.hexs(x) for x in args)
    elif mode == 'IDS':
        a = ' '.join(tid_field(x) for x in args)
    else:
        a = ''
    lines = ['CASE %s %s %s %s %s' % (cid, vf.hexs(root_dir), vf.hexs(prefix), mode, a)]
    lines.append('ROOT ' + _opt(cfg.projects[0].name))
    for i in cfg.loaded():
        p = cfg.projects[i]
        lines.append('PROJ %s %s' % (_opt(p.name), vf.hexs(TOKEN + case_dir[len(prefix):] + '/' + p.rel)))
        for (n, t) in p.targets:
            lines.append('T %s %s %s' % (vf.hexs(n), t.kind, vf.hexs(t.script if t.kind != 'A' else '')))
            for dpd in t.deps:
                lines.append('D ' + vf.hexs(dpd))
            if t.kind != 'A':
                for it in t.inp:
                    if it[0] == 'F':
                        lines.append(('IF %s %s' % (_exts(it[2]), ' '.join(vf.hexs(x) for x in it[1]))).rstrip())
                    elif it[0] == 'C':
                        lines.append('IC ' + vf.hexs(it[1]))
                    else:
                        lines.append('IO ' + vf.hexs(it[1]))
            if t.kind == 'B':
                for it in t.out:
                    if it[0] == 'F':
                        lines.append(('OF %s %s' % (_exts(it[2]), ' '.join(vf.hexs(x) for x in it[1]))).rstrip())
                    else:
                        lines.append('OC ' + vf.hexs(it[1]))
    lines.append('END')
    return '\n'.join(lines) + '\n'


def describe(cfg, mode, args):
    """human-readable replay description of a configuration"""
    out = {'request_mode': mode, 'request': [display(a) if isinstance(a, tuple) else a for a in (args or [])], 'projects': []}
    for i, p in enumerate(cfg.projects):
        out['projects'].append({
            'dir': p.rel, 'name': p.name, 'loaded': i in cfg.loaded(),
            'imports': {n: cfg.projects[j].rel for (n, j, _) in p.imports},
            'targets': {n: _yaml_target(t) for (n, t) in p.targets}})
    return out


def dump_cfg(cfg):
    """JSON-able form from which load_cfg rebuilds the configuration (used in replay files)"""
    return [{'name': p.name, 'rel': p.rel, 'imports': [list(i) for i in p.imports],
             'targets': [[n, {'kind': t.kind, 'deps': t.deps, 'script': t.script,
                              'inp': [list(i) for i in t.inp], 'out': [list(o) for o in t.out]}] for (n, t) in p.targets]}
            for p in cfg.projects]


def load_cfg(obj):
    ps = []
    for p in obj:
        ts = [(n, Tgt(t['kind'], list(t['deps']), t['script'], [tuple(i) for i in t['inp']], [tuple(o) for o in t['out']]))
              for (n, t) in p['targets']]
        ps.append(Proj(p['name'], p['rel'], [tuple(i) for i in p['imports']], ts))
    return Cfg(ps)


# ------------------------------------------------------------------------------------------- generators

PNAMES = ['app', 'lib', 'core', 'p-1', '_x', 'été', 'a1', 'tools']
TNAMES = ['build', 'test', 'a', 'b', 'c', 'gen', 'srv', 'all', 'x-1', '_t', '007', 'yes', 'lint', 'd']
DIRS = [['root', 'root/sub', 'root/sub/deep'], ['ws/root', 'ws/lib', 'other'], ['root', 'libs/one', 'libs/two'], ['a/b/root', 'a/x', 'a/b/root/in']]
PATHS = ['src', 'out/a.txt', '.', '', '/abs/x', '../shared', 'dir/', 'gen', 'val.txt', 'héllo', 'a b']
EXTS = [None, None, None, [], ['txt'], ['.c', 'h'], ['', 'o'], [''], ['.gen.c', 'gen.c'], ['é']]
CMDS = ['cat val.txt', 'echo 1', 'date +%Y', 'ls', 'printf "a b"']
BAD_OUT = ['x.out', 'x', 'a b.output', '.output', 'p::.output', 'a::b::c.output', 'x.outputs', 'x.output ', ' x.output', '::x.output',
           'x::.output', '-x.output', 'x.OUTPUT', 'a.b.output', 'x.output.output', 'x.output\n', '\nx.output', 'x .output']
BAD_DEP = ['a::b::c', '::x', 'x::', '::', 'nope', 'ghost::a', 'a::', ':::a', 'a:b', '', 'a\n', 'a::b::', '::::']


def gen_files(rng):
    return ('F', [rng.choice(PATHS) for _ in range(rng.choice([1, 1, 2, 3, 0]))], rng.choice(EXTS))


def gen_config(rng, max_targets=12, family=None, tnames=None, nproj=None, p_output=0.4):
    """structured, valid (acyclic, every reference resolvable, `.output` only of builds) unless mutated afterwards"""
    TNAMES = tnames or globals()['TNAMES']
    nproj = nproj or rng.choice([1, 1, 2, 2, 3])
    dirs = rng.choice(DIRS)
    pn = rng.sample(PNAMES, nproj)
    root_named = nproj == 1 and rng.random() < 0.5 or nproj > 1 and rng.random() < 0.7
    projects = []
    for i in range(nproj):
        projects.append(Proj(pn[i] if (i > 0 or root_named) else None, dirs[i]))
    # import graph: everything reachable from the root; back imports allowed when the importee is named
    for i in range(1, nproj):
        importer = rng.randrange(0, i)
        projects[importer].imports.append((projects[i].name, i, rng.choice(['rel', 'rel', 'abs'])))
    for i in range(nproj):
        for j in range(nproj):
            if i != j and projects[j].name is not None and rng.random() < 0.2 and all(x[1] != j for x in projects[i].imports):
                projects[i].imports.append((projects[j].name, j, 'rel'))
    total = rng.randint(1, max_targets)
    slots = []            # (project index, name) in a global order; references point forward only
    for _ in range(total):
        i = rng.randrange(nproj)
        n = rng.choice(TNAMES)
        if (i, n) not in slots:
            slots.append((i, n))
    if not any(i == 0 for (i, _) in slots):
        slots.insert(0, (0, rng.choice(TNAMES)))
    kinds = {}
    for s in slots:
        kinds[s] = rng.choice(['B', 'B', 'B', 'B', 'S', 'A', 'A'])

    def spell(frm, to):
        pj, n = to
        if pj == frm and (projects[pj].name is None or rng.random() < 0.6):
            return n
        if projects[pj].name is None:
            return None                     # an unnamed root cannot be referenced from elsewhere
        return projects[pj].name + '::' + n
    for idx, s in enumerate(slots):
        later = slots[idx + 1:]
        t = Tgt(kinds[s], script=rng.choice(['true', 'echo %s' % s[1], 'exit 0']))
        for to in later:
            if rng.random() < (0.35 if len(slots) <= 6 else 0.2):
                sp = spell(s[0], to)
                if sp is not None:
                    t.deps.append(sp)
                    if rng.random() < 0.15:
                        t.deps.append(spell(s[0], to) or sp)          # duplicate, possibly in the other spelling
        rng.shuffle(t.deps)
        if t.kind != 'A':
            for _ in range(rng.choice([0, 0, 1, 1, 2, 3])):
                r = rng.random()
                builds = [to for to in later if kinds[to] == 'B']
                if r < p_output and builds:
                    sp = spell(s[0], rng.choice(builds))
                    if sp is not None:
                        t.inp.append(('O', sp + '.output'))
                elif r < p_output + 0.35:
                    t.inp.append(gen_files(rng))
                else:
                    t.inp.append(('C', rng.choice(CMDS)))
        if t.kind == 'B':
            for _ in range(rng.choice([0, 1, 1, 2, 3])):
                t.out.append(gen_files(rng) if rng.random() < 0.7 else ('C', rng.choice(CMDS)))
        projects[s[0]].targets.append((s[1], t))
    for p in projects:
        rng.shuffle(p.targets)
    return Cfg(projects)


def gen_request(rng, cfg):
    """(mode, args): mostly names from the accepted list (both spellings), sometimes no target at all"""
    names = accepted_names(cfg)
    if rng.random() < 0.12 or not names:
        return 'ALL', []
    k = rng.choice([1, 1, 1, 2, 2, 3])
    req = [rng.choice(names) for _ in range(k)]
    root = cfg.projects[0]
    if root.name is not None and rng.random() < 0.35:          # the same root target in both spellings
        bare = [n for (n, _) in root.targets]
        if bare:
            n = rng.choice(bare)
            req += [n, root.name + '::' + n]
            rng.shuffle(req)
    return 'REQ', req


def mutate(rng, cfg):
    """applies one malformation to a copy; returns (cfg', family)"""
    ps = []
    for p in cfg.projects:
        ps.append(Proj(p.name, p.rel, list(p.imports), [(n, t.copy()) for (n, t) in p.targets]))
    c = Cfg(ps)
    loaded = [c.projects[i] for i in c.loaded()]
    cands = [(p, n, t) for p in loaded for (n, t) in p.targets]
    if not cands:
        return c, 'none'
    fam = rng.choice(['unknown-target', 'unknown-project', 'bad-dep-string', 'bad-output-string', 'output-of-nonbuild',
                      'self-loop', 'self-output', 'back-edge', 'back-edge-output', 'two-defects'])
    p, n, t = rng.choice(cands)
    qual = (p.name + '::' + n) if p.name is not None and rng.random() < 0.5 else n
    if fam == 'unknown-target':
        t.deps.insert(rng.randint(0, len(t.deps)), rng.choice(['nope', (p.name or 'x') + '::nope', n + 'x']))
    elif fam == 'unknown-project':
        if t.kind != 'A' and rng.random() < 0.4:
            t.inp.append(('O', 'ghost::a.output'))
        else:
            t.deps.append(rng.choice(['ghost::a', 'ghost::' + n, '::x']))
    elif fam == 'bad-dep-string':
        t.deps.insert(rng.randint(0, len(t.deps)), rng.choice(BAD_DEP))
    elif fam == 'bad-output-string':
        if t.kind == 'A':
            t.kind, t.script = 'B', 'true'
        t.inp.insert(rng.randint(0, len(t.inp)), ('O', rng.choice(BAD_OUT)))
    elif fam == 'output-of-nonbuild':
        nb = [(q, m) for q in loaded for (m, u) in q.targets if u.kind != 'B' and (q is p or q.name is not None)]
        if t.kind == 'A':
            t.kind, t.script = 'S', 'true'
        if nb:
            q, m = rng.choice(nb)
            t.inp.append(('O', (m if q is p and rng.random() < 0.6 else (q.name + '::' + m if q.name is not None else m)) + '.output'))
        else:
            fam = 'self-output'
            t.inp.append(('O', qual + '.output'))
    elif fam == 'self-loop':
        t.deps.append(qual)
    elif fam == 'self-output':
        if t.kind == 'A':
            t.kind, t.script = 'B', 'true'
        t.inp.append(('O', qual + '.output'))
    elif fam in ('back-edge', 'back-edge-output'):
        # an edge from some other target back to this one (may or may not close a cycle, may or may not be reachable)
        q, m, u = rng.choice(cands)
        ref = n if q is p else (p.name + '::' + n if p.name is not None else None)
        if ref is None:
            ref = m
        if fam == 'back-edge' or u.kind == 'A':
            u.deps.append(ref)
        else:
            u.inp.append(('O', ref + '.output'))
    else:
        c1, f1 = mutate(rng, c)
        c2, f2 = mutate(rng, c1)
        return c2, 'two:' + f1 + '+' + f2
    return c, fam


def shape_of(cfg, mode, args):
    """a canonical key of the case for the distinct-input count"""
    return json.dumps(describe(cfg, mode, args), sort_keys=True, ensure_ascii=False)


# ------------------------------------------------------------------------------------------- exhaustive small graphs

def small_graphs(n, roots_of=None):
    """ALL digraphs on n nodes (self loops included) x kind assignments x edge kinds, as abstract one- or two-project
       configurations. Node 0 is requested. Yields (cfg, mode, args, tag)."""
    import itertools
    pairs = [(i, j) for i in range(n) for j in range(n)]
    for kinds in itertools.product('BSA', repeat=n):
        for mask in range(3 ** len(pairs)):
            edges = []
            m = mask
            ok = True
            for (i, j) in pairs:
                e = m % 3
                m //= 3
                if e == 2 and kinds[i] == 'A':
                    ok = False        # an aggregate has no input: this shape does not exist
                    break
                if e:
                    edges.append((i, j, e))
            if not ok:
                continue
            yield kinds, edges


def graph_config(kinds, edges, two_projects=False):
    n = len(kinds)
    names = ['t%d' % i for i in range(n)]
    home = [0 if (not two_projects or i % 2 == 0) else 1 for i in range(n)]
    projs = [Proj('r' if two_projects else None, 'root'), Proj('s', 'root/s')]
    if two_projects:
        projs[0].imports.append(('s', 1, 'rel'))
        projs[1].imports.append(('r', 0, 'rel'))
    ts = []
    for i in range(n):
        ts.append(Tgt(kinds[i], script='true'))
    for (i, j, e) in edges:
        ref = names[j] if home[i] == home[j] else projs[home[j]].name + '::' + names[j]
        if e == 1:
            ts[i].deps.append(ref)
        else:
            ts[i].inp.append(('O', ref + '.output'))
    for i in range(n):
        projs[home[i]].targets.append((names[i], ts[i]))
    return Cfg(projs if two_projects else projs[:1])


# ------------------------------------------------------------------------------------------- running a batch

class Batch:
    """collects cases, renders them, runs model and implementation once, gives parsed results back"""

    def __init__(self, tag):
        self.dir = os.path.realpath(vf.scratch_dir(tag))
        self.prefix = self.dir
        self.cases = {}
        self.blocks = []

    def add(self, cid, cfg, mode, args, family, style=None):
        case_dir = os.path.join(self.dir, cid)
        cfg.base = TOKEN + '/' + cid
        render(cfg, case_dir, style or 'json')
        self.blocks.append(encode(cfg, cid, case_dir, self.prefix, mode, args))
        self.cases[cid] = (cfg, mode, args, family)

    def run(self):
        cf = os.path.join(self.dir, 'cases.txt')
        with open(cf, 'w', encoding='utf-8') as f:
            f.write(''.join(self.blocks))
        self.casefile = cf
        rc, impl, err = vf.run_impl('resolve', cf)
        self.impl_rc, self.impl_err = rc, err
        model = vf.run_model('resolve', cf)
        self.impl = vf.by_id(impl)
        self.model = vf.by_id(model)
        # the implementation process died on some case (stack overflow, abort): isolate it by re-running the cases without a
        # result line one by one (bounded), so that the culprit is reported as a concrete input and the others still compared
        self.crashed = {}
        index = {b.split(' ', 2)[1]: b for b in self.blocks}
        for attempt in range(12):
            missing = [cid for cid in self.cases if cid not in self.impl and cid not in self.crashed]
            if not missing:
                break
            one = os.path.join(self.dir, 'retry_%d_one.txt' % attempt)
            with open(one, 'w', encoding='utf-8') as f:
                f.write(index[missing[0]])
            rc1, out1, err1 = vf.run_impl('resolve', one, timeout=120)
            got = vf.by_id(out1)
            if missing[0] in got:
                self.impl[missing[0]] = got[missing[0]]
            else:
                self.crashed[missing[0]] = (rc1, err1[-400:])
            if len(missing) > 1:
                rest = os.path.join(self.dir, 'retry_%d_rest.txt' % attempt)
                with open(rest, 'w', encoding='utf-8') as f:
                    f.write(''.join(index[c] for c in missing[1:]))
                rc2, out2, err2 = vf.run_impl('resolve', rest)
                self.impl.update(vf.by_id(out2))
        return self

    def block_of(self, cid):
        if not hasattr(self, '_index'):
            self._index = {b.split(' ', 2)[1]: b for b in self.blocks}
        return self._index.get(cid, '')

    def cleanup(self):
        shutil.rmtree(self.dir, ignore_errors=True)


def compare(ck, batch, proj, prop_text):
    """per-case comparison of the projection `proj`; on a difference the oracle decides. Returns number of differences."""
    ndiff = 0
    nmissing = 0
    for cid, (cfg, mode, args, family) in batch.cases.items():
        m = batch.model.get(cid)
        r = batch.impl.get(cid)
        pm = parse_result(m) if m is not None else None
        sample = {'family': family, 'config': describe(cfg, mode, args), 'model': (m or '')[:300], 'impl': (r or '')[:300]}
        ck.count((proj, shape_of(cfg, mode, args)), sample=sample)
        ck.tally('%s:family:%s' % (proj, family.split('+')[0].split(':two')[0]))
        ck.tally('%s:mode:%s' % (proj, mode))
        ck.tally('%s:projects:%d' % (proj, len(cfg.loaded())))
        if pm is not None:
            ck.tally('%s:model:%s' % (proj, (pm['res'] or 'cli-' + str(pm['cli'])).split(';')[0]))
        if r is None and cid in getattr(batch, 'crashed', {}):
            rc1, err1 = batch.crashed[cid]
            ck.violation({'kind': 'resolve-crash', 'family': family, 'config': describe(cfg, mode, args), 'cfg': dump_cfg(cfg), 'mode': mode,
                          'args': [list(a) if isinstance(a, tuple) else a for a in args], 'model': m,
                          'what': 'the process running the real loader/resolver dies on this configuration (exit status %s) instead of '
                                  'resolving or refusing it' % rc1, 'stderr': err1, 'case_block': batch.block_of(cid),
                          'property_text': prop_text}, found_input=True)
            ndiff += 1
            continue
        if r is None or m is None:
            ndiff += 1
            nmissing += 1
            if nmissing == 1:
                ck.violation({'kind': 'resolve-correspondence', 'case': cid, 'model': m, 'impl': r,
                              'what': 'no result line for this case (and possibly others of the batch: %d implementation crashes were '
                                      'isolated and reported separately)' % len(getattr(batch, 'crashed', {})),
                              'config': describe(cfg, mode, args), 'impl_stderr': batch.impl_err[-500:]}, found_input=False)
            continue
        pr = parse_result(r)
        same = project_line(m, proj) == project_line(r, proj)
        if not same and mode == 'ALL' and (pm['res'] or '').startswith('ERR') and (pr['res'] or '').startswith('ERR') \
                and proj != 'graph':
            same = True
        if not same and mode == 'ALL' and (pm['res'] or '').startswith('ERR') and (pr['res'] or '').startswith('ERR'):
            # without requested targets the roots are iterated in hash order: which defect is met first is not fixed by
            # the code; the class only has to be one of the reachable defects (checked by the oracle below)
            v, why = oracle(cfg, mode, args, pr)
            if v == 'ok':
                ck.tally('%s:hash-order-dependent-error-class' % proj)
                continue
        if same:
            continue
        ndiff += 1
        v, why = oracle(cfg, mode, args, pr)
        rep = {'kind': 'resolve-correspondence', 'projection': proj, 'family': family, 'config': describe(cfg, mode, args),
               'cfg': dump_cfg(cfg), 'mode': mode, 'args': [list(a) if isinstance(a, tuple) else a for a in args],
               'model': m, 'implementation': r, 'oracle': v, 'why': why, 'property_text': prop_text,
               'case_block': batch.block_of(cid),
               'replay': 'render the projects above to zinoma.yml files (slices/resolve.py render) and run '
                         'ZINOMA_VERIF=resolve on the CASE line; or run the real binary on the root project with the request'}
        if v == 'violates':
            ck.violation(rep, found_input=True)
        else:
            rep['what'] = 'model and implementation differ on the %s projection; the oracle finds no violation of the property ' \
                          'text in the implementation\'s answer' % proj
            ck.violation(rep, found_input=False)
    return ndiff


# ------------------------------------------------------------------------------------------- black box

def run_zinoma(project_dir, args, timeout=60):
    """one-shot run of the real binary. Returns (exit status | None on timeout, stdout, stderr).
       A timeout is NOT a verdict of this slice: at the pinned commit the engine can hang on shared dependencies (DESIGN.md §7
       D1-D3, property C04); the black-box layouts here avoid shared dependencies and callers count a timeout as inconclusive."""
    env = dict(os.environ)
    env.pop('ZINOMA_VERIF', None)
    env.pop('ZINOMA_VERIF_CASES', None)
    env['RUST_BACKTRACE'] = '0'
    try:
        p = subprocess.run([vf.ZINOMA, '-p', project_dir] + list(args), env=env, stdout=subprocess.PIPE, stderr=subprocess.PIPE,
                           timeout=timeout, cwd=project_dir)
    except subprocess.TimeoutExpired:
        return None, '', 'TIMEOUT after %ds' % timeout
    return p.returncode, p.stdout.decode('utf-8', 'replace'), p.stderr.decode('utf-8', 'replace')


def shares_dependency(cfg, roots):
    """True when some target of the closure is wanted by two different requesters (two referrers, or a referrer and the
       command line): the shapes on which the pinned engine may hang (C04), avoided in this slice's black-box runs"""
    found, reach = defects(cfg, roots)
    referrers = {}
    for r in set(roots):
        referrers.setdefault(r, set()).add('<command line>')
    for x in reach:
        lk = lookup(cfg, x)
        if isinstance(lk, tuple):
            decl, outs = references(x, lk[1])
            for d in decl + outs:
                if d is not None:
                    referrers.setdefault(d, set()).add(x)
    return any(len(v) > 1 for v in referrers.values())


def snapshot(root):
    """path -> ('d',) | ('f', content) | ('l', target) for everything under root"""
    snap = {}
    for d, dirs, files in os.walk(root):
        for x in dirs:
            p = os.path.join(d, x)
            snap[os.path.relpath(p, root)] = ('l', os.readlink(p)) if os.path.islink(p) else ('d',)
        for x in files:
            p = os.path.join(d, x)
            if os.path.islink(p):
                snap[os.path.relpath(p, root)] = ('l', os.readlink(p))
            else:
                with open(p, 'rb') as f:
                    snap[os.path.relpath(p, root)] = ('f', f.read())
    return snap


SAFE_PATHS = ['out/a.txt', 'gen.txt', 'build/x.o', 'out/b.txt', 'res.bin']


def sanitise_for_blackbox(cfg, trace, keep_services=False):
    """a copy that is safe and observable to RUN: every script appends the target's qualified name to `trace`, services
       become builds, every declared path is a file inside its project, command resources cannot fail"""
    ps = []
    for p in cfg.projects:
        ts = []
        for (n, t) in p.targets:
            u = t.copy()
            if u.kind == 'S' and not keep_services:
                u.kind = 'B'
            if u.kind != 'A':
                u.script = 'echo "%s" >> "%s"' % (display((p.name, n)), trace)

            def fix(items):
                out = []
                for k, it in enumerate(items):
                    if it[0] == 'F':
                        out.append(('F', [SAFE_PATHS[(len(x) + k + j) % len(SAFE_PATHS)] for j, x in enumerate(it[1])] or
                                    [SAFE_PATHS[k % len(SAFE_PATHS)]], None))
                    elif it[0] == 'C':
                        out.append(('C', 'echo %d' % k))
                    else:
                        out.append(it)
                return out
            u.inp = fix(u.inp)
            u.out = fix(u.out)
            ts.append((n, u))
        ps.append(Proj(p.name, p.rel, list(p.imports), ts))
    return Cfg(ps)


def materialise_outputs(cfg, case_dir):
    """creates every declared output file and a recorded-state file per target, so that a clean that wrongly runs is
       visible as a deleted file"""
    for p in cfg.projects:
        d = os.path.join(case_dir, p.rel)
        os.makedirs(os.path.join(d, '.zinoma'), exist_ok=True)
        for (n, t) in p.targets:
            with open(os.path.join(d, '.zinoma', display((p.name, n)) + '.checksums'), 'wb') as f:
                f.write(b'not a real record')
            if t.kind == 'B':
                for it in t.out:
                    if it[0] == 'F':
                        for x in it[1]:
                            fp = os.path.join(d, x)
                            os.makedirs(os.path.dirname(fp), exist_ok=True)
                            with open(fp, 'w') as f:
                                f.write('output of %s\n' % n)


def read_trace(trace):
    if not os.path.exists(trace):
        return []
    with open(trace, encoding='utf-8', errors='replace') as f:
        return [l.rstrip('\n') for l in f if l.strip()]


def random_small_graph(rng, n):
    """one random shape of small_graphs(n) (uniform over kinds and per-pair edge kinds)"""
    kinds = tuple(rng.choice('BSA') for _ in range(n))
    edges = []
    for i in range(n):
        for j in range(n):
            e = rng.choice([0, 0, 1, 2]) if kinds[i] != 'A' else rng.choice([0, 0, 1])
            if e:
                edges.append((i, j, e))
    return kinds, edges


def run_stream(ck, stream, proj, prop_text, tag, chunk=12000, workers=6):
    """stream yields (cid, cfg, mode, args, family, style). Renders and runs chunks concurrently, compares each.
       Returns (cases, differences)."""
    from concurrent.futures import ThreadPoolExecutor
    batches = []
    cur = None
    n = 0
    for (cid, cfg, mode, args, family, style) in stream:
        if cur is None or len(cur.cases) >= chunk:
            cur = Batch('%s_%d' % (tag, len(batches)))
            batches.append(cur)
        cur.add(cid, cfg, mode, args, family, style)
        n += 1
    with ThreadPoolExecutor(max_workers=workers) as ex:
        list(ex.map(lambda b: b.run(), batches))
    nd = 0
    for b in batches:
        nd += compare(ck, b, proj, prop_text)
        b.cleanup()
    return n, nd


def priority_sample(ck, sample):
    """black-box samples are few: keep them in the evidence ahead of the (thousands of) correspondence samples"""
    ck.samples.insert(0, sample)
    del ck.samples[6:]


# ------------------------------------------------------------------------------------------- extraction cross-check
# thorough tier: sampled cases are re-evaluated INSIDE Coq (vm_compute on Resolver.resolve_default) and compared with what the
# extracted OCaml runner computed (RESOLVE_RAW=1: the runner prints the model's result without any sorting).

def _cq_bytes(b):
    if isinstance(b, str):
        b = b.encode()
    return '(@nil N)' if not b else '[' + '; '.join(str(x) for x in b) + ']'


def _cq_list(items):
    return '[' + '; '.join(items) + ']'


def _cq_opt(s):
    return 'None' if s is None else '(Some %s)' % _cq_bytes(s)


def _cq_tid(t):
    return '{| t_project := %s; t_name := %s |}' % (_cq_opt(t[0]), _cq_bytes(t[1]))


def _cq_exts(e):
    return 'None' if e is None else '(Some %s)' % _cq_list([_cq_bytes(x) for x in e])


def _cq_res_items(items, inp):
    out = []
    for it in items:
        if it[0] == 'F':
            out.append('%s %s %s' % ('YIFiles' if inp else 'YOFiles', _cq_list([_cq_bytes(x) for x in it[1]]), _cq_exts(it[2])))
        elif it[0] == 'C':
            out.append('%s %s' % ('YICmd' if inp else 'YOCmd', _cq_bytes(it[1])))
        else:
            out.append('YIDepOutput %s' % _cq_bytes(it[1]))
    return _cq_list(out)


def _cq_cfg(cfg, cid):
    projs = []
    for i in cfg.loaded():
        p = cfg.projects[i]
        ts = []
        for (n, t) in p.targets:
            deps = _cq_list([_cq_bytes(x) for x in t.deps])
            if t.kind == 'B':
                yt = 'YBuild %s %s %s %s' % (deps, _cq_bytes(t.script), _cq_res_items(t.inp, True), _cq_res_items(t.out, False))
            elif t.kind == 'S':
                yt = 'YService %s %s %s' % (deps, _cq_bytes(t.script), _cq_res_items(t.inp, True))
            else:
                yt = 'YAggregate %s' % deps
            ts.append('(%s, %s)' % (_cq_bytes(n), yt))
        projs.append('(%s, (%s, {| yp_name := %s; yp_imports := []; yp_targets := %s |}))' % (
            _cq_opt(p.name), _cq_bytes(TOKEN + '/' + cid + '/' + p.rel), _cq_opt(p.name), _cq_list(ts)))
    return '{| ic_root_name := %s; ic_projects := %s |}' % (_cq_opt(cfg.projects[0].name), _cq_list(projs))


def _cq_resources(files, cmds):
    fs = ['{| fr_paths := %s; fr_exts := %s |}' % (_cq_list([_cq_bytes(p) for p in paths]), _cq_exts(exts)) for (paths, exts) in files]
    cs = ['{| cr_cmd := %s; cr_dir := %s |}' % (_cq_bytes(c), _cq_bytes(d)) for (c, d) in cmds]
    return '{| r_files := %s; r_cmds := %s |}' % (_cq_list(fs), _cq_list(cs))


ERR_CTOR = {'ProjectNotFound': 'EProjectNotFound', 'TargetNotFound': 'ETargetNotFound', 'Circular': 'ECircular',
            'NotABuildOutput': 'ENotABuildOutput', 'InvalidInput': 'EInvalidInput', 'InvalidTargetName': 'EInvalidTargetName'}


def coq_cross_check(ck, sample_cases, tag):
    """sample_cases: list of (cfg, mode, args) with mode in REQ/RAW/ALL. Returns (checked, ok, log)."""
    d = os.path.realpath(vf.scratch_dir(tag))
    blocks, kept = [], []
    for k, (cfg, mode, args) in enumerate(sample_cases):
        cid = 'v%d' % k
        cfg.base = TOKEN + '/' + cid
        blocks.append(encode(cfg, cid, os.path.join(d, cid), d, 'RAW' if mode == 'REQ' else mode, args))
        kept.append((cid, cfg, mode, args))
    cf = os.path.join(d, 'cases.txt')
    with open(cf, 'w', encoding='utf-8') as f:
        f.write(''.join(blocks))
    rc, out, err = vf.sh([vf.RUNNER, 'resolve', cf], env={'RESOLVE_RAW': '1'}, timeout=600)
    if rc != 0:
        return 0, False, 'runner failed: ' + err[-500:]
    lines = vf.by_id(out.splitlines())
    v = ['From Zinoma.Model Require Import Bytes Cfg Names Ext Resolver.',
         'Definition summary (r : result tmap) :=',
         '  match r with',
         '  | Ok m => inl (map (fun kv => (fst kv, rt_kind (snd kv), rt_deps (snd kv), rt_dir (snd kv), rt_script (snd kv),',
         '                                 rt_input (snd kv), rt_output (snd kv))) m)',
         '  | Err e => inr e',
         '  end.',
         'Definition roots_of (cfg : iconfig) (req : option (list bytes)) : list target_id :=',
         '  match req with',
         '  | None => list_all_targets cfg',
         '  | Some l => match try_parse_many l (ic_root_name cfg) with Some r => r | None => [] end',
         '  end.']
    n = 0
    for (cid, cfg, mode, args) in kept:
        res = parse_result_raw(lines.get(cid, ''))
        if res is None:
            continue
        if mode in ('REQ', 'RAW'):
            if any(parse_id(a, cfg.projects[0].name) is None for a in args):
                continue
            req = '(Some %s)' % _cq_list([_cq_bytes(a) for a in args])
        elif mode == 'ALL':
            req = 'None'
        else:
            continue
        if res[0] == 'ERR':
            expected = 'inr %s' % ERR_CTOR[res[1]]
        else:
            rows = []
            for t in res[1]:
                rows.append('(%s, %s, %s, %s, %s, %s, %s)' % (
                    _cq_tid(t['id']), {'B': 'TBuild', 'S': 'TService', 'A': 'TAggregate'}[t['k']],
                    _cq_list([_cq_tid(x) for x in t['deps']]), _cq_bytes(t['dir']), _cq_bytes(t['script']),
                    _cq_resources(t['inF'], t['inC']), _cq_resources(t['outF'], t['outC'])))
            expected = 'inl %s' % _cq_list(rows)
        v.append('Definition cfg_%s : iconfig := %s.' % (cid, _cq_cfg(cfg, cid)))
        v.append('Example x_%s : summary (resolve_default cfg_%s (roots_of cfg_%s %s)) = %s.' % (cid, cid, cid, req, expected))
        v.append('Proof. vm_compute. reflexivity. Qed.')
        n += 1
    vfile = os.path.join(d, 'Cases.v')
    with open(vfile, 'w', encoding='utf-8') as f:
        f.write('\n'.join(v) + '\n')
    rc, out, err = vf.sh(['coqc', '-noglob', '-Q', vf.COQ, 'Zinoma', vfile], timeout=900, cwd=d)
    log = (out + err)[-1500:]
    if rc == 0:
        shutil.rmtree(d, ignore_errors=True)
    return n, rc == 0, log


def parse_result_raw(rest):
    """like parse_result but keeps the order of the targets; returns ('ERR', class) | ('OK', [targets]) | None"""
    if not rest:
        return None
    d = parse_result(rest)
    res = d['res'] or ''
    if res.startswith('ERR:'):
        cls = res[4:]
        return ('ERR', cls) if cls in ERR_CTOR else None
    if res != 'OK':
        return None
    order = []
    for tok in rest.split(' '):
        if tok.startswith('T:'):
            order.append(d['targets'][_tid(tok.split(';')[0][2:])])
    return ('OK', order)
