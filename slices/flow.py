# Message-flow conformance of whole runs: the REAL engine (engine::run, real target actors, real /bin/sh scripts) on generated
# graphs, with the harness interposed on the actors' output channel (harness/m_flow.rs) so that every message is logged in
# the order the root relays it; runner/drv_flow.ml then replays every actor of the graph with Actor.actor_step on exactly
# the messages that were relayed to it and requires what the actor sent to be what the model actor sends (script completion
# inserted where the model has a build in progress).  Ties the composition — relay, per-destination FIFO order, the actors
# in situ under real concurrency — to the model, beyond the isolated-actor and root correspondences.
import concurrent.futures
import os
import vf
from slices import sysrun

KIND = {'build': 'B', 'service': 'S', 'aggregate': 'G'}


def gen_case(rng):
    fam, T, roots = sysrun.gen_graph(rng, family=rng.choice(['random', 'random', 'random', 'chain', 'fan', 'diamond', 'aggchain', 'svc']),
                                     n=None)
    names = list(T)
    if len(names) > 14:
        return gen_case(rng)
    num = {t: i + 1 for i, t in enumerate(names)}
    builds = [t for t in names if T[t]['kind'] == 'build']
    fail = rng.sample(builds, min(len(builds), rng.choice([0, 0, 0, 1, 1, 2])))
    # some builds take a few milliseconds: later requesters then register after completion, acknowledgements cross requests
    slow = rng.random() < 0.6
    targets = ';'.join('%d:%s:%s%s' % (num[t], KIND[T[t]['kind']], '.'.join(str(num[d]) for d in T[t]['deps']) or '-',
                                       (':%d' % rng.choice([0, 0, 3, 10, 25])) if (slow and T[t]['kind'] == 'build') else '')
                       for t in names)
    return {'family': fam, 'roots': ','.join(str(num[r]) for r in roots), 'targets': targets,
            'failing': ','.join(str(num[t]) for t in fail) or '-'}


def run(ck, n_cases, shards=8):
    """returns list of mismatches (dicts)"""
    d = vf.scratch_dir('flow_' + ck.prop)
    cases = {}
    for i in range(n_cases):
        cases['w%d' % i] = gen_case(ck.rng)
    ids = list(cases)
    files = []
    for s in range(shards):
        sf = os.path.join(d, 'impl_%d.txt' % s)
        with open(sf, 'w') as f:
            for cid in ids[s::shards]:
                c = cases[cid]
                f.write('W %s %s %s %s\n' % (cid, c['roots'], c['targets'], c['failing']))
        files.append(sf)
    impl = {}

    def one(sf):
        return vf.run_impl('flow', sf, env={'ZINOMA_VERIF_SCRATCH': os.path.join(d, 'run_' + os.path.basename(sf))}, timeout=1800)
    with concurrent.futures.ThreadPoolExecutor(max_workers=shards) as ex:
        for rc, lines, err in ex.map(one, files):
            impl.update(vf.by_id(lines))
    mf = os.path.join(d, 'model.txt')
    with open(mf, 'w') as f:
        for cid in ids:
            c = cases[cid]
            r = impl.get(cid, '')
            parts = dict(p.split('=', 1) for p in r.split(' ') if '=' in p)
            if 'O' not in parts:
                continue
            o = parts['O'][1:-1] or '-'
            f.write('W %s %s %s %s %s %s %s\n' % (cid, c['roots'], c['targets'], c['failing'], parts.get('status', '?'),
                                                parts.get('consumed', '0'), o))
    model = vf.by_id(vf.run_model('flow', mf))
    ck.rule('flow: the real engine (engine::run + real actors + real scripts, one-shot) on generated graphs (<= 14 targets, every '
            'family, failing builds), the harness interposed on the actors\' output channel logging every message in relay '
            'order; every actor of the graph is then replayed with Actor.actor_step on exactly the messages relayed to it: what it '
            'sent must be what the model actor sends (order across steps fixed, within a step free; script completion '
            'inserted where the model has a build in progress); non-trivial = distinct (graph, roots, failing set)')
    bad = []
    for cid in ids:
        c = cases[cid]
        r = impl.get(cid, 'MISSING')
        m = model.get(cid, 'NOT-EVALUATED' if 'O=' in r else 'IMPLEMENTATION-RESULT-MISSING')
        nmsg = 0 if 'O=[]' in r else r.count(';') + 1
        ck.count(('flow', c['roots'], c['targets'], c['failing']), nontrivial=nmsg > 0,
                 sample={'targets': c['targets'], 'requested': c['roots'], 'failing': c['failing'], 'logged': r[:300]})
        ck.tally('flow:family=' + c['family'])
        ck.tally('flow:status=' + (r.split('status=')[1].split(' ')[0].split(':')[0] if 'status=' in r else '?'))
        if m != 'OK':
            bad.append({'case': 'W %s %s %s %s' % (cid, c['roots'], c['targets'], c['failing']), 'logged_flow': r, 'model_verdict': m,
                        'replay': 'ZINOMA_VERIF=flow on the case line, then runner mode flow on the line extended with status, '
                                  'consumed and the logged outputs'})
    vf.sh(['rm', '-rf', d])
    return bad
