# Slice INC (C02 C03 C05 C18): shared helpers — record values, the reference byte layout with field marks (used to
# build corrupted streams), parsing of the runner's canonical values, batched runs that survive an aborting case.
import os
import struct
import vf

U64 = (1 << 64) - 1
NANOS = 1000000000

# Violations are buffered and emitted at the end of the check, those with a concrete failing input first (the check prints only
# the first few VIOLATION lines): a correspondence difference is reported as no-failing-input-found only after the whole
# generated space of the run has been searched for a real failing input.
PENDING = []
import threading
EVAL_LOCK = threading.Lock()


def report(ck, rep, found_input=True):
    PENDING.append((0 if found_input else 1, len(PENDING), rep, found_input))


def flush(ck, max_unfound=25):
    PENDING.sort(key=lambda x: (x[0], x[1]))
    unfound = 0
    dropped = 0
    for (_, _, rep, found) in PENDING:
        if not found:
            unfound += 1
            if unfound > max_unfound:
                dropped += 1
                continue
        ck.violation(rep, found_input=found)
    if dropped:
        ck.extra['correspondence_differences_not_written'] = dropped
    del PENDING[:]


# ------------------------------------------------------------------------------------------------ values
# env    = {'in': rstate, 'out': rstate | None}
# rstate = {'fs': [(path, secs, nanos, hash)], 'cmd': [(cmd, dir, stdout)]}      (byte strings / ints)

def hx(b):
    return vf.hexs(b)


def hn(x):
    return '%x' % x


def fs_field(fs):
    return '-' if not fs else ','.join('%s:%s:%s:%s' % (hx(p), hn(s), hn(n), hn(h)) for (p, s, n, h) in fs)


def cmd_field(cs):
    return '-' if not cs else ','.join('%s:%s:%s' % (hx(c), hx(d), hx(o)) for (c, d, o) in cs)


def env_field(env):
    s = fs_field(env['in']['fs']) + ' ' + cmd_field(env['in']['cmd'])
    if env['out'] is None:
        return s + ' N'
    return s + ' S ' + fs_field(env['out']['fs']) + ' ' + cmd_field(env['out']['cmd'])


def canon_env_field(env):
    """the runner's canonical text of a value (entries sorted as text)"""
    def sort_field(f):
        return '-' if f == '-' else ','.join(sorted(f.split(',')))
    toks = env_field(env).split(' ')
    return ' '.join(t if t in ('N', 'S') else sort_field(t) for t in toks)


# ------------------------------------------------------------------------------------------------ layout
class Enc:
    """reference encoder (bincode 1.3 legacy layout) recording where each field starts: marks = [(offset, kind, width)]"""

    def __init__(self):
        self.b = bytearray()
        self.marks = []

    def u64(self, x, kind):
        self.marks.append((len(self.b), kind, 8))
        self.b += struct.pack('<Q', x & U64)

    def u32(self, x, kind):
        self.marks.append((len(self.b), kind, 4))
        self.b += struct.pack('<I', x & 0xffffffff)

    def u8(self, x, kind):
        self.marks.append((len(self.b), kind, 1))
        self.b.append(x & 0xff)

    def string(self, s, kind):
        self.u64(len(s), 'strlen')
        self.marks.append((len(self.b), kind, len(s)))
        self.b += s

    def rstate(self, r):
        self.u64(len(r['fs']), 'maplen')
        for (p, secs, nanos, h) in r['fs']:
            self.string(p, 'path')
            self.u64(secs, 'secs')
            self.u32(nanos, 'nanos')
            self.u64(h, 'hash')
        self.u64(len(r['cmd']), 'maplen')
        for (c, d, o) in r['cmd']:
            self.string(c, 'cmd')
            self.string(d, 'dir')
            self.string(o, 'stdout')

    def env(self, e):
        self.rstate(e['in'])
        if e['out'] is None:
            self.u8(0, 'tag')
        else:
            self.u8(1, 'tag')
            self.rstate(e['out'])
        return bytes(self.b), self.marks


def py_enc(env):
    return Enc().env(env)


# ------------------------------------------------------------------------------------------------ generators
NAMES = [b'a.txt', b'b.c', b'src/main.rs', b'caf\xc3\xa9.md', b'x', b'deep/er/f.o', b'\xe2\x82\xac', b'out/bin', b'with space',
         b'\xf0\x9f\x98\x80.png', b'.hidden', b'Makefile']
CMDS = [b'cat val.txt', b'echo hi', b'git rev-parse HEAD', b'date +%Y', b'printf \xc3\xa9', b'true']
OUTS = [b'', b'a\n', b'b\n', b'hello world\n', b'\xc3\xa9\n', b'x' * 40]
DIRS = [b'/p', b'/p/sub', b'/q/r', b'/p/caf\xc3\xa9']


def gen_rstate(rng, small=False):
    nf = rng.choice([0, 1, 1, 2, 3] if small else [0, 1, 2, 3, 4, 6])
    nc = rng.choice([0, 0, 1, 2] if small else [0, 0, 1, 2, 3])
    root = rng.choice(DIRS)
    fs = []
    for n in rng.sample(NAMES, nf):
        secs = rng.choice([0, 1, 1700000000 + rng.randrange(10 ** 6), rng.randrange(1 << 40), U64])
        nanos = rng.choice([0, 1, 999999999, rng.randrange(NANOS)])
        h = rng.choice([0, U64, rng.getrandbits(64)])
        fs.append((root + b'/' + n, secs, nanos, h))
    cs = []
    seen = set()
    for _ in range(nc):
        k = (rng.choice(CMDS), rng.choice(DIRS))
        if k in seen:
            continue
        seen.add(k)
        cs.append((k[0], k[1], rng.choice(OUTS)))
    return {'fs': fs, 'cmd': cs}


def gen_env(rng, small=False):
    out = None if rng.random() < 0.25 else gen_rstate(rng, small)
    return {'in': gen_rstate(rng, small), 'out': out}


# ------------------------------------------------------------------------------------------------ running
def write_cases(path, lines):
    with open(path, 'w') as f:
        for l in lines:
            f.write(l + '\n')


def run_model_lines(mode, lines, d, tag):
    cf = os.path.join(d, 'model_%s.txt' % tag)
    write_cases(cf, lines)
    return vf.by_id(vf.run_model(mode, cf))


def run_impl_limited(mode, casefile, env, timeout, address_space=6 << 30):
    """like vf.run_impl, with the address space of the child capped: a decoder that allocates a length field read from the
    file (DESIGN.md §7 D8) then fails at once instead of filling the memory of the machine"""
    import resource
    import subprocess
    e = dict(os.environ)
    e.update({'ZINOMA_VERIF': mode, 'ZINOMA_VERIF_CASES': casefile, 'RUST_BACKTRACE': '0'})
    if env:
        e.update(env)

    def limit():
        resource.setrlimit(resource.RLIMIT_AS, (address_space, address_space))
    try:
        p = subprocess.run([vf.ZINOMA], env=e, timeout=timeout, stdout=subprocess.PIPE, stderr=subprocess.PIPE, preexec_fn=limit)
        return p.returncode, p.stdout.decode('utf-8', 'replace').splitlines(), p.stderr.decode('utf-8', 'replace')
    except subprocess.TimeoutExpired as x:
        return -9, (x.stdout or b'').decode('utf-8', 'replace').splitlines(), 'timeout'


def run_impl_surviving(mode, lines, d, tag, env=None, max_crashes=12, timeout=300):
    """Runs the case lines through the real implementation. If the process dies on a case (abort: no result line), that
    case is recorded as crashed and the remaining cases are run in a fresh process.
    Returns (results by id, [(case line, return code, stderr tail)])."""
    results = {}
    crashes = []
    todo = list(lines)
    k = 0
    while todo:
        cf = os.path.join(d, 'impl_%s_%d.txt' % (tag, k))
        k += 1
        write_cases(cf, todo)
        rc, out, err = run_impl_limited(mode, cf, env, timeout)
        got = vf.by_id(out)
        results.update(got)
        missing = [l for l in todo if l.split(' ')[1] not in got]
        if not missing:
            break
        crashes.append((missing[0], rc, err[-600:]))
        todo = missing[1:]
        if len(crashes) >= max_crashes:
            for l in todo:
                results[l.split(' ')[1]] = 'NOTRUN'
            break
    return results, crashes


# ------------------------------------------------------------------------------------------------ codec correspondence
D8_BYTES = (1).to_bytes(8, 'little') + (0x7fffffffffffffff).to_bytes(8, 'little') + b'abc'
# the state file the pinned code wrote for DESIGN.md §7 D5 (command map keyed by the text only)
OLD_FORMAT = bytes.fromhex('0000000000000000' '0100000000000000' '0b00000000000000' '6361742076616c2e747874'
                           '0200000000000000' '620a' '01' '0000000000000000' '0000000000000000')
CORPUS = [('d8_len_2^63-1', D8_BYTES), ('lorem', b'Lorem ipsum'), ('empty', b''), ('d7_empty_record', bytes(16) + b'\x01' + bytes(16)), ('all_zero_33', bytes(33)),
          ('pinned_format_d5', OLD_FORMAT), ('one_byte', b'\x00'), ('len_2^64-1', b'\xff' * 16 + b'abc'),
          ('len_2^32', (1).to_bytes(8, 'little') + (1 << 32).to_bytes(8, 'little') + b'abcdef'),
          ('maplen_2^63', (1 << 63).to_bytes(8, 'little') + bytes(40)),
          ('maplen_2^64-1', b'\xff' * 8 + bytes(40))]

BAD_UTF8 = [b'\xff', b'\xc0\xaf', b'\xed\xa0\x80', b'\xf4\x90\x80\x80', b'\xe2\x82', b'a\x80b', b'\xf8\x88\x80\x80\x80']


def corruptions(rng, data, marks, how_many):
    """malformed stream: (label, bytes) variants of a valid encoding"""
    out = []
    lens = [m for m in marks if m[1] in ('strlen', 'maplen')]
    tags = [m for m in marks if m[1] == 'tag']
    nanos = [m for m in marks if m[1] == 'nanos']
    secs = [m for m in marks if m[1] == 'secs']
    strs = [m for m in marks if m[1] in ('path', 'cmd', 'dir', 'stdout') and m[2] > 0]
    for _ in range(how_many):
        b = bytearray(data)
        kind = rng.choice(['len_pow', 'len_pm', 'tag', 'nanos', 'utf8', 'flip', 'insert', 'delete', 'trail', 'nanos_ovf',
                           'len_pow', 'utf8'])
        if kind == 'len_pow' and lens:
            off, k, w = rng.choice(lens)
            e = rng.choice([8, 16, 31, 32, 33, 40, 62, 63, 64])
            b[off:off + 8] = ((1 << e) - 1).to_bytes(8, 'little')
            out.append(('%s=2^%d-1' % (k, e), bytes(b)))
        elif kind == 'len_pm' and lens:
            off, k, w = rng.choice(lens)
            v = int.from_bytes(b[off:off + 8], 'little')
            nv = max(0, v + rng.choice([-1, 1, 2, 7, 255]))
            b[off:off + 8] = (nv & U64).to_bytes(8, 'little')
            out.append(('%s%+d' % (k, nv - v), bytes(b)))
        elif kind == 'tag' and tags:
            off, k, w = rng.choice(tags)
            b[off] = rng.choice([2, 3, 127, 128, 255])
            out.append(('tag=%d' % b[off], bytes(b)))
        elif kind == 'nanos' and nanos:
            off, k, w = rng.choice(nanos)
            v = rng.choice([NANOS, NANOS + 1, 2 * NANOS + 5, 0xffffffff, 4 * NANOS + 294967295])
            b[off:off + 4] = v.to_bytes(4, 'little')
            out.append(('nanos=%d' % v, bytes(b)))
        elif kind == 'nanos_ovf' and nanos:
            i = rng.randrange(len(nanos))
            off, k, w = nanos[i]
            b[off:off + 4] = rng.choice([NANOS, 0xffffffff]).to_bytes(4, 'little')
            soff = secs[i][0]
            b[soff:soff + 8] = rng.choice([U64, U64 - 1, U64 - 3, U64 - 4]).to_bytes(8, 'little')
            out.append(('secs+carry_overflow', bytes(b)))
        elif kind == 'utf8' and strs:
            off, k, w = rng.choice(strs)
            bad = rng.choice(BAD_UTF8)
            pos = off + rng.randrange(w)
            b[pos:pos + min(len(bad), off + w - pos)] = bad[:off + w - pos]
            out.append(('invalid_utf8_in_' + k, bytes(b)))
        elif kind == 'flip' and b:
            pos = rng.randrange(len(b))
            b[pos] ^= 1 << rng.randrange(8)
            out.append(('bitflip', bytes(b)))
        elif kind == 'insert':
            pos = rng.randrange(len(b) + 1)
            b[pos:pos] = bytes(rng.getrandbits(8) for _ in range(rng.choice([1, 2, 8])))
            out.append(('insert', bytes(b)))
        elif kind == 'delete' and b:
            pos = rng.randrange(len(b))
            del b[pos:pos + rng.choice([1, 1, 4, 8])]
            out.append(('delete', bytes(b)))
        elif kind == 'trail':
            out.append(('trailing_bytes', bytes(b) + bytes(rng.getrandbits(8) for _ in range(rng.choice([1, 3, 9])))))
    return out


def gen_dup_env(rng):
    """an entry list with repeated keys (same bytes, or another spelling of the same path): only a foreign file has one"""
    e = gen_env(rng, small=True)
    r = e['in']
    if r['fs']:
        p, s, n, h = rng.choice(r['fs'])
        alt = rng.choice([p, p.replace(b'/', b'//', 1), p + b'/', p.replace(b'/', b'/./', 1)])
        r['fs'].insert(rng.randrange(len(r['fs']) + 1), (alt, s + 1 if s < U64 else 0, n, h ^ 1))
    if r['cmd']:
        c, d, o = rng.choice(r['cmd'])
        alt = rng.choice([d, d + b'/', d.replace(b'/', b'//', 1)])
        r['cmd'].append((c, alt, o + b'!'))
    return e


def codec_check(ck, d, n_records, n_prefix_records, n_corrupt_per_record, n_random, n_xcheck=8):
    """model enc -> real read path -> real serialize -> model dec; real decode vs model dec on valid, truncated (every strict
    prefix) and corrupted streams. Returns nothing; reports through ck."""
    rng = ck.rng
    prop = ck.prop
    envs = [gen_env(rng, small=(i % 3 != 0)) for i in range(n_records)]
    # a few fixed shapes first: empty record, no output, big
    envs[:0] = [{'in': {'fs': [], 'cmd': []}, 'out': None}, {'in': {'fs': [], 'cmd': []}, 'out': {'fs': [], 'cmd': []}}]
    enc = run_model_lines('codec', ['E e%d %s' % (i, env_field(e)) for i, e in enumerate(envs)], d, 'enc')
    cases = {}      # id -> (kind, label, bytes, origin env index or None)
    for i, e in enumerate(envs):
        data, marks = py_enc(e)
        line = enc.get('e%d' % i, '')
        toks = line.split(' ')
        if len(toks) < 5 or toks[0] != 'enc' or bytes.fromhex(toks[1].replace('_', '')) != data or toks[4] != '1':
            report(ck, {'kind': 'codec-reference-layout', 'what': 'Codec.enc_env / wr_env differs from the reference layout of the '
                        'generator (bincode 1.3 legacy)', 'value': env_field(e), 'model': line, 'reference': data.hex()}, False)
            continue
        cases['v%d' % i] = ('valid', 'valid', data, i)
        cases['t%d' % i] = ('trailing', 'trailing_bytes', data + bytes(rng.getrandbits(8) for _ in range(1 + i % 5)), i)
        if i < n_prefix_records:
            for k in range(len(data)):
                cases['p%d_%d' % (i, k)] = ('prefix', 'strict_prefix', data[:k], i)
        for j, (label, b) in enumerate(corruptions(rng, data, marks, n_corrupt_per_record)):
            cases['m%d_%d' % (i, j)] = ('corrupt', label, b, i)
    for j in range(max(4, n_records // 4)):
        e = gen_dup_env(rng)
        data, _ = py_enc(e)
        cases['k%d' % j] = ('dupkeys', 'duplicate_keys', data, None)
    for j, (label, b) in enumerate(CORPUS):
        cases['c%d' % j] = ('corpus', label, b, None)
    for j in range(n_random):
        cases['r%d' % j] = ('random', 'random_bytes', bytes(rng.getrandbits(8) for _ in range(rng.choice([1, 8, 17, 33, 60]))), None)

    lines = ['D %s %s' % (cid, hx(b)) for cid, (_, _, b, _) in cases.items()]
    model = run_model_lines('codec', lines, d, 'dec')
    impl, crashes = run_impl_surviving('codec', lines, d, 'dec', env={'ZINOMA_VERIF_SCRATCH': os.path.join(d, 'codec_tree')})
    # second pass: what the real code re-serialises, decoded by the model
    re_lines = []
    for cid, r in impl.items():
        t = r.split(' ')
        if t[0] == 'some':
            re_lines.append('D %s %s' % (cid, t[1]))
    remodel = run_model_lines('codec', re_lines, d, 'redec') if re_lines else {}

    ck.rule('codec: generated TargetEnvState values (0-6 files, 0-3 commands, optional output state, extreme secs/nanos/hash, '
            'non-ASCII names) encoded by Codec.enc_env and checked against the reference layout; every byte string is written '
            'to a real state file and read through storage::read_saved_target_env_state, the value re-serialised by bincode and '
            'decoded by Codec.dec_env; streams: valid, valid+trailing bytes, EVERY strict prefix, corrupted (length fields '
            '2^k-1 / +-n, tags, nanos>=10^9, carry overflow, invalid UTF-8, bit flips, insertions, deletions), duplicate keys, '
            'random bytes, corpus (D8, D7, pinned-format file); non-trivial = distinct byte strings')
    good = [b for (kind, _, b, _) in cases.values() if kind in ('valid', 'trailing', 'dupkeys') and len(b) < 700]
    bad = [b for (kind, _, b, _) in cases.values() if kind in ('corrupt', 'corpus') and len(b) < 700]
    coq_crosscheck(ck, d, good[:n_xcheck // 2] + bad[:n_xcheck - n_xcheck // 2])
    crashed_ids = {}
    for (line, rc, err) in crashes:
        crashed_ids[line.split(' ')[1]] = (rc, err)
    for cid, (kind, label, b, origin) in cases.items():
        m = model.get(cid)
        r = impl.get(cid)
        ck.tally('codec:' + kind)
        if kind in ('corrupt', 'corpus'):
            ck.tally('codec:malformed:' + label.split('=')[0].split('+')[0].split('-')[0])
        ck.tally('codec:model_' + (m or '?').split(' ')[0])
        sample = {'stream': kind, 'label': label, 'bytes': b.hex()[:120], 'model': (m or '')[:160], 'impl': (r or '')[:160]}
        ck.count(('codec', b), sample=sample if kind in ('valid', 'corrupt') else None)
        rep = {'kind': 'state-file-codec', 'stream': kind, 'label': label, 'state_file_hex': b.hex(),
               'model(Codec.dec_env)': m, 'implementation(storage::read_saved_target_env_state)': r,
               'replay': 'write the bytes to <project>/.zinoma/<target>.checksums of a target with inputs and run zinoma <target>; '
                         'or ZINOMA_VERIF=codec on the line: D x %s' % hx(b)}
        if r == 'NOTRUN':
            ck.tally('codec:not_run(crash budget of the batch exhausted)')
            continue
        if cid in crashed_ids or r is None or r == 'PANIC':
            rc, err = crashed_ids.get(cid, (None, ''))
            rep['what'] = ('reading this state file kills zinoma (rc=%s): the file is never discarded, every later run of the '
                           'target dies the same way instead of rebuilding' % rc)
            rep['stderr'] = err
            report(ck, rep, True)
            continue
        rt = r.split(' ')
        mt = (m or '').split(' ')
        if rt[0] == 'none':
            if mt[0] != 'none':
                rep['what'] = 'a state file the model decodes is rejected by the implementation (decode correspondence)'
                report(ck, rep, False)
            elif rt[1] != 'file=0':
                rep['what'] = 'an undecodable state file is not discarded'
                report(ck, rep, False)
            continue
        # implementation decoded something
        rm = remodel.get(cid)
        ival = None if rm is None else rm.rsplit(' rest=', 1)[0]
        if mt[0] == 'none':
            if kind == 'prefix' and origin is not None and ival == 'some ' + canon_env_field(envs[origin]):
                rep['what'] = ('a strict prefix of a record (a write interrupted at byte %d of %d) decodes to the full record: a '
                               'crash during the write is remembered as done' % (len(b), len(py_enc(envs[origin])[0])))
                report(ck, rep, True)
            else:
                rep['what'] = 'the implementation decodes a byte string the model rejects (decode correspondence)'
                rep['implementation_value'] = ival
                report(ck, rep, False)
            continue
        mval = (m or '').rsplit(' rest=', 1)[0]
        if ival != mval:
            rep['what'] = 'decoded values differ (model vs implementation, the latter through its own re-serialisation)'
            rep['implementation_value'] = ival
            report(ck, rep, False)
            continue
        if kind in ('valid', 'trailing') and origin is not None and mval != 'some ' + canon_env_field(envs[origin]):
            rep['what'] = 'round trip lost information: decoded value differs from the generated one'
            rep['generated'] = canon_env_field(envs[origin])
            report(ck, rep, False)
        if rt[-1] != 'file=1':
            rep['what'] = 'a decodable state file was removed by the read path'
            report(ck, rep, False)


# ================================================================================================ histories (mode incr)
# A history = declared targets + a sequence of file operations and invocations on one real scratch tree.
#   decl  = {'project': bytes|None, 'name': bytes, 'dir': rel bytes, 'in_files': [(paths, exts|None)], 'in_cmds': [(cmd, reldir)],
#            'out_files': [...], 'out_cmds': [...]}
#   op    = ('W', path, content) | ('G', path, size, seed) | ('P', path, content) | ('M', path, secs, nanos) | ('K', path, content)
#           | ('D', path) | ('R', from, to) | ('X', path) | ('L', path, target)
#           | ('I', tname, outcome, [file ops]) | ('Q', tname)
import re


def files_field(fs):
    if not fs:
        return '-'
    return ';'.join(','.join(hx(p) for p in paths) + '|' + ('-' if exts is None else ','.join(hx(e) for e in exts))
                    for (paths, exts) in fs)


def cmds_field(cs):
    return '-' if not cs else ';'.join('%s@%s' % (hx(c), hx(d)) for (c, d) in cs)


def decl_line(tname, t):
    return 'T %s %s %s %s %s %s %s %s' % (tname, '-' if t['project'] is None else hx(t['project']), hx(t['name']), hx(t['dir']),
                                          files_field(t['in_files']), cmds_field(t['in_cmds']),
                                          files_field(t['out_files']), cmds_field(t['out_cmds']))


def op_tokens(op):
    k = op[0]
    if k in ('W', 'P', 'K'):
        return [k, hx(op[1]), hx(op[2])]
    if k == 'G':
        return [k, hx(op[1]), str(op[2]), str(op[3])]
    if k == 'M':
        return [k, hx(op[1]), str(op[2]), str(op[3])]
    if k in ('D', 'X'):
        return [k, hx(op[1])]
    if k in ('R', 'L'):
        return [k, hx(op[1]), hx(op[2])]
    raise ValueError(op)


def op_line(op):
    if op[0] == 'I':
        eff = '-' if not op[3] else ';'.join('/'.join(op_tokens(e)) for e in op[3])
        return 'I %s %s %s' % (op[1], op[2], eff)
    if op[0] == 'Q':
        return 'Q %s' % op[1]
    return ' '.join(op_tokens(op))


def history_lines(hid, hist, keep=False, first_index=0, ops=None):
    lines = ['H %s %s' % (hid, 'keep %d' % first_index if keep else 'new')]
    for tname, t in hist['targets'].items():
        lines.append(decl_line(tname, t))
    for op in (hist['ops'] if ops is None else ops):
        lines.append(op_line(op))
    return lines


def describe_history(hist):
    """human-readable replay text"""
    out = []
    for tname, t in hist['targets'].items():
        out.append('target %s: project=%r name=%r dir=%r input files=%r cmds=%r output files=%r cmds=%r' % (
            tname, t['project'], t['name'], t['dir'], t['in_files'], t['in_cmds'], t['out_files'], t['out_cmds']))
    for op in hist['ops']:
        out.append(repr(op))
    return out


W_RE = re.compile(r'in\[(.*?)\] out\[(.*?)\] cmds\[(.*?)\]')


def world_field(w):
    m = W_RE.fullmatch(w)
    return '|'.join(x if x else '-' for x in m.groups())


def parse_kv(rest):
    """'t=a w=in[..] out[..] cmds[..] states=..' -> dict"""
    d = {}
    m = re.match(r't=(\S+)', rest)
    d['t'] = m.group(1)
    m = re.search(r' w=(in\[.*?\] out\[.*?\] cmds\[.*?\])', rest)
    if m:
        d['w'] = world_field(m.group(1))
    m = re.search(r' states=(\S+)', rest)
    if m:
        d['states'] = {} if m.group(1) == '-' else dict((bytes.fromhex(k), bytes.fromhex(v.replace('_', '')))
                                                        for k, v in (e.split('=') for e in m.group(1).split(',')))
    m = re.search(r' result=(\S+)', rest)
    if m:
        d['result'] = m.group(1)
    return d


def parse_impl_output(lines):
    """-> {tag: {'pre': {...}, 'mid': {...}?, 'post': {...}?, 'obs': {...}?}}"""
    inv = {}
    for l in lines:
        tag, _, rest = l.partition(' ')
        kind, _, rest = rest.partition(' ')
        if kind not in ('pre', 'mid', 'post', 'obs'):
            inv.setdefault(tag, {})['bad'] = l
            continue
        inv.setdefault(tag, {})[kind] = parse_kv(rest)
    return inv


def abs_path(root, rel):
    return root if not rel else root + b'/' + rel


def state_path_py(root, t):
    disp = t['name'] if t['project'] is None else t['project'] + b'::' + t['name']
    return abs_path(root, t['dir']) + b'/.zinoma/' + disp + b'.checksums'


def model_case(cid, root, t, w0, disk0, outcome, w1, crash, variant='fixed'):
    incmds = cmds_field([(c, abs_path(root, d)) for (c, d) in t['in_cmds']])
    outcmds = cmds_field([(c, abs_path(root, d)) for (c, d) in t['out_cmds']])
    return 'C %s %s %d %s %d %s %s %s %s %s %s' % (cid, variant, len(t['in_files']), incmds, len(t['out_files']), outcmds, w0,
                                                   '-' if disk0 is None else hx(disk0), outcome, w1 or '-',
                                                   '-' if crash is None else str(crash))


def parse_model_line(l):
    m = re.fullmatch(r'skip=(\d) phase=(\S+) disk=(\S+) dec=(.*)', l)
    return {'skip': m.group(1) == '1', 'phase': m.group(2), 'disk': None if m.group(3) == '-' else bytes.fromhex(m.group(3).replace('_', '')),
            'dec': m.group(4).rsplit(' rest=', 1)[0]}


# ---- independent oracle: does a decoded record match an observed world? (the right-hand side of C02_skip_sound) ----
def norm_abs(p):
    """Rust's Path equality on absolute paths: components, '.' and empty pieces dropped ('..' kept)"""
    return tuple(c for c in p.split(b'/') if c not in (b'', b'.'))


def parse_value(txt):
    """'some <fs> <cmd> N|S <fs> <cmd>' -> {'in': (fsmap, cmdmap), 'out': (..)|None} keyed by normalised paths"""
    toks = txt.split(' ')
    assert toks[0] == 'some', txt

    def fsmap(f):
        d = {}
        if f != '-':
            for e in f.split(','):
                p, s, n, h = e.split(':')
                d[norm_abs(bytes.fromhex(p.replace('_', '')))] = (int(s, 16), int(n, 16), int(h, 16))
        return d

    def cmdmap(f):
        d = {}
        if f != '-':
            for e in f.split(','):
                c, dd, o = e.split(':')
                d[(bytes.fromhex(c.replace('_', '')), norm_abs(bytes.fromhex(dd.replace('_', ''))))] = bytes.fromhex(o.replace('_', ''))
        return d
    v = {'in': (fsmap(toks[1]), cmdmap(toks[2])), 'out': None}
    if toks[3] == 'S':
        v['out'] = (fsmap(toks[4]), cmdmap(toks[5]))
    return v


def parse_world(w):
    li, lo, co = w.split('|')

    def listing(f):
        d = {}
        if f != '-':
            for e in f.split(','):
                p, m, h = e.split(':')
                mt = None if m == 'E' else tuple(int(x, 16) for x in m.split('.'))
                d[norm_abs(bytes.fromhex(p.replace('_', '')))] = (mt, None if h == 'E' else int(h, 16))
        return d
    cmds = {}
    if co != '-':
        for e in co.split(','):
            k, o = e.split('=')
            c, dd = k.split('@')
            cmds[(bytes.fromhex(c.replace('_', '')), norm_abs(bytes.fromhex(dd.replace('_', ''))))] = None if o == 'E' else bytes.fromhex(o.replace('_', ''))
    return listing(li), listing(lo), cmds


def record_matches(value_txt, w, root, t):
    """(True, '') iff the decoded record equals the observed world in the sense of property C02; else (False, why)"""
    if not value_txt.startswith('some'):
        return False, 'no decodable record'
    v = parse_value(value_txt)
    lin, lout, cmds = parse_world(w)

    def res(rec, listing, decl_cmds, what):
        fsrec, cmdrec = rec
        if set(fsrec) != set(listing):
            return False, '%s: recorded file set %r differs from the current one %r' % (what, sorted(fsrec), sorted(listing))
        for p, (mt, h) in listing.items():
            s, n, rh = fsrec[p]
            if not ((mt is not None and mt == (s, n)) or (mt is not None and h is not None and h == rh)):
                return False, '%s: file %r has neither the recorded mtime nor the recorded content' % (what, b'/'.join(p))
        for (c, d) in decl_cmds:
            k = (c, norm_abs(abs_path(root, d)))
            if cmds.get(k) is None or cmdrec.get(k) != cmds[k]:
                return False, '%s: command %r in %r prints %r, recorded %r' % (what, c, d, cmds.get(k), cmdrec.get(k))
        return True, ''
    ok, why = res(v['in'], lin, t['in_cmds'], 'input')
    if not ok:
        return ok, why
    if v['out'] is None:
        return False, 'record has no output state'
    return res(v['out'], lout, t['out_cmds'], 'output')


# ---- generators ----
def gen_history(rng, bias='edits', length=None):
    """bias: 'edits' (C02: many kinds of change between invocations), 'untouched' (C03: repeated invocations, multi-project
    layouts, equal command texts in several directories), 'faults' (C05: failing / cancelled scripts, unreadable state)."""
    T = {}
    spelled = rng.random() < 0.2
    src = rng.choice([b'p/./src', b'p/src//', b'p//src']) if spelled else b'p/src'
    exts = rng.choice([None, None, [b'.c', b'.h'], [b'.c'], [b'.txt']])
    a_cmds = [(b'cat val.txt', b'p')] if rng.random() < 0.6 else []
    T['a'] = {'project': None, 'name': b'build', 'dir': b'p', 'in_files': [([src], exts)], 'in_cmds': a_cmds,
              'out_files': [([b'p/out'], None)], 'out_cmds': [(b'cat outval.txt', b'p')] if rng.random() < 0.3 else []}
    flavour = rng.choice(['single', 'multi', 'multi', 'shared', 'noinput', 'twores'] if bias != 'untouched'
                         else ['multi', 'multi', 'shared', 'single', 'twores', 'noinput'])
    if flavour == 'multi':
        T['x'] = {'project': b'sub', 'name': b'x', 'dir': b'q', 'in_files': [([b'q/in.txt'], None)], 'in_cmds': [],
                  'out_files': [([b'q/gen'], [b'.o'])], 'out_cmds': [(b'cat val.txt', b'q')]}
        # consumer: its own command with the SAME text in another directory + everything x outputs (`sub::x.output`)
        T['c'] = {'project': None, 'name': b'consumer', 'dir': b'p', 'in_files': [([b'q/gen'], [b'.o'])],
                  'in_cmds': [(b'cat val.txt', b'p'), (b'cat val.txt', b'q')], 'out_files': [([b'p/cout.txt'], None)], 'out_cmds': []}
    elif flavour == 'shared':
        T['s'] = {'project': None, 'name': b'lint', 'dir': b'p', 'in_files': [([b'p/src', b'p/val.txt'], None)], 'in_cmds': [],
                  'out_files': [], 'out_cmds': []}
    elif flavour == 'noinput':
        T['n'] = {'project': None, 'name': b'always', 'dir': b'p', 'in_files': [], 'in_cmds': [],
                  'out_files': [([b'p/nout'], None)], 'out_cmds': []}
    elif flavour == 'twores':
        # two resources denoting overlapping file sets, one of them with another spelling of the same directory
        T['a']['in_files'] = [([b'p/src'], [b'.c']), ([rng.choice([b'p/src', b'p/./src', b'p/src/deep'])], None)]
    names = list(T)
    ops = [('W', b'p/src/a.c', b'int a;\n'), ('W', b'p/src/b.h', b'#define B\n'), ('W', b'p/src/deep/c.c', b'int c;\n'),
           ('W', b'p/src/notes.txt', b'notes\n'), ('W', b'p/val.txt', b'v0\n'), ('W', b'p/outval.txt', b'o0\n'),
           ('W', b'q/val.txt', b'w0\n'), ('W', b'q/in.txt', b'in0\n'), ('W', b'q/gen/x.o', b'obj0'), ('W', b'q/gen/readme', b'r')]
    if rng.random() < 0.5:
        ops.append(('G', b'p/src/big.c', rng.choice([1024, 1500, 4000]), rng.randrange(1000)))
    if flavour == 'noinput' and rng.random() < 0.7:
        # the record a target leaves when it once declared inputs that listed no file (or any other empty record): DESIGN.md §7 D7
        ops.append(('W', b'p/.zinoma/always.checksums', rng.choice([bytes(16) + b'\x01' + bytes(16), bytes(17)])))
    in_pool = [b'p/src/a.c', b'p/src/b.h', b'p/src/deep/c.c', b'p/src/notes.txt', b'p/src/big.c', b'q/in.txt', b'q/gen/x.o']
    new_pool = [b'p/src/new.c', b'p/src/deep/er/n.h', b'p/src/x.txt', b'q/gen/y.o', b'p/src/caf\xc3\xa9.c', b'p/src/.zinoma/z.c']
    odd_pool = [b'p/src/latin1-\xe9.c', b'p/out/\xff\xfe.bin']
    val_pool = [b'p/val.txt', b'q/val.txt', b'p/outval.txt']
    out_pool = [b'p/out/o.bin', b'p/cout.txt', b'p/nout', b'q/gen/x.o']
    n = length or rng.randrange(10, 18)
    counter = [0]

    def fresh():
        counter[0] += 1
        return b'c%d\n' % counter[0]

    def invocation(tn, outcome=None):
        t = T[tn]
        if outcome is None:
            if bias == 'faults':
                outcome = rng.choice(['ok', 'ok', 'fail', 'cancel', 'spawnfail'])
            else:
                outcome = rng.choice(['ok'] * 9 + ['fail'])
        eff = []
        if outcome != 'spawnfail':
            r = rng.random()
            if t['out_files'] and r < 0.7:
                p = t['out_files'][0][0][0]
                target_file = p if p.endswith(b'.txt') or p == b'p/nout' else p + b'/' + rng.choice([b'o.bin', b'x.o', b'o2.bin'])
                eff.append(('W', target_file, b'built ' + fresh()))
            if rng.random() < 0.05:
                eff.append(('W', b'p/src/a.c', b'self-modified ' + fresh()))
        return ('I', tn, outcome, eff)

    for _ in range(n):
        r = rng.random()
        p_inv = 0.6 if bias == 'untouched' else 0.42
        if r < p_inv:
            ops.append(invocation(rng.choice(names)))
            if bias == 'untouched' and rng.random() < 0.6:
                ops.append(invocation(ops[-1][1], 'ok'))
            continue
        k = rng.choice(['write', 'big', 'touch', 'keep', 'add', 'delete', 'rename', 'cmd', 'output', 'nonmatching', 'state'] if bias != 'untouched'
                       else ['write', 'touch', 'cmd', 'add', 'output', 'nonmatching'])
        if k == 'write':
            ops.append(('W', rng.choice(in_pool), fresh()))
        elif k == 'big':
            # a change beyond the first 1 KiB read buffer only
            ops.append(('G', b'p/src/big.c', 3000, 7))
            ops.append(invocation('a', 'ok'))
            ops.append(('P', b'p/src/big.c', fresh()))
        elif k == 'touch':
            ops.append(('M', rng.choice(in_pool[:4]), rng.choice([1, 1500000000, 1700000000 + rng.randrange(10 ** 6), -3]), rng.choice([0, 5, 999999999])))
        elif k == 'keep':
            ops.append(('K', rng.choice(in_pool[:4]), fresh()))
        elif k == 'add':
            ops.append(('W', rng.choice(odd_pool) if rng.random() < 0.1 else rng.choice(new_pool), fresh()))
        elif k == 'delete':
            ops.append(('D', rng.choice(in_pool + new_pool + odd_pool + out_pool + [b'p/out'])))
        elif k == 'rename':
            ops.append(('R', rng.choice(in_pool[:4]), rng.choice(new_pool)))
        elif k == 'cmd':
            ops.append(('W', rng.choice(val_pool), rng.choice([b'v0\n', b'w0\n', b'v1\n', fresh()])))
        elif k == 'output':
            ops.append(rng.choice([('W', rng.choice(out_pool), fresh()), ('D', rng.choice(out_pool)), ('W', b'p/out/extra', fresh())]))
        elif k == 'nonmatching':
            ops.append(('W', rng.choice([b'p/other.txt', b'p/src/.zinoma/ignored.c', b'q/gen/readme']), fresh()))
        elif k == 'state':
            # a foreign / corrupt / stale state file
            tn = rng.choice(names)
            sp = T[tn]['dir'] + b'/.zinoma/' + (T[tn]['name'] if T[tn]['project'] is None else T[tn]['project'] + b'::' + T[tn]['name']) + b'.checksums'
            ops.append(('W', sp, rng.choice([b'Lorem ipsum', b'', bytes(33), bytes(16) + b'\x01' + bytes(16), bytes(17), D8_BYTES, OLD_FORMAT])))
    # always finish on a double invocation of every target (the second one on an untouched tree)
    for tn in names:
        ops.append(invocation(tn, 'ok'))
        ops.append(('I', tn, 'ok', []))
    return {'targets': T, 'ops': ops, 'flavour': flavour, 'bias': bias}


# ---- running histories and comparing with the model ----
STEPS = {'decided': 1, 'after_delete': 2, 'after_script': 3, 'after_current': 4, 'after_create': 5}


def run_histories(ck, d, hists, tag, scratch=None):
    """Runs complete histories (no crash) in ONE implementation process; returns {hid: parsed invocations} and the scratch root."""
    scratch = scratch or os.path.join(d, 'trees_' + tag)
    os.makedirs(scratch, exist_ok=True)
    by_hist = {}
    todo = list(hists.items())
    rc, err = 0, ''
    for attempt in range(10):
        lines = []
        for hid, h in todo:
            lines += history_lines(hid, h)
        cf = os.path.join(d, 'impl_hist_%s_%d.txt' % (tag, attempt))
        write_cases(cf, lines)
        rc1, out, err1 = run_impl_limited('incr', cf, {'ZINOMA_VERIF_SCRATCH': scratch}, 1200)
        parsed = parse_impl_output(out)
        for t, v in parsed.items():
            hid, _, k = t.rpartition('.')
            by_hist.setdefault(hid, {})[int(k)] = v
        # a history is complete when its last invocation has a `post` line; the process died in the first incomplete one
        incomplete = None
        for idx, (hid, h) in enumerate(todo):
            n_inv = sum(1 for op in h['ops'] if op[0] in ('I', 'Q'))
            last = by_hist.get(hid, {}).get(n_inv - 1)
            if n_inv and (last is None or ('post' not in last and 'obs' not in last)):
                incomplete = idx
                break
        if incomplete is None:
            break
        rc, err = rc1, err1
        todo = todo[incomplete + 1:]
        if not todo:
            break
    return by_hist, os.path.realpath(scratch).encode(), rc, err


def world_unchanged(w_then, w_now):
    """the comparison property C02 speaks of, between the world recorded at a completion and the world now"""
    a_in, a_out, a_cmds = parse_world(w_then)
    b_in, b_out, b_cmds = parse_world(w_now)
    for what, a, b in (('input', a_in, b_in), ('output', a_out, b_out)):
        if set(a) != set(b):
            return False, '%s file set changed: %r -> %r' % (what, sorted(b'/'.join(p) for p in a), sorted(b'/'.join(p) for p in b))
        for p in a:
            (m0, h0), (m1, h1) = a[p], b[p]
            if not ((m0 is not None and m0 == m1) or (m1 is not None and h0 is not None and h0 == h1)):
                return False, '%s file %r has neither the recorded mtime nor the recorded content' % (what, b'/'.join(p))
    for k in set(a_cmds) | set(b_cmds):
        if a_cmds.get(k) is None or a_cmds.get(k) != b_cmds.get(k):
            return False, 'command %r in %r printed %r at the completion and prints %r now' % (k[0], b'/'.join(k[1]), a_cmds.get(k), b_cmds.get(k))
    return True, ''


def recordable(w, t):
    """could TargetEnvState::current be computed and stored for this world? (C03's premise)"""
    if not (t['in_files'] or t['in_cmds']):
        return False
    lin, lout, cmds = parse_world(w)
    for l in (lin, lout):
        for p, (m, h) in l.items():
            if m is None or h is None:
                return False
            try:
                b'/'.join(p).decode('utf-8')
            except UnicodeDecodeError:
                return False
    return all(o is not None for o in cmds.values())


def check_histories(ck, d, hists, tag, props):
    """The correspondence and the oracles for complete histories.
    Oracles (on the implementation's behaviour only): a history oracle (what was observed at the last completion of the target vs
    what is observed now; independent of the state-file format) and a record oracle (the decoded state file vs the world now)."""
    by_hist, scratch_root, rc, err = run_histories(ck, d, hists, tag)
    model_lines = []
    codec_lines = []
    index = {}
    order = []
    for hid, h in hists.items():
        root = scratch_root + b'/' + hid.encode()
        invs = by_hist.get(hid, {})
        k = 0
        spaths = dict((tn, state_path_py(root, t)) for tn, t in h['targets'].items())
        rel_spaths = dict((tn, state_path_py(b'', t)[1:]) for tn, t in h['targets'].items())
        for op in h['ops']:
            if op[0] in ('W', 'G', 'P', 'K', 'D', 'R', 'L'):
                for tn, rp in rel_spaths.items():
                    if op[1] == rp or (op[0] == 'R' and op[2] == rp) or (op[0] == 'D' and rp.startswith(op[1] + b'/')):
                        order.append(('tamper', hid, tn))
                continue
            if op[0] not in ('I', 'Q'):
                continue
            v = invs.get(k)
            cid = '%s.%d' % (hid, k)
            k += 1
            if op[0] != 'I':
                continue
            order.append(('inv', hid, cid))
            if v is None or 'pre' not in v or 'post' not in v:
                index[cid] = (hid, op, None, None)
                continue
            t = h['targets'][op[1]]
            sp = spaths[op[1]]
            disk0 = v['pre']['states'].get(sp)
            w1 = v['mid']['w'] if 'mid' in v else None
            model_lines.append(model_case(cid, root, t, v['pre']['w'], disk0, op[2], w1, None))
            if disk0 is not None:
                codec_lines.append('D %s.d0 %s' % (cid, hx(disk0)))
            disk1 = v['post']['states'].get(sp)
            if disk1 is not None:
                codec_lines.append('D %s.d1 %s' % (cid, hx(disk1)))
            index[cid] = (hid, op, v, sp)
    model = run_model_lines('incr', model_lines, d, tag + '_inc') if model_lines else {}
    decs = run_model_lines('codec', codec_lines, d, tag + '_dec') if codec_lines else {}
    with EVAL_LOCK:
        return evaluate_histories(ck, hists, scratch_root, rc, err, index, order, model, decs)


def evaluate_histories(ck, hists, scratch_root, rc, err, index, order, model, decs):
    results = []
    died = set()
    expect = {}          # (hid, target) -> world recorded at the last completion whose state could be stored, else None
    tampered = {}        # (hid, target) -> the state file was written/removed by something else than zinoma since
    for ev in order:
        if ev[0] == 'tamper':
            tampered[(ev[1], ev[2])] = True
            continue
        cid = ev[2]
        (hid, op, v, sp) = index[cid]
        h = hists[hid]
        root = scratch_root + b'/' + hid.encode()
        t = h['targets'][op[1]]
        tk = (hid, op[1])
        base = {'kind': 'incremental-history', 'history_id': hid, 'invocation': cid, 'target': op[1], 'layout': h['flavour'],
                'history': describe_history(h), 'history_literal': repr(h),
                'replay': './check <property> --replay <this file>  (or: ZINOMA_VERIF=incr ZINOMA_VERIF_SCRATCH=<dir> on the case lines in `case_lines`)',
                'case_lines': history_lines(hid, h)}
        if v is None:
            if hid in died:
                ck.tally('inv:not_run(after the death of the process in this history)')
            elif not any(i2[0] == hid and i2[2] is not None for i2 in index.values()):
                died.add(hid)
                ck.tally('inv:not_run(crash budget of the batch exhausted)')
            else:
                died.add(hid)
                rep = dict(base)
                rep['what'] = ('the process died during this invocation (rc=%s): no result, and everything that follows is lost. %s'
                               % (rc, err[-400:]))
                report(ck, rep, True)
            continue
        m = parse_model_line(model[cid])
        res = v['post']['result']
        ran = 'mid' in v
        disk0 = v['pre']['states'].get(sp)
        disk1 = v['post']['states'].get(sp)
        d0 = decs.get(cid + '.d0', 'none').rsplit(' rest=', 1)[0] if disk0 is not None else 'absent'
        d1 = decs.get(cid + '.d1', 'none').rsplit(' rest=', 1)[0] if disk1 is not None else 'absent'
        has_input = bool(t['in_files'] or t['in_cmds'])
        w0 = v['pre']['w']
        info = {'observed_world_before': w0, 'state_file_before': None if disk0 is None else disk0.hex(),
                'record_before(decoded by the model)': d0, 'implementation_result': res, 'script_ran': ran,
                'model': {'skip': m['skip'], 'end': m['phase'], 'record_after': m['dec']},
                'state_file_after': None if disk1 is None else disk1.hex(), 'record_after(decoded by the model)': d1,
                'world_at_last_recorded_completion': expect.get(tk)}
        results.append({'cid': cid, 'hid': hid, 'op': op, 'impl': v, 'model': m, 'result': res, 'ran': ran, 'd0': d0, 'd1': d1, 'sp': sp})
        ck.count(('inv', h['flavour'], op[1], op[2], w0.replace(root.hex(), ''), d0.replace(root.hex(), ''), res),
                 sample=dict(info, target=repr(t)) if res == 'Skipped' else None)
        ck.tally('inv:%s/%s' % (op[2], res))
        ck.tally('layout:' + h['flavour'])
        if res == 'Completed' and disk1 is not None and d1 == 'none':
            ck.tally('mech:serialisation_failed(non-UTF-8 path)_partial_file_left')
        if res == 'Completed' and disk1 is None and has_input:
            ck.tally('mech:state_not_computable(no record)')
        if disk0 is not None and d0 == 'none':
            ck.tally('mech:undecodable_state_file_before')
        if res == 'Skipped' and expect.get(tk) is not None:
            a_in, a_out, _ = parse_world(expect[tk])
            b_in, b_out, _ = parse_world(w0)
            for a, b in ((a_in, b_in), (a_out, b_out)):
                for pth in set(a) & set(b):
                    if a[pth][0] != b[pth][0] and a[pth][1] == b[pth][1]:
                        ck.tally('mech:skipped_with_changed_mtime_same_content')
                    if a[pth][0] == b[pth][0] and a[pth][1] != b[pth][1]:
                        ck.tally('mech:skipped_with_same_mtime_changed_content')
        found = False

        def viol(what, found_input=True):
            rep = dict(base, **info)
            rep['what'] = what
            report(ck, rep, found_input)
        # ---- oracles on the implementation's own behaviour ----
        exp = expect.get(tk)
        tam = tampered.get(tk, False)
        if res == 'PANIC':
            viol('incremental::run panicked')
            found = True
        elif res == 'Skipped':
            if not has_input:
                viol('build skipped although the target declares no input: it must always be executed')
                found = True
            elif exp is not None and not tam:
                ok, why = world_unchanged(exp, w0)
                if not ok:
                    viol('build skipped although, since the last successful completion, ' + why)
                    found = True
            elif tam and not d0.startswith('some'):
                viol('build skipped on a state file the model cannot decode (codec correspondence)', found_input=False)
                found = True
            elif not tam:
                viol('build skipped although no successful, recorded completion of this target precedes it in the history '
                     '(the previous run failed, was cancelled, or its state could not be stored)')
                found = True
            if not found and tam and d0.startswith('some'):
                # a state file planted by the history (foreign record): the skip must be justified by what it says
                ok, why = record_matches(d0, w0, root, t)
                if not ok:
                    viol('build skipped although ' + why)
                    found = True
        else:
            if ran and exp is not None and not tam and has_input:
                ok, why = world_unchanged(exp, w0)
                if ok:
                    viol('the script was run again although the target has inputs, its last run completed and was recorded, and '
                         'nothing it declares has changed since (unchanged target not skipped)')
                    found = True
        if res in ('Err', 'Cancelled') and d1.startswith('some'):
            viol('a %s build left a decodable record behind: the next run can skip a build that never succeeded' % res)
            found = True
        if res in ('Err', 'Cancelled') and disk1 is not None and not d1.startswith('some'):
            viol('a %s build left a state file behind (the model cannot decode it; the old record is deleted before the script '
                 'starts)' % res, found_input=False)
            found = True
        if res == 'Completed' and not ran:
            viol('Completed reported without running the script')
            found = True
        for pth, content in v['pre']['states'].items():
            if pth != sp and v['post']['states'].get(pth) != content:
                viol('running %s changed the state file %r of another target' % (op[1], pth))
                found = True
        for pth in v['post']['states']:
            if pth != sp and pth not in v['pre']['states']:
                viol('running %s created a state file %r that is not its own (%r)' % (op[1], pth, sp))
                found = True
        # ---- bookkeeping for the history oracle ----
        if res == 'Completed':
            w1 = v['mid']['w'] if ran else None
            expect[tk] = w1 if (w1 is not None and recordable(w1, t)) else None
            tampered[tk] = False
        elif res in ('Err', 'Cancelled', 'PANIC'):
            expect[tk] = None
            tampered[tk] = False
        if found:
            continue
        # ---- correspondence ----
        mres = m['phase'].split(':')[-1] if m['phase'].startswith('End') else m['phase']
        diff = None
        if (res == 'Skipped') != m['skip']:
            diff = 'skip decision'
        elif res != mres:
            diff = 'result'
        elif (d1 if d1 != 'absent' else 'none') != m['dec']:
            diff = 'record after the invocation'
        elif (disk1 is None) != (m['disk'] is None):
            diff = 'presence of the state file after the invocation'
        if diff:
            viol('model and implementation differ on the %s (no property violation found on this case by the oracles)' % diff,
                 found_input=False)
    return results


# ================================================================================================ crash injection (hooks H3)
import concurrent.futures


def crash_scenario(rng, with_old_record):
    """one target, a few files; optionally a previous successful run followed by an edit (so that an OLD record exists when the
    interrupted invocation starts)"""
    T = {'t': {'project': rng.choice([None, b'proj']), 'name': b'gen', 'dir': b'p',
               'in_files': [([b'p/src'], rng.choice([None, [b'.c']]))],
               'in_cmds': [(b'cat val.txt', b'p')] if rng.random() < 0.5 else [],
               'out_files': [([b'p/out'], None)], 'out_cmds': []}}
    setup = [('W', b'p/src/a.c', b'int a;\n'), ('W', b'p/val.txt', b'v0\n')]
    for i in range(rng.randrange(0, 3)):
        setup.append(('W', b'p/src/f%d.c' % i, b'x' * rng.randrange(1, 30)))
    if with_old_record:
        setup.append(('I', 't', 'ok', [('W', b'p/out/o.bin', b'first')]))
        setup.append(('W', b'p/src/a.c', b'int a2;\n'))
    return {'targets': T, 'ops': setup, 'flavour': 'crash', 'bias': 'faults'}


def crash_check(ck, d, n_scenarios, offsets_mode):
    """Kills the process (abort, as kill -9 would) at every named point of the cycle and at byte offsets of the state write, in
    child processes; then a fresh process observes what is left and invokes the target again.
    offsets_mode: 'sample' | 'all'."""
    rng = ck.rng
    scratch = '/tmp/zvc%d' % os.getpid()
    vf.sh(['rm', '-rf', scratch])
    os.makedirs(scratch, exist_ok=True)
    scratch_root = os.path.realpath(scratch).encode()
    env = {'ZINOMA_VERIF_SCRATCH': scratch}
    scen = [crash_scenario(rng, with_old_record=(i % 2 == 1)) for i in range(n_scenarios)]
    # pilot: the record length of each scenario
    pilot = {}
    lines = []
    for i, h in enumerate(scen):
        lines += history_lines('c%02dpilo' % i, h, ops=h['ops'] + [('I', 't', 'ok', [('W', b'p/out/o.bin', b'second')])])
    cf = os.path.join(d, 'crash_pilot.txt')
    write_cases(cf, lines)
    rc, out, err = vf.run_impl('incr', cf, env=env)
    pl = parse_impl_output(out)
    cases = []       # (hid, scenario index, point name, model steps)
    for i, h in enumerate(scen):
        root = scratch_root + b'/c%02dpilo' % i
        last = max(int(t.rpartition('.')[2]) for t in pl if t.startswith('c%02dpilo.' % i))
        post = pl['c%02dpilo.%d' % (i, last)]['post']
        rec = post['states'].get(state_path_py(root, h['targets']['t']))
        L = len(rec) if rec else 0
        pilot[i] = L
        points = [('decided', 1), ('after_delete', 2), ('after_script', 3), ('after_current', 4), ('after_create', 5), ('after_write', 5 + L)]
        if offsets_mode == 'all':
            offs = list(range(0, L + 1))
        else:
            offs = sorted(set([0, 1, 7, 8, 9, 16, L // 2, L - 9, L - 2, L - 1, L] + [rng.randrange(L) for _ in range(2)]))
            offs = [o for o in offs if 0 <= o <= L]
        points += [('write:%d' % o, 5 + o) for o in offs]
        for j, (pt, steps) in enumerate(points):
            cases.append(('c%02dp%03d' % (i, j), i, pt, steps))
    # segment A: build every tree
    lines = []
    for (hid, i, pt, steps) in cases:
        lines += history_lines(hid, scen[i])
    cf = os.path.join(d, 'crash_A.txt')
    write_cases(cf, lines)
    vf.run_impl('incr', cf, env=env)
    # segment B: the interrupted invocation, one process per case
    crashing_op = ('I', 't', 'ok', [('W', b'p/out/o.bin', b'second')])

    def seg_b(case):
        hid, i, pt, steps = case
        cfb = os.path.join(d, 'crash_B_%s.txt' % hid)
        write_cases(cfb, history_lines(hid, scen[i], keep=True, first_index=100, ops=[crashing_op]))
        e = dict(env)
        e['ZINOMA_VERIF_CRASH'] = pt
        rcb, outb, errb = vf.run_impl('incr', cfb, env=e, timeout=120)
        return hid, rcb, outb
    with concurrent.futures.ThreadPoolExecutor(max_workers=12) as ex:
        bres = dict((hid, (rcb, outb)) for hid, rcb, outb in ex.map(seg_b, cases))
    # segment C: what is left, then two more invocations
    lines = []
    for (hid, i, pt, steps) in cases:
        lines += history_lines(hid, scen[i], keep=True, first_index=200, ops=[('Q', 't'), ('I', 't', 'ok', []), ('I', 't', 'ok', [])])
    cf = os.path.join(d, 'crash_C.txt')
    write_cases(cf, lines)
    rc, out, err = vf.run_impl('incr', cf, env=env)
    cres = parse_impl_output(out)
    # the model
    model_lines = []
    codec_lines = []
    meta = {}
    for (hid, i, pt, steps) in cases:
        h = scen[i]
        t = h['targets']['t']
        root = scratch_root + b'/' + hid.encode()
        sp = state_path_py(root, t)
        b = parse_impl_output(bres[hid][1])
        pre = b.get(hid + '.100', {}).get('pre')
        mid = b.get(hid + '.100', {}).get('mid')
        post = b.get(hid + '.100', {}).get('post')
        obs = cres.get(hid + '.200', {}).get('obs')
        i1 = cres.get(hid + '.201', {})
        i2 = cres.get(hid + '.202', {})
        meta[hid] = (i, pt, steps, sp, pre, mid, post, obs, i1, i2, bres[hid][0])
        if pre is None or obs is None:
            continue
        disk0 = pre['states'].get(sp)
        model_lines.append(model_case(hid + '.B', root, t, pre['w'], disk0, 'ok', mid['w'] if mid else None, steps))
        left = obs['states'].get(sp)
        if left is not None:
            codec_lines.append('D %s.left %s' % (hid, hx(left)))
        if 'pre' in i1 and 'post' in i1:
            model_lines.append(model_case(hid + '.C1', root, t, i1['pre']['w'], i1['pre']['states'].get(sp), 'ok',
                                          i1['mid']['w'] if 'mid' in i1 else None, None))
    model = run_model_lines('incr', model_lines, d, 'crash_model')
    decs = run_model_lines('codec', codec_lines, d, 'crash_dec') if codec_lines else {}
    ck.rule('crash: ZINOMA_VERIF_CRASH=<point> aborts the process (no unwinding, as a kill would) inside the real incremental::run at '
            'decided / after_delete / after_script / after_current / after_create / write:<byte offset> / after_write, in a child '
            'process, with and without an older record on disk; a fresh process then observes the state file and invokes the target '
            'twice; compared with Incremental.run_cycle stopped after the corresponding number of steps; non-trivial = distinct '
            '(scenario, crash point)')
    for (hid, i, pt, steps) in cases:
        (i_, pt_, steps_, sp, pre, mid, post, obs, i1, i2, rcb) = meta[hid]
        h = scen[i]
        L = pilot[i]
        rep = {'kind': 'crash-injection', 'scenario': describe_history(h), 'crash_point': pt, 'record_length': L,
               'had_old_record': bool(pre and pre['states'].get(sp)),
               'replay': 'ZINOMA_VERIF=incr: run the scenario lines, then the line `I t ok ...` with ZINOMA_VERIF_CRASH=%s in a child process, '
                         'then `Q t` and `I t ok -` in a fresh process' % pt,
               'case_lines': history_lines(hid, h) + ['# ZINOMA_VERIF_CRASH=%s' % pt, op_line(crashing_op), '# fresh process', 'Q t', 'I t ok -', 'I t ok -']}
        ck.tally('crash:' + pt.split(':')[0])
        ck.count(('crash', i, pt), sample={'crash_point': pt, 'record_length': L, 'left_on_disk': None if not obs else (obs['states'].get(sp) or b'').hex()[:80],
                                           'next_invocation': i1.get('post', {}).get('result')})
        if pre is None or obs is None or 'post' not in i1:
            rep['what'] = 'harness: missing observation (segment B rc=%s)' % rcb
            report(ck, rep, False)
            continue
        died = post is None
        complete = pt == 'after_write' or (pt.startswith('write:') and int(pt[6:]) >= L)
        if not died and not (pt.startswith('write:') and int(pt[6:]) > L):
            if not (pt.startswith('write:') and int(pt[6:]) == L):
                rep['what'] = 'the crash point %s was not reached (the invocation ended with %s)' % (pt, post['result'])
                report(ck, rep, False)
                continue
        left = obs['states'].get(sp)
        leftdec = decs.get(hid + '.left', 'none').rsplit(' rest=', 1)[0] if left is not None else 'absent'
        mB = parse_model_line(model[hid + '.B'])
        r1 = i1['post']['result']
        ran1 = 'mid' in i1
        rep.update({'left_on_disk': None if left is None else left.hex(), 'left_decodes_to': leftdec,
                    'model_after_crash': {'phase': mB['phase'], 'disk': None if mB['disk'] is None else mB['disk'].hex(), 'dec': mB['dec']},
                    'next_invocation': r1, 'next_invocation_ran_script': ran1})
        # oracle: not complete => the next invocation runs the script (never skips, never errors)
        if r1 in ('PANIC', 'Err') or 'bad' in i1:
            rep['what'] = 'after a crash at %s the next invocation fails (%s) instead of rebuilding' % (pt, r1)
            report(ck, rep, True)
            continue
        if not complete and (r1 == 'Skipped' or not ran1):
            # the only legitimate skip: the old record survived (crash before its deletion) AND matches the world
            legit = False
            if pt == 'decided' and leftdec.startswith('some'):
                legit, _ = record_matches(leftdec, i1['pre']['w'], scratch_root + b'/' + hid.encode(), h['targets']['t'])
            if not legit:
                rep['what'] = ('zinoma died at %s (before the record was written in full) and the next invocation is %s: the build is '
                               'remembered as done' % (pt, r1))
                report(ck, rep, True)
                continue
        # correspondence: what is left on disk
        diff = None
        if (left is None) != (mB['disk'] is None):
            diff = 'presence of the state file after the crash'
        elif left is not None and len(left) != len(mB['disk']):
            diff = 'length of the state file after the crash (%d vs model %d)' % (len(left), len(mB['disk']))
        elif (leftdec if leftdec != 'absent' else 'none') != mB['dec']:
            diff = 'decodability of what is left'
        else:
            mC = parse_model_line(model[hid + '.C1'])
            if (r1 == 'Skipped') != mC['skip']:
                diff = 'skip decision of the next invocation'
        if diff:
            rep['what'] = 'model and implementation differ on the %s' % diff
            report(ck, rep, False)
    vf.sh(['rm', '-rf', scratch])


# ================================================================================================ black box: the real binary
import signal
import subprocess
import time

GATED_YML = '''targets:
  t:
    input:
      - paths: [src]
    output:
      - paths: [out.txt]
    build: |
      echo start >> trace
      if [ -e gate ]; then read r < gate; fi
      cp src/a.txt out.txt
'''


def zinoma_run(cwd, args, timeout=60):
    e = dict(os.environ)
    e.pop('ZINOMA_VERIF', None)
    e['RUST_BACKTRACE'] = '0'
    import resource

    def limit():
        resource.setrlimit(resource.RLIMIT_AS, (6 << 30, 6 << 30))
    try:
        p = subprocess.run([vf.ZINOMA] + args, cwd=cwd, env=e, stdout=subprocess.PIPE, stderr=subprocess.PIPE, timeout=timeout,
                           preexec_fn=limit)
    except subprocess.TimeoutExpired as x:
        # 20x and more above any run of these projects (tens of milliseconds): reported as a hang
        return -999, '', 'TIMEOUT after %d s (zinoma hangs)\n' % timeout + (x.stderr or b'').decode('utf-8', 'replace')
    return p.returncode, p.stdout.decode('utf-8', 'replace'), p.stderr.decode('utf-8', 'replace')


def decisions(stderr):
    """{target display: 'built'|'skipped'|'failed'} from the log lines"""
    out = {}
    for l in stderr.splitlines():
        m = re.match(r'INFO (\S+) - (Building|Build skipped|Build success)', l)
        if m:
            if m.group(2) == 'Build skipped':
                out[m.group(1)] = 'skipped'
            elif m.group(2) == 'Building':
                out.setdefault(m.group(1), 'started')
            else:
                out[m.group(1)] = 'built'
    return out


def bb_signal_case(d, name, sig, with_old_record):
    """interrupts zinoma (or kills it) while the script of `t` is blocked on a FIFO; returns a report dict or None"""
    root = os.path.join(d, name)
    os.makedirs(os.path.join(root, 'src'))
    open(os.path.join(root, 'zinoma.yml'), 'w').write(GATED_YML)
    open(os.path.join(root, 'src', 'a.txt'), 'w').write('v1\n')
    open(os.path.join(root, 'trace'), 'w').close()
    log = []
    if with_old_record:
        rc, out, err = zinoma_run(root, ['t'])
        log.append(('zinoma t', rc, err))
        open(os.path.join(root, 'src', 'a.txt'), 'w').write('v2 changed\n')
        os.utime(os.path.join(root, 'src', 'a.txt'), ns=(1800000000 * 10 ** 9, 1800000000 * 10 ** 9 + 7))
    n0 = len(open(os.path.join(root, 'trace')).read().splitlines())
    os.mkfifo(os.path.join(root, 'gate'))
    e = dict(os.environ)
    e.pop('ZINOMA_VERIF', None)
    p = subprocess.Popen([vf.ZINOMA, 't'], cwd=root, env=e, stdout=subprocess.PIPE, stderr=subprocess.PIPE, start_new_session=True,
                         preexec_fn=vf.reset_signals)
    t0 = time.time()
    started = False
    while time.time() - t0 < 30:
        if len(open(os.path.join(root, 'trace')).read().splitlines()) > n0:
            started = True
            break
        if p.poll() is not None:
            break
        time.sleep(0.01)
    rep = {'kind': 'signal-during-build', 'signal': sig, 'had_old_record': with_old_record, 'project': GATED_YML,
           'replay': 'in a copy of the project: mkfifo gate; zinoma t & ; wait for the second line of `trace`; kill -%s <pid>; rm gate; zinoma t' % sig}
    if not started:
        try:
            os.killpg(p.pid, signal.SIGKILL)
        except OSError:
            pass
        rep['what'] = 'harness: the gated script did not start within 30 s'
        return rep, False
    os.kill(p.pid, getattr(signal, 'SIG' + sig))
    try:
        p.wait(timeout=60)
    except subprocess.TimeoutExpired:
        os.killpg(p.pid, signal.SIGKILL)
        rep['what'] = 'zinoma did not exit within 60 s of SIG%s' % sig
        return rep, False
    try:
        os.killpg(p.pid, signal.SIGKILL)      # the orphaned script shell, still blocked on the FIFO
    except OSError:
        pass
    os.remove(os.path.join(root, 'gate'))
    zdir = os.path.join(root, '.zinoma')
    left = dict((f, open(os.path.join(zdir, f), 'rb').read().hex()) for f in os.listdir(zdir)) if os.path.isdir(zdir) else {}
    rc1, out1, err1 = zinoma_run(root, ['t'])
    rc2, out2, err2 = zinoma_run(root, ['t'])
    d1, d2 = decisions(err1), decisions(err2)
    rep.update({'state_dir_after_the_signal': left, 'next_run': {'exit': rc1, 'log': err1[-600:]}, 'run_after': {'exit': rc2, 'log': err2[-300:]}})
    if rc1 != 0 or d1.get('t') != 'built':
        rep['what'] = ('after SIG%s during the script, the next invocation does not rebuild (exit %d, %s): an interrupted build is '
                       'remembered as done, or the run fails' % (sig, rc1, d1.get('t')))
        return rep, True
    if d2.get('t') != 'skipped':
        rep['what'] = 'after the rebuild the following invocation on the untouched tree is not skipped (%s)' % d2.get('t')
        return rep, False
    return None, None


def bb_corrupt_case(d, name, label, content_fn):
    """a foreign / corrupt / truncated state file must lead to a rebuild, exit 0"""
    root = os.path.join(d, name)
    os.makedirs(os.path.join(root, 'src'))
    open(os.path.join(root, 'zinoma.yml'), 'w').write(GATED_YML)
    open(os.path.join(root, 'src', 'a.txt'), 'w').write('v1\n')
    rc, out, err = zinoma_run(root, ['t'])
    sf = os.path.join(root, '.zinoma', 't.checksums')
    good = open(sf, 'rb').read() if os.path.exists(sf) else b''
    data = content_fn(good)
    os.makedirs(os.path.dirname(sf), exist_ok=True)
    open(sf, 'wb').write(data)
    rc1, out1, err1 = zinoma_run(root, ['t'])
    d1 = decisions(err1)
    rep = {'kind': 'corrupt-state-file', 'label': label, 'state_file_hex': data.hex(), 'project': GATED_YML,
           'next_run': {'exit': rc1, 'log': err1[-800:]},
           'replay': 'write the bytes to .zinoma/t.checksums of the project and run `zinoma t`'}
    if rc1 != 0 or d1.get('t') != 'built':
        rep['what'] = ('a %s state file does not lead to a rebuild: exit %d, target %s' % (label, rc1, d1.get('t')))
        return rep, True
    rc2, out2, err2 = zinoma_run(root, ['t'])
    if decisions(err2).get('t') != 'skipped':
        rep['what'] = 'after the rebuild the following invocation on the untouched tree is not skipped'
        return rep, False
    return None, None


def blackbox_c05(ck, d, thorough=False):
    bb = os.path.join(d, 'bb')
    os.makedirs(bb, exist_ok=True)
    jobs = []
    reps = 3 if thorough else 1
    for r in range(reps):
        for sig in ('KILL', 'INT', 'TERM'):
            for old in (False, True):
                jobs.append(('signal:%s:%s' % (sig, 'old_record' if old else 'first_run'),
                             lambda n, sig=sig, old=old: bb_signal_case(bb, n, sig, old)))
    corrupt = [('lorem', lambda g: b'Lorem ipsum'), ('empty', lambda g: b''), ('d8_len_2^63-1', lambda g: D8_BYTES),
               ('truncated_at_1', lambda g: g[:1]), ('truncated_at_half', lambda g: g[:len(g) // 2]),
               ('truncated_at_len-1', lambda g: g[:-1]), ('pinned_format', lambda g: OLD_FORMAT),
               ('bitflip_in_length', lambda g: g[:8] + bytes([g[8] ^ 0x40]) + g[9:]), ('len_2^64-1', lambda g: b'\xff' * 16 + b'abc')]
    if thorough:
        corrupt += [('truncated_at_%d' % k, (lambda g, k=k: g[:k])) for k in (7, 8, 9, 16, 17, 40, 60)]
    for (label, fn) in corrupt:
        jobs.append(('corrupt:' + label, lambda n, label=label, fn=fn: bb_corrupt_case(bb, n, label, fn)))
    ck.rule('black box (real binary): SIGKILL / SIGINT / SIGTERM while the script of the target is blocked on a FIFO (first run and '
            'with an older record), then `zinoma t` must print Building and exit 0, and the run after that must be skipped; foreign, '
            'corrupt and truncated state files (incl. a length field of 2^63-1, the pinned-format file, truncations of a real record) '
            'must lead to a rebuild with exit 0')

    def work(job):
        i, (label, fn) = job
        try:
            return label, fn('case%d' % i)
        except Exception as e:      # harness trouble is reported, never hidden
            return label, ({'kind': 'blackbox-harness', 'label': label, 'what': 'harness error: %r' % e}, False)
    with concurrent.futures.ThreadPoolExecutor(max_workers=6) as ex:
        for label, (rep, found) in ex.map(work, list(enumerate(jobs))):
            ck.tally('blackbox:' + label.split(':')[0] + ':' + label.split(':')[1])
            ck.count(('bb', label), sample={'blackbox': label, 'verdict': 'rebuilt, then skipped' if rep is None else rep.get('what')})
            if rep is not None:
                report(ck, rep, found)
    vf.sh(['rm', '-rf', bb])


# ================================================================================================ black box: C18 sequences
C18_ROOT_YML = '''imports:
  lib: lib
targets:
  app:
    dependencies: [lib::gen]
    input:
      - paths: [app.txt]
      - cmd_stdout: cat val.txt
      - lib::gen.output
    output:
      - paths: [app.out]
    build: cat app.txt lib/gen.txt > app.out
  solo:
    input:
      - paths: [solo.txt]
    build: "true"
  gen:
    input:
      - paths: [rootgen.txt]
    build: "true"
  bad:
    input:
      - paths: [bad.txt]
    build: exit 1
'''
C18_LIB_YML = '''name: lib
targets:
  gen:
    input:
      - paths: [in.txt]
    output:
      - paths: [gen.txt]
      - cmd_stdout: cat val.txt
    build: cp in.txt gen.txt
  other:
    input:
      - cmd_stdout: cat o.txt
    build: "true"
'''
# key -> (display, project dir rel, project name, target name, inputs (files), outputs (files), deps)
C18_TARGETS = {
    # (`cat val.txt` is declared by app in the root directory and inherited from lib::gen.output in lib/: same text, two directories)
    'app': ('app', '', None, b'app', ['app.txt', 'val.txt', 'lib/gen.txt', 'lib/val.txt'], ['app.out'], ['lib::gen']),
    'solo': ('solo', '', None, b'solo', ['solo.txt'], [], []),
    'gen': ('gen', '', None, b'gen', ['rootgen.txt'], [], []),
    'bad': ('bad', '', None, b'bad', ['bad.txt'], [], []),
    'lib::gen': ('lib::gen', 'lib', b'lib', b'gen', ['lib/in.txt'], ['lib/gen.txt', 'lib/val.txt'], []),
    'lib::other': ('lib::other', 'lib', b'lib', b'other', ['lib/o.txt'], [], []),
}
# (entry dir, argument spelling) -> target key
C18_REQUESTS = [('', 'app', 'app'), ('', 'solo', 'solo'), ('', 'gen', 'gen'), ('', 'bad', 'bad'), ('', 'lib::gen', 'lib::gen'),
                ('', 'lib::other', 'lib::other'), ('lib', 'gen', 'lib::gen'), ('lib', 'lib::gen', 'lib::gen'), ('lib', 'other', 'lib::other')]
C18_FILES = ['app.txt', 'solo.txt', 'rootgen.txt', 'bad.txt', 'lib/in.txt', 'lib/o.txt', 'val.txt', 'lib/val.txt']


def c18_closure(k):
    out = []
    for dep in C18_TARGETS[k][6]:
        out += c18_closure(dep)
    return out + [k]


def gen_c18_sequence(rng):
    ops = []
    for _ in range(rng.randrange(7, 12)):
        r = rng.random()
        if r < 0.6:
            ops.append(('run',) + rng.choice(C18_REQUESTS))
        elif r < 0.77:
            ops.append(('edit', rng.choice(C18_FILES)))
        elif r < 0.8:
            ops.append(rng.choice([('copyval', 'lib/val.txt', 'val.txt'), ('copyval', 'val.txt', 'lib/val.txt')]))
        elif r < 0.85:
            ops.append(('rmout', rng.choice(['lib/gen.txt', 'app.out'])))
        elif r < 0.95:
            ops.append(('clean',) + rng.choice([q for q in C18_REQUESTS if q[2] != 'bad']))
        else:
            ops.append(('cleanall', rng.choice(['', 'lib'])))
    # always end by reaching lib::gen from its three entry points and app twice
    ops += [('run', '', 'lib::gen', 'lib::gen'), ('run', 'lib', 'gen', 'lib::gen'), ('run', '', 'app', 'app'), ('run', '', 'app', 'app')]
    return ops


def c18_run_sequence(root, ops, paths):
    """executes one sequence on the real binary; returns a list of problems [(report, found_input)]"""
    os.makedirs(os.path.join(root, 'lib'))
    open(os.path.join(root, 'zinoma.yml'), 'w').write(C18_ROOT_YML)
    open(os.path.join(root, 'lib', 'zinoma.yml'), 'w').write(C18_LIB_YML)
    version = [0]

    def write(rel):
        version[0] += 1
        open(os.path.join(root, rel), 'w').write('%s v%d\n' % (rel, version[0]))
        # the mtime is set, not taken from the clock: strictly increasing with the version, so that no verdict depends on the
        # timestamp granularity of the file system
        t = (1700000000 + version[0] * 10) * 10 ** 9 + version[0]
        os.utime(os.path.join(root, rel), ns=(t, t))
    for f in C18_FILES:
        write(f)

    def content(rel):
        p = os.path.join(root, rel)
        return open(p, 'rb').read() if os.path.exists(p) else None

    def snapshot(k):
        t = C18_TARGETS[k]
        return tuple(content(f) for f in t[4]) + tuple(content(f) for f in t[5])

    def states():
        out = {}
        for dr in ('', 'lib'):
            z = os.path.join(root, dr, '.zinoma')
            if os.path.isdir(z):
                for f in os.listdir(z):
                    out[os.path.join(dr, '.zinoma', f)] = open(os.path.join(z, f), 'rb').read()
        return out
    rec = {}
    problems = []
    trace = []
    for op in ops:
        before = states()
        base = {'kind': 'c18-sequence', 'root_zinoma_yml': C18_ROOT_YML, 'lib_zinoma_yml': C18_LIB_YML, 'sequence_so_far': trace + [op],
                'sequence_literal': repr(ops),
                'replay': 'create the two projects with files %r (any distinct contents), then replay `sequence_so_far`: run = `zinoma -p <entry> <arg>`, '
                          'clean = `zinoma -p <entry> --clean <arg>`, cleanall = `zinoma -p <entry> --clean`, edit = rewrite the file, copyval = copy one val.txt onto the other' % C18_FILES}
        if op[0] == 'edit':
            write(op[1])
            trace.append(op)
            continue
        if op[0] == 'copyval':
            src, dst = op[1], op[2]
            open(os.path.join(root, dst), 'wb').write(content(src) or b'')
            version[0] += 1
            t = (1700000000 + version[0] * 10) * 10 ** 9 + version[0]
            os.utime(os.path.join(root, dst), ns=(t, t))
            trace.append(op)
            continue
        if op[0] == 'rmout':
            try:
                os.remove(os.path.join(root, op[1]))
            except OSError:
                pass
            trace.append(op)
            continue
        if op[0] == 'cleanall':
            rc, out, err = zinoma_run(os.path.join(root, op[1]), ['--clean'])
            loaded = ['', 'lib'] if op[1] == '' else ['lib']
            for k, t in C18_TARGETS.items():
                if t[1] in loaded:
                    rec.pop(k, None)
            after = states()
            for pth in after:
                dr = 'lib' if pth.startswith('lib/') else ''
                if dr in loaded:
                    problems.append((dict(base, what='bare --clean from %r left the state file %s' % (op[1], pth)), True))
            for pth, cont in before.items():
                dr = 'lib' if pth.startswith('lib/') else ''
                if dr not in loaded and after.get(pth) != cont:
                    problems.append((dict(base, what='bare --clean from %r touched %s, the record of a project it did not load' % (op[1], pth)), True))
            trace.append(op)
            continue
        entry, arg, key = op[1], op[2], op[3]
        clos = c18_closure(key)
        if op[0] == 'clean':
            for k in clos:
                rec.pop(k, None)
                for o in C18_TARGETS[k][5]:
                    if o.endswith('val.txt'):
                        continue            # read by an output COMMAND, not a declared output path
                    try:
                        os.remove(os.path.join(root, o))
                    except OSError:
                        pass
            # (the real --clean removes the outputs itself; removing them first here does not change what it does)
        expected = {}
        overlay = {}          # what the scripts of this invocation will have written when a later target of the closure decides

        def vcontent(rel):
            return overlay[rel] if rel in overlay else content(rel)

        def vsnapshot(k):
            t = C18_TARGETS[k]
            return tuple(vcontent(f) for f in t[4]) + tuple(vcontent(f) for f in t[5])
        will_record = []
        for k in clos:
            if k in rec and rec[k] == vsnapshot(k):
                expected[C18_TARGETS[k][0]] = 'skipped'
            elif k == 'bad':
                expected['bad'] = 'started'
            else:
                expected[C18_TARGETS[k][0]] = 'built'
                if k == 'lib::gen':
                    overlay['lib/gen.txt'] = vcontent('lib/in.txt')
                if k == 'app':
                    overlay['app.out'] = vcontent('app.txt') + (vcontent('lib/gen.txt') or b'')
                will_record.append(k)
        args = (['--clean'] if op[0] == 'clean' else []) + [arg]
        rc, out, err = zinoma_run(os.path.join(root, entry), args)
        got = decisions(err)
        after = states()
        info = dict(base, invocation='zinoma -p %s %s' % (entry or '.', ' '.join(args)), expected=expected, observed=got, exit=rc, log=err[-700:])
        trace.append(op)
        for k in will_record:
            rec[k] = snapshot(k)
        if got != expected:
            problems.append((dict(info, what='skip/build decisions differ from what the targets\' own records and resources determine '
                                             '(expected %r, observed %r)' % (expected, got)), True))
            # resynchronise the reference with reality
            for k in clos:
                d = got.get(C18_TARGETS[k][0])
                if d == 'built':
                    rec[k] = snapshot(k)
                elif d != 'skipped':
                    rec.pop(k, None)
        if (rc != 0) != (key == 'bad' and expected.get('bad') == 'started'):
            problems.append((dict(info, what='unexpected exit status %d' % rc), False))
        # frame: only the records of targets built or cleaned by THIS invocation may change, each at its own path
        may_change = set(paths[k] for k in clos)
        for pth in set(before) | set(after):
            if before.get(pth) != after.get(pth) and pth not in may_change:
                problems.append((dict(info, what='the invocation changed the state file %s, which belongs to none of the targets it ran (%r)' % (pth, sorted(may_change))), True))
        for k in clos:
            d = got.get(C18_TARGETS[k][0])
            if d == 'built' and paths[k] not in after:
                problems.append((dict(info, what='target %s was built but its record is not at %s (state files: %r)' % (k, paths[k], sorted(after))), True))
    return problems


def c18_check(ck, d, n_seq):
    bb = os.path.join(d, 'c18')
    os.makedirs(bb, exist_ok=True)
    # where the model says each record lives
    lines = ['P %s %s %s %s' % (k.replace('::', '__'), hx(t[1].encode()), '-' if t[2] is None else hx(t[2]), hx(t[3])) for k, t in C18_TARGETS.items()]
    m = run_model_lines('incr', lines, d, 'c18_paths')
    paths = {}
    for k in C18_TARGETS:
        p = bytes.fromhex(m[k.replace('::', '__')].split('path=')[1]).decode()
        paths[k] = p.lstrip('/')       # Incremental.checksums_path on the RELATIVE project directory ('' = the root)
    ck.rule('c18: sequences of real-binary invocations over ONE two-project tree (root importing `lib`; a target named `gen` in both; a '
            'consumer of `lib::gen.output`; a failing target) from different entry directories (-p root / -p root/lib), with bare and '
            'qualified spellings, edits, output removals, `--clean T`, bare `--clean`; oracle: every skip/build decision equals what the '
            'target\'s own record and own declared resources determine, only the records of the targets an invocation ran or cleaned '
            'change, and every record lives at Incremental.checksums_path; non-trivial = distinct sequences')
    seqs = [gen_c18_sequence(ck.rng) for _ in range(n_seq)]

    def work(job):
        i, ops = job
        try:
            return ops, c18_run_sequence(os.path.join(bb, 'seq%d' % i), ops, paths)
        except Exception as e:
            import traceback
            return ops, [({'kind': 'c18-harness', 'what': 'harness error: %r %s' % (e, traceback.format_exc()[-500:])}, False)]
    with concurrent.futures.ThreadPoolExecutor(max_workers=8) as ex:
        for ops, problems in ex.map(work, list(enumerate(seqs))):
            n_inv = sum(1 for o in ops if o[0] in ('run', 'clean', 'cleanall'))
            ck.count(('c18', tuple(ops)), sample={'sequence': [' '.join(str(x) for x in o) for o in ops], 'problems': len(problems)})
            ck.evaluations += n_inv - 1
            ck.traces += n_inv - 1
            for o in ops:
                ck.tally('c18:' + o[0] + (':' + (o[1] or 'root') if o[0] in ('run', 'clean', 'cleanall') else ''))
            for rep, found in problems[:3]:
                report(ck, rep, found)
    vf.sh(['rm', '-rf', bb])


def check_histories_parallel(ck, d, batches, props, workers=4):
    """batches: [(tag, {hid: history})] generated beforehand (deterministically); the implementation and model processes of the
    batches run concurrently, the evaluation is serialised."""
    def work(b):
        tag, hists = b
        check_histories(ck, d, hists, tag, props)
        vf.sh(['rm', '-rf', os.path.join(d, 'trees_' + tag)])
    with concurrent.futures.ThreadPoolExecutor(max_workers=workers) as ex:
        list(ex.map(work, batches))


# ================================================================================================ extraction cross-check
def coq_crosscheck(ck, d, samples):
    """The extracted OCaml decoder/encoder vs the same Gallina terms evaluated by `vm_compute` inside Coq, on sampled byte strings
    (DESIGN.md §3: extraction is itself differentially checked)."""
    lines = ['X x%d %s' % (i, hx(b)) for i, b in enumerate(samples)]
    ocaml = run_model_lines('codec', lines, d, 'xcheck')
    vfile = os.path.join(d, 'cases.v')
    with open(vfile, 'w') as f:
        f.write('From Zinoma.Model Require Import Bytes Codec.\n')
        f.write('Definition xeval (bs : bytes) : option (bytes * nat) :=\n'
                '  match dec_env bs with Some (e, rest) => Some (enc_env e, length rest) | None => None end.\n')
        for b in samples:
            f.write('Eval vm_compute in (xeval [%s]).\n' % '; '.join(str(x) for x in b))
    rc, out, err = vf.sh(['timeout', '600', 'coqc', '-noglob', '-Q', vf.COQ, 'Zinoma', vfile], cwd=d, timeout=700)
    if rc != 0:
        report(ck, {'kind': 'extraction-crosscheck', 'what': 'coqc failed on the generated cases.v', 'log': (out + err)[-1500:]}, False)
        return
    blocks = [b for b in re.split(r'^\s+= ', out, flags=re.M)[1:]]
    if len(blocks) != len(samples):
        report(ck, {'kind': 'extraction-crosscheck', 'what': 'cannot parse coqc output (%d blocks for %d samples)' % (len(blocks), len(samples))}, False)
        return
    for i, (b, blk) in enumerate(zip(samples, blocks)):
        body = blk.split(': option')[0]
        if body.strip().startswith('None'):
            coq = 'x none'
        else:
            nums = [int(x) for x in re.findall(r'\d+', body)]
            coq = 'x %s %d' % (hx(bytes(nums[:-1])), nums[-1])
        ck.tally('xcheck:' + ('none' if coq == 'x none' else 'some'))
        ck.count(('xcheck', b), impl=False)
        if ocaml.get('x%d' % i) != coq:
            report(ck, {'kind': 'extraction-crosscheck', 'bytes': b.hex(), 'extracted_ocaml': ocaml.get('x%d' % i), 'coq_vm_compute': coq,
                        'what': 'the extracted runner and vm_compute inside Coq disagree on Codec.dec_env / enc_env'}, False)
    ck.rule('xcheck: Codec.dec_env / enc_env evaluated by the extracted OCaml runner and by `Eval vm_compute` inside Coq on sampled byte strings')


# ================================================================================================ replay of one recorded case
def replay_file(ck, path, fallback):
    """./check Cxx --replay FILE: re-runs the recorded case (history, state file, C18 sequence) on the current code and model."""
    import ast
    import json
    try:
        r = json.load(open(path))
    except Exception:
        return fallback(ck)
    d = vf.scratch_dir(ck.prop + '_replay')
    kind = r.get('kind')
    if kind == 'incremental-history' and 'history_literal' in r:
        h = ast.literal_eval(r['history_literal'])
        ck.rule('replay of one recorded history through mode incr and the model')
        check_histories(ck, d, {'replay': h}, 'replay', (ck.prop,))
    elif kind == 'state-file-codec' and 'state_file_hex' in r:
        b = bytes.fromhex(r['state_file_hex'])
        ck.rule('replay of one recorded state file through the real read path and Codec.dec_env')
        lines = ['D r0 %s' % hx(b)]
        model = run_model_lines('codec', lines, d, 'rp')
        impl, crashes = run_impl_surviving('codec', lines, d, 'rp', env={'ZINOMA_VERIF_SCRATCH': os.path.join(d, 'codec_tree')})
        ck.count(('replay', b), sample={'bytes': b.hex(), 'model': model.get('r0'), 'impl': impl.get('r0')})
        m, i = model.get('r0'), impl.get('r0')
        rep = dict(r)
        rep.update({'model_now': m, 'implementation_now': i})
        if crashes or i is None or i == 'PANIC':
            rep['what'] = 'reading this state file still kills zinoma'
            report(ck, rep, True)
        elif (m or '').split(' ')[0] != i.split(' ')[0]:
            rep['what'] = 'model and implementation still differ on this state file'
            report(ck, rep, False)
    elif kind == 'c18-sequence' and 'sequence_literal' in r:
        ops = ast.literal_eval(r['sequence_literal'])
        ck.rule('replay of one recorded C18 invocation sequence on the real binary')
        lines = ['P %s %s %s %s' % (k.replace('::', '__'), hx(t[1].encode()), '-' if t[2] is None else hx(t[2]), hx(t[3])) for k, t in C18_TARGETS.items()]
        m = run_model_lines('incr', lines, d, 'c18_paths')
        paths = dict((k, bytes.fromhex(m[k.replace('::', '__')].split('path=')[1]).decode().lstrip('/')) for k in C18_TARGETS)
        problems = c18_run_sequence(os.path.join(d, 'seq'), ops, paths)
        ck.count(('c18', tuple(ops)), sample={'sequence': [' '.join(str(x) for x in o) for o in ops], 'problems': len(problems)})
        for rep, found in problems[:3]:
            report(ck, rep, found)
    else:
        return fallback(ck)
    flush(ck)
