# Event-flow conformance of whole runs, ONE-SHOT AND WATCH MODE: the REAL engine (engine::run, real target actors, real inotify
# watchers, real /bin/sh scripts) on generated graphs; the harness logs every message in relay order (as slices/flow.py) and the
# hooks H7 log every event each real actor consumes (which select! arm fired, with the message or the build result). In watch
# mode the harness edits the builds' declared input FILES in rounds (each script exits with the status written in its input: an
# edit can break or repair a build) — atomic saves, so every round after the first also exercises the repair of D16.
# runner/drv_evflow.ml replays every actor with Actor.actor_step on exactly the events it consumed (no search: the build
# results and change notices are recorded where they happened), checks per-sender FIFO delivery, and replays the whole run as ONE
# execution of Sys.exec (every recorded event becomes a label that must be enabled): the observed run is a trace of the system
# model, so the theorems about reachable states speak about it.
import concurrent.futures
import os
import vf
from slices import sysrun

KIND = {'build': 'B', 'service': 'S', 'aggregate': 'G'}


def gen_case(rng):
    fam, T, roots = sysrun.gen_graph(rng, family=rng.choice(['random', 'random', 'random', 'chain', 'fan', 'diamond', 'aggchain', 'svc']),
                                     n=None)
    names = list(T)
    if len(names) > 10:
        return gen_case(rng)
    num = {t: i + 1 for i, t in enumerate(names)}
    builds = [t for t in names if T[t]['kind'] == 'build']
    watch = rng.random() < 0.75
    fail = rng.sample(builds, min(len(builds), rng.choice([0, 0, 0, 1, 1, 2])))
    slow = rng.random() < 0.7
    targets = ';'.join('%d:%s:%s%s' % (num[t], KIND[T[t]['kind']], '.'.join(str(num[d]) for d in T[t]['deps']) or '-',
                                       (':%d' % rng.choice([0, 0, 5, 20, 60])) if (slow and T[t]['kind'] == 'build') else '')
                       for t in names)
    rounds = []
    if watch and builds:
        broken = set(fail)
        for _ in range(rng.choice([1, 2, 2, 3])):
            edits = []
            for t in rng.sample(builds, min(len(builds), rng.choice([1, 1, 2, 3]))):
                if t in broken and rng.random() < 0.7:
                    st = 0
                    broken.discard(t)
                elif rng.random() < 0.2:
                    st = 1
                    broken.add(t)
                else:
                    st = 1 if t in broken else 0
                edits.append('%d=%d' % (num[t], st))
            rounds.append('.'.join(edits))
    # a quarter of the runs are ended by the harness at a random moment (termination while builds run: cancellation)
    term = str(rng.choice([0, 3, 8, 15, 30, 60, 120])) if rng.random() < 0.25 else ''
    return {'family': fam, 'watch': '1' if watch else '0', 'roots': ','.join(str(num[r]) for r in roots), 'targets': targets,
            'failing': ','.join(str(num[t]) for t in fail) or '-', 'rounds': '/'.join(rounds) or '-', 'term': term}


def case_line(cid, c):
    return ('V %s %s %s %s %s %s %s' % (cid, c['watch'], c['roots'], c['targets'], c['failing'], c['rounds'], c.get('term', ''))).rstrip()


def run(ck, n_cases, shards=8):
    """returns list of mismatches (dicts)"""
    d = vf.scratch_dir('evflow_' + ck.prop)
    cases = {}
    for i in range(n_cases):
        cases['v%d' % i] = gen_case(ck.rng)
    ids = list(cases)
    files = []
    for s in range(shards):
        sf = os.path.join(d, 'impl_%d.txt' % s)
        with open(sf, 'w') as f:
            for cid in ids[s::shards]:
                f.write(case_line(cid, cases[cid]) + '\n')
        files.append(sf)
    impl = {}

    def one(sf):
        return vf.run_impl('evflow', sf, env={'ZINOMA_VERIF_SCRATCH': os.path.join(d, 'run_' + os.path.basename(sf))}, timeout=3000)
    with concurrent.futures.ThreadPoolExecutor(max_workers=shards) as ex:
        for rc, lines, err in ex.map(one, files):
            impl.update(vf.by_id(lines))
    # every case ends with the termination of all its actors: a process of the harness' session that is still there when the
    # harness has exited is a script or service the real code did not take down (C10 / C11)
    left_behind = [(sf, vf.LEFTOVER.get(sf, 0)) for sf in files if vf.LEFTOVER.get(sf, 0)]
    mf = os.path.join(d, 'model.txt')
    with open(mf, 'w') as f:
        for cid in ids:
            r = impl.get(cid, '')
            parts = dict(p.split('=', 1) for p in r.split(' ') if '=' in p and p[:2] in ('st', 'co', 'E=', 'O='))
            if 'O' not in parts or 'E' not in parts:
                continue
            f.write('%s %s %s %s %s\n' % (case_line(cid, cases[cid]), parts.get('status', '?'), parts.get('consumed', '0'),
                                          parts['E'][1:-1] or '-', parts['O'][1:-1] or '-'))
    model = vf.by_id(vf.run_model('evflow', mf))
    ck.rule('evflow: the real engine (engine::run + real actors + real watchers + real scripts), one-shot and WATCH mode, on '
            'generated graphs (<= 10 targets, every family); in watch mode the harness rewrites the builds\' declared input files '
            'atomically in 1-3 rounds (breaking and repairing builds), waits for the flow to go quiet, then terminates (a quarter of the '
            'runs are instead terminated at a random moment, builds in progress being cancelled); hooks H7 '
            'record every event each real actor consumes, the interposed relay every message; every actor is replayed with '
            'Actor.actor_step on exactly its events: what it sent must be what the model sends (order across steps fixed, '
            'within a step free), every event must be possible in the model state, and what each actor consumed from each '
            'sender must be a prefix of what was relayed to it from that sender; and the WHOLE RUN is replayed as one execution of '
            'Sys.exec (events -> labels LDeliverAt / LChange+LInval / LBuildDone / LTermActor, the root advanced in the recorded relay '
            'order): every label must be enabled and the status run returned must be the model\'s; non-trivial = distinct (mode, graph, roots, '
            'failing set, rounds) with at least one change notice consumed (watch) or one message (one-shot)')
    bad = []
    for cid in ids:
        c = cases[cid]
        r = impl.get(cid, 'MISSING')
        m = model.get(cid, 'NOT-EVALUATED' if 'O=' in r else 'IMPLEMENTATION-RESULT-MISSING')
        ninv = r.count('@I;') + r.count('@I]')
        nskip = r.count('@D:S')
        nfail = r.count('@D:F')
        ck.count(('evflow', c['watch'], c['roots'], c['targets'], c['failing'], c['rounds'], c.get('term', '')),
                 nontrivial=(ninv > 0) if c['watch'] == '1' and c['rounds'] != '-' else ('O=[]' not in r),
                 sample={'watch': c['watch'], 'targets': c['targets'], 'requested': c['roots'], 'failing': c['failing'],
                         'rounds': c['rounds'], 'terminated_after_ms': c.get('term') or None, 'logged': r[:400]})
        ck.tally('evflow:mode=' + ('watch' if c['watch'] == '1' else 'one-shot'))
        if c.get('term'):
            ck.tally('evflow:ended-by-the-harness-mid-run')
        if '@D:X' in r:
            ck.tally('evflow:with-cancelled-build')
        ck.tally('evflow:family=' + c['family'])
        ck.tally('evflow:change-notices=' + ('0' if ninv == 0 else '1-2' if ninv <= 2 else '3+'))
        if nskip:
            ck.tally('evflow:with-skipped-run')
        if nfail:
            ck.tally('evflow:with-failed-run')
        if '@Iv:' in r:
            ck.tally('evflow:with-out-of-date-word')
        if m != 'OK':
            bad.append({'case': case_line(cid, c), 'logged_flow': r, 'model_verdict': m,
                        'replay': 'ZINOMA_VERIF=evflow on the case line, then runner mode evflow on the line extended with status, '
                                  'the logged events and the logged outputs'})
    for sf, nleft in left_behind:
        bad.append({'case': 'the cases of ' + os.path.basename(sf) + ': ' + ' | '.join(case_line(c, cases[c]) for c in ids[int(os.path.basename(sf)[5:-4])::shards])[:1500],
                    'logged_flow': '', 'model_verdict': 'PROCESSES-LEFT-BEHIND: %d process(es) spawned by the real actors were still alive after '
                                                        'every actor of every case had been terminated and the harness had exited' % nleft,
                    'replay': 'ZINOMA_VERIF=evflow on these case lines; list the processes of the session afterwards'})
    vf.sh(['rm', '-rf', d])
    return bad
