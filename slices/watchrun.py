# Watch-mode scenarios on the real binary (real inotify): generated producer/consumer graphs, change schedules, gated builds.
# Every build copies a version stamp from its declared inputs to its declared output, so that at quiescence the oracle can
# read from the tree alone whether each target is up to date with respect to its direct inputs AS THEY ARE NOW.
import os
import signal
import time
import vf
from slices import blackbox

QUIET_S = float(os.environ.get('VERIF_QUIET_S', '2.5'))      # trace unchanged for this long = quiescent (latency is ~ms)


def gen_watch_graph(rng):
    """builds with own input dirs, optional producer->consumer edges through X.output, plain dependencies, a service"""
    n = rng.randint(1, 5)
    T = {}
    names = ['w%d' % i for i in range(n)]
    for i, t in enumerate(names):
        prods = rng.sample(names[:i], min(i, rng.choice([0, 1, 1, 2])))
        deps = [p for p in names[:i] if p not in prods and rng.random() < 0.2]
        T[t] = {'kind': 'build', 'own_input': rng.random() < 0.85 or not prods, 'producers': prods, 'deps': deps,
                # the input is declared as the file itself rather than its directory (an atomic save replaces the inode)
                'input_file': rng.random() < 0.4}
    if rng.random() < 0.4:
        prods = rng.sample(names, min(len(names), rng.choice([0, 1])))
        T['svc'] = {'kind': 'service', 'own_input': True, 'producers': prods, 'deps': []}
    if rng.random() < 0.3:
        T['agg'] = {'kind': 'aggregate', 'own_input': False, 'producers': [], 'deps': rng.sample(list(T), rng.randint(1, len(T)))}
    roots = rng.sample(list(T), rng.randint(1, min(2, len(T))))
    return T, roots


def closure(T, roots):
    seen = set()
    todo = list(roots)
    while todo:
        t = todo.pop()
        if t in seen:
            continue
        seen.add(t)
        todo += T[t]['deps'] + T[t]['producers']
    return seen


class WatchProject:
    def __init__(self, d, T, gated):
        self.dir = d
        self.T = T
        self.trace = os.path.join(d, 'trace')
        open(self.trace, 'w').close()
        self.gate_fd = {}
        self.version = {}
        self.bad = {}
        os.makedirs(os.path.join(d, 'gates'))
        os.makedirs(os.path.join(d, 'out'))
        lines = ['targets:']
        for t, s in T.items():
            lines.append('  %s:' % t)
            if s['deps'] or s['kind'] == 'aggregate':
                lines.append('    dependencies: [%s]' % ', '.join(s['deps']))
            if s['kind'] == 'aggregate':
                continue
            reads = []
            inp = []
            if s['own_input']:
                os.makedirs(os.path.join(d, 'in', t))
                self.set_version(t, 1, log=False)
                inp.append('paths: [in/%s/v.txt]' % t if s.get('input_file') else 'paths: [in/%s]' % t)
                reads.append('$(cat in/%s/v.txt)' % t)
            for p in s['producers']:
                inp.append('%s.output' % p)
                reads.append('%s=$(cat out/%s.txt)' % (p, p))
            stamp = '"' + ' '.join(reads) + '"'
            if inp:
                lines.append('    input:')
                for i in inp:
                    lines.append('      - ' + i)
            if s['kind'] == 'build':
                lines.append('    output:')
                lines.append('      - paths: [out/%s.txt]' % t)
                g = ''
                if gated:
                    gp = os.path.join(d, 'gates', t)
                    os.mkfifo(gp)
                    self.gate_fd[t] = os.open(gp, os.O_RDWR)
                    g = 'exec 3<>%s\nread x <&3\n' % gp
                script = ('ts=$(date +%%s.%%N)\nv=%s\necho "start %s $$ $ts $v" >> %s\n%s'
                          'case "$v" in *\\!*) echo "end %s 1 $(date +%%s.%%N) $v" >> %s; exit 1;; esac\n'
                          'echo "$v" > out/%s.txt.tmp~\nmv out/%s.txt.tmp~ out/%s.txt\n'
                          'echo "end %s 0 $(date +%%s.%%N) $v" >> %s' % (stamp, t, self.trace, g, t, self.trace, t, t, t, t, self.trace))
                lines.append('    build: |')
            else:
                script = 'ts=$(date +%%s.%%N)\nv=%s\necho "start %s $$ $ts $v" >> %s\nexec sleep 100000' % (stamp, t, self.trace)
                lines.append('    service: |')
            for l in script.split('\n'):
                lines.append('      ' + l)
        with open(os.path.join(d, 'zinoma.yml'), 'w') as f:
            f.write('\n'.join(lines) + '\n')

    def set_version(self, t, v, log=True, mode='write', bad=False):
        """mode 'write': rewrite the file in place; 'rename': write elsewhere and rename over it (atomic save);
        bad: the content makes t's own script exit 1"""
        self.version[t] = v
        self.bad[t] = bad
        p = os.path.join(self.dir, 'in', t, 'v.txt')
        content = '%s%d%s\n' % (t, v, '!' if bad else '')
        if mode == 'rename' and os.path.exists(p):
            os.makedirs(os.path.join(self.dir, 'elsewhere'), exist_ok=True)
            tmp = os.path.join(self.dir, 'elsewhere', '%s.%d.new' % (t, v))
            with open(tmp, 'w') as f:
                f.write(content)
            os.replace(tmp, p)
        else:
            with open(p, 'w') as f:
                f.write(content)
        if log:
            with open(self.trace, 'a') as f:
                f.write('change %s %d %.6f %s%s\n' % (t, v, time.time(), mode, ' bad' if bad else ''))

    def read_trace(self):
        out = []
        for l in open(self.trace).read().splitlines():
            f = l.split(' ', 4)
            if f and f[0] in ('start', 'end', 'change'):
                out.append(f)
        return out

    def expected_stamp(self, t):
        """what a run of t started now would write: own input version + the CURRENT content of each producer's output"""
        s = self.T[t]
        parts = []
        if s['own_input']:
            parts.append('%s%d%s' % (t, self.version[t], '!' if self.bad.get(t) else ''))
        for p in s['producers']:
            try:
                parts.append('%s=%s' % (p, open(os.path.join(self.dir, 'out', p + '.txt')).read().rstrip('\n')))
            except FileNotFoundError:
                parts.append('%s=' % p)
        return ' '.join(parts)

    def close(self):
        for fd in self.gate_fd.values():
            try:
                os.close(fd)
            except OSError:
                pass


def pending(proj, released):
    starts = {}
    for f in proj.read_trace():
        if f[0] == 'start' and f[1] in proj.gate_fd:
            starts[f[1]] = starts.get(f[1], 0) + 1
    return [t for t, n in starts.items() if n > released.get(t, 0)]


def wait_quiet(proj, proc, released, release, quiet_s, max_s=60):
    """releases every pending gated build; returns when the trace has been unchanged for quiet_s with nothing pending"""
    t_end = time.time() + max_s
    last = proj.read_trace()
    t0 = time.time()
    while time.time() < t_end:
        if proc.poll() is not None:
            return False
        if release:
            for t in pending(proj, released):
                released[t] = released.get(t, 0) + 1
                os.write(proj.gate_fd[t], b'0\n')
        time.sleep(0.02)
        cur = proj.read_trace()
        if cur != last:
            last = cur
            t0 = time.time()
        elif time.time() - t0 > quiet_s and not (release and pending(proj, released)):
            return True
    return True


def scenario(rng, T, roots, gated, plan, tag='wt'):
    """plan: list of steps: ('idle',) wait for quiescence; ('change', t) bump t's input now;
       ('during', t, u) wait until u's gated build is in progress, then bump t's input, then release u;
       ('burst', t, n) n quick changes of t.  Returns (obs, verdicts)."""
    d = vf.scratch_dir(tag)
    proj = WatchProject(d, T, gated)
    e = dict(os.environ)
    e.pop('ZINOMA_VERIF', None)
    errf = open(os.path.join(d, 'stderr'), 'w+')
    import subprocess
    proc = subprocess.Popen([vf.ZINOMA, '--watch'] + list(roots), cwd=d, env=e, stdout=errf, stderr=subprocess.STDOUT,
                            start_new_session=True, preexec_fn=vf.reset_signals)
    released = {}
    V = {}
    known = []

    def bad(prop, text):
        V.setdefault(prop, []).append(text)
    try:
        clo = closure(T, roots)
        ok = wait_quiet(proj, proc, released, True, QUIET_S)
        if proc.poll() is not None:
            errf.flush(); errf.seek(0)
            bad('C06', 'watch mode exited during the initial pass (status %s): %s' % (proc.returncode, errf.read()[-300:]))
        for step in plan:
            if proc.poll() is not None:
                break
            if step[0] == 'idle':
                wait_quiet(proj, proc, released, True, QUIET_S)
            elif step[0] == 'change':
                proj.set_version(step[1], proj.version[step[1]] + 1, mode=rng.choice(['write', 'write', 'rename']))
                time.sleep(rng.choice([0, 0.01, 0.05]))
            elif step[0] == 'break':
                proj.set_version(step[1], proj.version[step[1]] + 1, bad=True)
                time.sleep(rng.choice([0, 0.01, 0.05]))
            elif step[0] == 'burst':
                for _ in range(step[2]):
                    proj.set_version(step[1], proj.version[step[1]] + 1)
            # explicit control (fixed scenarios): bump an input without waiting, wait until a gated build is in progress,
            # release one gated build, wait
            elif step[0] == 'bump':
                proj.set_version(step[1], proj.version[step[1]] + 1, bad=(len(step) > 2 and step[2] == 'bad'))
            elif step[0] == 'await_pending':
                t0 = time.time()
                while time.time() - t0 < 10 and step[1] not in pending(proj, released) and proc.poll() is None:
                    time.sleep(0.01)
            elif step[0] == 'release':
                if step[1] in pending(proj, released):
                    released[step[1]] = released.get(step[1], 0) + 1
                    os.write(proj.gate_fd[step[1]], b'0\n')
            elif step[0] == 'sleep':
                time.sleep(step[1])
            elif step[0] == 'hold_others':
                # for step[2] seconds every gated build except step[1] is released as soon as it waits at its gate
                t0 = time.time()
                while time.time() - t0 < step[2] and proc.poll() is None:
                    for x in pending(proj, released):
                        if x != step[1]:
                            released[x] = released.get(x, 0) + 1
                            os.write(proj.gate_fd[x], b'0\n')
                    time.sleep(0.01)
            elif step[0] == 'during':
                t, u = step[1], step[2]
                # make u run: bump something that makes it rebuild (its own input if it has one)
                if T[u]['own_input']:
                    proj.set_version(u, proj.version[u] + 1)
                t0 = time.time()
                while time.time() - t0 < 5 and u not in pending(proj, released):
                    # release everything else so that u can be reached
                    for x in pending(proj, released):
                        if x != u:
                            released[x] = released.get(x, 0) + 1
                            os.write(proj.gate_fd[x], b'0\n')
                    time.sleep(0.01)
                if u in pending(proj, released):
                    if len(step) > 3:
                        time.sleep(step[3])                          # u has been in progress for a while when t changes
                    proj.set_version(t, proj.version[t] + 1)        # the change lands while u's script is in progress
                    time.sleep(step[4] if len(step) > 4 else 0.15)   # let inotify deliver it before u completes
        ok = wait_quiet(proj, proc, released, True, QUIET_S)
        # --- oracle at quiescence ---
        tr = proj.read_trace()
        if proc.poll() is not None:
            bad('C06', 'zinoma --watch exited (status %s)' % proc.returncode)
        stale = []
        # C07 in watch mode: while the last finished run of a dependency is a failure, no dependent starts.  Judged on the
        # scripts' own timestamps (the order of the lines of the trace is the order of the writes, not of the events), and only
        # when the failure had ended well before the start: the decision to start t precedes the time t's shell reports, and a
        # dependency invalidated at the same moment may have run and failed in between (spawn latency ~ms; margin 0.5 s)
        def tsf(f):
            try:
                return float(f[3])
            except (IndexError, ValueError):
                return None
        last_end = {}
        for f in tr:
            if f[0] == 'end':
                last_end[f[1]] = f[2]
        ends = sorted([(tsf(f), f[1], f[2]) for f in tr if f[0] == 'end' and tsf(f) is not None])
        for f in tr:
            if f[0] == 'start' and tsf(f) is not None and f[1] in T:
                # at any depth: nothing at or above a failed target can be acknowledged until it is repaired (C07_blocked_until_success)
                for p in sorted(closure(T, [f[1]]) - {f[1]}):
                    before = [(te, st) for (te, x, st) in ends if x == p and te < tsf(f)]
                    if before and before[-1][1] == '1' and tsf(f) - before[-1][0] > 0.5:
                        bad('C07', '%s started %.3f s after the last run of %s, which it depends on, had failed and was not repaired yet'
                            % (f[1], tsf(f) - before[-1][0], p))
        for t in sorted(clo):
            s = T[t]
            if s['kind'] == 'aggregate':
                continue
            if any(proj.bad.get(x) for x in closure(T, [t]) - {t}):
                # something t depends on (declared dependency or producer, at any depth) currently fails: t waits for the repair
                # (C07) and cannot be up to date; nothing to require of it here
                continue
            if proj.bad.get(t):
                # the current input makes the script fail: the failure must have been reported by a run after the change
                if s['kind'] == 'build' and last_end.get(t) != '1':
                    text = '%s: its input was changed to a version that makes its script fail, but no failing run followed' % t
                    if absorbed_during_own_run(proj, T, tr, t):
                        known.append(('KF1-change-during-own-build', text))
                    else:
                        bad('C06', text)
                continue
            want = proj.expected_stamp(t)
            if s['kind'] == 'build':
                try:
                    got = open(os.path.join(d, 'out', t + '.txt')).read().rstrip('\n')
                except FileNotFoundError:
                    got = None
            else:
                got = None
                for f in tr:
                    if f[0] == 'start' and f[1] == t:
                        got = f[4] if len(f) > 4 else ''
            if got != want:
                stale.append((t, got, want))
        if stale:
            # settle once more before believing it
            wait_quiet(proj, proc, released, True, QUIET_S * 2)
            tr = proj.read_trace()
            still = []
            for (t, got, want) in stale:
                want = proj.expected_stamp(t)
                if T[t]['kind'] == 'build':
                    try:
                        got = open(os.path.join(d, 'out', t + '.txt')).read().rstrip('\n')
                    except FileNotFoundError:
                        got = None
                else:
                    got = None
                    for f in tr:
                        if f[0] == 'start' and f[1] == t:
                            got = f[4] if len(f) > 4 else ''
                if got != want:
                    still.append((t, got, want))
            for (t, got, want) in still:
                text = ('at quiescence %s is stale: it holds %r but its declared inputs now say %r (no re-run after the last change)'
                        % (t, got, want))
                if absorbed_during_own_run(proj, T, tr, t):
                    known.append(('KF1-change-during-own-build', text))
                else:
                    bad('C06', text)
        # C01 in watch mode: no target starts while a build it depends on (at any depth, through targets of any kind) has been
        # re-running for more than a second: that build announced it was out of date before it started, the word reached the
        # dependent within milliseconds, and only its completion makes it available again (timestamps of the scripts themselves)
        runs_of = {}
        open_run = {}
        for f in sorted([g_ for g_ in tr if g_[0] in ('start', 'end') and tsf(g_) is not None], key=tsf):
            if T.get(f[1], {}).get('kind') != 'build':
                continue
            if f[0] == 'start':
                open_run[f[1]] = tsf(f)
            elif f[1] in open_run:
                runs_of.setdefault(f[1], []).append((open_run.pop(f[1]), tsf(f)))
        for f in tr:
            if f[0] == 'start' and tsf(f) is not None and f[1] in T:
                for dd in sorted(closure(T, [f[1]]) - {f[1]}):
                    for (a_, b_) in runs_of.get(dd, []):
                        if a_ + 1.0 < tsf(f) < b_:
                            bad('C01', '%s started while %s, which it depends on, had been re-running for %.2f s (and was still running)'
                                % (f[1], dd, tsf(f) - a_))
        # freshness at quiescence (C06: "re-run by an execution that started ... after its dependencies finished their own
        # re-run"; the theorem is C06_settled_run_saw_latest_through_aggregates): in zinoma's own log, the last time t was gone
        # through (`Building`, `Build skipped`, `Starting service`) comes after the last completion (`Build success`,
        # `Build skipped`) of every build it depends on, directly or through aggregates — unless t is blocked by a failure
        errf.flush(); errf.seek(0)
        zlog = errf.read().splitlines()

        def last_line(t, kinds):
            best = -1
            for i, l in enumerate(zlog):
                for k in kinds:
                    if (' %s - %s' % (t, k)) in l:
                        best = i
            return best

        def build_deps(t, seen=None):
            out = set()
            for x in T[t]['producers'] + T[t]['deps']:
                if T[x]['kind'] == 'build':
                    out.add(x)
                elif T[x]['kind'] == 'aggregate':
                    out |= build_deps(x)
            return out
        for t in sorted(clo):
            if T[t]['kind'] == 'aggregate' or proj.bad.get(t) or any(proj.bad.get(x) for x in closure(T, [t]) - {t}):
                continue
            lp = last_line(t, ['Building', 'Build skipped', 'Starting service'])
            for dd in sorted(build_deps(t)):
                ld = last_line(dd, ['Build success', 'Build skipped'])
                if lp >= 0 and ld > lp:
                    text = ('at quiescence the last execution of %s (zinoma log line %d) started BEFORE the last completion of its '
                            'dependency %s (line %d): it was not re-run after its dependency finished its own re-run' % (t, lp, dd, ld))
                    if absorbed_during_own_run(proj, T, tr, t):
                        known.append(('KF1-change-during-own-build', text))
                    else:
                        bad('C06', text)
        # C11 in watch mode: a restarted service never overlaps with its previous instance
        for t in sorted(clo):
            if T[t]['kind'] == 'service':
                pids = [int(f[2]) for f in tr if f[0] == 'start' and f[1] == t]
                alive = [p_ for p_ in pids if blackbox.proc_state(p_) not in (None, 'Z')]
                if len(alive) > 1:
                    bad('C11', 'service %s has %d live instances at quiescence (pids %s): a restart did not stop the old one'
                        % (t, len(alive), alive))
        obs = {'targets': T, 'roots': list(roots), 'gated': gated, 'plan': plan, 'trace': tr[:60], 'stale': stale[:4]}
        return obs, V, known
    finally:
        try:
            os.killpg(proc.pid, signal.SIGKILL)
        except (ProcessLookupError, PermissionError):
            pass
        try:
            proc.wait(timeout=5)
        except Exception:
            pass
        for f in proj.read_trace():
            if f[0] == 'start':
                try:
                    os.kill(int(f[2]), signal.SIGKILL)
                except (ProcessLookupError, PermissionError, ValueError):
                    pass
        errf.close()
        proj.close()
        vf.sh(['rm', '-rf', d])


SLACK_S = 0.6      # the state is recorded shortly after the script's last line; a change up to this much later can still be absorbed


def absorbed_during_own_run(proj, T, tr, t):
    """Known class KF1: every input of t that is newer than what t's last script run read (its own input, or the output of a
    producer) changed while t's own script was in progress (between its start line and its end line + SLACK_S), and no
    script of t started afterwards."""
    def tm(f):
        try:
            return float(f[3])
        except (IndexError, ValueError):
            return None
    starts = [f for f in tr if f[0] == 'start' and f[1] == t]
    ends = [f for f in tr if f[0] == 'end' and f[1] == t]
    if not starts:
        return False
    t_start = tm(starts[-1])
    t_end = tm(ends[-1]) if ends and tm(ends[-1]) and tm(ends[-1]) >= t_start else None
    if t_start is None or t_end is None:
        return False
    # the instants at which t's inputs last changed: its own input (harness change lines) and the outputs of its producers
    # (written just before the producer's successful end line)
    times = []
    if T[t]['own_input']:
        cs = [f for f in tr if f[0] == 'change' and f[1] == t]
        if cs:
            times.append(tm(cs[-1]))
    for p in T[t]['producers']:
        pe = [f for f in tr if f[0] == 'end' and f[1] == p and f[2] == '0']
        if pe:
            times.append(tm(pe[-1]))
    after = [c for c in times if c is not None and c > t_start]
    if not after:
        return False
    return all(c <= t_end + SLACK_S for c in after)


def gen_plan(rng, T, roots, gated):
    clo = closure(T, roots)
    owners = [t for t in clo if T[t]['kind'] != 'aggregate' and T[t]['own_input']]
    builds = [t for t in clo if T[t]['kind'] == 'build']
    plan = []
    for _ in range(rng.randint(1, 4)):
        r = rng.random()
        if not owners:
            break
        if r < 0.12 and [t for t in owners if T[t]['kind'] == 'build']:
            t = rng.choice([t for t in owners if T[t]['kind'] == 'build'])
            plan.append(('break', t))
            plan.append(('idle',))
            if rng.random() < 0.8:
                for _ in range(rng.randint(0, 2)):
                    plan.append(('change', rng.choice(owners)))
                plan.append(('change', t))
        elif r < 0.35:
            plan.append(('change', rng.choice(owners)))
            if rng.random() < 0.6:
                plan.append(('idle',))
        elif r < 0.55:
            plan.append(('burst', rng.choice(owners), rng.randint(2, 5)))
        elif gated and builds:
            u = rng.choice(builds)
            # a change in a dependency (producer) while the dependent builds, or in an unrelated target, or in u itself (KF1)
            cands = [t for t in owners if t != u] or owners
            t = rng.choice(cands) if rng.random() < 0.8 else u
            if t in owners:
                plan.append(('during', t, u))
        else:
            plan.append(('change', rng.choice(owners)))
    plan.append(('idle',))
    return plan


def campaign(ck, prop, n, fixed=(), break_bias=False, workers=8):
    """runs n generated watch scenarios (after the `fixed` ones); returns (found, known): found = [(obs-like dict, texts)] for
    `prop`, known = [(finding id, text, obs)] (known-finding classes are reported under C06 only)"""
    import concurrent.futures, json, random
    jobs = []
    for i, (T, roots, gated, plan) in enumerate(fixed):
        jobs.append((i, T, roots, gated, plan, random.Random(i + 1)))
    for i in range(len(fixed), n):
        r = random.Random(ck.rng.getrandbits(48))
        T, roots = gen_watch_graph(r)
        gated = r.random() < 0.6
        plan = gen_plan(r, T, roots, gated)
        if break_bias:
            owners = [t for t in closure(T, roots) if T[t]['kind'] == 'build' and T[t]['own_input']]
            if owners:
                t = r.choice(owners)
                plan = [('break', t), ('idle',)] + [st for st in plan if st[0] != 'idle'][:3] + [('idle',)]
        jobs.append((i, T, roots, gated, plan, r))
    found, known = [], []

    def one(j):
        i, T, roots, gated, plan, r = j
        return j, scenario(r, T, roots, gated, plan, tag='%s_w%d' % (prop, i))
    with concurrent.futures.ThreadPoolExecutor(max_workers=workers) as ex:
        for j, (obs, V, kn) in ex.map(one, jobs):
            i, T, roots, gated, plan, r = j
            ck.count(('watch', json.dumps(T, sort_keys=True), tuple(roots), gated, json.dumps(plan)), nontrivial=len(plan) > 1,
                     sample={'targets': T, 'roots': roots, 'gated': gated, 'plan': plan, 'trace': obs['trace'][:14]})
            for st in plan:
                ck.tally('watch:step=' + st[0])
            ck.tally('watch:targets=%d' % len(T))
            o = {'targets': T, 'roots': roots, 'fail': [], 'gated': gated, 'trace': obs['trace'], 'outcome': 'watch',
                 'exit_code': None, 'stderr_tail': '', 'plan': plan}
            for fid, text in kn:
                known.append((fid, text, o))
            if prop in V:
                found.append((o, V[prop]))
    return found, known


# ---------------------------------------------------------------------------------------------- watcher filter scenario (C16)

def filter_scenario(rng, n_ops=10, tag='wf', ops=None):
    """One target watching `src` with extensions [txt] (and one without filter watching `any`); random file operations of
    relevant and irrelevant kinds through the real inotify watcher. A relevant operation must start a run (we wait for it);
    an irrelevant one must not (the run count is unchanged after a quiet period)."""
    import subprocess
    d = vf.scratch_dir(tag)
    os.makedirs(os.path.join(d, 'src', 'sub'))
    os.makedirs(os.path.join(d, 'any'))
    os.makedirs(os.path.join(d, 'elsewhere'))
    trace = os.path.join(d, 'trace')
    open(trace, 'w').close()
    open(os.path.join(d, 'src', 'a.txt'), 'w').write('a0\n')
    open(os.path.join(d, 'src', 'sub', 'b.txt'), 'w').write('b0\n')
    open(os.path.join(d, 'src', 'c.dat'), 'w').write('c0\n')
    open(os.path.join(d, 'any', 'x'), 'w').write('x0\n')
    open(os.path.join(d, 'src', 'notes.md'), 'w').write('n0\n')
    os.makedirs(os.path.join(d, 'docs'))
    open(os.path.join(d, 'docs', 'guide.md'), 'w').write('g0\n')
    os.makedirs(os.path.join(d, 'conf'))
    open(os.path.join(d, 'conf', 'settings.ini'), 'w').write('s0\n')
    open(os.path.join(d, 'conf', 'other.ini'), 'w').write('o0\n')
    os.makedirs(os.path.join(d, 'side', 'subdir'))
    open(os.path.join(d, 'side', 'one.ini'), 'w').write('one0\n')
    open(os.path.join(d, 'side', 'subdir', 'x.ini'), 'w').write('x\n')
    os.makedirs(os.path.join(d, 'mix', 'deep'))
    open(os.path.join(d, 'mix', 'inner.cfg'), 'w').write('i0\n')
    open(os.path.join(d, 'mix', 'deep', 'd.cfg'), 'w').write('d0\n')
    # `filt` lists the directory src twice, under two different extension filters (and docs under the second one only): a
    # change selected by EITHER resource is relevant
    res = ['      - paths: [src]\n        extensions: [txt]\n', '      - paths: [src, docs]\n        extensions: [md]\n']
    if rng.random() < 0.5:
        res.reverse()
    with open(os.path.join(d, 'zinoma.yml'), 'w') as f:
        f.write('targets:\n  filt:\n    input:\n' + ''.join(res) +
                '    build: echo "start filt $$" >> %s\n'
                '  anyf:\n    input:\n      - paths: [any]\n    build: echo "start anyf $$" >> %s\n'
                # `onef` declares ONE FILE (conf/settings.ini), not its directory: the file next to it is not an input
                '  onef:\n    input:\n      - paths: [conf/settings.ini]\n    build: echo "start onef $$" >> %s\n'
                # `mixf` declares a directory AND a file inside it: the file is covered by the directory's recursive watch
                '  mixf:\n    input:\n      - paths: [%s]\n    build: echo "start mixf $$" >> %s\n'
                # `sidef` declares a file and a DIRECTORY next to it (both in the directory that is watched for the file)
                '  sidef:\n    input:\n      - paths: [side/one.ini, side/subdir]\n    build: echo "start sidef $$" >> %s\n'
                % (trace, trace, trace, rng.choice(['mix, mix/inner.cfg', 'mix/inner.cfg, mix']), trace, trace))
    e = dict(os.environ)
    e.pop('ZINOMA_VERIF', None)
    errf = open(os.path.join(d, 'stderr'), 'w+')
    proc = subprocess.Popen([vf.ZINOMA, '--watch', 'filt', 'anyf', 'onef', 'mixf', 'sidef'], cwd=d, env=e, stdout=errf, stderr=subprocess.STDOUT,
                            start_new_session=True, preexec_fn=vf.reset_signals)
    V = {}
    log = []

    def runs(t):
        return len([1 for l in open(trace).read().splitlines() if l.startswith('start %s ' % t)])

    def wait_runs(t, n, timeout):
        t0 = time.time()
        while time.time() - t0 < timeout:
            if runs(t) >= n:
                return True
            if proc.poll() is not None:
                return False
            time.sleep(0.005)
        return runs(t) >= n

    def quiet(seconds):
        c0 = (runs('filt'), runs('anyf'), runs('onef'), runs('mixf'), runs('sidef'))
        t0 = time.time()
        while time.time() - t0 < seconds:
            time.sleep(0.05)
            c1 = (runs('filt'), runs('anyf'), runs('onef'), runs('mixf'), runs('sidef'))
            if c1 != c0:
                c0 = c1
                t0 = time.time()
        return c0
    try:
        if not (wait_runs('filt', 1, 10) and wait_runs('anyf', 1, 10) and wait_runs('onef', 1, 10) and wait_runs('mixf', 1, 10) and wait_runs('sidef', 1, 10)):
            V.setdefault('C16', []).append('initial pass did not run the five targets')
        quiet(1.0)
        seq = 0
        modelled = []              # (target, M|R, path, triggered) for the operations Model/Watch.v speaks about
        dir_renamed_away = False
        relevant_ops = ['modify', 'create', 'rename_over', 'move_in', 'rename_away', 'delete', 'modify_sub', 'nonutf8_then_modify',
                        'any_modify', 'any_create_tmpname_not', 'any_nonutf8', 'modify_md', 'modify_docs_md', 'modify', 'modify_md',
                        'file_modify', 'file_rename_over', 'file_rename_over', 'file_modify', 'mix_file_rename_over', 'mix_newsub',
                        'mix_deep_modify', 'side_file_rename_over', 'side_sub_modify', 'side_dir_rename_away']
        irrelevant_ops = ['other_ext', 'tilde', 'swp', 'zinoma_dir', 'outside', 'dat_rename', 'any_tilde', 'any_swp', 'any_zinoma',
                          'docs_txt', 'file_sibling']
        for opi in range(len(ops) if ops else n_ops):
            seq += 1
            op = ops[opi] if ops else rng.choice(relevant_ops if rng.random() < 0.55 else irrelevant_ops)
            before = (runs('filt'), runs('anyf'), runs('onef'), runs('mixf'), runs('sidef'))
            target = None          # which target must run
            src = os.path.join(d, 'src')
            if op == 'modify':
                open(os.path.join(src, 'a.txt'), 'w').write('a%d\n' % seq); target = 'filt'
            elif op == 'modify_md':
                open(os.path.join(src, 'notes.md'), 'w').write('n%d\n' % seq); target = 'filt'
            elif op == 'modify_docs_md':
                open(os.path.join(d, 'docs', 'guide.md'), 'w').write('g%d\n' % seq); target = 'filt'
            elif op == 'modify_sub':
                open(os.path.join(src, 'sub', 'b.txt'), 'a').write('b%d\n' % seq); target = 'filt'
            elif op == 'create':
                open(os.path.join(src, 'new%d.txt' % seq), 'w').write('n\n'); target = 'filt'
            elif op == 'rename_over':
                tmp = os.path.join(d, 'elsewhere', 'a.%d' % seq)
                open(tmp, 'w').write('a%d\n' % seq)
                os.replace(tmp, os.path.join(src, 'a.txt')); target = 'filt'
            elif op == 'move_in':
                tmp = os.path.join(d, 'elsewhere', 'm%d.txt' % seq)
                open(tmp, 'w').write('m\n')
                os.replace(tmp, os.path.join(src, 'm%d.txt' % seq)); target = 'filt'
            elif op == 'rename_away':
                p = os.path.join(src, 'away%d.txt' % seq)
                open(p, 'w').write('x\n')
                wait_runs('filt', before[0] + 1, 5); quiet(0.6); before = (runs('filt'), runs('anyf'), runs('onef'), runs('mixf'), runs('sidef'))
                os.replace(p, os.path.join(src, 'away%d.bak' % seq)); target = 'filt'
            elif op == 'delete':
                p = os.path.join(src, 'del%d.txt' % seq)
                open(p, 'w').write('x\n')
                wait_runs('filt', before[0] + 1, 5); quiet(0.6); before = (runs('filt'), runs('anyf'), runs('onef'), runs('mixf'), runs('sidef'))
                os.remove(p); target = 'filt'
            elif op == 'nonutf8_then_modify':
                open(os.path.join(src.encode(), b'caf\xe9-\xff\xfe.dat'), 'w').write('x\n')
                quiet(0.6); before = (runs('filt'), runs('anyf'), runs('onef'), runs('mixf'), runs('sidef'))
                open(os.path.join(src, 'a.txt'), 'w').write('a%d\n' % seq); target = 'filt'
            elif op == 'file_modify':
                open(os.path.join(d, 'conf', 'settings.ini'), 'w').write('s%d\n' % seq); target = 'onef'
            elif op == 'file_rename_over':
                # atomic save of the declared file: written elsewhere, renamed over it (a new inode under the declared path)
                tmp = os.path.join(d, 'elsewhere', 's.%d' % seq)
                open(tmp, 'w').write('s%d\n' % seq)
                os.replace(tmp, os.path.join(d, 'conf', 'settings.ini')); target = 'onef'
            elif op == 'mix_file_rename_over':
                tmp = os.path.join(d, 'elsewhere', 'i.%d' % seq)
                open(tmp, 'w').write('i%d\n' % seq)
                os.replace(tmp, os.path.join(d, 'mix', 'inner.cfg')); target = 'mixf'
            elif op == 'mix_newsub':
                # a directory created after watching began, inside the declared directory: its files are inputs too
                os.makedirs(os.path.join(d, 'mix', 'sub%d' % seq))
                wait_runs('mixf', before[3] + 1, 5); quiet(0.6); before = (runs('filt'), runs('anyf'), runs('onef'), runs('mixf'), runs('sidef'))
                open(os.path.join(d, 'mix', 'sub%d' % seq, 'n.cfg'), 'w').write('n\n'); target = 'mixf'
            elif op == 'mix_deep_modify':
                open(os.path.join(d, 'mix', 'deep', 'd.cfg'), 'w').write('d%d\n' % seq); target = 'mixf'
            elif op == 'side_file_rename_over':
                tmp = os.path.join(d, 'elsewhere', 'o.%d' % seq)
                open(tmp, 'w').write('one%d\n' % seq)
                os.replace(tmp, os.path.join(d, 'side', 'one.ini')); target = 'sidef'
            elif op == 'side_sub_modify':
                if os.path.isdir(os.path.join(d, 'side', 'subdir')):
                    open(os.path.join(d, 'side', 'subdir', 'x.ini'), 'w').write('x%d\n' % seq); target = 'sidef'
                else:
                    op = 'side_sub_modify(skipped: directory renamed away earlier)'
            elif op == 'side_dir_rename_away':
                # the declared directory itself is renamed away: its files are no longer inputs
                if os.path.isdir(os.path.join(d, 'side', 'subdir')):
                    os.replace(os.path.join(d, 'side', 'subdir'), os.path.join(d, 'elsewhere', 'subdir%d' % seq)); target = 'sidef'
                else:
                    op = 'side_dir_rename_away(skipped: already done)'
            elif op == 'file_sibling':
                open(os.path.join(d, 'conf', 'other.ini'), 'w').write('o%d\n' % seq)
            elif op == 'any_modify':
                open(os.path.join(d, 'any', 'x'), 'w').write('x%d\n' % seq); target = 'anyf'
            elif op == 'any_create_tmpname_not':
                open(os.path.join(d, 'any', 'y%d.swpx' % seq), 'w').write('y\n'); target = 'anyf'
            elif op == 'any_nonutf8':
                open(os.path.join((d + '/any').encode(), b'\xff\xfe%d' % seq), 'w').write('z\n'); target = 'anyf'
            elif op == 'docs_txt':
                # docs is listed under the [md] filter only: a .txt there is selected by no resource
                open(os.path.join(d, 'docs', 'readme.txt'), 'w').write('r%d\n' % seq)
            elif op == 'other_ext':
                open(os.path.join(src, 'c.dat'), 'w').write('c%d\n' % seq)
            elif op == 'dat_rename':
                tmp = os.path.join(d, 'elsewhere', 'c.%d' % seq)
                open(tmp, 'w').write('c\n'); os.replace(tmp, os.path.join(src, 'c.dat'))
            elif op == 'tilde':
                open(os.path.join(src, 'a.txt~'), 'w').write('t%d\n' % seq)
            elif op == 'swp':
                open(os.path.join(src, '.a.txt.swp'), 'w').write('s%d\n' % seq)
            elif op == 'zinoma_dir':
                os.makedirs(os.path.join(src, '.zinoma'), exist_ok=True)
                open(os.path.join(src, '.zinoma', 'state%d.txt' % seq), 'w').write('z\n')
            elif op == 'outside':
                open(os.path.join(d, 'elsewhere', 'o%d.txt' % seq), 'w').write('o\n')
            elif op == 'any_tilde':
                open(os.path.join(d, 'any', 'x~'), 'w').write('t%d\n' % seq)
            elif op == 'any_swp':
                open(os.path.join(d, 'any', '.x.swx'), 'w').write('t%d\n' % seq)
            elif op == 'any_zinoma':
                os.makedirs(os.path.join(d, 'any', '.zinoma'), exist_ok=True)
                open(os.path.join(d, 'any', '.zinoma', 'w%d' % seq), 'w').write('t\n')
            log.append(op)
            MODELLED = {'file_modify': ('onef', 'M', 'conf/settings.ini'), 'file_rename_over': ('onef', 'R', 'conf/settings.ini'),
                        'mix_file_rename_over': ('mixf', 'R', 'mix/inner.cfg'), 'mix_deep_modify': ('mixf', 'M', 'mix/deep/d.cfg'),
                        'side_file_rename_over': ('sidef', 'R', 'side/one.ini'), 'side_sub_modify': ('sidef', 'M', 'side/subdir/x.ini')}
            if target:
                idx = ['filt', 'anyf', 'onef', 'mixf', 'sidef'].index(target)
                triggered = wait_runs(target, before[idx] + 1, 5)
                if op in MODELLED and not dir_renamed_away:
                    modelled.append((MODELLED[op][0], MODELLED[op][1], MODELLED[op][2], triggered))
                if op.startswith('side_dir_rename_away') and target:
                    dir_renamed_away = True
                if not triggered:
                    V.setdefault('C16', []).append('operation %r (#%d) on a declared input did not trigger %s within 5s (ops so far: %s)'
                                                   % (op, seq, target, log))
                    break
                after = quiet(0.6)
                if any(after[o] != before[o] for o in range(5) if o != idx):
                    V.setdefault('C16', []).append('operation %r (#%d) triggered an unrelated target too: runs %s -> %s'
                                                   % (op, seq, before, after))
            else:
                after = quiet(0.8)
                if after != before:
                    V.setdefault('C16', []).append('irrelevant operation %r (#%d) triggered a run: runs %s -> %s (ops so far: %s)'
                                                   % (op, seq, before, after, log))
        if proc.poll() is not None:
            V.setdefault('C16', []).append('zinoma --watch exited with %s' % proc.returncode)
        obs = {'ops': log, 'runs': (runs('filt'), runs('anyf'), runs('onef'), runs('mixf'), runs('sidef')), 'modelled': modelled}
        return obs, V
    finally:
        try:
            os.killpg(proc.pid, signal.SIGKILL)
        except (ProcessLookupError, PermissionError):
            pass
        try:
            proc.wait(timeout=5)
        except Exception:
            pass
        errf.close()
        vf.sh(['rm', '-rf', d])
