# System-level black-box scenarios on the real binary: generated target graphs, gated scripts, property oracles.
# Used by the engine properties (C01 C04 C07 C08 C10 C11 C17 C20); each property reads only its own verdicts.
import os
import signal
import time
import vf
from slices import blackbox


# ---------------------------------------------------------------------------------------------- graphs

def gen_graph(rng, family=None, n=None):
    """returns (targets, roots): targets = {name: {'kind', 'deps'}}; names t0..; edges go to lower indices (acyclic)"""
    family = family or rng.choice(['random', 'random', 'random', 'chain', 'fan', 'diamond', 'aggchain', 'svc', 'deepreq'])
    T = {}
    if family == 'chain':
        n = n or rng.randint(3, 12)
        for i in range(n):
            T['t%d' % i] = {'kind': 'build', 'deps': ['t%d' % (i - 1)] if i else []}
        roots = ['t%d' % (n - 1)]
    elif family == 'fan':
        n = n or rng.randint(3, 20)
        for i in range(n):
            T['t%d' % i] = {'kind': 'build', 'deps': []}
        T['top'] = {'kind': rng.choice(['build', 'aggregate']), 'deps': ['t%d' % i for i in range(n)]}
        roots = ['top']
    elif family == 'diamond':
        # a -> b -> d  and  a -> c1 -> ... -> ck -> d   (arms of unequal length; the long arm made of aggregates or builds)
        k = n or rng.randint(2, 12)
        armkind = rng.choice(['aggregate', 'aggregate', 'build'])
        T['d'] = {'kind': 'build', 'deps': []}
        T['b'] = {'kind': rng.choice(['build', 'aggregate']), 'deps': ['d']}
        prev = 'd'
        for i in range(k, 0, -1):
            T['c%d' % i] = {'kind': armkind, 'deps': [prev]}
            prev = 'c%d' % i
        T['a'] = {'kind': rng.choice(['build', 'aggregate']), 'deps': ['b', 'c1']}
        roots = ['a']
    elif family == 'aggchain':
        k = n or rng.randint(1, 6)
        T['x'] = {'kind': rng.choice(['build', 'service']), 'deps': []}
        prev = 'x'
        for i in range(k):
            T['g%d' % i] = {'kind': 'aggregate', 'deps': [prev] + (['x'] if rng.random() < 0.3 else [])}
            prev = 'g%d' % i
        T['top'] = {'kind': 'build', 'deps': [prev, 'x'] if rng.random() < 0.5 else [prev]}
        roots = [rng.choice(['top', prev])]
    elif family == 'deepreq':
        # leaves requested explicitly AND through a long chain of aggregates: the chain's request reaches a leaf long after the
        # root's own request — after the leaf finished, or (second invocation) after it was skipped
        k = rng.randint(1, 3)
        for i in range(k):
            T['x%d' % i] = {'kind': 'build', 'deps': []}
        prev = ['x%d' % i for i in range(k)]
        L = n or rng.randint(20, 60)
        for i in range(L, 0, -1):
            T['g%d' % i] = {'kind': 'aggregate', 'deps': prev}
            prev = ['g%d' % i]
        roots = ['x%d' % i for i in range(k)] + ['g1']
        rng.shuffle(roots)
    elif family == 'svc':
        # a service that is both a dependency of a build and possibly requested (D1), services behind aggregates
        T['svc'] = {'kind': 'service', 'deps': []}
        T['lib'] = {'kind': 'build', 'deps': []}
        T['svc2'] = {'kind': 'service', 'deps': ['lib']}
        T['use'] = {'kind': 'build', 'deps': ['svc', 'lib']}
        T['use2'] = {'kind': 'build', 'deps': ['svc2']}
        T['all'] = {'kind': 'aggregate', 'deps': rng.sample(['svc', 'use', 'use2', 'svc2', 'lib'], rng.randint(1, 4))}
        T['empty'] = {'kind': 'aggregate', 'deps': []}
        roots = rng.sample(['svc', 'use', 'use2', 'all', 'lib', 'empty', 'svc2'], rng.randint(1, 3))
    else:
        n = n or rng.randint(2, 9)
        for i in range(n):
            kind = rng.choice(['build', 'build', 'build', 'service', 'aggregate'])
            nd = min(i, rng.choice([0, 1, 1, 2, 3]))
            deps = rng.sample(['t%d' % j for j in range(i)], nd)
            if deps and rng.random() < 0.1:
                deps.append(deps[0])                                  # duplicate entry
            T['t%d' % i] = {'kind': kind, 'deps': deps}
        roots = rng.sample(list(T), rng.randint(1, min(3, n)))
        if rng.random() < 0.15:
            roots.append(roots[0])                                    # duplicate request
    return family, T, roots


def closure(T, roots):
    seen = []
    todo = list(roots)
    while todo:
        t = todo.pop()
        if t in seen:
            continue
        seen.append(t)
        todo += T[t]['deps']
    return set(seen)


def tdeps(T, t):
    return closure(T, T[t]['deps'])


def service_behind(T, t):
    k = T[t]['kind']
    if k == 'service':
        return True
    if k == 'aggregate':
        return any(service_behind(T, d) for d in T[t]['deps'])
    return False


def eff_deps(T, t):
    """dependencies reached directly or through aggregates only (non-aggregate ends)"""
    out = set()
    todo = list(T[t]['deps'])
    seen = set()
    while todo:
        d = todo.pop()
        if d in seen:
            continue
        seen.add(d)
        if T[d]['kind'] == 'aggregate':
            todo += T[d]['deps']
        else:
            out.add(d)
    return out


# ---------------------------------------------------------------------------------------------- one-shot scenario

try:
    PID_MAX = int(open('/proc/sys/kernel/pid_max').read())
except Exception:
    PID_MAX = 32768


def log_before(log, svc, t):
    """does zinoma's log announce the start of service `svc` before the first start of `t`"""
    a = log.find('INFO %s - Starting service' % svc)
    cands = [x for x in (log.find('INFO %s - Building' % t), log.find('INFO %s - Starting service' % t)) if x >= 0]
    return a >= 0 and (not cands or a < min(cands))


def spawned_before(p1, p2):
    """was the process with pid p1 forked before the one with pid p2 (few forks apart; pids wrap at pid_max)"""
    if p1 is None or p2 is None:
        return False
    return 0 < (p2 - p1) % PID_MAX < PID_MAX // 2


def oneshot(rng, T, roots, fail=(), gated=True, tag='os', cap=None, hang_s=None, with_inputs=True, second_run=True, pre_args=(), hold_s=0.0,
            implied_p=0.3, implied_edges=None, prefer=None, implied_keep_p=None):
    """Runs `zinoma <roots>` once. Returns (obs, verdicts): verdicts = {property_id: [text, ...]} for violated properties."""
    d = vf.scratch_dir(tag)
    spec = {}
    if not isinstance(fail, dict):
        fail = {t: 1 for t in fail}
    for t, s in T.items():
        spec[t] = {'kind': s['kind'], 'deps': s['deps'], 'gated': gated and s['kind'] == 'build',
                   'status': fail.get(t, 0)}
        if s['kind'] == 'build' and with_inputs:
            os.makedirs(os.path.join(d, 'in', t), exist_ok=True)
            with open(os.path.join(d, 'in', t, 'src.txt'), 'w') as f:
                f.write('input of %s\n' % t)
            spec[t]['input'] = ['paths: [in/%s]' % t]
    # some build -> build dependencies are declared through `X.output` in the input instead of (or next to) `dependencies`:
    # the edge is the same for the engine (C01); X then declares an output file that its script writes
    implied = []
    if with_inputs:
        for t, s in T.items():
            if s['kind'] != 'build':
                continue
            for dd in list(dict.fromkeys(s['deps'])):
                chosen = ([t, dd] in [list(e) for e in implied_edges]) if implied_edges is not None else (rng.random() < implied_p)
                if T[dd]['kind'] == 'build' and chosen:
                    spec[dd]['output'] = ['paths: [out/%s.txt]' % dd]
                    spec[dd]['effect'] = 'mkdir -p out; cat in/%s/src.txt > out/%s.txt' % (dd, dd)      # output = a copy of its own input
                    spec[t]['input'] = spec[t].get('input', []) + ['%s.output' % dd]
                    if (rng.random() >= implied_keep_p) if implied_keep_p is not None else (implied_p >= 1.0 or implied_edges is not None or rng.random() < 0.7):
                        spec[t]['deps'] = [x for x in spec[t]['deps'] if x != dd]      # the edge exists through the input only
                    implied.append((t, dd))
    proj = blackbox.Project(d, spec)
    # recorded state of targets outside the closure must never be touched (C08): plant a file for each
    clo0 = closure(T, roots)
    planted = {}
    os.makedirs(os.path.join(d, '.zinoma'), exist_ok=True)
    for t in T:
        if t not in clo0:
            pth = os.path.join(d, '.zinoma', t + '.checksums')
            with open(pth, 'wb') as f:
                f.write(b'planted-' + t.encode())
            planted[t] = pth
    env = {}
    if cap:
        env['ZINOMA_VERIF_CAP'] = str(cap)
    run = blackbox.Run(proj, list(pre_args) + list(roots), env=env)
    V = {}

    def bad(prop, text):
        V.setdefault(prop, []).append(text)

    try:
        if gated:
            outcome = blackbox.drive_to_end(run, rng, fail=fail, hang_s=hang_s, hold_s=hold_s, prefer=prefer)
        else:
            outcome = 'exited' if run.wait_exit(hang_s or blackbox.HANG_S) else ('alive-idle' if run.idle_for(1.0) else 'hung')
        tr = run.trace()
        clo = closure(T, roots)
        starts = {}
        pos_start = {}
        pos_end_ok = {}
        failed = set()
        for i, (k, t, x) in enumerate(tr):
            if k == 'start':
                starts[t] = starts.get(t, 0) + 1
                pos_start.setdefault(t, i)
            elif k == 'end':
                if x == '0':
                    pos_end_ok.setdefault(t, i)
                else:
                    failed.add(t)
        blocked = {t for t in clo if tdeps(T, t) & failed}
        keepalive = any(service_behind(T, r) for r in roots)
        # C01: every start after the success of each effective dependency. A build is ready when its script has written its
        # `end 0` line (before it exits).  A service is ready when zinoma has spawned it: its shell writes the start line a
        # little later, so when the two start lines appear in the other order the spawn order decides, read from the pids of
        # the two shells (allocated sequentially at fork; compared modulo pid_max).
        pid_first = {}
        for (k, t, x) in tr:
            if k == 'start' and t not in pid_first and x.isdigit():
                pid_first[t] = int(x)
        for t, i in pos_start.items():
            for dd in eff_deps(T, t):
                if T[dd]['kind'] == 'build':
                    j = pos_end_ok.get(dd)
                    early = j is None or j > i
                else:
                    j = pos_start.get(dd)
                    if j is None:
                        # the service shell never wrote its line (zinoma exited and killed it first): the trace cannot tell;
                        # fall back on zinoma's own log, where a spawn is announced before the dependent's start
                        early = not log_before(run.stderr(), dd, t)
                    elif j < i:
                        early = False
                    else:
                        early = not spawned_before(pid_first.get(dd), pid_first.get(t))
                if early:
                    bad('C01', '%s started before its dependency %s was ready' % (t, dd))
        # C08: nothing twice, nothing outside the closure
        for t, n in starts.items():
            if n > 1:
                bad('C08', '%s executed %d times in one one-shot run' % (t, n))
            if t not in clo:
                bad('C08', '%s is outside the closure of the requested targets but was executed' % t)
        # ... "executed or skipped exactly once": a second pass over a target that declares inputs is found Not Modified and
        # does not run the script again — zinoma's own log tells (one `Building` or `Build skipped` line per pass)
        log1 = run.stderr()
        for t in T:
            if T[t]['kind'] != 'build':
                continue
            passes = log1.count(' %s - Building\n' % t) + log1.count(' %s - Build skipped' % t)
            if passes > 1:
                bad('C08', '%s was gone through %d times in one one-shot run (zinoma log: %d x Building, %d x Build skipped)'
                    % (t, passes, log1.count(' %s - Building\n' % t), log1.count(' %s - Build skipped' % t)))
        for t, pth in planted.items():
            try:
                okp = open(pth, 'rb').read() == b'planted-' + t.encode()
            except FileNotFoundError:
                okp = False
            if not okp:
                bad('C08', 'recorded state of %s (outside the closure) was touched' % t)
        # C07: no dependent of a failed target starts; failure => non-zero exit naming a failing target
        for t in starts:
            if tdeps(T, t) & failed:
                bad('C07', '%s started although its dependency %s failed' % (t, sorted(tdeps(T, t) & failed)))
        err = run.stderr()
        if failed:
            if outcome != 'exited':
                bad('C07', 'a target failed (%s) but zinoma did not exit' % sorted(failed))
                bad('C04', 'one-shot run with a failed target never terminated')
            elif run.exit_code == 0:
                bad('C07', 'a target failed (%s) but the exit status is 0' % sorted(failed))
            elif not any(('target %s' % f) in err for f in failed):
                bad('C07', 'non-zero exit does not name a failing target (failed: %s)' % sorted(failed))
        else:
            needed = {t for t in clo if T[t]['kind'] != 'aggregate'}
            missing = sorted(t for t in needed if starts.get(t, 0) == 0)
            if keepalive:
                if outcome == 'exited':
                    bad('C11', 'a service was requested (directly or through an aggregate) but zinoma exited (status %s)' % run.exit_code)
                elif missing:
                    bad('C04', 'idle forever: needed targets never ran: %s' % missing)
                    bad('C08', 'successful run did not execute needed targets: %s' % missing)
            else:
                if outcome != 'exited':
                    bad('C04', 'one-shot run did not terminate (all scripts ended, process idle %.0fs); never ran: %s'
                        % (hang_s or blackbox.HANG_S, missing))
                    if missing:
                        bad('C08', 'needed targets never ran: %s' % missing)
                    if any(T[t]['kind'] == 'service' for t in clo):
                        pass
                else:
                    if run.exit_code != 0:
                        bad('C04', 'all builds succeeded but exit status is %s' % run.exit_code)
                    if missing:
                        bad('C08', 'exit 0 but needed targets never ran: %s' % missing)
        # nothing the first invocation spawned may outlive it (C10/C11) — judged now, before a second invocation touches the gates
        def judge_leftover():
            left = [x for x in run.leftover()]
            if run.poll() is not None and left:
                # give the kernel a moment to finish reaping (positive wait, bounded)
                t0 = time.time()
                while left and time.time() - t0 < 2:
                    time.sleep(0.02)
                    left = run.leftover()
                if left:
                    bad('C10', 'processes left behind after exit: %s' % left)
                    if any(T.get(t, {}).get('kind') == 'service' for t, _, _ in left):
                        bad('C11', 'a service that was only a dependency is still running after zinoma exited (status %s): %s'
                            % (run.exit_code, left))
        judged = False
        if run.poll() is not None:
            judge_leftover()
            judged = True
        # second invocation on the untouched tree: what completed is skipped (C03), what failed or was killed runs again (C05, C02)
        second = None
        if second_run and with_inputs and outcome == 'exited' and not keepalive:
            n1 = len(tr)
            run2 = blackbox.Run(proj, list(roots), env=env)
            try:
                if gated:
                    o2 = blackbox.drive_to_end(run2, rng, fail={}, hang_s=hang_s)
                else:
                    # the scripts carry their first-run status: a failing one fails again, that is fine here
                    o2 = 'exited' if run2.wait_exit(hang_s or blackbox.HANG_S) else 'hung'
                tr2 = run2.trace()[n1:]
                started2 = {t for k, t, _ in tr2 if k == 'start'}
                ok1 = {t for t in pos_end_ok}
                for t in sorted(started2 & ok1):
                    if T[t]['kind'] == 'build':
                        bad('C03', '%s completed in the first run, nothing was touched, yet its script ran again in the second run' % t)
                err2 = run2.stderr()
                for t in sorted(failed):
                    # the second run stops at the FIRST script that fails again (gated or not: a script that kills itself does so again);
                    # a sibling that did not complete in the first run may then never be started — excused unless zinoma says it
                    # skipped it
                    aborted_by_other = (run2.exit_code not in (0, None) and
                                        any(k == 'end' and x != t and x in failed and st != '0' for k, x, st in tr2))
                    skipped_t = (' %s - Build skipped' % t) in err2
                    if t in clo and t not in started2 and not (tdeps(T, t) & (failed - started2)) and \
                            (skipped_t or not aborted_by_other):
                        bad('C05', '%s did not complete in the first run (status %s) but the second run did not run its script again'
                            % (t, fail.get(t)))
                        bad('C02', '%s was skipped in the second run although it never ran to successful completion' % t)
                if o2 != 'exited':
                    bad('C04', 'the second invocation on the untouched tree did not terminate (first one exited with status %s); '
                               'scripts started in it: %s' % (run.exit_code, sorted(started2)))
                elif not failed and run2.exit_code != 0:
                    bad('C04', 'second invocation on the untouched tree: every build had succeeded, exit status %s' % run2.exit_code)
                second = {'outcome': o2, 'exit_code': run2.exit_code, 'trace': tr2}
            finally:
                run2.kill(skip_first=n1)       # the shells of the FIRST invocation are judged below: leave them alone
        # third invocation after ONE change: the input of a producer is edited, so its script runs again and rewrites its output
        # with new content; every consumer that inherits that output through `X.output` must run again (C02), whether or not it
        # also lists X under `dependencies`
        if second is not None and implied and not failed and second.get('outcome') == 'exited':
            x = rng.choice(sorted({dd for _, dd in implied}))
            with open(os.path.join(d, 'in', x, 'src.txt'), 'a') as f:
                f.write('edited\n')
            n2 = len(run.trace())
            run3 = blackbox.Run(proj, list(roots), env=env)
            try:
                if gated:
                    o3 = blackbox.drive_to_end(run3, rng, fail={}, hang_s=hang_s)
                else:
                    o3 = 'exited' if run3.wait_exit(hang_s or blackbox.HANG_S) else 'hung'
                tr3 = run3.trace()[n2:]
                started3 = {t for k, t, _ in tr3 if k == 'start'}
                if x in clo and x not in started3:
                    bad('C02', 'the input of %s was edited but its script did not run in the next invocation' % x)
                for (t, dd) in implied:
                    if dd == x and t in clo and x in started3 and t not in started3:
                        bad('C02', '%s inherits %s.output; %s ran again and rewrote its output with new content, yet %s was skipped'
                            % (t, x, x, t))
                second['after_edit_of'] = x
                second['third_run_trace'] = tr3
                if o3 != 'exited':
                    bad('C04', 'the invocation after an edit did not terminate')
            finally:
                run3.kill(skip_first=n1 if False else 0)
        # shutdown (C10/C11): stop it if still alive, then nothing of ours may be left
        t_sig = None
        if run.poll() is None:
            t_sig = time.time()
            run.signal(signal.SIGINT)
            if not run.wait_exit(8):
                bad('C10', 'SIGINT not honoured within 8s')
        if not judged:
            judge_leftover()
        obs = {'outcome': outcome, 'exit_code': run.exit_code, 'trace': tr, 'roots': list(roots), 'fail': {t: fail[t] for t in sorted(fail)},
               'dependencies_declared_through_X.output': implied,
               'targets': T, 'gated': gated, 'with_inputs': with_inputs, 'stderr_tail': err[-600:], 'keepalive_expected': keepalive,
               'exit_latency_after_signal': (run.exit_time - t_sig) if (t_sig and run.exit_time) else None,
               'second_run': second, 'pre_args': list(pre_args)}
        return obs, V
    finally:
        run.kill()
        proj.close()
        vf.sh(['rm', '-rf', d])


# ---------------------------------------------------------------------------------------------- signal scenarios (C10)

EXIT_BOUND_S = 3.0          # measured exit latency after a signal: ~5 ms, whatever the scripts are doing


def signal_scenario(rng, T, roots, when, sig, tag='sg', watch=False):
    """Starts zinoma on gated builds, sends `sig` at the chosen moment, checks prompt exit and no process left."""
    d = vf.scratch_dir(tag)
    spec = {t: {'kind': s['kind'], 'deps': s['deps'], 'gated': s['kind'] == 'build'} for t, s in T.items()}
    proj = blackbox.Project(d, spec)
    run = blackbox.Run(proj, (['--watch'] if watch else []) + list(roots))
    V = {}

    def bad(prop, text):
        V.setdefault(prop, []).append(text)
    try:
        clo = closure(T, roots)
        nbuilds = len([t for t in clo if T[t]['kind'] == 'build'])
        if when == 'immediately':
            pass
        elif when == 'first_start':
            run.wait_trace(lambda tr: len(tr) >= 1, 5)
        elif when == 'all_blocked':
            # release nothing: wait until no new start appears for a moment (all startable scripts are blocked on their gate)
            run.wait_trace(lambda tr: len(tr) >= 1, 5)
            run.idle_for(0.3)
        elif when == 'between':
            # let some builds finish, signal right after a release (between dependent builds)
            k = rng.randint(1, max(1, nbuilds))
            for _ in range(k):
                if not run.wait_trace(lambda tr: bool(run.pending()), 3):
                    break
                p = run.pending()
                if not p:
                    break
                run.release(rng.choice(sorted(p)), 0)
        elif when == 'after_done':
            blackbox.drive_to_end(run, rng, hang_s=0.5)
        if run.poll() is None:
            t0 = time.time()
            run.signal(sig)
            if not run.wait_exit(EXIT_BOUND_S):
                bad('C10', '%s sent %s (%d start lines so far): no exit within %.0fs although the measured latency is ~5ms'
                    % (signal.Signals(sig).name, when, len(run.trace()), EXIT_BOUND_S))
            lat = time.time() - t0
        else:
            lat = None
        if run.poll() is not None:
            left = run.leftover()
            t0 = time.time()
            while left and time.time() - t0 < 2:
                time.sleep(0.02)
                left = run.leftover()
            if left:
                bad('C10', 'after %s %s zinoma exited but these script/service shells are still there: %s'
                    % (signal.Signals(sig).name, when, left))
        obs = {'targets': T, 'roots': list(roots), 'when': when, 'signal': signal.Signals(sig).name, 'latency_s': lat,
               'exit_code': run.exit_code, 'trace': run.trace(), 'watch': watch}
        return obs, V
    finally:
        run.kill()
        proj.close()
        vf.sh(['rm', '-rf', d])


# ---------------------------------------------------------------------------------------------- change mid-build, then signal (C10)

def watch_signal_midbuild(rng, tag='wm'):
    """`zinoma --watch`: the input of a build (or of its producer) changes while the build script is in progress, possibly
    several times; then SIGINT/SIGTERM arrives while that script (and whatever zinoma started since) is still running.
    zinoma must exit promptly and every shell it spawned must be gone."""
    chain = rng.random() < 0.5
    T = {'t': {'kind': 'build', 'deps': ['p'] if chain else []}}
    if chain:
        T['p'] = {'kind': 'build', 'deps': []}
    d = vf.scratch_dir(tag)
    spec = {}
    for t, s_ in T.items():
        os.makedirs(os.path.join(d, 'in', t), exist_ok=True)
        with open(os.path.join(d, 'in', t, 'src.txt'), 'w') as f:
            f.write('v0 of %s\n' % t)
        spec[t] = {'kind': 'build', 'deps': s_['deps'], 'gated': True, 'input': ['paths: [in/%s]' % t]}
    proj = blackbox.Project(d, spec)
    run = blackbox.Run(proj, ['--watch', 't'])
    V = {}
    sig = rng.choice([signal.SIGINT, signal.SIGTERM])
    nchanges = rng.choice([1, 1, 2, 3])
    try:
        if chain:
            run.wait_trace(lambda tr: any(k == 'start' and t == 'p' for k, t, _ in tr), 8)
            run.release('p', 0)
        got = run.wait_trace(lambda tr: any(k == 'start' and t == 't' for k, t, _ in tr), 8)
        if got:
            for i in range(nchanges):
                which = rng.choice(['t', 'p']) if chain else 't'
                with open(os.path.join(d, 'in', which, 'src.txt'), 'w') as f:
                    f.write('v%d of %s\n' % (i + 1, which))
                time.sleep(rng.choice([0.05, 0.15, 0.3]))
        t0 = time.time()
        run.signal(sig)
        if not run.wait_exit(EXIT_BOUND_S):
            V.setdefault('C10', []).append('%s while a build was in progress whose input had just changed (%d change(s)): no exit within '
                                           '%.0fs' % (signal.Signals(sig).name, nchanges, EXIT_BOUND_S))
        lat = time.time() - t0
        if run.poll() is not None:
            left = run.leftover()
            t1 = time.time()
            while left and time.time() - t1 < 2:
                time.sleep(0.02)
                left = run.leftover()
            if left:
                V.setdefault('C10', []).append('watch mode, input changed %d time(s) while the build script ran, then %s: zinoma exited '
                                               'but these script shells are still there: %s' % (nchanges, signal.Signals(sig).name, left))
        obs = {'targets': T, 'roots': ['t'], 'when': 'mid-build after %d change(s)' % nchanges, 'signal': signal.Signals(sig).name,
               'latency_s': lat, 'exit_code': run.exit_code, 'trace': run.trace(), 'watch': True}
        return obs, V
    finally:
        run.kill()
        proj.close()
        vf.sh(['rm', '-rf', d])


# ---------------------------------------------------------------------------------------------- rendezvous (C17)

def rendezvous(rng, k, tag='rv', with_noise=True):
    """k mutually independent gated builds under one aggregate/build top; all of them must be in progress at the same
    time (every one blocked on its gate) before any is released. A running service and a long unrelated build alongside."""
    T = {}
    order = list(range(k))
    rng.shuffle(order)
    for i in order:
        T['p%d' % i] = {'kind': 'build', 'deps': ['lib'] if (with_noise and i % 2) else []}
    if with_noise:
        T['lib'] = {'kind': 'build', 'deps': []}
        T['svc'] = {'kind': 'service', 'deps': []}
        T['slow'] = {'kind': 'build', 'deps': ['svc']}
        # a service that is a dependency next to a build that stays blocked: it must be started without waiting for it
        T['backend'] = {'kind': 'service', 'deps': []}
        deps = ['p0', 'backend']
        rng.shuffle(deps)
        T['e2e'] = {'kind': 'build', 'deps': deps}
    tops = ['p%d' % i for i in order]
    rng.shuffle(tops)
    T['top'] = {'kind': rng.choice(['aggregate', 'build']), 'deps': tops}
    roots = ['top'] + (['slow', 'e2e'] if with_noise else [])
    rng.shuffle(roots)
    d = vf.scratch_dir(tag)
    spec = {t: {'kind': s['kind'], 'deps': s['deps'], 'gated': s['kind'] == 'build'} for t, s in T.items()}
    # most builds declare an input of their own (the incremental layer computes and records their state around the script:
    # nothing in it may make independent builds take turns); a few declare none
    for t, s in T.items():
        if s['kind'] == 'build' and rng.random() < 0.8:
            os.makedirs(os.path.join(d, 'in', t), exist_ok=True)
            with open(os.path.join(d, 'in', t, 'src.txt'), 'w') as f:
                f.write('input of %s\n' % t)
            spec[t]['input'] = ['paths: [in/%s]' % t]
    proj = blackbox.Project(d, spec)
    run = blackbox.Run(proj, roots)
    V = {}
    try:
        # lib must finish first for the odd ones; slow stays blocked for the whole scenario (never released before the end)
        def all_in_progress(tr):
            started = {t for kx, t, _ in tr if kx == 'start'}
            return all(('p%d' % i) in started for i in range(k)) and (not with_noise or 'backend' in started)
        t0 = time.time()
        released_lib = False
        ok = False
        while time.time() - t0 < 20:
            pend = run.pending()
            if 'lib' in pend and not released_lib:
                run.release('lib', 0)
                released_lib = True
            if all_in_progress(run.trace()):
                ok = True
                break
            if run.poll() is not None:
                break
            time.sleep(0.005)
        tr = run.trace()
        if not ok:
            started = sorted({t for kx, t, _ in tr if kx == 'start'})
            V.setdefault('C17', []).append(
                '%d independent builds (and the service `backend`, a dependency of e2e next to the still-blocked build p0) never '
                'were in progress together while none of them was released and an unrelated build (slow) and a service were '
                'running; started so far: %s' % (k, started))
        obs = {'targets': T, 'roots': roots, 'k': k, 'trace': tr, 'all_in_progress': ok, 'wait_s': round(time.time() - t0, 3)}
        return obs, V
    finally:
        run.kill()
        proj.close()
        vf.sh(['rm', '-rf', d])


# ---------------------------------------------------------------------------------------------- service lifetime (C11)

def service_scenario(rng, T, roots, tag='sv'):
    """One-shot run; records for every dependent build whether its service dependencies were alive while it was in progress,
    whether zinoma stays alive exactly when a service is behind a requested target, and that services die with zinoma."""
    d = vf.scratch_dir(tag)
    spec = {t: {'kind': s['kind'], 'deps': s['deps'], 'gated': s['kind'] == 'build'} for t, s in T.items()}
    proj = blackbox.Project(d, spec)
    run = blackbox.Run(proj, list(roots))
    V = {}

    def bad(text):
        V.setdefault('C11', []).append(text)
    try:
        t0 = time.time()
        checked = 0
        while time.time() - t0 < 60:
            if run.poll() is not None:
                break
            pend = run.pending()
            if pend:
                tr = run.trace()
                pids = {}
                for kx, t, pid in tr:
                    if kx == 'start' and T[t]['kind'] == 'service':
                        pids.setdefault(t, []).append(int(pid))
                for b in pend:
                    for sdep in eff_deps(T, b):
                        if T[sdep]['kind'] == 'service':
                            if not pids.get(sdep):
                                # the service's shell writes its start line a little after zinoma spawned it (the dependent's
                                # shell, spawned later, may write first): give the line a moment before judging
                                t1 = time.time()
                                while time.time() - t1 < 2.0 and not pids.get(sdep):
                                    time.sleep(0.01)
                                    for kx, t, pid in run.trace():
                                        if kx == 'start' and t == sdep and int(pid) not in pids.get(sdep, []):
                                            pids.setdefault(sdep, []).append(int(pid))
                            alive = [p for p in pids.get(sdep, []) if blackbox.proc_state(p) not in (None, 'Z')]
                            checked += 1
                            if len(alive) != 1:
                                bad('build %s is in progress but its service dependency %s has %d live instances (pids %s)'
                                    % (b, sdep, len(alive), pids.get(sdep)))
                run.release(rng.choice(sorted(pend)), 0)
                continue
            if run.idle_for(0.4) and not run.pending():
                break
        keepalive = any(service_behind(T, r) for r in roots)
        alive_now = run.poll() is None
        if keepalive and not alive_now:
            bad('a service is requested (roots %s) but zinoma exited with status %s' % (roots, run.exit_code))
        if not keepalive:
            if alive_now and not run.wait_exit(blackbox.HANG_S):
                bad('no service is behind the requested targets %s but zinoma stays alive after the builds' % roots)
        if keepalive and alive_now:
            # every requested service instance must be alive while zinoma waits
            tr = run.trace()
            for kx, t, pid in tr:
                if kx == 'start' and T[t]['kind'] == 'service' and blackbox.proc_state(int(pid)) in (None, 'Z'):
                    bad('service %s (pid %s) is not alive while zinoma waits for a termination signal' % (t, pid))
            run.signal(signal.SIGTERM)
            if not run.wait_exit(EXIT_BOUND_S):
                V.setdefault('C10', []).append('SIGTERM while services run: no exit within %.0fs' % EXIT_BOUND_S)
        if run.poll() is not None:
            left = run.leftover()
            t1 = time.time()
            while left and time.time() - t1 < 2:
                time.sleep(0.02)
                left = run.leftover()
            if left:
                bad('services/scripts left running after zinoma exited: %s' % left)
                V.setdefault('C10', []).append('processes left behind: %s' % left)
        n_inst = {}
        for kx, t, pid in run.trace():
            if kx == 'start' and T[t]['kind'] == 'service':
                n_inst[t] = n_inst.get(t, 0) + 1
        for t, n in n_inst.items():
            if n > 1:
                bad('service %s was started %d times in a one-shot run' % (t, n))
        obs = {'targets': T, 'roots': list(roots), 'trace': run.trace(), 'keepalive_expected': keepalive,
               'alive_after_builds': alive_now, 'exit_code': run.exit_code, 'liveness_checks': checked}
        return obs, V
    finally:
        run.kill()
        proj.close()
        vf.sh(['rm', '-rf', d])


# ---------------------------------------------------------------------------------------------- aggregate = its dependencies (C20)

def aggregate_pair(rng, T, G, fail=(), tag='ag', hold_s=0.0):
    """Metamorphic pair on one graph: request the aggregate G vs request its dependencies."""
    res = []
    for roots in ([G], list(dict.fromkeys(T[G]['deps']))):
        if not roots:
            # an empty aggregate vs "nothing requested": compare with the trivially successful empty run
            res.append({'started': set(), 'exit_code': 0, 'outcome': 'exited', 'keepalive': False, 'roots': []})
            continue
        r = __import__('random').Random(rng.getrandbits(32))
        obs, V = oneshot(r, T, roots, fail=fail, gated=True, tag=tag, hang_s=2.0, hold_s=hold_s, second_run=False)
        started = {t for k, t, _ in obs['trace'] if k == 'start'}
        res.append({'started': started, 'exit_code': obs['exit_code'] if obs['outcome'] == 'exited' else None,
                    'outcome': obs['outcome'], 'keepalive': obs['outcome'] != 'exited', 'roots': roots, 'V': V,
                    'trace': obs['trace'], 'failed': {t for k, t, x in obs['trace'] if k == 'end' and x != '0'}})
    a, b = res
    V = {}
    texts = []
    # with failures the set of started scripts may legitimately differ by timing (independent targets keep running until
    # shutdown); compare the scripts only for successful runs, the exit status class and the liveness always
    if not fail:
        if a['started'] != b['started']:
            texts.append('scripts run differ: requesting %s ran %s, requesting its dependencies %s ran %s'
                         % (G, sorted(a['started']), b['roots'], sorted(b['started'])))
    ea = None if a['exit_code'] is None else (a['exit_code'] != 0)
    eb = None if b['exit_code'] is None else (b['exit_code'] != 0)
    if ea != eb:
        texts.append('exit status differs: %s -> %s (%s), dependencies %s -> %s (%s)'
                     % (G, a['exit_code'], a['outcome'], b['roots'], b['exit_code'], b['outcome']))
    if a['keepalive'] != b['keepalive']:
        texts.append('liveness differs: %s keeps zinoma alive: %s; its dependencies: %s' % (G, a['keepalive'], b['keepalive']))
    flat = None
    if not texts and not fail and a['outcome'] != 'exited' and not service_behind(T, G):
        # both requests end the same way, but not by exiting although no service is behind G: "nesting aggregates does not change
        # this" — compare with requesting the builds behind G directly (aggregates unfolded all the way down)
        def unfold(t, seen):
            if t in seen:
                return []
            seen.add(t)
            if T[t]['kind'] != 'aggregate':
                return [t]
            out = []
            for x in T[t]['deps']:
                out += unfold(x, seen)
            return out
        lv = list(dict.fromkeys(unfold(G, set())))
        if lv:
            r = __import__('random').Random(rng.getrandbits(32))
            obs3, _V3 = oneshot(r, T, lv, fail=fail, gated=True, tag=tag, hang_s=2.0, hold_s=hold_s, second_run=False)
            flat = {'roots': lv, 'outcome': obs3['outcome'], 'exit_code': obs3['exit_code']}
            if obs3['outcome'] == 'exited':
                texts.append('nesting changes the outcome: requesting %s -> %s (never exits, no service behind it); requesting the '
                             'targets behind it %s -> exited with status %s' % (G, a['outcome'], lv, obs3['exit_code']))
    if texts:
        V['C20'] = texts
    obs = {'targets': T, 'aggregate': G, 'fail': sorted(fail), 'requesting_unfolded': flat,
           'requesting_aggregate': {k: (sorted(v) if isinstance(v, set) else v) for k, v in a.items() if k not in ('V',)},
           'requesting_dependencies': {k: (sorted(v) if isinstance(v, set) else v) for k, v in b.items() if k not in ('V',)}}
    return obs, V


def probe_starvation(rng, tag='ps'):
    """more slow `cmd_stdout` input probes than executor threads, next to an unrelated chain of quick builds: the chain must not
    wait for the probes (C17: nothing waits for a non-dependency, however long it takes)"""
    import multiprocessing
    n = multiprocessing.cpu_count() + 2
    d = vf.scratch_dir(tag)
    trace = os.path.join(d, 'trace')
    open(trace, 'w').close()
    lines = ['targets:']
    for i in range(n):
        lines += ['  probe%d:' % i, '    input:', '      - cmd_stdout: sleep 3; echo v%d' % i, '    build: "true"']
    prev = None
    for i in range(3):
        lines += ['  quick%d:' % i] + (['    dependencies: [%s]' % prev] if prev else []) + \
                 ['    build: echo "end quick%d $(date +%%s.%%N)" >> %s' % (i, trace)]
        prev = 'quick%d' % i
    with open(os.path.join(d, 'zinoma.yml'), 'w') as f:
        f.write('\n'.join(lines) + '\n')
    e = dict(os.environ)
    e.pop('ZINOMA_VERIF', None)
    import subprocess
    t0 = time.time()
    proc = subprocess.Popen([vf.ZINOMA] + ['probe%d' % i for i in range(n)] + ['quick2'], cwd=d, env=e,
                            stdout=subprocess.DEVNULL, stderr=subprocess.DEVNULL, start_new_session=True,
                            preexec_fn=vf.reset_signals)
    V = {}
    done_at = None
    try:
        while time.time() - t0 < 20:
            txt = open(trace).read()
            if 'end quick2' in txt:
                done_at = time.time() - t0
                break
            if proc.poll() is not None:
                break
            time.sleep(0.01)
        if done_at is None or done_at > 2.0:
            V['C17'] = ['an unrelated chain of three quick builds finished after %s s while %d slow input probes (3 s each) were '
                        'being evaluated; it normally takes ~0.1 s' % ('%.2f' % done_at if done_at else '>20', n)]
        return {'probes': n, 'quick_chain_done_s': done_at}, V
    finally:
        try:
            os.killpg(proc.pid, signal.SIGKILL)
        except (ProcessLookupError, PermissionError):
            pass
        try:
            proc.wait(timeout=5)
        except Exception:
            pass
        vf.sh(['rm', '-rf', d])
