# System-level black-box scenarios on the real binary: generated target graphs, gated scripts, property oracles.
# Used by the engine properties (C01 C04 C07 C08 C10 C11 C17 C20); each property reads only its own verdicts.
import os
import signal
import time
import vf
from slices import blackbox


# ---------------------------------------------------------------------------------------------- graphs

def gen_graph(rng, family=None, n=None):
    """returns (targets, roots): targets = {name: {'kind', 'deps'}}; names t0..; edges go to lower indices (acyclic)"""
    family = family or rng.choice(['random', 'random', 'random', 'chain', 'fan', 'diamond', 'aggchain', 'svc'])
    T = {}
    if family == 'chain':
        n = n or rng.randint(3, 12)
        for i in range(n):
            T['t%d' % i] = {'kind': 'build', 'deps': ['t%d' % (i - 1)] if i else []}
        roots = ['t%d' % (n - 1)]
    elif family == 'fan':
        n = n or rng.randint(3, 20)
        for i in range(n):
            T['t%d' % i] = {'kind': 'build', 'deps': []}
        T['top'] = {'kind': rng.choice(['build', 'aggregate']), 'deps': ['t%d' % i for i in range(n)]}
        roots = ['top']
    elif family == 'diamond':
        # a -> b -> d  and  a -> c1 -> ... -> ck -> d   (arms of unequal length; the long arm made of aggregates or builds)
        k = n or rng.randint(2, 12)
        armkind = rng.choice(['aggregate', 'aggregate', 'build'])
        T['d'] = {'kind': 'build', 'deps': []}
        T['b'] = {'kind': rng.choice(['build', 'aggregate']), 'deps': ['d']}
        prev = 'd'
        for i in range(k, 0, -1):
            T['c%d' % i] = {'kind': armkind, 'deps': [prev]}
            prev = 'c%d' % i
        T['a'] = {'kind': rng.choice(['build', 'aggregate']), 'deps': ['b', 'c1']}
        roots = ['a']
    elif family == 'aggchain':
        k = n or rng.randint(1, 6)
        T['x'] = {'kind': rng.choice(['build', 'service']), 'deps': []}
        prev = 'x'
        for i in range(k):
            T['g%d' % i] = {'kind': 'aggregate', 'deps': [prev] + (['x'] if rng.random() < 0.3 else [])}
            prev = 'g%d' % i
        T['top'] = {'kind': 'build', 'deps': [prev, 'x'] if rng.random() < 0.5 else [prev]}
        roots = [rng.choice(['top', prev])]
    elif family == 'svc':
        # a service that is both a dependency of a build and possibly requested (D1), services behind aggregates
        T['svc'] = {'kind': 'service', 'deps': []}
        T['lib'] = {'kind': 'build', 'deps': []}
        T['svc2'] = {'kind': 'service', 'deps': ['lib']}
        T['use'] = {'kind': 'build', 'deps': ['svc', 'lib']}
        T['use2'] = {'kind': 'build', 'deps': ['svc2']}
        T['all'] = {'kind': 'aggregate', 'deps': rng.sample(['svc', 'use', 'use2', 'svc2', 'lib'], rng.randint(1, 4))}
        T['empty'] = {'kind': 'aggregate', 'deps': []}
        roots = rng.sample(['svc', 'use', 'use2', 'all', 'lib', 'empty', 'svc2'], rng.randint(1, 3))
    else:
        n = n or rng.randint(2, 9)
        for i in range(n):
            kind = rng.choice(['build', 'build', 'build', 'service', 'aggregate'])
            nd = min(i, rng.choice([0, 1, 1, 2, 3]))
            deps = rng.sample(['t%d' % j for j in range(i)], nd)
            if deps and rng.random() < 0.1:
                deps.append(deps[0])                                  # duplicate entry
            T['t%d' % i] = {'kind': kind, 'deps': deps}
        roots = rng.sample(list(T), rng.randint(1, min(3, n)))
        if rng.random() < 0.15:
            roots.append(roots[0])                                    # duplicate request
    return family, T, roots


def closure(T, roots):
    seen = []
    todo = list(roots)
    while todo:
        t = todo.pop()
        if t in seen:
            continue
        seen.append(t)
        todo += T[t]['deps']
    return set(seen)


def tdeps(T, t):
    return closure(T, T[t]['deps'])


def service_behind(T, t):
    k = T[t]['kind']
    if k == 'service':
        return True
    if k == 'aggregate':
        return any(service_behind(T, d) for d in T[t]['deps'])
    return False


def eff_deps(T, t):
    """dependencies reached directly or through aggregates only (non-aggregate ends)"""
    out = set()
    todo = list(T[t]['deps'])
    seen = set()
    while todo:
        d = todo.pop()
        if d in seen:
            continue
        seen.add(d)
        if T[d]['kind'] == 'aggregate':
            todo += T[d]['deps']
        else:
            out.add(d)
    return out


# ---------------------------------------------------------------------------------------------- one-shot scenario

def oneshot(rng, T, roots, fail=(), gated=True, tag='os', cap=None, hang_s=None):
    """Runs `zinoma <roots>` once. Returns (obs, verdicts): verdicts = {property_id: [text, ...]} for violated properties."""
    d = vf.scratch_dir(tag)
    spec = {}
    for t, s in T.items():
        spec[t] = {'kind': s['kind'], 'deps': s['deps'], 'gated': gated and s['kind'] == 'build',
                   'status': 1 if t in fail else 0}
    proj = blackbox.Project(d, spec)
    # recorded state of targets outside the closure must never be touched (C08): plant a file for each
    clo0 = closure(T, roots)
    planted = {}
    os.makedirs(os.path.join(d, '.zinoma'), exist_ok=True)
    for t in T:
        if t not in clo0:
            pth = os.path.join(d, '.zinoma', t + '.checksums')
            with open(pth, 'wb') as f:
                f.write(b'planted-' + t.encode())
            planted[t] = pth
    env = {}
    if cap:
        env['ZINOMA_VERIF_CAP'] = str(cap)
    run = blackbox.Run(proj, list(roots), env=env)
    V = {}

    def bad(prop, text):
        V.setdefault(prop, []).append(text)

    try:
        if gated:
            outcome = blackbox.drive_to_end(run, rng, fail=fail, hang_s=hang_s)
        else:
            outcome = 'exited' if run.wait_exit(hang_s or blackbox.HANG_S) else ('alive-idle' if run.idle_for(1.0) else 'hung')
        tr = run.trace()
        clo = closure(T, roots)
        starts = {}
        pos_start = {}
        pos_end_ok = {}
        failed = set()
        for i, (k, t, x) in enumerate(tr):
            if k == 'start':
                starts[t] = starts.get(t, 0) + 1
                pos_start.setdefault(t, i)
            elif k == 'end':
                if x == '0':
                    pos_end_ok.setdefault(t, i)
                else:
                    failed.add(t)
        blocked = {t for t in clo if tdeps(T, t) & failed}
        keepalive = any(service_behind(T, r) for r in roots)
        # C01: every start after the success of each effective dependency (build: end 0; service: its start line)
        for t, i in pos_start.items():
            for dd in eff_deps(T, t):
                j = pos_end_ok.get(dd) if T[dd]['kind'] == 'build' else pos_start.get(dd)
                if j is None or j > i:
                    bad('C01', '%s started before its dependency %s was ready' % (t, dd))
        # C08: nothing twice, nothing outside the closure
        for t, n in starts.items():
            if n > 1:
                bad('C08', '%s executed %d times in one one-shot run' % (t, n))
            if t not in clo:
                bad('C08', '%s is outside the closure of the requested targets but was executed' % t)
        for t, pth in planted.items():
            try:
                okp = open(pth, 'rb').read() == b'planted-' + t.encode()
            except FileNotFoundError:
                okp = False
            if not okp:
                bad('C08', 'recorded state of %s (outside the closure) was touched' % t)
        # C07: no dependent of a failed target starts; failure => non-zero exit naming a failing target
        for t in starts:
            if tdeps(T, t) & failed:
                bad('C07', '%s started although its dependency %s failed' % (t, sorted(tdeps(T, t) & failed)))
        err = run.stderr()
        if failed:
            if outcome != 'exited':
                bad('C07', 'a target failed (%s) but zinoma did not exit' % sorted(failed))
                bad('C04', 'one-shot run with a failed target never terminated')
            elif run.exit_code == 0:
                bad('C07', 'a target failed (%s) but the exit status is 0' % sorted(failed))
            elif not any(('target %s' % f) in err for f in failed):
                bad('C07', 'non-zero exit does not name a failing target (failed: %s)' % sorted(failed))
        else:
            needed = {t for t in clo if T[t]['kind'] != 'aggregate'}
            missing = sorted(t for t in needed if starts.get(t, 0) == 0)
            if keepalive:
                if outcome == 'exited':
                    bad('C11', 'a service was requested (directly or through an aggregate) but zinoma exited (status %s)' % run.exit_code)
                elif missing:
                    bad('C04', 'idle forever: needed targets never ran: %s' % missing)
                    bad('C08', 'successful run did not execute needed targets: %s' % missing)
            else:
                if outcome != 'exited':
                    bad('C04', 'one-shot run did not terminate (all scripts ended, process idle %.0fs); never ran: %s'
                        % (hang_s or blackbox.HANG_S, missing))
                    if missing:
                        bad('C08', 'needed targets never ran: %s' % missing)
                    if any(T[t]['kind'] == 'service' for t in clo):
                        pass
                else:
                    if run.exit_code != 0:
                        bad('C04', 'all builds succeeded but exit status is %s' % run.exit_code)
                    if missing:
                        bad('C08', 'exit 0 but needed targets never ran: %s' % missing)
        # shutdown (C10/C11): stop it if still alive, then nothing of ours may be left
        t_sig = None
        if run.poll() is None:
            t_sig = time.time()
            run.signal(signal.SIGINT)
            if not run.wait_exit(8):
                bad('C10', 'SIGINT not honoured within 8s')
        left = [x for x in run.leftover()]
        if run.poll() is not None and left:
            # give the kernel a moment to finish reaping (positive wait, bounded)
            t0 = time.time()
            while left and time.time() - t0 < 2:
                time.sleep(0.02)
                left = run.leftover()
            if left:
                bad('C10', 'processes left behind after exit: %s' % left)
        obs = {'outcome': outcome, 'exit_code': run.exit_code, 'trace': tr, 'roots': list(roots), 'fail': sorted(fail),
               'targets': T, 'gated': gated, 'stderr_tail': err[-600:], 'keepalive_expected': keepalive,
               'exit_latency_after_signal': (run.exit_time - t_sig) if (t_sig and run.exit_time) else None}
        return obs, V
    finally:
        run.kill()
        proj.close()
        vf.sh(['rm', '-rf', d])
