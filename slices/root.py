# Root-loop correspondence: the REAL engine::run (request_target + execute_once / watch) driven in-process with a scripted
# sequence of actor outputs and termination events (harness/m_root.rs) vs the root part of Sys.exec (LRoot, LRootIdle,
# LSignal, LRootSignal) evaluated by the extracted runner (runner/drv_root.ml).  Compared after every event: has `run`
# returned, with which status (Ok / the failing target), and what the actors emitted after a forwarded message.
import concurrent.futures
import os
import re
import vf

CORPUS = [
    # (watch, roots, pool, events)
    (0, [1, 2], [1, 2, 3], ['Rt/Ok:B:1:0', 'Rt/Ok:S:1:1', 'Rt/Ok:B:2:0', 'Fw/3/Rq:B:1', 'Rt/Ok:S:2:0', 'TM']),   # keep-alive
    (0, [1], [1, 2], ['Er/1', 'Rt/Ok:B:1:0']),                                                                # failure
    (1, [1], [1, 2], ['Er/1', 'Rt/Ok:B:1:0', 'Rt/Ok:S:1:0', 'Fw/2/Rq:S:1', 'TM', 'Fw/2/Rq:B:1']),                # watch
    (0, [1, 1], [1], ['Rt/Ok:B:1:1', 'Rt/Ok:S:1:0', 'Rt/Ok:B:1:0']),                                          # duplicate root
    (0, [1, 2], [1, 2], ['Rt/Ok:S:1:0', 'Rt/Ok:S:2:0', 'Rt/Ok:B:2:1', 'Rt/Ok:B:1:1']),                       # builds last
    (0, [1], [1, 2], ['Rt/Ok:B:2:0', 'Rt/Ok:S:2:1', 'Rt/Ok:B:1:0', 'Rt/Ok:S:1:0']),                          # foreign acks
    (0, [1], [1], ['Rt/Ok:S:1:1', 'Rt/Ok:B:1:1', 'Rt/Ok:B:1:1', 'TM']),                                       # both kinds actual (aggregate root)
    (0, [1], [1], ['TM', 'Rt/Ok:B:1:0']),                                                                    # signal first
    (0, [1], [1], ['Rt/Ok:S:1:1', 'Rt/Ok:B:1:0', 'Er/1', 'TM']),                                             # error while kept alive
    (0, [1, 2], [1, 2], ['Rt/Ok:S:1:1', 'Rt/Iv:S:1', 'Rt/Ok:B:1:0', 'Rt/Ok:B:2:0', 'Rt/Ok:S:2:0', 'TM']),   # invalidation ignored
]


def gen_case(rng):
    watch = 1 if rng.random() < 0.25 else 0
    pool = sorted(rng.sample(range(1, 7), rng.choice([1, 2, 3, 4])))
    roots = [rng.choice(pool) for _ in range(rng.choice([1, 1, 2, 2, 3]))]
    if rng.random() < 0.8:
        roots = list(dict.fromkeys(roots))
    ev = []
    # guided part: acknowledge the roots in a random order (sometimes incompletely), noise in between
    acks = [(k, r) for r in dict.fromkeys(roots) for k in 'BS']
    rng.shuffle(acks)
    if rng.random() < 0.3:
        acks = acks[:rng.randrange(len(acks) + 1)]
    svc_actual = rng.random() < 0.5
    for (k, r) in acks:
        while rng.random() < 0.35:
            ev.append(noise(rng, pool, roots))
        # builds acknowledge with actual = true; an aggregate acknowledges a kind with actual = whether something of that kind is behind it
        actual = (rng.random() < 0.6) if (k == 'S' and svc_actual) else (rng.random() < (0.7 if k == 'B' else 0.1))
        ev.append('Rt/Ok:%s:%d:%d' % (k, r, 1 if actual else 0))
    for _ in range(rng.choice([0, 1, 2, 3])):
        ev.append(noise(rng, pool, roots))
    if rng.random() < 0.6:
        ev.insert(rng.randrange(len(ev) + 1), 'TM')
    if rng.random() < 0.25:
        ev.insert(rng.randrange(len(ev) + 1), 'Er/%d' % rng.choice(pool))
    if not ev:
        ev = ['TM']
    return watch, roots, pool, ev[:16]


def noise(rng, pool, roots):
    c = rng.random()
    x = rng.choice(pool)
    y = rng.choice(pool)
    k = rng.choice('BS')
    if c < 0.35:
        return 'Fw/%d/Rq:%s:%d' % (x, k, y)
    if c < 0.45:
        return 'Fw/%d/Ok:%s:%d:%d' % (x, k, y, rng.randrange(2))
    if c < 0.6:
        return 'Rt/Ok:%s:%d:%d' % (k, x, rng.randrange(2))       # possibly not a root, possibly a repeat
    if c < 0.7:
        return 'Rt/Iv:%s:%d' % (k, x)
    if c < 0.8:
        return 'Rt/Rq:%s:%d' % (k, x)
    if c < 0.9:
        return 'Fw/%d/Rq:%s:R' % (x, k)
    return 'Rt/Un:%s:%d' % (k, x)


def case_line(cid, watch, roots, pool, events):
    return 'R %s %d %s %s %s' % (cid, watch, ','.join(map(str, roots)), ','.join(map(str, pool)), ' '.join(events))


def strip_hint(r):
    return re.sub(r' hint=\S+', '', r)


def run(ck, n_cases, shards=8, project=None, what='run status and relayed outputs'):
    """returns the list of differences (dicts); counts cases into ck"""
    d = vf.scratch_dir('root_' + ck.prop)
    cases = {}
    i = 0
    for c in CORPUS:
        cases['r%d' % i] = (c[0], list(c[1]), list(c[2]), list(c[3]))
        i += 1
    for _ in range(n_cases):
        cases['r%d' % i] = gen_case(ck.rng)
        i += 1
    mf = os.path.join(d, 'model_cases.txt')
    with open(mf, 'w') as f:
        for cid, (w, roots, pool, ev) in cases.items():
            f.write(case_line(cid, w, roots, pool, ev) + '\n')
    model = vf.by_id(vf.run_model('root', mf))
    hinted = {}
    expected = {}
    for cid, (w, roots, pool, ev) in cases.items():
        res = model[cid].split('|')
        hs = []
        for e, r in zip(ev, res[1:1 + len(ev)]):
            m = re.search(r'hint=(\S+)', r)
            hs.append('%s@%s' % (e, m.group(1) if m else 'n-0'))
        hinted[cid] = hs
        expected[cid] = [strip_hint(r) for r in res]
    ids = list(cases.keys())
    files = []
    for s in range(shards):
        sf = os.path.join(d, 'impl_cases_%d.txt' % s)
        with open(sf, 'w') as f:
            for cid in ids[s::shards]:
                w, roots, pool, ev = cases[cid]
                f.write(case_line(cid, w, roots, pool, hinted[cid]) + '\n')
        files.append(sf)
    impl = {}
    with concurrent.futures.ThreadPoolExecutor(max_workers=shards) as ex:
        for rc, lines, err in ex.map(lambda sf: vf.run_impl('root', sf, timeout=1800), files):
            impl.update(vf.by_id(lines))
    ck.rule('root: the real engine::run (request_target, execute_once / watch) fed in-process with scripted actor outputs '
            '(acknowledgements for requested and foreign ids, both kinds, actual or not, repeats; messages the root ignores; '
            'messages to forward to real aggregate actors; execution errors) and termination events, 25% watch mode, duplicate '
            'requested ids; vs the root steps of Sys.exec; compared after every event: whether run has returned and with which '
            'status, what the relayed-to actors emitted; non-trivial = distinct (mode, roots, events); projection: ' + what)
    diffs = []
    for cid in ids:
        w, roots, pool, ev = cases[cid]
        exp = expected[cid]
        got = impl.get(cid, 'MISSING').split('|')
        ck.count(('root', w, tuple(roots), tuple(ev)), sample={'watch': w, 'requested': roots, 'events': ev, 'model': exp[:5]})
        ck.tally('root:mode=' + ('watch' if w else 'oneshot'))
        ck.tally('root:final=' + exp[-1].split(' ')[0].split('=')[1].split(':')[0])
        for e in ev:
            ck.tally('root:ev=' + e.split('/')[0] + ('' if '/' not in e else ':' + e.split('/')[-1].split(':')[0]))
        for j in range(len(exp)):
            m = exp[j]
            r = got[j] if j < len(got) else 'MISSING'
            pm, pr = (project(m), project(r)) if project else (m, r)
            if pm != pr:
                diffs.append({'case': case_line(cid, w, roots, pool, ev), 'position': j,
                              'event': (['(initial requests)'] + ev + ['(end)'])[j],
                              'model': m, 'implementation': r,
                              'replay': 'ZINOMA_VERIF=root with the hinted line: ' + case_line(cid, w, roots, pool, hinted[cid])})
                break
    vf.sh(['rm', '-rf', d])
    return diffs


def status_only(r):
    """projection: only whether/how run returned"""
    m = re.match(r'(run|final)=(\S+)', r)
    return m.group(2) if m else r


def report(ck, diffs, correspondence='Sys.exec root steps vs the real engine::run'):
    if diffs:
        ck.violation({'kind': 'correspondence', 'correspondence': correspondence, 'difference': diffs[0],
                      'n_differences': len(diffs)}, found_input=False)
