# Actor-level correspondence: ONE real target actor (harness/m_actor.rs) against Actor.actor_step (runner/drv_actor.ml)
# on generated event sequences.  Used by C01 C04 C06 C07 C08 C10 C11 C17 C20, each with its own projection of the result.
import os
import re
import concurrent.futures
import vf

DEPS = [1, 2, 3]
REQS = ['R', '7', '8', '9']
KINDS = ['B', 'S']


def gen_case(rng, kind, guided):
    """returns (deps, spawn_ok, events)"""
    nd = rng.choice([0, 1, 1, 2, 2, 3])
    deps = [rng.choice(DEPS) for _ in range(nd)]            # duplicates possible (dependency + X.output)
    spawn_ok = 0 if (kind == 'S' and rng.random() < 0.12) else 1
    if kind == 'B' and rng.random() < 0.15:
        spawn_ok = 2            # skip mode: every execution ends `Skipped (Not Modified)` by itself
    ev = []
    own = [k for k in KINDS] if kind == 'G' else [kind]

    def rnd_event():
        r = rng.random()
        k = rng.choice(KINDS)
        if r < 0.22:
            return 'Rq:%s:%s' % (rng.choice(own + [k]), rng.choice(REQS))
        if r < 0.27:
            return 'Un:%s:%s' % (k, rng.choice(REQS))
        if r < 0.55:
            d = rng.choice(deps) if deps and rng.random() < 0.9 else rng.choice([1, 2, 3, 5])
            return 'Ok:%s:%d:%d' % (k, d, rng.choice([0, 1]))
        if r < 0.68:
            d = rng.choice(deps) if deps and rng.random() < 0.9 else rng.choice([1, 2, 3, 5])
            return 'Iv:%s:%d' % (k, d)
        if r < 0.78 and kind != 'G':
            return 'IN'
        if r < 0.97 and kind == 'B':
            return 'BD:%s' % rng.choice(['C', 'C', 'C', 'F'])
        if r < 0.985:
            return 'TM'
        return 'Rq:%s:%s' % (rng.choice(own), rng.choice(REQS))

    if guided:
        # a plausible life: requested, dependencies acknowledge (both kinds) in random order, then noise
        ev.append('Rq:%s:%s' % (rng.choice(own), rng.choice(REQS)))
        if kind == 'G' and rng.random() < 0.7:
            ev.append('Rq:%s:%s' % (rng.choice(KINDS), rng.choice(REQS)))
        acks = [(k, d) for d in set(deps) for k in KINDS]
        rng.shuffle(acks)
        for (k, d) in acks:
            if rng.random() < 0.25:
                ev.append(rnd_event())
            ev.append('Ok:%s:%d:%d' % (k, d, rng.choice([0, 1, 1])))
        for _ in range(rng.randint(0, 8)):
            ev.append(rnd_event())
    else:
        for _ in range(rng.randint(1, 14)):
            ev.append(rnd_event())
    if 'TM' in ev:
        ev = ev[:ev.index('TM') + 1]
    else:
        ev.append('TM')
    return deps, spawn_ok, ev


CORPUS = [
    # late requester after completion (D1/D2 at actor level), invalidation in flight, failure, cancellation
    ('B', [1], 1, ['Rq:B:R', 'Ok:B:1:1', 'Ok:S:1:0', 'BD:C', 'Rq:B:7', 'Rq:S:7', 'TM']),
    ('B', [1, 2], 1, ['Rq:B:R', 'Ok:B:1:1', 'Ok:S:1:0', 'Ok:B:2:1', 'Ok:S:2:0', 'IN', 'BD:C', 'BD:C', 'Rq:B:7', 'TM']),
    ('B', [], 1, ['Rq:B:R', 'BD:F', 'Rq:B:3', 'TM']),
    # skip mode (the execution ends `Skipped (Not Modified)`): a late requester is acknowledged all the same; invalidation re-runs
    ('B', [], 2, ['Rq:B:R', 'Rq:B:7', 'Rq:S:7', 'TM']),
    ('B', [1], 2, ['Rq:B:R', 'Ok:B:1:1', 'Ok:S:1:0', 'Rq:B:7', 'IN', 'Rq:B:5', 'Iv:B:1', 'Ok:B:1:1', 'TM']),
    ('B', [], 1, ['Rq:B:R', 'TM']),
    ('B', [1], 1, ['Rq:B:R', 'Ok:B:1:1', 'Ok:S:1:1', 'Iv:B:1', 'BD:C', 'Ok:B:1:1', 'BD:C', 'TM']),
    ('B', [1], 1, ['Rq:B:R', 'Ok:B:1:1', 'Ok:S:1:1', 'Iv:S:1', 'BD:C', 'TM']),
    ('S', [1], 1, ['Rq:S:R', 'Rq:B:R', 'Ok:B:1:1', 'Ok:S:1:1', 'Iv:B:1', 'Ok:B:1:1', 'Rq:S:5', 'TM']),
    ('S', [], 0, ['Rq:S:R', 'TM']),
    ('S', [], 1, ['Rq:S:R', 'IN', 'IN', 'Rq:S:7', 'Un:S:R', 'Un:S:7', 'TM']),
    ('G', [1, 2], 1, ['Rq:B:R', 'Rq:S:R', 'Ok:B:1:1', 'Ok:B:2:0', 'Ok:S:1:0', 'Ok:S:2:0', 'Rq:B:9', 'Iv:B:2', 'Ok:B:2:0', 'TM']),
    ('G', [], 1, ['Rq:B:R', 'Rq:S:R', 'Rq:B:7', 'TM']),
    # an out-of-date word from a dependency (either kind) keeps the target from (re)starting until the next Ok
    ('B', [1], 1, ['Rq:B:R', 'Ok:B:1:1', 'Ok:S:1:1', 'BD:C', 'Iv:S:1', 'IN', 'Ok:S:1:1', 'BD:C', 'TM']),
    ('B', [1], 1, ['Rq:B:R', 'Ok:B:1:1', 'Ok:S:1:1', 'BD:C', 'Iv:B:1', 'IN', 'Ok:B:1:1', 'BD:C', 'TM']),
    ('B', [1, 2], 1, ['Rq:B:R', 'Ok:B:1:1', 'Ok:S:1:1', 'Ok:B:2:1', 'Iv:S:1', 'Ok:S:2:0', 'Ok:S:1:1', 'BD:F', 'IN', 'TM']),
    ('S', [1], 1, ['Rq:S:R', 'Ok:B:1:1', 'Ok:S:1:1', 'Iv:S:1', 'IN', 'Ok:S:1:1', 'Iv:B:1', 'Ok:B:1:0', 'TM']),
    ('S', [1], 0, ['Rq:S:R', 'Ok:B:1:1', 'Ok:S:1:1', 'IN', 'Rq:S:7', 'TM']),
    # a run invalidated in flight is not acknowledged; a failed run stays failed until invalidated
    ('B', [], 1, ['Rq:B:R', 'IN', 'BD:C', 'BD:C', 'Rq:B:7', 'TM']),
    ('B', [], 1, ['Rq:B:R', 'BD:F', 'IN', 'BD:C', 'Rq:B:7', 'TM']),
    ('B', [1], 1, ['Rq:B:R', 'Rq:B:7', 'Ok:B:1:1', 'Ok:S:1:0', 'Iv:B:1', 'BD:C', 'Ok:B:1:1', 'BD:F', 'Un:B:R', 'Un:B:7', 'TM']),
    ('G', [1, 2], 1, ['Rq:S:R', 'Ok:S:1:1', 'Ok:S:2:0', 'Rq:S:7', 'Iv:S:2', 'Ok:S:2:1', 'Iv:S:1', 'Iv:S:2', 'Ok:S:1:0', 'Ok:S:2:0', 'TM']),
    ('G', [1, 1], 1, ['Rq:S:R', 'Ok:S:1:1', 'Rq:S:8', 'Iv:S:1', 'Iv:S:1', 'Ok:S:1:0', 'TM']),
]


def case_line(cid, kind, deps, spawn_ok, events):
    return 'A %s %s %s %d %s' % (cid, kind, ','.join(map(str, deps)) if deps else '-', spawn_ok, ' '.join(events))


def run(ck, n_cases, project=None, late_ack=True, shards=12, what='full result'):
    """Generates cases, runs model then implementation, compares per event (after `project`).
    Returns list of (case, event_index, model_result, impl_result) differences."""
    d = vf.scratch_dir('actor_' + ck.prop)
    cases = {}
    i = 0
    for (kind, deps, sp, ev) in CORPUS:
        cases['k%d' % i] = (kind, deps, sp, list(ev))
        i += 1
    for _ in range(n_cases):
        kind = ck.rng.choice(['B', 'B', 'S', 'G'])
        deps, sp, ev = gen_case(ck.rng, kind, ck.rng.random() < 0.65)
        cases['k%d' % i] = (kind, deps, sp, ev)
        i += 1
    # pass 1: model (drops events the model state does not accept)
    mf = os.path.join(d, 'model_cases.txt')
    with open(mf, 'w') as f:
        for cid, (kind, deps, sp, ev) in cases.items():
            f.write(case_line(cid, kind, deps, sp, ev) + '\n')
    os.environ['LATE_ACK'] = '1' if late_ack else '0'
    model = vf.by_id(vf.run_model('actor', mf))
    final = {}
    expected = {}
    for cid, (kind, deps, sp, ev) in cases.items():
        line = model[cid]
        bds = None
        if ' #bd=' in line:
            line, b = line.split(' #bd=')
            bds = [int(x) for x in b.split(',')] if b else []
        res = line.split('|')
        kept = [(e, r, (bds[j] if bds else 0)) for j, (e, r) in enumerate(zip(ev, res)) if r != '-']
        hinted = []
        for e, r, nbd in kept:
            nout = 0 if r.startswith('out=[]') else r[len('out=['):r.index(']')].count(',') + 1
            nstart = int(re.search(r'starts=(\d+)', r).group(1))
            hinted.append('%s@%d,%d,%d' % (e, nout, nstart, nbd))
        kept = [(e, r) for e, r, _ in kept]
        final[cid] = (kind, deps, sp, [e for e, _ in kept], hinted)
        expected[cid] = [r for _, r in kept]
    # pass 2: implementation, sharded
    ids = list(final.keys())
    shard_files = []
    for s in range(shards):
        sf = os.path.join(d, 'impl_cases_%d.txt' % s)
        with open(sf, 'w') as f:
            for cid in ids[s::shards]:
                kind, deps, sp, ev, hinted = final[cid]
                if hinted:
                    f.write(case_line(cid, kind, deps, sp, hinted) + '\n')
        shard_files.append(sf)

    def one(sf):
        return vf.run_impl('actor', sf, env={'ZINOMA_VERIF_SCRATCH': os.path.join(d, 'run_' + os.path.basename(sf))},
                           timeout=1800)
    impl = {}
    with concurrent.futures.ThreadPoolExecutor(max_workers=shards) as ex:
        for rc, lines, err in ex.map(one, shard_files):
            impl.update(vf.by_id(lines))
    diffs = []
    ck.rule('actor: one real target actor (launch_target_actor, real channels, gated /bin/sh scripts) vs Actor.actor_step on '
            'generated event sequences (65% guided lives, 35% random soup, corpus first; deps<=3 with duplicates, 4 requesters, '
            'spawn failure for services); compared per event: sorted outputs, cumulative script starts, live processes, zombies, '
            'exit; non-trivial = distinct (kind, deps, events) with at least one output or start; projection: ' + what)
    for cid in ids:
        kind, deps, sp, ev, hinted = final[cid]
        if not ev:
            continue
        exp = expected[cid]
        got = impl.get(cid, 'MISSING').split('|')
        nontrivial = any(not r.startswith('out=[] starts=0') for r in exp)
        ck.count(('actor', kind, tuple(deps), sp, tuple(ev)), nontrivial=nontrivial,
                 sample={'actor': kind, 'deps': deps, 'spawn_ok': sp, 'events': ev, 'model': exp[:4]})
        ck.tally('actor:kind=' + kind)
        for e in ev:
            ck.tally('actor:ev=' + e.split(':')[0])
        for j in range(len(ev)):
            m = exp[j]
            r = got[j] if j < len(got) else 'MISSING'
            pm, pr = (project(m), project(r)) if project else (m, r)
            if pm != pr:
                diffs.append({'case': case_line(cid, kind, deps, sp, ev), 'event_index': j, 'event': ev[j],
                              'model': m, 'implementation': r, 'projected_model': pm, 'projected_implementation': pr,
                              'replay': 'ZINOMA_VERIF=actor with the hinted line: ' + case_line(cid, kind, deps, sp, hinted)})
                break
    vf.sh(['rm', '-rf', d])
    return diffs


# ---- projections (per property: only what its theorems mention) ----

def fields(r):
    m = re.match(r'out=\[(.*?)\] starts=(\d+) alive=(\d+) zombies=(\d+) exited=(\d)(.*)', r)
    if not m:
        return None
    outs = m.group(1).split(',') if m.group(1) else []
    return {'outs': outs, 'starts': int(m.group(2)), 'alive': int(m.group(3)), 'zombies': int(m.group(4)),
            'exited': int(m.group(5)), 'notes': m.group(6).strip()}


def proj(keep_out=None, keys=('starts',)):
    def p(r):
        f = fields(r)
        if f is None:
            return r
        outs = [o for o in f['outs'] if keep_out is None or keep_out(o)]
        return (tuple(outs),) + tuple(f[k] for k in keys) + ((f['notes'],) if f['notes'] else ())
    return p
