# Black-box runs of the real zinoma binary on generated projects with gated scripts.
# The harness decides when each build script finishes and with which status (FIFO gates), sends signals, and reads a trace
# file that every script appends to.  No verdict depends on a short sleep: "happened" facts come from the trace; "did not
# happen" (hang) verdicts need the process to stay idle for HANG_S seconds (>= 100x the measured latency) after every
# started script has ended.
import os
import re
import signal
import subprocess
import time
import vf

HANG_S = float(os.environ.get('VERIF_HANG_S', '6'))


class Project:
    def __init__(self, d, targets, name=None):
        """targets: {name: {'kind': 'build'|'service'|'aggregate', 'deps': [...], 'gated': bool, 'status': int,
                            'input': [yaml items], 'output': [yaml items], 'script': override}}"""
        self.dir = d
        self.targets = targets
        self.trace = os.path.join(d, 'trace')
        self.gates = os.path.join(d, 'gates')
        os.makedirs(self.gates, exist_ok=True)
        open(self.trace, 'w').close()
        self.gate_fd = {}
        lines = []
        if name:
            lines.append('name: %s' % name)
        lines.append('targets:')
        for t, spec in targets.items():
            lines.append('  %s:' % t)
            deps = spec.get('deps', [])
            kind = spec.get('kind', 'build')
            if deps or kind == 'aggregate':
                lines.append('    dependencies: [%s]' % ', '.join(deps))
            if kind == 'build':
                lines.append('    build: |')
                for l in self.build_script(t, spec).split('\n'):
                    lines.append('      ' + l)
            elif kind == 'service':
                lines.append('    service: |')
                for l in self.service_script(t, spec).split('\n'):
                    lines.append('      ' + l)
            for key in ('input', 'output'):
                if spec.get(key):
                    lines.append('    %s:' % key)
                    for item in spec[key]:
                        lines.append('      - ' + item)
        with open(os.path.join(d, 'zinoma.yml'), 'w') as f:
            f.write('\n'.join(lines) + '\n')

    def build_script(self, t, spec):
        """a status is an exit code (int) or 'K<signal number>': the shell kills itself with that signal"""
        if spec.get('script'):
            return spec['script'].replace('$TRACE', self.trace)
        tail = ('echo "end %s $x" >> %s\ncase "$x" in K*) kill -${x#K} $$; sleep 5;; *) exit $x;; esac' % (t, self.trace))
        if spec.get('gated'):
            g = os.path.join(self.gates, t)
            if not os.path.exists(g):
                os.mkfifo(g)
            # keep the FIFO open read-write on our side: releases never block and are never lost
            self.gate_fd[t] = os.open(g, os.O_RDWR)
            return ('echo "start %s $$" >> %s\nexec 3<>%s\nread x <&3\n%s\n%s'
                    % (t, self.trace, g, spec.get('effect', ':'), tail))
        st = spec.get('status', 0)
        return ('echo "start %s $$" >> %s\n%s\nx=%s\n%s' % (t, self.trace, spec.get('effect', ':'), st, tail))

    def service_script(self, t, spec):
        if spec.get('script'):
            return spec['script'].replace('$TRACE', self.trace)
        if spec.get('status', 0) != 0:
            return 'cd /nonexistent-dir-for-spawn-failure'        # exits at once (service failures are not watched)
        return 'echo "start %s $$" >> %s\nexec sleep 100000' % (t, self.trace)

    def release(self, t, status=0):
        os.write(self.gate_fd[t], ('%s\n' % status).encode())

    def read_trace(self):
        out = []
        try:
            for l in open(self.trace).read().splitlines():
                f = l.split()
                if len(f) >= 3 and f[0] in ('start', 'end'):
                    out.append((f[0], f[1], f[2]))
        except FileNotFoundError:
            pass
        return out

    def close(self):
        for fd in self.gate_fd.values():
            try:
                os.close(fd)
            except OSError:
                pass
        self.gate_fd = {}


def proc_state(pid):
    try:
        s = open('/proc/%d/stat' % pid).read()
        return s.rsplit(') ', 1)[1][0]
    except (FileNotFoundError, ProcessLookupError, IndexError):
        return None


class Run:
    """One invocation of the real binary; the caller drives it with step()/release()/signal()."""

    def __init__(self, project, args, env=None, cwd=None):
        self.p = project
        self.args = args
        e = dict(os.environ)
        e.pop('ZINOMA_VERIF', None)
        e['RUST_BACKTRACE'] = '0'
        if env:
            e.update(env)
        self.errf = open(os.path.join(project.dir, 'stderr.%d' % int(time.time() * 1e6)), 'w+')
        self.proc = subprocess.Popen([vf.ZINOMA] + args, cwd=cwd or project.dir, env=e, stdout=self.errf,
                                     stderr=subprocess.STDOUT, start_new_session=True, preexec_fn=vf.reset_signals)
        self.t0 = time.time()
        self.released = {}
        self.exit_code = None
        self.exit_time = None

    def poll(self):
        rc = self.proc.poll()
        if rc is not None and self.exit_code is None:
            self.exit_code = rc
            self.exit_time = time.time()
        return rc

    def trace(self):
        return self.p.read_trace()

    def pending(self):
        """gated builds that started and were not released yet (a target may start several times in watch mode)"""
        tr = self.trace()
        starts = {}
        for k, t, _ in tr:
            if k == 'start' and self.p.targets.get(t, {}).get('gated'):
                starts[t] = starts.get(t, 0) + 1
        return [t for t, n in starts.items() if n > self.released.get(t, 0)]

    def release(self, t, status=0):
        self.released[t] = self.released.get(t, 0) + 1
        self.p.release(t, status)

    def running_scripts(self):
        """script shells that started and have not ended, by pid still alive"""
        tr = self.trace()
        ended = {}
        for k, t, _ in tr:
            if k == 'end':
                ended[t] = ended.get(t, 0) + 1
        alive = []
        seen = {}
        for k, t, pid in tr:
            if k == 'start':
                seen[t] = seen.get(t, 0) + 1
                st = proc_state(int(pid))
                if st is not None and st != 'Z':
                    alive.append((t, int(pid)))
        return alive

    def wait_exit(self, timeout):
        t0 = time.time()
        while time.time() - t0 < timeout:
            if self.poll() is not None:
                return True
            time.sleep(0.005)
        return self.poll() is not None

    def wait_trace(self, pred, timeout):
        """waits until pred(trace) holds; returns whether it did"""
        t0 = time.time()
        while time.time() - t0 < timeout:
            if pred(self.trace()):
                return True
            if self.poll() is not None:
                return pred(self.trace())
            time.sleep(0.003)
        return pred(self.trace())

    def idle_for(self, seconds):
        """True when the process stayed alive with an unchanged trace and no live build script for `seconds`"""
        last = self.trace()
        t0 = time.time()
        while time.time() - t0 < seconds:
            time.sleep(0.05)
            if self.poll() is not None:
                return False
            cur = self.trace()
            if cur != last:
                last = cur
                t0 = time.time()
        return True

    def signal(self, sig=signal.SIGINT):
        try:
            os.kill(self.proc.pid, sig)
        except ProcessLookupError:
            pass

    def stderr(self):
        self.errf.flush()
        self.errf.seek(0)
        return self.errf.read()

    def kill(self, skip_first=0):
        """forcible clean-up of the whole session (never part of a verdict); skip_first: number of leading trace lines that
        belong to an earlier invocation on the same project and must be left alone (its leftovers are still to be judged)"""
        try:
            os.killpg(self.proc.pid, signal.SIGKILL)
        except (ProcessLookupError, PermissionError):
            pass
        try:
            self.proc.wait(timeout=5)
        except Exception:
            pass
        for k, t, pid in self.trace()[skip_first:]:
            if k == 'start':
                try:
                    os.kill(int(pid), signal.SIGKILL)
                except (ProcessLookupError, PermissionError, ValueError):
                    pass
        self.errf.close()

    def leftover(self):
        """script shells of this run still alive (not zombie-reaped children of init are reported as well)"""
        out = []
        seen = set()
        for k, t, pid in self.trace():
            if k == 'start':
                st = proc_state(int(pid))
                if st is not None:
                    out.append((t, int(pid), st))
                    seen.add(int(pid))
        # ... and whatever else is left of zinoma's session (zinoma is started as a session leader; scripts and services are
        # its descendants): a shell that was spawned but had not written its start line yet is found this way
        try:
            for d in os.listdir('/proc'):
                if d.isdigit() and int(d) != self.proc.pid and int(d) not in seen:
                    try:
                        st = open('/proc/%s/stat' % d).read()
                        f = st[st.rindex(')') + 2:].split()
                        if int(f[3]) == self.proc.pid:
                            try:
                                cmd = open('/proc/%s/cmdline' % d).read().replace('\0', ' ')[:60]
                            except OSError:
                                cmd = ''
                            out.append(('?(%s)' % cmd.strip(), int(d), f[0]))
                    except (OSError, ValueError, IndexError):
                        pass
        except OSError:
            pass
        return out


def drive_to_end(run, rng, fail=(), hang_s=None, order='random', max_s=120, hold_s=0.0, prefer=None):
    """Releases gated builds (in a random order, failing those in `fail`) until the process exits or hangs.
    Returns 'exited' | 'hung' | 'alive-idle' (idle with nothing pending; caller decides whether that is expected)."""
    hang_s = HANG_S if hang_s is None else hang_s
    t0 = time.time()
    held = False
    while time.time() - t0 < max_s:
        if run.poll() is not None:
            return 'exited'
        pend = run.pending()
        if pend and hold_s and not held:
            # keep the first builds in progress for a while: lets slow message paths (long aggregate chains) arrive first
            time.sleep(hold_s)
            held = True
            continue
        if pend:
            if prefer:
                # replay: follow the recorded completion order as far as it applies (wait a little for the expected one)
                nxt = [x for x in prefer if run.released.get(x, 0) == 0]
                t = None
                if nxt:
                    t1 = time.time()
                    while time.time() - t1 < 0.5 and nxt[0] not in run.pending() and run.poll() is None:
                        time.sleep(0.005)
                    pend = run.pending() or pend
                    if nxt[0] in pend:
                        t = nxt[0]
                if t is None:
                    t = sorted(pend)[0]
            elif order == 'random':
                # let concurrent starts accumulate a little so that the choice is a real one (not a verdict)
                time.sleep(rng.choice([0, 0, 0.002, 0.01]))
                pend = run.pending()
                t = rng.choice(sorted(pend))
            else:
                t = sorted(pend)[0]
            run.release(t, (fail[t] if isinstance(fail, dict) else 1) if t in fail else 0)
            continue
        if run.idle_for(0.25):
            # nothing pending for a while: either finished scripts are being processed, or the engine is stuck.  The long wait
            # is abandoned as soon as a script starts and waits for its gate (a start may come late on a loaded machine): only a
            # full quiet period WITH NOTHING PENDING at its end is "idle"
            if not run.pending() and idle_unless_pending(run, hang_s) and not run.pending():
                return 'alive-idle'
    return 'hung'


def idle_unless_pending(run, seconds):
    """True when the process stayed alive with an unchanged trace for `seconds`; False as soon as it exits or a gated script is
    waiting to be released"""
    last = run.trace()
    t0 = time.time()
    while time.time() - t0 < seconds:
        time.sleep(0.05)
        if run.poll() is not None:
            return False
        cur = run.trace()
        if cur != last:
            if run.pending():
                return False
            last = cur
            t0 = time.time()
    return True
