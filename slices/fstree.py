# Slice FS (C15, C12): generators of file trees and declarations, case-file emission for the in-process modes
# "listing" and "clean", canonicalisation, and the property oracles (independent walkers over the REAL tree on disk).
#
# A tree is an ordered dict  model-absolute path (bytes, "/a/b")  ->  ('d',) | ('f', content_id) | ('l', target bytes)
# with parents inserted before children. The model root "/" is the case directory; a link target starting with "/"
# is model-absolute (the harness prepends the real case directory).
import os
import shutil
import vf

# ------------------------------------------------------------------------------------------------ names
DIR_NAMES = [b'src', b'sub', b'.zinoma', b'a.b', b'.git', b'.zinomax', b'x.zinoma', b'\xff', b'd', b'out', b'gen', b'o']
STEMS = [b'main', b'a', b'lib.min', b'.hidden', b'x', b'caf\xc3\xa9', b'\xff\xfe', b'rs', b'o', b'Makefile', b'.', b'\xe2\x82']
FEXTS = [b'', b'.o', b'.c', b'.h', b'.gen.c', b'.txt', b'.tar.gz', b'.gz', b'.\xc3\xa9', b'.o~', b'.swp']
SPECIAL_FILES = [b'.zinoma', b'.o', b'o', b'c', b'.gen.c', b'gz', b'.zinoma.o', b'a.o.zinoma']
EXTSETS = [None, None, [b'.o'], [b'.c', b'.h'], [b'.gen.c'], [b'.tar.gz', b'.gz'], [b'.\xc3\xa9'], [b'.txt'], [b'.o', b'.zinoma'],
           [b'.c'], [b'.gz'], [b'.'], [b'.hidden']]


def hexs(b):
    return vf.hexs(b)


def unhex(s):
    return b'' if s in ('_', '-') else bytes.fromhex(s)


def exts_field(es):
    return '-' if es is None else ','.join(hexs(e) for e in es)


def norm(p):
    """lexical normalisation = equality of PathBuf (components): drop empty and '.' pieces, keep '..'"""
    return b'/' + b'/'.join(c for c in p.split(b'/') if c not in (b'', b'.'))


def parse_set(field):
    if field in ('-', None):
        return set()
    return set(norm(unhex(x)) for x in field.split(','))


# ------------------------------------------------------------------------------------------------ tree generator
def dirs_of(tree):
    return [b'/'] + [p for p, n in tree.items() if n[0] == 'd']


def child(parent, name):
    return (parent if parent.endswith(b'/') else parent + b'/') + name


def rel_to(frm_dir, to):
    """a relative spelling of model path `to` from directory `frm_dir` (both model-absolute)"""
    a = [c for c in frm_dir.split(b'/') if c]
    b = [c for c in to.split(b'/') if c]
    i = 0
    while i < len(a) and i < len(b) and a[i] == b[i]:
        i += 1
    parts = [b'..'] * (len(a) - i) + b[i:]
    return b'/'.join(parts) if parts else b'.'


def gen_tree(rng, max_entries=14, link_rate=0.22, zin_rate=0.12):
    tree = {}
    n = rng.randint(0, max_entries)
    cnt = [0]

    def fresh_cid():
        cnt[0] += 1
        return cnt[0]

    for _ in range(n):
        parent = rng.choice(dirs_of(tree))
        if parent.count(b'/') > 4:
            continue
        r = rng.random()
        if r < zin_rate:
            name = b'.zinoma'
            kind = rng.choice(['d', 'd', 'd', 'f', 'l'])
        elif r < 0.45:
            name = rng.choice(DIR_NAMES)
            kind = 'd'
        else:
            name = rng.choice(SPECIAL_FILES) if rng.random() < 0.15 else rng.choice(STEMS) + rng.choice(FEXTS)
            if name in (b'.', b'..', b''):
                name = b'.x'
            kind = 'l' if rng.random() < link_rate else 'f'
        p = child(parent, name)
        if p in tree:
            continue
        if kind == 'd':
            tree[p] = ('d',)
        elif kind == 'f':
            tree[p] = ('f', fresh_cid())
        else:
            tree[p] = ('l', gen_link_target(rng, tree, parent, p))
    return tree


def gen_link_target(rng, tree, parent, p):
    existing = list(tree.keys())
    files = [q for q in existing if tree[q][0] == 'f']
    dirs = [q for q in existing if tree[q][0] == 'd']
    links = [q for q in existing if tree[q][0] == 'l']
    r = rng.random()
    if r < 0.30 and files:
        t = rng.choice(files)
        return rel_to(parent, t) if rng.random() < 0.7 else t
    if r < 0.55 and dirs:
        t = rng.choice(dirs)
        tg = rel_to(parent, t) if rng.random() < 0.7 else t
        return tg + (b'/' if rng.random() < 0.15 else b'')
    if r < 0.65 and links:
        t = rng.choice(links)
        return rel_to(parent, t) if rng.random() < 0.7 else t
    if r < 0.72:
        return p.rsplit(b'/', 1)[1]                     # self loop
    if r < 0.80:
        return rng.choice([b'nope', b'/nope/x', b'sub/none.o'] + ([b'../nope'] if parent != b'/' else []))   # dangling
    if r < 0.86:
        return rng.choice([b'.', b'/', b'./'] + ([b'..'] if parent != b'/' else []))
    if r < 0.92 and dirs:
        t = rng.choice(dirs)                            # through a "..": dir/../name  (dir is a real directory: never leaves the root)
        return rel_to(parent, t) + b'/../' + t.rsplit(b'/', 1)[1]
    return rng.choice([b'a.o', b'src', b'.zinoma'] + ([b'../.zinoma'] if parent != b'/' else []))


def gen_exts(rng, tree):
    """an extension filter (normalised: leading dot), biased towards suffixes that occur in the tree"""
    r = rng.random()
    if r < 0.3:
        return None
    if r < 0.55:
        return rng.choice(EXTSETS)
    names = [p.rsplit(b'/', 1)[1] for p in tree]
    sufs = []
    for n in names:
        i = n.find(b'.')
        while i != -1:
            if n[i:] != b'.':
                sufs.append(n[i:])
            i = n.find(b'.', i + 1)
    if not sufs:
        return rng.choice(EXTSETS)
    k = rng.choice([1, 1, 2, 3])
    es = sorted(set(rng.choice(sufs) for _ in range(k)))
    if rng.random() < 0.15:
        es.append(rng.choice([b'.x', b'.o', b'.zinoma']))
    return es


def decorate(rng, p, tree):
    """alternative spellings of a declared path (the code does not normalise them). ".." is only ever put after a real
    directory of the tree, so that no resolution climbs above the case root (where model and reality differ)."""
    r = rng.random()
    if r < 0.60:
        return p
    if r < 0.70:
        return p + b'/'
    if r < 0.75:
        return p + b'/.'
    if r < 0.80:
        return p.replace(b'/', b'//', 1)
    if r < 0.85:
        i = p.rfind(b'/')
        return p[:i] + b'/.' + p[i:]
    if r < 0.90:
        return p + b'//'
    if r < 0.95 and p.count(b'/') >= 2:
        i = p.rfind(b'/')
        par = p[:i]
        return par + b'/../' + par.rsplit(b'/', 1)[1] + p[i:]
    if tree.get(p, ('?',))[0] == 'd':
        return p + b'/..'
    return p


def gen_roots(rng, tree, k=None):
    existing = list(tree.keys())
    if k is None:
        k = rng.choice([1, 1, 1, 2, 2, 3])
    roots = []
    for _ in range(k):
        r = rng.random()
        if r < 0.08 or not existing:
            roots.append(rng.choice([b'/nope', b'/src/missing.o', b'/nope/deeper', b'/']))
            continue
        if r < 0.60:
            cands = [q for q in existing if tree[q][0] == 'd'] or existing
        elif r < 0.80:
            cands = [q for q in existing if tree[q][0] == 'l'] or existing
        else:
            cands = existing
        roots.append(decorate(rng, rng.choice(cands), tree))
    if len(roots) > 1 and rng.random() < 0.2:
        roots.append(roots[0])                          # duplicate declaration
    return roots


def tree_lines(tree):
    out = []
    for p, n in tree.items():
        if n[0] == 'd':
            out.append('D ' + hexs(p))
        elif n[0] == 'f':
            out.append('F %s %d 0' % (hexs(p), n[1]))
        else:
            out.append('L %s %s' % (hexs(p), hexs(n[1])))
    return out


def describe_tree(tree):
    return [(repr(p), n[0]) + ((repr(n[1]),) if n[0] == 'l' else ()) for p, n in tree.items()]


def tree_features(tree):
    f = set()
    for p, n in tree.items():
        name = p.rsplit(b'/', 1)[1]
        if name == b'.zinoma':
            f.add('zinoma_' + n[0])
            if p.count(b'/') > 1:
                f.add('zinoma_nested')
        if n[0] == 'l':
            f.add('symlink')
        try:
            name.decode()
        except UnicodeDecodeError:
            f.add('non_utf8_name')
        if name.count(b'.') >= 2:
            f.add('multi_dot_name')
        if name in (b'.o', b'o', b'c', b'gz', b'.gen.c'):
            f.add('name_equals_extension')
    if not tree:
        f.add('empty_tree')
    return f


# ------------------------------------------------------------------------------------------------ real trees (python side)
def py_build(real_root, tree):
    """builds the tree with os calls under real_root (must not exist or be empty)"""
    if isinstance(real_root, str):
        real_root = real_root.encode()
    shutil.rmtree(real_root, ignore_errors=True)
    os.makedirs(real_root)
    for p, n in tree.items():
        rp = real_root + p
        if n[0] == 'd':
            os.mkdir(rp)
        elif n[0] == 'f':
            with open(rp, 'wb') as f:
                f.write(b'%d' % n[1])
        else:
            t = n[1]
            os.symlink(real_root + t if t.startswith(b'/') else t, rp)
    return real_root


def py_snapshot(real_root):
    """{model path: ('d',) | ('f', content bytes) | ('l', target with the real root stripped)} without following links"""
    if isinstance(real_root, str):
        real_root = real_root.encode()
    snap = {}

    def go(d):
        try:
            names = sorted(os.listdir(d))
        except OSError:
            return
        for nm in names:
            p = d + b'/' + nm
            rel = p[len(real_root):]
            st = os.lstat(p)
            import stat as S
            if S.S_ISLNK(st.st_mode):
                t = os.readlink(p)
                if t.startswith(real_root):
                    t = t[len(real_root):]
                snap[rel] = ('l', t)
            elif S.S_ISDIR(st.st_mode):
                snap[rel] = ('d',)
                go(p)
            else:
                with open(p, 'rb') as f:
                    snap[rel] = ('f', f.read())
    go(real_root)
    return snap


def parse_snapshot(field):
    snap = {}
    if field == '-':
        return snap
    for it in field.split(','):
        f = it.split(':')
        p = unhex(f[1])
        if f[0] == 'd':
            snap[p] = ('d',)
        elif f[0] == 'f':
            snap[p] = ('f', unhex(f[2]))
        elif f[0] == 'l':
            snap[p] = ('l', unhex(f[2]))
        else:
            snap[p] = ('?',)
    return snap


def tree_as_snapshot(tree):
    return {p: (('f', b'%d' % n[1]) if n[0] == 'f' else n) for p, n in tree.items()}


# ------------------------------------------------------------------------------------------------ the C15 oracle
def name_matches(name, exts):
    if exts is None:
        return True
    # the code matches on to_string_lossy(); identical to byte suffix for extensions free of U+FFFD
    return any(name.endswith(e) for e in exts)


def last_normal_name(path):
    comps = [c for c in path.split(b'/') if c not in (b'', b'.')]
    if not comps or comps[-1] == b'..':
        return None
    return comps[-1]


def oracle_listing(real_root, paths, exts):
    """The property text read on the real tree: (must, may).
    must: regular files (symlinks resolving to one included) at or below a listed path, reached without entering a
          symlinked directory other than the listed path itself, with no entry named .zinoma at or below the listed path,
          whose name ends with one of the extensions.
    may:  files below a listed path that is itself a SYMLINK named .zinoma (the text does not decide this corner:
          the declared path is a link, not a directory named .zinoma)."""
    if isinstance(real_root, str):
        real_root = real_root.encode()
    must, may = set(), set()

    def visit(p, acc):
        # p is not the root
        nm = p.rsplit(b'/', 1)[1]
        if nm == b'.zinoma':
            return
        if os.path.islink(p):
            if os.path.isfile(p) and name_matches(nm, exts):
                acc.add(norm(p[len(real_root):]))
            return
        if os.path.isdir(p):
            for c in os.listdir(p):
                visit(p + b'/' + c, acc)
        elif os.path.isfile(p) and name_matches(nm, exts):
            acc.add(norm(p[len(real_root):]))

    for mp in paths:
        if mp == b'':
            continue
        rp = real_root + mp
        try:
            st_l = os.lstat(rp)
        except OSError:
            continue
        nm = last_normal_name(mp)
        import stat as S
        zin = (nm == b'.zinoma')
        if S.S_ISLNK(st_l.st_mode) and zin:
            acc = may
        elif zin:
            continue
        else:
            acc = must
        if os.path.isdir(rp):
            base = rp if rp.endswith(b'/') else rp + b'/'
            for c in os.listdir(rp):
                visit(base + c, acc)
        elif os.path.isfile(rp) and not zin:
            if exts is None or (nm is not None and name_matches(nm, exts)):
                acc.add(norm(mp))
    return must, may - must


# ------------------------------------------------------------------------------------------------ C12 helpers
def removed_paths(before, after):
    return sorted(p for p in before if p not in after)


def changed_paths(before, after):
    return sorted(p for p in after if p not in before or before[p] != after[p])


def phys_entry(real_root, model_path):
    """physical model path of the directory entry a path names (parent resolved with links, last name not followed)"""
    if isinstance(real_root, str):
        real_root = real_root.encode()
    comps = [c for c in model_path.split(b'/') if c not in (b'', b'.')]
    if not comps:
        return b'/'
    if comps[-1] == b'..':
        rp = os.path.realpath(real_root + model_path)
    else:
        par = os.path.realpath(real_root + b'/' + b'/'.join(comps[:-1]))
        rp = par + b'/' + comps[-1]
    rr = os.path.realpath(real_root)
    if rp == rr:
        return b'/'
    return rp[len(rr):] if rp.startswith(rr + b'/') else b'!OUTSIDE!' + rp


def oracle_deletable(real_root, targets, scope_state, requested):
    """What the property text allows `--clean` to delete, computed on the real tree BEFORE the clean (physical model paths):
    returns (exact: set of entries, below: set of entries whose whole physical subtree may go).
    targets: list of dict(kind, dir, name(display bytes), outputs=[(exts, [paths])]); scope_state: project dirs (bare clean)."""
    exact, below = set(), set()
    for tg in targets:
        if requested:
            sp = child(child(tg['dir'], b'.zinoma'), tg['display'] + b'.checksums')
            if os.path.exists(real_root + sp):
                exact.add(phys_entry(real_root, sp))
        if tg['kind'] != 'b':
            continue
        for exts, paths in tg['outputs']:
            if exts is not None:
                must, may = oracle_listing(real_root, paths, exts)
                for p in must | may:
                    exact.add(phys_entry(real_root, p))
            else:
                for p in paths:
                    if os.path.exists(real_root + norm(p)):
                        below.add(phys_entry(real_root, norm(p)))
    if not requested:
        for d in scope_state:
            wd = child(d, b'.zinoma')
            if os.path.lexists(real_root + wd):
                below.add(phys_entry(real_root, wd))
    return exact, below


def is_allowed(p, exact, below):
    if p in exact:
        return True
    for b in below:
        if p == b or p.startswith(b.rstrip(b'/') + b'/'):
            return True
    return False


# ------------------------------------------------------------------------------------------------ exhaustive small scope
ENUM_NAMES = [b'.zinoma', b'a.o', b'd', b'l']
ENUM_TARGETS = [b'a.o', b'd', b'.zinoma', b'../d', b'/d/a.o', b'l']
ENUM_QUERIES = [(e, [r]) for e in (None, [b'.o']) for r in (b'/', b'/d', b'/l', b'/.zinoma', b'/d/', b'/l/', b'/d/l')]


def enum_trees(max_entries, max_depth=2):
    """every tree with at most max_entries entries over ENUM_NAMES (each tree once: entries are added in path order)"""
    kinds = [('f', 1), ('d',)] + [('l', t) for t in ENUM_TARGETS]

    def go(tree, last):
        yield dict(tree)
        if len(tree) >= max_entries:
            return
        cands = []
        for par in [b'/'] + [p for p, n in tree.items() if n[0] == 'd']:
            if par.count(b'/') >= max_depth and par != b'/':
                continue
            for nm in ENUM_NAMES:
                p = child(par, nm)
                if p > last and p not in tree:
                    cands.append(p)
        for p in sorted(set(cands)):
            for k in kinds:
                if k[0] == 'l' and k[1].startswith(b'..') and p.count(b'/') < 2:
                    continue                       # ".." at the case root: model and reality differ above it
                tree[p] = k
                yield from go(tree, p)
                del tree[p]

    yield from go({}, b'')


# ------------------------------------------------------------------------------------------------ C12 generators
def ensure_parents(tree, p):
    parts = [c for c in p.split(b'/') if c]
    cur = b''
    for c in parts[:-1]:
        cur += b'/' + c
        if cur not in tree:
            tree[cur] = ('d',)


def put(tree, p, n):
    ensure_parents(tree, p)
    if p not in tree:
        tree[p] = n


def fill_dir(rng, tree, d, cid, depth=0, outside=None):
    """typical content of an output directory: matching and non-matching files, nested dirs, a nested .zinoma, symlinks"""
    put(tree, d, ('d',))
    names = [b'a.o', b'b.o', b'keep.c', b'x.gen.c', b'o', b'.o', b'y.tar.gz', b'caf\xc3\xa9.o', b'\xff.o', b'c.h', b'lib.min.o']
    for nm in rng.sample(names, rng.randint(1, 6)):
        cid[0] += 1
        put(tree, child(d, nm), ('f', cid[0]))
    if depth < 2 and rng.random() < 0.6:
        fill_dir(rng, tree, child(d, rng.choice([b'sub', b'deep', b'a.b'])), cid, depth + 1, outside)
    if rng.random() < 0.35:
        z = child(d, b'.zinoma')
        if rng.random() < 0.7:
            put(tree, z, ('d',))
            cid[0] += 1
            put(tree, child(z, b'z.o'), ('f', cid[0]))
        else:
            cid[0] += 1
            put(tree, z, ('f', cid[0]))
    if rng.random() < 0.5:
        files = [p for p, n in tree.items() if n[0] == 'f']
        dirs = [p for p, n in tree.items() if n[0] == 'd' and p != d]
        k = rng.random()
        if k < 0.35 and files:
            t = rng.choice(files)
            put(tree, child(d, rng.choice([b'lf.o', b'l.c'])), ('l', rel_to(d, t) if rng.random() < 0.6 else t))
        elif k < 0.7 and dirs:
            t = rng.choice(dirs)
            put(tree, child(d, rng.choice([b'ld', b'ld.o'])), ('l', rel_to(d, t) if rng.random() < 0.6 else t))
        elif k < 0.85:
            put(tree, child(d, b'dang.o'), ('l', b'nope'))
        else:
            put(tree, child(d, b'loop.o'), ('l', b'loop.o'))


def gen_clean_case(rng):
    """tree + targets + operation sequence for the in-process mode "clean" """
    tree = gen_tree(rng, max_entries=10)
    cid = [1000]
    dirs = [p for p, n in tree.items() if n[0] == 'd' and b'.zinoma' not in p.split(b'/')]
    pdirs = []
    for _ in range(rng.choice([1, 1, 2])):
        if dirs and rng.random() < 0.6:
            pdirs.append(rng.choice(dirs))
        else:
            d = rng.choice([b'/p', b'/q', b'/p/sub'])
            put(tree, d, ('d',))
            if tree[d][0] == 'd':
                pdirs.append(d)
    if not pdirs:
        put(tree, b'/pz', ('d',))
        pdirs.append(b'/pz')
    targets = []
    for i in range(rng.choice([1, 2, 2, 3])):
        pd = rng.choice(pdirs)
        proj = rng.choice([None, None, b'pp', b'sub'])
        name = rng.choice([b't', b'u', b'build-x', b'v_1'])
        kind = rng.choice(['b', 'b', 'b', 'b', 's', 'a'])
        outs = []
        for _ in range(rng.choice([1, 1, 2, 3])):
            if rng.random() < 0.3:
                od = child(pd, rng.choice([b'out', b'gen', b'dist']))
                if od not in tree:
                    fill_dir(rng, tree, od, cid)
            exts = rng.choice([None, None, [b'.o'], [b'.o', b'.gen.c'], [b'.c', b'.h'], [b'.gz']])
            outs.append((exts, gen_roots(rng, tree)))
        targets.append({'tid': 'g%d' % i, 'kind': kind, 'dir': pd, 'project': proj, 'name': name,
                        'display': (proj + b'::' if proj else b'') + name, 'outputs': outs})
    # the work directories
    for pd in pdirs:
        r = rng.random()
        wd = child(pd, b'.zinoma')
        if wd in tree:
            continue
        if r < 0.55:
            tree[wd] = ('d',)
            for tg in targets:
                if tg['dir'] == pd and rng.random() < 0.7:
                    sp = child(wd, tg['display'] + b'.checksums')
                    k = rng.random()
                    cid[0] += 1
                    if sp in tree:
                        continue
                    tree[sp] = ('f', cid[0]) if k < 0.8 else (('d',) if k < 0.88 else ('l', rng.choice([b'nope', b'../..', b'other.checksums'])))
            if rng.random() < 0.6:
                cid[0] += 1
                put(tree, child(wd, b'other.checksums'), ('f', cid[0]))
            if rng.random() < 0.2:
                put(tree, child(wd, b'subdir'), ('d',))
        elif r < 0.70:
            ds = [p for p, n in tree.items() if n[0] == 'd']
            tree[wd] = ('l', rng.choice(ds) if ds and rng.random() < 0.8 else b'nope')
        elif r < 0.75:
            cid[0] += 1
            tree[wd] = ('f', cid[0])
    ops = []
    for _ in range(rng.choice([1, 2, 3, 4])):
        r = rng.random()
        if r < 0.55:
            ops.append(('outputs', rng.choice(targets)['tid']))
        elif r < 0.80:
            ops.append(('state', rng.choice(targets)['tid']))
        else:
            ops.append(('workdir', rng.choice(pdirs + [b'/nope'])))
    return tree, targets, pdirs, ops


def target_line(tg):
    res = ';'.join('%s=%s' % (exts_field(e), ','.join(hexs(p) for p in ps)) for e, ps in tg['outputs'])
    return 'T %s %s %s %s %s %s' % (tg['tid'], tg['kind'], hexs(tg['dir']), hexs(tg['project']) if tg['project'] else '-',
                                   hexs(tg['name']), res)


def yaml_str(b):
    s = b.decode('utf-8')
    return '"' + s.replace('\\', '\\\\').replace('"', '\\"') + '"'


def gen_project(rng):
    """a real zinoma project (root /p, optional imported sub-project /p/sub): tree, targets, yaml texts"""
    tree = {}
    cid = [5000]
    put(tree, b'/p', ('d',))
    put(tree, b'/ext', ('d',))
    cid[0] += 1
    put(tree, b'/ext/e.o', ('f', cid[0]))
    fill_dir(rng, tree, b'/p/keep', cid)
    has_sub = rng.random() < 0.5
    root_name = rng.choice([None, b'root'])
    projects = [{'dir': b'/p', 'name': root_name}]
    if has_sub:
        put(tree, b'/p/sub', ('d',))
        projects.append({'dir': b'/p/sub', 'name': b'sub'})
    targets = []
    nt = rng.randint(1, 4)
    for i in range(nt):
        pi = 1 if (has_sub and rng.random() < 0.4) else 0
        pr = projects[pi]
        name = (b's%d' if pi else b't%d') % i
        kind = 'a' if (rng.random() < 0.15 and i > 0) else 'b'
        cands = [t for t in targets if (pi == 0 or t['pi'] == 1)]
        deps = rng.sample(cands, rng.randint(0, min(2, len(cands)))) if cands else []
        tg = {'tid': 'g%d' % i, 'pi': pi, 'dir': pr['dir'], 'project': pr['name'], 'name': name, 'kind': kind,
              'deps': [d['tid'] for d in deps], 'outputs': [], 'inputs': [], 'rel_outputs': [], 'rel_inputs': []}
        tg['display'] = (pr['name'] + b'::' if pr['name'] else b'') + name
        tg['ref'] = lambda frm, tg=tg: tg['name'] if frm == tg['pi'] else (tg['project'] + b'::' + tg['name'])
        if kind == 'b':
            for _ in range(rng.choice([0, 1, 1, 2])):
                exts = rng.choice([None, None, [b'o'], [b'.o', b'gen.c'], [b'.c', b'.h']])
                rels = []
                for _ in range(rng.choice([1, 1, 2])):
                    shape = rng.choice(['dir', 'dir', 'dir_slash', 'file', 'linkdir', 'linkdir_slash', 'linkfile', 'missing',
                                        'dangling', 'nested', 'keep_sub', 'dir_dot'])
                    base = b'out_' + name + (b'%d' % rng.randint(0, 2))
                    ap = child(pr['dir'], base)
                    if shape in ('dir', 'dir_slash', 'dir_dot'):
                        if ap not in tree:
                            fill_dir(rng, tree, ap, cid)
                        rel = base + {'dir': b'', 'dir_slash': b'/', 'dir_dot': b'/.'}[shape]
                    elif shape == 'file':
                        base = base + rng.choice([b'.o', b'.txt'])
                        cid[0] += 1
                        put(tree, child(pr['dir'], base), ('f', cid[0]))
                        rel = base
                    elif shape in ('linkdir', 'linkdir_slash'):
                        tgt = rng.choice([b'/p/keep', b'/ext', b'keep'] if pi == 0 else [b'/p/keep', b'/ext', b'../keep'])
                        put(tree, ap, ('l', tgt))
                        rel = base + (b'/' if shape == 'linkdir_slash' else b'')
                    elif shape == 'linkfile':
                        base = base + b'.o'
                        put(tree, child(pr['dir'], base), ('l', b'/ext/e.o'))
                        rel = base
                    elif shape == 'dangling':
                        put(tree, ap, ('l', b'nope'))
                        rel = base
                    elif shape == 'nested' and targets and targets[-1]['rel_outputs']:
                        prev = targets[-1]
                        rel0 = rng.choice(prev['rel_outputs']).rstrip(b'/.')
                        if prev['pi'] != pi or not rel0:
                            rel = base
                        else:
                            rel = rel0 + b'/sub'
                    elif shape == 'keep_sub':
                        rel = (b'keep' if pi == 0 else b'../keep') + rng.choice([b'', b'/sub', b'/a.o'])
                    else:
                        rel = base + b'_missing'
                    rels.append(rel)
                tg['outputs'].append((transform_exts(exts), [child(pr['dir'], r) for r in rels]))
                tg['rel_outputs'] += rels
                tg.setdefault('yaml_outputs', []).append((exts, rels))
            if rng.random() < 0.75:
                k = rng.random()
                if k < 0.6:
                    rel = b'in_' + name + b'.txt'
                    cid[0] += 1
                    put(tree, child(pr['dir'], rel), ('f', cid[0]))
                    tg['yaml_inputs'] = [(None, [rel])]
                elif k < 0.8 and targets and targets[-1]['pi'] == pi and targets[-1]['rel_outputs']:
                    tg['yaml_inputs'] = [(None, [rng.choice(targets[-1]['rel_outputs'])])]     # another target's output as input
                else:
                    rel = b'src_' + name
                    fill_dir(rng, tree, child(pr['dir'], rel), cid)
                    tg['yaml_inputs'] = [([b'c', b'.h'], [rel])]
        targets.append(tg)
    return tree, projects, targets


def transform_exts(exts):
    """ir.rs transform_extensions (slice RES checks the real one; here the normalised set is what the model is given)"""
    if exts is None:
        return None
    out = []
    for e in exts:
        if e == b'':
            continue
        out.append(e if e.startswith(b'.') else b'.' + e)
    return sorted(set(out)) or None


def render_yaml(projects, targets, pi):
    pr = projects[pi]
    lines = []
    if pr['name']:
        lines.append('name: ' + yaml_str(pr['name']))
    if pi == 0 and len(projects) > 1:
        lines.append('imports:')
        lines.append('  sub: sub')
    lines.append('targets:')
    mine = [t for t in targets if t['pi'] == pi]
    if not mine:
        lines.append('  unused_%d:' % pi)
        lines.append('    build: exit 0')
    by_tid = {t['tid']: t for t in targets}
    for t in mine:
        lines.append('  %s:' % t['name'].decode())
        deps = [by_tid[d]['ref'](pi) for d in t['deps']]
        if deps or t['kind'] == 'a':
            lines.append('    dependencies: [%s]' % ', '.join(yaml_str(d) for d in deps))
        if t['kind'] == 'b':
            lines.append('    build: exit 0')
            for key, field in (('input', 'yaml_inputs'), ('output', 'yaml_outputs')):
                if t.get(field):
                    lines.append('    %s:' % key)
                    for exts, rels in t[field]:
                        lines.append('      - paths: [%s]' % ', '.join(yaml_str(r) for r in rels))
                        if exts is not None:
                            lines.append('        extensions: [%s]' % ', '.join(yaml_str(e) for e in exts))
    return '\n'.join(lines) + '\n'


def closure(targets, req_tids):
    by_tid = {t['tid']: t for t in targets}
    seen = []
    todo = list(req_tids)
    while todo:
        x = todo.pop()
        if x in seen:
            continue
        seen.append(x)
        todo += by_tid[x]['deps']
    return [t for t in targets if t['tid'] in seen]


def snapshot_to_tree(snap, ids):
    """snapshot -> generator tree; `ids` maps content bytes -> content id (extended as needed)"""
    tree = {}
    for p in sorted(snap):
        n = snap[p]
        if n[0] == 'f':
            if n[1] not in ids:
                ids[n[1]] = 100000 + len(ids)
            tree[p] = ('f', ids[n[1]])
        elif n[0] == 'l':
            tree[p] = ('l', n[1])
        else:
            tree[p] = ('d',)
    return tree


# ------------------------------------------------------------------------------------------------ extraction cross-check
def coq_bytes(b):
    return '[' + ';'.join(str(x) for x in b) + ']'


def coq_tree(tree):
    """the generator tree as a Gallina `node` term"""
    kids = {}
    for p in tree:
        par = p.rsplit(b'/', 1)[0] or b'/'
        kids.setdefault(par, []).append(p)

    def term(p):
        n = tree[p]
        if n[0] == 'f':
            return 'File %d 0' % n[1]
        if n[0] == 'l':
            return 'Link ' + coq_bytes(n[1])
        return 'Dir [' + '; '.join('(%s, %s)' % (coq_bytes(c.rsplit(b'/', 1)[1]), term(c)) for c in kids.get(p, [])) + ']'
    return 'Dir [' + '; '.join('(%s, %s)' % (coq_bytes(c.rsplit(b'/', 1)[1]), term(c)) for c in kids.get(b'/', [])) + ']'


def coq_exts(es):
    return 'None' if es is None else 'Some [' + '; '.join(coq_bytes(e) for e in es) + ']'


def coq_eval_listings(cases, workdir):
    """cases: [(tree, exts, paths)] -> [set of normalised listed paths] computed by vm_compute INSIDE Coq (no extraction)"""
    import re
    src = ['From Zinoma.Model Require Import Bytes Ext Cfg FsTree.']
    for i, (tree, exts, paths) in enumerate(cases):
        src.append('Definition t%d : node := %s.' % (i, coq_tree(tree)))
        src.append('Eval vm_compute in (%d%%nat, listing_set t%d {| fr_paths := [%s]; fr_exts := %s |}).'
                   % (i, i, '; '.join(coq_bytes(p) for p in paths), coq_exts(exts)))
    f = os.path.join(workdir, 'Cases.v')
    with open(f, 'w') as fh:
        fh.write('\n'.join(src) + '\n')
    rc, out, err = vf.sh(['coqc', '-noglob', '-Q', vf.COQ, 'Zinoma', f], timeout=900, cwd=workdir)
    if rc != 0:
        raise RuntimeError('coqc on the cross-check file failed: ' + (out + err)[-1500:])
    res = {}
    for m in re.finditer(r'=\s*\((\d+)%nat,\s*(.*?)\)\s*:\s*nat \* list', out, re.S):
        body = m.group(2).replace('\n', ' ')
        lst = eval(body.replace(';', ','))
        res[int(m.group(1))] = set(norm(bytes(x)) for x in lst)
    return [res.get(i) for i in range(len(cases))]


def coq_target(tg):
    kind = {'b': 'TBuild', 's': 'TService', 'a': 'TAggregate'}[tg['kind']]
    files = '; '.join('{| fr_paths := [%s]; fr_exts := %s |}' % ('; '.join(coq_bytes(p) for p in ps), coq_exts(e))
                      for e, ps in tg['outputs'])
    res = '{| r_files := [%s]; r_cmds := [] |}' % files
    return ('{| rt_id := {| t_project := %s; t_name := %s |}; rt_dir := %s; rt_deps := []; rt_kind := %s; rt_script := []; '
            'rt_input := %s; rt_output := %s |}') % (
        'Some ' + coq_bytes(tg['project']) if tg['project'] else 'None', coq_bytes(tg['name']), coq_bytes(tg['dir']), kind,
        res if tg['kind'] == 's' else 'resources_empty', res if tg['kind'] == 'b' else 'resources_empty')


def coq_eval_clean(cases, workdir):
    """cases: [(tree, target, op)] with op in outputs/state -> [(ok, {path: survives})] computed by vm_compute inside Coq"""
    import re
    src = ['From Zinoma.Model Require Import Bytes Ext Cfg Names FsTree.']
    locs = []
    for i, (tree, tg, op) in enumerate(cases):
        qs = list(tree.keys())
        locs.append(qs)
        src.append('Definition t%d : node := %s.' % (i, coq_tree(tree)))
        src.append('Definition g%d : rtarget := %s.' % (i, coq_target(tg)))
        fn = 'clean_outputs' if op == 'outputs' else 'delete_state'
        src.append('Eval vm_compute in (%d%%nat, snd (%s t%d g%d), map (fun q => match kind_at (fst (%s t%d g%d)) q with Some _ => true '
                   '| None => false end) [%s]).' % (i, fn, i, i, fn, i, i,
                                                     '; '.join('[' + '; '.join(coq_bytes(c) for c in p.split(b'/') if c) + ']' for p in qs)))
    f = os.path.join(workdir, 'CleanCases.v')
    with open(f, 'w') as fh:
        fh.write('\n'.join(src) + '\n')
    rc, out, err = vf.sh(['coqc', '-noglob', '-Q', vf.COQ, 'Zinoma', f], timeout=900, cwd=workdir)
    if rc != 0:
        raise RuntimeError('coqc on the cross-check file failed: ' + (out + err)[-1500:])
    res = {}
    for m in re.finditer(r'=\s*\((\d+)%nat,\s*(true|false),\s*(\[.*?\])\)\s*:\s*nat \* bool \* list bool', out, re.S):
        bits = [x.strip() == 'true' for x in m.group(3).strip('[] \n').replace('\n', ' ').split(';') if x.strip()]
        i = int(m.group(1))
        res[i] = (m.group(2) == 'true', dict(zip(locs[i], bits)))
    return [res.get(i) for i in range(len(cases))]
