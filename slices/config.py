# Slice CFG (property C14): YAML value trees, their rendering to text, project layouts on disk, case lines for
# harness/m_load.rs + runner/drv_load.ml, and the canonical form of a loader result.
#
# A value tree is what serde sees after the (trusted) text->value step of serde_yaml 0.8.26:
#   ('s', bytes, hint)   string-typed scalar; hint = how to write it (None/'plain'/'sq'/'dq'/'lit'), ignored by the model
#   ('z', src)           plain null: src in {b'~', b'null', b''}  (the parser reports the empty scalar as "~")
#   ('t',) / ('f',)      plain true / false
#   ('u', n, src)        plain scalar typed as u64 (src = source text: 5, 0x10, +1, 0o7, ...)
#   ('o', src)           any other plain non-string scalar (negative integer, float, > 64 bits)
#   ('seq', [v...])      ('map', [(k, v)...])
# The classification tables below were read off serde_yaml's visit_untagged_str and confirmed on the real loader.
import os
import re

STR_LOOKALIKES = [b'yes', b'no', b'on', b'off', b'True', b'TRUE', b'False', b'Null', b'NULL', b'007', b'1_000', b'1.2.3',
                  b'0x', b'0xg', b'--1', b'nan', b'inf', b'.infx', b'1e', b'e1', b'0o8', b'0b2', b'00', b'-007', b'+007',
                  b'nullx', b'~x']
NATS = [(0, b'0'), (1, b'1'), (2, b'2'), (3, b'3'), (4, b'4'), (5, b'5'), (42, b'42'), (16, b'0x10'), (7, b'0o7'),
        (3, b'0b11'), (1, b'+1'), (1, b'+0x1'), (1, b'0o1'), (1, b'0x1'), (0, b'0x0'), (0, b'+0'), (2, b'0b10'),
        (18446744073709551615, b'18446744073709551615')]
OTHERS = [b'-1', b'-0x1', b'1.5', b'1e3', b'.inf', b'-.inf', b'.nan', b'+.inf', b'18446744073709551616', b'1.', b'.5', b'-0',
          b'1E3', b'-1.5e-3', b'.INF', b'.NaN', b'+1.5', b'-0o7', b'0.0', b'.Inf']


def S(b, hint=None):
    if isinstance(b, str):
        b = b.encode()
    return ('s', b, hint)


def Z(src=b'~'):
    return ('z', src)


T = ('t',)
F = ('f',)


def U(n, src=None):
    return ('u', n, src if src is not None else str(n).encode())


def O(src):
    return ('o', src)


def Seq(items):
    return ('seq', list(items))


def Map(items):
    return ('map', list(items))


def hexs(b):
    return b.hex() if b else '_'


def scalar_text(v):
    k = v[0]
    if k == 's':
        return v[1]
    if k == 'z':
        return v[1] if v[1] else b'~'
    if k == 't':
        return b'true'
    if k == 'f':
        return b'false'
    if k == 'u':
        return v[2]
    if k == 'o':
        return v[1]
    return None


def enc(v):
    """encoding read by runner/drv_load.ml"""
    k = v[0]
    if k == 's':
        return 's%s;' % hexs(v[1])
    if k == 'z':
        return 'z%s;' % hexs(v[1] if v[1] else b'~')
    if k == 't':
        return 't'
    if k == 'f':
        return 'f'
    if k == 'u':
        return 'u%s:%s;' % (bin(v[1])[2:], hexs(v[2]))
    if k == 'o':
        return 'o%s;' % hexs(v[1])
    if k == 'seq':
        return '[' + ''.join(enc(x) for x in v[1]) + ']'
    if k == 'map':
        return '{' + ''.join(enc(a) + enc(b) for a, b in v[1]) + '}'
    raise ValueError(v)


# ------------------------------------------------------------------------------------------ rendering to YAML text

PLAIN_SAFE = re.compile(rb'[A-Za-z_\x80-\xff][A-Za-z0-9_./\x80-\xff-]*(::[A-Za-z0-9_./\x80-\xff-]+)*')
KEY_PLAIN_SAFE = re.compile(rb'[A-Za-z_\x80-\xff][A-Za-z0-9_.\x80-\xff-]*')
RESERVED_PLAIN = {b'null', b'true', b'false'}


def is_scalar(v):
    return v[0] not in ('seq', 'map')


def dq(b):
    out = bytearray(b'"')
    for c in b:
        if c == 0x22:
            out += b'\\"'
        elif c == 0x5c:
            out += b'\\\\'
        elif c == 0x0a:
            out += b'\\n'
        elif c == 0x09:
            out += b'\\t'
        elif c < 0x20 or c == 0x7f:
            out += b'\\x%02x' % c
        else:
            out.append(c)
    out += b'"'
    return bytes(out)


def can_plain(b, key=False):
    if b in RESERVED_PLAIN:
        return False
    return bool((KEY_PLAIN_SAFE if key else PLAIN_SAFE).fullmatch(b))


def can_sq(b):
    return b != b'' and all(0x20 <= c < 0x7f or c >= 0x80 for c in b) and b"'" not in b


def render_scalar(v, rng, key=False, allow_empty=False):
    k = v[0]
    if k == 's':
        b, hint = v[1], v[2]
        if hint == 'plain':
            return b                      # the caller vouches (STR_LOOKALIKES)
        if hint == 'dq':
            return dq(b)
        if hint == 'sq' and can_sq(b):
            return b"'" + b + b"'"
        r = rng.random()
        if can_plain(b, key) and r < 0.6:
            return b
        if can_sq(b) and r < 0.8:
            return b"'" + b + b"'"
        return dq(b)
    if k == 'z':
        if v[1] == b'' and not allow_empty:
            return b'~'
        return v[1]
    if k == 't':
        return b'true'
    if k == 'f':
        return b'false'
    if k == 'u':
        return v[2]
    if k == 'o':
        return v[1]
    raise ValueError(v)


def can_literal(b):
    # `|` block scalar with clip chomping: text ending in exactly one newline, printable lines, no leading blank
    if not b.endswith(b'\n') or b.endswith(b'\n\n') or b.startswith(b' ') or b.startswith(b'\n'):
        return False
    for line in b[:-1].split(b'\n'):
        if not line or line.startswith(b' ') or line.endswith(b' ') or any(c < 0x20 or c == 0x7f for c in line):
            return False
    return True


def flow(v, rng):
    k = v[0]
    if k == 'seq':
        return b'[' + b', '.join(flow(x, rng) for x in v[1]) + b']'
    if k == 'map':
        parts = []
        for a, b in v[1]:
            ka = flow(a, rng) if not is_scalar(a) else render_scalar(a, rng, key=True)
            if not is_scalar(a) or len(ka) > 100:
                parts.append(b'? ' + ka + b' : ' + flow(b, rng))
            else:
                parts.append(ka + b': ' + flow(b, rng))
        return b'{' + b', '.join(parts) + b'}'
    return render_scalar(v, rng)


def block(v, ind, rng):
    """list of lines (bytes, already indented) for a non-scalar, non-empty value in block style"""
    pad = b' ' * ind
    lines = []
    if v[0] == 'map':
        for a, b in v[1]:
            ka = render_scalar(a, rng, key=True)
            if is_scalar(b):
                if b[0] == 's' and (b[2] == 'lit' or (b[2] is None and rng.random() < 0.5)) and can_literal(b[1]):
                    lines.append(pad + ka + b': |')
                    for ln in b[1][:-1].split(b'\n'):
                        lines.append(pad + b'  ' + ln)
                else:
                    sc = render_scalar(b, rng, allow_empty=True)
                    lines.append(pad + ka + b':' + (b' ' + sc if sc else b''))
            elif not b[1]:
                lines.append(pad + ka + (b': []' if b[0] == 'seq' else b': {}'))
            elif can_block(b) and rng.random() < 0.7:
                lines.append(pad + ka + b':')
                lines += block(b, ind + 2, rng)
            else:
                lines.append(pad + ka + b': ' + flow(b, rng))
    else:
        for x in v[1]:
            if is_scalar(x):
                lines.append(pad + b'- ' + render_scalar(x, rng))
            elif not x[1]:
                lines.append(pad + (b'- []' if x[0] == 'seq' else b'- {}'))
            elif can_block(x) and rng.random() < 0.6:
                lines.append(pad + b'-')
                lines += block(x, ind + 2, rng)
            else:
                lines.append(pad + b'- ' + flow(x, rng))
    return lines


def can_block(v):
    if v[0] == 'map':
        return bool(v[1]) and all(is_scalar(a) and len(scalar_text(a)) < 100 and b'\n' not in scalar_text(a)
                                  for a, _ in v[1])
    if v[0] == 'seq':
        return bool(v[1])
    return False


def render(v, rng):
    """one YAML document (bytes) denoting the value tree v"""
    if is_scalar(v):
        return render_scalar(v, rng) + b'\n'
    if can_block(v) and rng.random() < 0.75:
        head = b'---\n' if rng.random() < 0.2 else b''
        return head + b'\n'.join(block(v, 0, rng)) + b'\n'
    return flow(v, rng) + b'\n'


def selftest_render(trees, rng):
    """development aid: PyYAML (BaseLoader: every scalar as its text) must read the rendered text back as the same shape"""
    import yaml
    EMPTY = object()

    def shape(v):
        if v[0] == 'seq':
            return [shape(x) for x in v[1]]
        if v[0] == 'map':
            return [(shape(a), shape(b)) for a, b in v[1]]
        t = scalar_text(v)
        if v[0] == 'z' and v[1] == b'':
            return EMPTY                # PyYAML reports an empty scalar as ''
        return t.decode('utf-8')

    class L(yaml.BaseLoader):
        pass

    def cm(loader, node):
        return [(loader.construct_object(k, deep=True), loader.construct_object(val, deep=True)) for k, val in node.value]

    L.add_constructor('tag:yaml.org,2002:map', cm)
    bad = []
    for t in trees:
        txt = render(t, rng)
        try:
            got = yaml.load(txt.decode('utf-8'), Loader=L)
        except Exception as e:
            bad.append((t, txt, repr(e)))
            continue

        def eq(a, b):
            if a is EMPTY:
                return b in ('~', '')
            if isinstance(a, list) and isinstance(b, list) and len(a) == len(b):
                return all(eq(x, y) for x, y in zip(a, b))
            if isinstance(a, tuple) and isinstance(b, tuple) and len(a) == len(b):
                return all(eq(x, y) for x, y in zip(a, b))
            return a == b
        if not eq(shape(t), got):
            bad.append((t, txt, got))
    return bad


# ------------------------------------------------------------------------------------------ layouts

class Layout:
    """directories (relative to a case base) with what their zinoma.yml is, symlinks and plain files"""

    def __init__(self, root='r'):
        self.root = root
        self.dirs = {}        # rel -> None | ('val', tree) | ('raw', bytes) | ('ymldir',)
        self.links = {}       # rel -> link target (str)
        self.files = {}       # rel -> bytes (plain files that are not configs)
        self.note = ''

    def put(self, rel, spec):
        self.dirs[rel] = spec
        return self


def top_import_strings(tree):
    """every string that can reach canonicalize for this document: values of a top-level imports mapping"""
    out = []

    def from_map(v):
        if v[0] == 'map':
            for _, val in v[1]:
                t = scalar_text(val)
                if t is not None:
                    out.append(t)
    if tree[0] == 'map':
        for k, v in tree[1]:
            if scalar_text(k) == b'imports':
                from_map(v)
    elif tree[0] == 'seq' and len(tree[1]) >= 3:
        from_map(tree[1][2])
    return out


def materialise(lay, base, rng):
    """writes the layout under base (a fresh directory) and returns (fields for the case line, base_real)."""
    os.makedirs(base, exist_ok=True)
    base_real = os.path.realpath(base)
    texts = {}
    for rel in sorted(lay.dirs):
        os.makedirs(os.path.join(base_real, rel), exist_ok=True)
    for rel, spec in lay.dirs.items():
        p = os.path.join(base_real, rel, 'zinoma.yml')
        if spec is None:
            continue
        if spec[0] == 'val':
            txt = render(spec[1], rng)
            texts[rel] = txt
            with open(p, 'wb') as f:
                f.write(txt)
        elif spec[0] == 'raw':
            with open(p, 'wb') as f:
                f.write(spec[1])
        elif spec[0] == 'ymldir':
            os.makedirs(p, exist_ok=True)
    for rel, content in lay.files.items():
        os.makedirs(os.path.dirname(os.path.join(base_real, rel)), exist_ok=True)
        with open(os.path.join(base_real, rel), 'wb') as f:
            f.write(content)
    for rel, tgt in lay.links.items():
        os.makedirs(os.path.dirname(os.path.join(base_real, rel)), exist_ok=True)
        os.symlink(tgt, os.path.join(base_real, rel))

    def token(real):
        if real == base_real:
            return '.'
        if real.startswith(base_real + '/'):
            return real[len(base_real) + 1:]
        return 'ABS' + real

    def status(tok):
        if tok in lay.dirs:
            spec = lay.dirs[tok]
            if spec is None:
                return '-'
            if spec[0] == 'val':
                return 'V' + enc(spec[1])
            return '!'
        real = tok[3:] if tok.startswith('ABS') else os.path.join(base_real, tok)
        if os.path.lexists(os.path.join(real, 'zinoma.yml')) and os.path.isdir(real):
            return None           # a config we did not write: the case cannot be described to the model
        return '-'

    root_real = os.path.join(base_real, lay.root)
    root_tok = token(os.path.realpath(root_real))
    todo = [root_tok]
    seen = []
    cfields = []
    ok = True
    while todo:
        tok = todo.pop()
        if tok in seen:
            continue
        seen.append(tok)
        spec = lay.dirs.get(tok)
        if spec is None or spec[0] != 'val':
            continue
        dreal = os.path.join(base_real, tok) if tok != '.' else base_real
        for rel in top_import_strings(spec[1]):
            try:
                target = os.path.realpath(os.path.join(os.fsencode(dreal), rel), strict=True)
                res = token(os.fsdecode(target))
            except (OSError, ValueError):
                res = None
            cfields += ['C', hexs(tok.encode()), hexs(rel), hexs(res.encode()) if res is not None else '!']
            if res is not None:
                todo.append(res)
    dfields = []
    for tok in seen:
        st = status(tok)
        if st is None:
            ok = False
            st = '-'
        dfields += ['D', hexs(tok.encode()), st]
    fields = [hexs(os.fsencode(root_real)), hexs(root_tok.encode())] + dfields + cfields
    return fields, base_real, texts, ok


# ------------------------------------------------------------------------------------------ results

def unhex(h):
    return b'' if h in ('_', '-') else bytes.fromhex(h)


def parse_result(line, base_real=None):
    """canonical form of a result line (without the id): ('ERR', frozenset(classes)) | ('OK', dict) | ('PANIC',) | ..."""
    f = line.split(' ')
    if f[0] == 'ERR':
        cls = set()
        for c in f[1].split('|'):
            cls.add({'DirMissing': 'ImportDirMissing', 'DirInvalid': 'ImportDirMissing'}.get(c, c))
        return ('ERR', frozenset(cls), 'ORDERS-SAMPLED' in f)
    if f[0] != 'OK':
        return (f[0],) + tuple(f[1:])

    def dtok(s):
        assert s.startswith('@'), s
        b = unhex(s[1:])
        if base_real is None:
            return b.decode('utf-8', 'replace')
        p = os.fsdecode(b)
        if p == base_real:
            return '.'
        if p.startswith(base_real + '/'):
            return p[len(base_real) + 1:]
        return 'ABS' + p

    res = {'projects': {}, 'mean': None, 'flags': []}
    cur = None
    i = 1
    mean = False
    while i < len(f):
        t = f[i]
        if mean:
            k, _, v = t.partition('=')
            if v.startswith('@'):
                d, kind, script = v.split(':')
                v = (dtok(d), kind, unhex(script))
            res['mean'].setdefault(unhex(k), set()).add(v)
        elif t.startswith('root='):
            res['root'] = dtok(t[5:])
        elif t.startswith('irroot='):
            res['irroot'] = None if t[7:] == 'N' else unhex(t[8:])
        elif t.startswith('avail='):
            res['avail'] = sorted(unhex(x) for x in t[6:].split(',')) if t[6:] != '.' else []
        elif t.startswith('parse='):
            res['parse'] = t[6:]
        elif t == 'P':
            i += 1
            cur = {'imports': {}, 'targets': {}}
            res['projects'][dtok(f[i])] = cur
        elif t.startswith('name='):
            cur['name'] = None if t[5:] == 'N' else unhex(t[6:])
        elif t == 'I':
            i += 1
            k, _, v = f[i].partition('=')
            cur['imports'][unhex(k)] = unhex(v)
        elif t == 'T':
            i += 1
            k, _, v = f[i].partition('=')
            cur['targets'][unhex(k)] = v
        elif t == 'MEAN':
            mean = True
            res['mean'] = {}
        else:
            res['flags'].append(t)
        i += 1
    return ('OK', res)


def describe(res):
    """JSON-able rendering of a parsed result"""
    if res[0] != 'OK':
        return [res[0]] + [sorted(x) if isinstance(x, (set, frozenset)) else x for x in res[1:]]
    r = res[1]
    return {'root': r.get('root'), 'ir_root_name': repr(r.get('irroot')), 'available_names': [repr(x) for x in r.get('avail', [])],
            'projects': {d: {'name': repr(p.get('name')), 'imports': {repr(k): repr(v) for k, v in p['imports'].items()},
                             'targets': {repr(k): v for k, v in p['targets'].items()}} for d, p in r['projects'].items()},
            'meaning': None if r['mean'] is None else {repr(k): sorted(map(repr, v)) for k, v in r['mean'].items()},
            'flags': r['flags']}
