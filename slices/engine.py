# Shared driver of the engine properties (C01 C04 C07 C08 C10 C11 C17 C20):
#   1. actor-level correspondence (one real actor vs Actor.actor_step) under the property's projection;
#   2. system-level black-box scenarios on the real binary with the property's oracle;
#   3. when the correspondence breaks, a wider system-level search for a concrete failing input.
import concurrent.futures
import json
import random
import vf
from slices import actor, sysrun


def sys_campaign(ck, prop, n, families=None, gated_p=0.6, fail_p=0.25, workers=6, seed_base=0, hang_s=None, stop_on_first=False):
    """runs n generated one-shot scenarios; returns list of (obs, texts) violating `prop`"""
    jobs = []
    for i in range(n):
        r = random.Random(ck.rng.getrandbits(48))
        fam, T, roots = sysrun.gen_graph(r, family=(r.choice(families) if families else None))
        fail = set()
        if r.random() < fail_p:
            builds = [t for t in T if T[t]['kind'] == 'build']
            if builds:
                fail = set(r.sample(builds, min(len(builds), r.choice([1, 1, 2]))))
        gated = r.random() < gated_p
        jobs.append((i, fam, T, roots, fail, gated, r))
    found = []

    def one(job):
        i, fam, T, roots, fail, gated, r = job
        obs, V = sysrun.oneshot(r, T, roots, fail=fail, gated=gated, tag='%s_%d_%d' % (prop, seed_base, i), hang_s=hang_s)
        return job, obs, V
    with concurrent.futures.ThreadPoolExecutor(max_workers=workers) as ex:
        for job, obs, V in ex.map(one, jobs):
            i, fam, T, roots, fail, gated, r = job
            key = ('sys', fam, json.dumps(T, sort_keys=True), tuple(roots), tuple(sorted(fail)), gated)
            ck.count(key, nontrivial=len(obs['trace']) > 0,
                     sample={'family': fam, 'targets': T, 'roots': roots, 'fail': sorted(fail), 'gated': gated,
                             'outcome': obs['outcome'], 'exit_code': obs['exit_code'], 'trace': obs['trace'][:12]})
            ck.tally('sys:family=' + fam)
            ck.tally('sys:outcome=' + str(obs['outcome']))
            if fail:
                ck.tally('sys:with_failure')
            if obs['keepalive_expected']:
                ck.tally('sys:keepalive_expected')
            if prop in V:
                found.append((obs, V[prop]))
    return found


def check_engine(ck, prop, projection, what, n_actor_quick=400, n_sys_quick=24, families=None, fail_p=0.25, gated_p=0.6,
                 extra=None):
    quick = ck.tier == 'quick'
    n_actor = n_actor_quick if quick else n_actor_quick * 12
    n_sys = n_sys_quick if quick else n_sys_quick * 12
    ck.rule('system: real binary on generated graphs (chains, fans, diamonds with unequal arms, aggregate chains, services '
            'requested and depended on, random DAGs <= 9 targets, duplicate requests/dependencies) with FIFO-gated build scripts '
            'released in random order, failing subsets; oracle = the property evaluated on the observed trace, exit status and '
            'process table; non-trivial = distinct (graph, roots, failing set, gating) with at least one script start')
    # 1. actor-level correspondence
    diffs = actor.run(ck, n_actor, project=projection, what=what)
    # 2. system-level scenarios
    found = sys_campaign(ck, prop, n_sys, families=families, fail_p=fail_p, gated_p=gated_p)
    if extra:
        found += extra(ck)
    for obs, texts in found[:3]:
        ck.violation({'kind': 'system-run', 'what': texts, 'targets': obs['targets'], 'roots': obs['roots'],
                      'failing_scripts': obs['fail'], 'gated': obs['gated'], 'observed_trace': obs['trace'],
                      'outcome': obs['outcome'], 'exit_code': obs['exit_code'], 'stderr_tail': obs['stderr_tail'],
                      'replay': 'write zinoma.yml with these targets (scripts append start/end lines to a trace), run '
                                '`zinoma %s`, release the gated builds in the order of the observed trace' % ' '.join(obs['roots'])},
                     found_input=True)
    # 3. correspondence broken: search for a failing input, else report the broken correspondence
    if diffs and not found:
        wider = sys_campaign(ck, prop, 60 if quick else 300, families=families, fail_p=fail_p, gated_p=gated_p, seed_base=1)
        if wider:
            obs, texts = wider[0]
            ck.violation({'kind': 'system-run (found while searching around a broken actor correspondence)', 'what': texts,
                          'targets': obs['targets'], 'roots': obs['roots'], 'failing_scripts': obs['fail'],
                          'observed_trace': obs['trace'], 'outcome': obs['outcome'], 'exit_code': obs['exit_code'],
                          'actor_difference': diffs[0]}, found_input=True)
        else:
            ck.violation({'kind': 'correspondence', 'correspondence': 'Actor.actor_step vs the real target actor (projection: %s)' % what,
                          'difference': diffs[0], 'n_differences': len(diffs),
                          'searched': 'system-level scenarios found no violation of the property'}, found_input=False)
    return diffs, found
