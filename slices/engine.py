# Shared driver of the engine properties (C01 C04 C07 C08 C10 C11 C17 C20):
#   1. actor-level correspondence (one real actor vs Actor.actor_step) under the property's projection;
#   2. system-level black-box scenarios on the real binary with the property's oracle;
#   3. when the correspondence breaks, a wider system-level search for a concrete failing input.
import concurrent.futures
import json
import os
import random
import re
import vf
from slices import actor, evflow, flow, root, sysrun


def sys_campaign(ck, prop, n, families=None, gated_p=0.6, fail_p=0.25, workers=6, seed_base=0, hang_s=None, stop_on_first=False,
                 clean_p=0.0):
    """runs n generated one-shot scenarios; returns list of (obs, texts) violating `prop`"""
    jobs = []
    for i in range(n):
        r = random.Random(ck.rng.getrandbits(48))
        fam, T, roots = sysrun.gen_graph(r, family=(r.choice(families) if families else None))
        fail = {}
        if r.random() < fail_p:
            builds = [t for t in T if T[t]['kind'] == 'build']
            if builds:
                fail = {t: r.choice([1, 1, 2, 143, 'K9', 'K15', 'K11']) for t in r.sample(builds, min(len(builds), r.choice([1, 1, 2])))}
        gated = r.random() < gated_p
        jobs.append((i, fam, T, roots, fail, gated, r))
    found = []
    clean_rng = random.Random(ck.rng.getrandbits(32))

    def one(job):
        i, fam, T, roots, fail, gated, r = job
        pre = ('--clean',) if r.random() < clean_p else ()
        # one run in five: builds without declared inputs (never skipped: every pass over a target runs its script)
        obs, V = sysrun.oneshot(r, T, roots, fail=fail, gated=gated, tag='%s_%d_%d' % (prop, seed_base, i), hang_s=hang_s,
                                pre_args=pre, with_inputs=r.random() < 0.8)
        return job, obs, V
    with concurrent.futures.ThreadPoolExecutor(max_workers=workers) as ex:
        for job, obs, V in ex.map(one, jobs):
            i, fam, T, roots, fail, gated, r = job
            key = ('sys', fam, json.dumps(T, sort_keys=True), tuple(roots), tuple(sorted(fail.items())), gated)
            ck.count(key, nontrivial=len(obs['trace']) > 0,
                     sample={'family': fam, 'targets': T, 'roots': roots, 'fail': fail, 'gated': gated,
                             'outcome': obs['outcome'], 'exit_code': obs['exit_code'], 'trace': obs['trace'][:12]})
            ck.tally('sys:family=' + fam)
            ck.tally('sys:outcome=' + str(obs['outcome']))
            if fail:
                ck.tally('sys:with_failure')
            if obs.get('pre_args'):
                ck.tally('sys:with_--clean')
            if obs['keepalive_expected']:
                ck.tally('sys:keepalive_expected')
            if prop in V:
                found.append((obs, V[prop]))
    return found


def report_sys(ck, prop, found, limit=3):
    for obs, texts in found[:limit]:
        ck.violation({'kind': 'watch-scenario' if obs.get('outcome') == 'watch' else 'system-run', 'plan': obs.get('plan'),
                      'when': obs.get('when'), 'signal': obs.get('signal'), 'watch': obs.get('watch'),
                      'what': texts, 'targets': obs['targets'], 'roots': obs['roots'],
                      'failing_scripts': obs['fail'], 'gated': obs['gated'], 'builds_declare_inputs': obs.get('with_inputs', True),
                      'observed_trace': obs['trace'],
                      'dependencies_declared_through_X.output': obs.get('dependencies_declared_through_X.output'),
                      'second_run': obs.get('second_run'),
                      'outcome': obs['outcome'], 'exit_code': obs['exit_code'], 'stderr_tail': obs['stderr_tail'],
                      'arguments_before_targets': obs.get('pre_args'),
                      'replay': 'write zinoma.yml with these targets (scripts append start/end lines to a trace; a status K<n> '
                                'means the script shell kills itself with signal n), run `zinoma %s` (twice when second_run is '
                                'present), release the gated builds in the order of the observed trace' % ' '.join(obs['roots'])},
                     found_input=True)


def fixed_runs(ck, prop, cases, what):
    """deterministic one-shot scenarios that are part of every run of a property: cases = [(name, T, roots, fail, prefer)];
    gated builds, completions released in the order `prefer` as far as it applies.  Returns the violations of `prop`."""
    ck.rule('fixed scenarios (every run): ' + what)
    found = []
    for (name, T, roots, fail, prefer) in cases:
        r = random.Random(ck.rng.getrandbits(48))
        obs, V = sysrun.oneshot(r, T, roots, fail=fail, gated=True, tag='%s_fx_%s' % (prop, name), second_run=False, prefer=prefer,
                                implied_p=0.0)
        ck.count(('fixed', name), nontrivial=len(obs['trace']) > 0,
                 sample={'scenario': name, 'targets': T, 'roots': roots, 'fail': fail, 'completion_order': prefer,
                         'outcome': obs['outcome'], 'exit_code': obs['exit_code'], 'trace': obs['trace'][:12]})
        ck.tally('sys:fixed-scenario')
        if prop in V:
            found.append((obs, V[prop]))
    return found


# a dependency whose script dies from a signal (never an `end 0`): nothing depending on it may start, the run must fail
KILLED_DEPENDENCY = [
    ('killed-dep-K%s' % sig, {'dep': {'kind': 'build', 'deps': []}, 'mid': {'kind': 'aggregate', 'deps': ['dep']},
                              'top': {'kind': 'build', 'deps': ['mid']}, 'side': {'kind': 'build', 'deps': ['dep']}},
     ['top', 'side'], {'dep': 'K%s' % sig}, ['dep'])
    for sig in (9, 15, 11)]

# a build fails while an independent build is still running and a service is up: the exit must take them all down
FAILURE_NEXT_TO_RUNNING = [
    ('failure-next-to-running', {'bad': {'kind': 'build', 'deps': []}, 'slow': {'kind': 'build', 'deps': []},
                                 'svc': {'kind': 'service', 'deps': []}, 'usesvc': {'kind': 'build', 'deps': ['svc']}},
     ['bad', 'slow', 'svc', 'usesvc'], {'bad': 1}, ['bad']),
    ('failure-behind-aggregate-next-to-running',
     {'bad': {'kind': 'build', 'deps': []}, 'slow': {'kind': 'build', 'deps': []}, 'svc': {'kind': 'service', 'deps': []},
      'all': {'kind': 'aggregate', 'deps': ['slow', 'svc', 'bad']}}, ['all'], {'bad': 3}, ['bad'])]


def two_invocations(ck, prop, n_quick=10, fail_p=0.7):
    """real-binary runs whose builds declare inputs, with scripts that fail or are killed by a signal, followed by a second
    invocation on the untouched tree: what completed is skipped, what did not complete runs again"""
    ck.rule('two invocations of the real binary on generated graphs whose builds declare inputs: scripts exit 0 / non-zero / '
            'die from a signal (KILL, TERM, SEGV); second invocation on the untouched tree: completed builds are skipped, '
            'failed or killed ones run again')
    n = n_quick if ck.tier == 'quick' else n_quick * 10
    found = sys_campaign(ck, prop, n, fail_p=fail_p, gated_p=0.5)
    report_sys(ck, prop, found)
    return found


def check_engine(ck, prop, projection, what, n_actor_quick=400, n_sys_quick=24, families=None, fail_p=0.25, gated_p=0.6,
                 extra=None, clean_p=0.0, n_root_quick=0, root_projection=None, root_what='run status and relayed outputs',
                 n_flow_quick=0, n_evflow_quick=0):
    quick = ck.tier == 'quick'
    n_actor = n_actor_quick if quick else n_actor_quick * 12
    n_sys = n_sys_quick if quick else n_sys_quick * 12
    ck.rule('system: real binary on generated graphs (chains, fans, diamonds with unequal arms, aggregate chains, services '
            'requested and depended on, random DAGs <= 9 targets, duplicate requests/dependencies) with FIFO-gated build scripts '
            'released in random order, failing subsets; oracle = the property evaluated on the observed trace, exit status and '
            'process table; non-trivial = distinct (graph, roots, failing set, gating) with at least one script start')
    # 1. actor-level correspondence
    diffs = actor.run(ck, n_actor, project=projection, what=what)
    # 1b. root-loop correspondence (the real engine::run vs the root steps of Sys.exec)
    rdiffs = []
    if n_root_quick:
        rdiffs = root.run(ck, n_root_quick if quick else n_root_quick * 12, project=root_projection, what=root_what)
    # 1c. message-flow conformance of whole runs (real engine, every actor replayed on what was relayed to it)
    fdiffs = []
    if n_flow_quick:
        fdiffs = flow.run(ck, n_flow_quick if quick else n_flow_quick * 10)
    # 1d. event-flow conformance, one-shot and watch mode (hooks H7: every event every real actor consumed)
    if n_evflow_quick:
        fdiffs = fdiffs + evflow.run(ck, n_evflow_quick if quick else n_evflow_quick * 8)
    # 2. system-level scenarios
    found = sys_campaign(ck, prop, n_sys, families=families, fail_p=fail_p, gated_p=gated_p, clean_p=clean_p)
    if extra:
        found += extra(ck)
    report_sys(ck, prop, found)
    # 3. correspondence broken: search for a failing input, else report the broken correspondence
    if (diffs or rdiffs or fdiffs) and not found:
        wider = sys_campaign(ck, prop, 60 if quick else 300, families=families, fail_p=fail_p, gated_p=gated_p, seed_base=1,
                             clean_p=clean_p)
        if wider:
            obs, texts = wider[0]
            ck.violation({'kind': 'system-run (found while searching around a broken actor correspondence)', 'what': texts,
                          'targets': obs['targets'], 'roots': obs['roots'], 'failing_scripts': obs['fail'],
                          'observed_trace': obs['trace'], 'outcome': obs['outcome'], 'exit_code': obs['exit_code'],
                          'model_vs_code_difference': (diffs or rdiffs or fdiffs)[0]}, found_input=True)
        elif diffs:
            ck.violation({'kind': 'correspondence', 'correspondence': 'Actor.actor_step vs the real target actor (projection: %s)' % what,
                          'difference': diffs[0], 'n_differences': len(diffs),
                          'searched': 'system-level scenarios found no violation of the property'}, found_input=False)
        elif fdiffs:
            ck.violation({'kind': 'correspondence',
                          'correspondence': 'message / event flow of whole runs of the real engine (one-shot, watch) vs Actor.actor_step replayed per actor',
                          'difference': fdiffs[0], 'n_differences': len(fdiffs),
                          'searched': 'system-level scenarios found no violation of the property'}, found_input=False)
        else:
            ck.violation({'kind': 'correspondence',
                          'correspondence': 'Sys.exec root steps (LRoot, LRootIdle, LSignal, LRootSignal) vs the real engine::run '
                                            '(projection: %s)' % root_what,
                          'difference': rdiffs[0], 'n_differences': len(rdiffs),
                          'searched': 'system-level scenarios found no violation of the property'}, found_input=False)
    return diffs + rdiffs + fdiffs, found


# ------------------------------------------------------------------------------------------------------------ replay
def replay(ck, prop, path, run):
    """Re-executes the input of a replay file written by an engine check: the recorded graph / requested targets / failing
    scripts / completion order on the real binary (several attempts: the interleaving is the runtime's), the recorded case line
    of a broken correspondence through model and implementation, the recorded plan of a watch scenario. Falls back to the whole
    check when the file does not carry a re-executable input (proof status, big generated graphs recorded by family/size)."""
    import signal as _signal
    from slices import watchrun
    try:
        rep = json.load(open(path))
    except Exception as e:
        vf.log('[%s] replay file unreadable (%r): running the whole check' % (prop, e))
        return run(ck)
    kind = rep.get('kind', '')
    r = random.Random(ck.rng.getrandbits(48))
    T = rep.get('targets')
    plain_graph = isinstance(T, dict) and T and all(isinstance(v, dict) and 'kind' in v and 'deps' in v for v in T.values())
    attempts = 5
    if kind.startswith('system-run') and plain_graph and rep.get('when') and rep.get('signal'):
        ck.rule('replay: the recorded graph, instant and signal on the real binary, up to %d attempts' % attempts)
        for i in range(attempts):
            if str(rep['when']).startswith('mid-build'):
                obs, V = sysrun.watch_signal_midbuild(r, tag='%s_rp%d' % (prop, i))
            else:
                obs, V = sysrun.signal_scenario(r, T, rep['roots'], rep['when'], getattr(_signal, rep['signal']), tag='%s_rp%d' % (prop, i),
                                                watch=bool(rep.get('watch')))
            ck.count(('replay', i), sample={'attempt': i, 'verdicts': V})
            if prop in V:
                o = dict(obs)
                o.update({'outcome': 'signal', 'fail': [], 'gated': True, 'stderr_tail': ''})
                report_sys(ck, prop, [(o, V[prop])])
                return
        vf.log('[%s] replay: the property held on the recorded input in %d attempts' % (prop, attempts))
        return
    if kind.startswith('system-run') and plain_graph and 'roots' in rep:
        fail = rep.get('failing_scripts') or {}
        if isinstance(fail, list):
            fail = {t: 1 for t in fail}
        prefer = [x[1] for x in (rep.get('observed_trace') or []) if x and x[0] == 'end']
        ck.rule('replay: the recorded graph, requested targets, failing scripts, X.output edges and completion order on the real '
                'binary, up to %d attempts' % attempts)
        for i in range(attempts):
            obs, V = sysrun.oneshot(r, T, rep['roots'], fail=fail, gated=bool(rep.get('gated', True)), tag='%s_rp%d' % (prop, i),
                                    pre_args=tuple(rep.get('arguments_before_targets') or ()),
                                    with_inputs=bool(rep.get('builds_declare_inputs', True)),
                                    implied_edges=rep.get('dependencies_declared_through_X.output') or [],
                                    prefer=prefer if i < 3 else None, hold_s=0.0 if i % 2 == 0 else 0.3)
            ck.count(('replay', i), sample={'attempt': i, 'trace': obs['trace'][:12], 'verdicts': V})
            if prop in V:
                report_sys(ck, prop, [(obs, V[prop])])
                return
        vf.log('[%s] replay: the property held on the recorded input in %d attempts' % (prop, attempts))
        return
    if kind == 'correspondence' and isinstance(rep.get('difference'), dict):
        dif = rep['difference']
        line = None
        text = dif.get('replay', '')
        if 'hinted line: ' in text:
            line = text.split('hinted line: ', 1)[1].strip()
        elif dif.get('case', '').startswith('W ') or dif.get('case', '').startswith('V '):
            line = dif['case']
        if line and line[:1] in ('W', 'V'):
            # whole recorded run: run the real engine again on the case line (up to 3 times: the interleaving is the runtime's) and
            # replay what it logs through the model
            mode = 'flow' if line[:1] == 'W' else 'evflow'
            d = vf.scratch_dir('%s_rp' % prop)
            ck.rule('replay: the recorded case line through the real engine (mode %s) and the model, up to 3 runs' % mode)
            cid = line.split(' ')[1]
            for i in range(3):
                hf = os.path.join(d, 'impl.txt')
                mf = os.path.join(d, 'model.txt')
                open(hf, 'w').write(line + '\n')
                rc, out, err = vf.run_impl(mode, hf, env={'ZINOMA_VERIF_SCRATCH': os.path.join(d, 'run')})
                r = vf.by_id(out).get(cid, '')
                parts = dict(x.split('=', 1) for x in r.split(' ') if '=' in x and x[:2] in ('st', 'co', 'E=', 'O='))
                if 'O' not in parts:
                    ck.violation({'kind': 'correspondence', 'correspondence': rep.get('correspondence'),
                                  'difference': {'case': line, 'implementation': r or 'no result', 'replay': text}}, found_input=False)
                    break
                if mode == 'flow':
                    open(mf, 'w').write('%s %s %s %s\n' % (line, parts.get('status', '?'), parts.get('consumed', '0'), parts['O'][1:-1] or '-'))
                else:
                    open(mf, 'w').write('%s %s %s %s %s\n' % (line, parts.get('status', '?'), parts.get('consumed', '0'),
                                                              parts.get('E', '[]')[1:-1] or '-', parts['O'][1:-1] or '-'))
                m = vf.by_id(vf.run_model(mode, mf)).get(cid, 'NOT-EVALUATED')
                ck.count(('replay', line, i), sample={'case': line, 'run': i, 'model_verdict': m, 'logged': r[:300]})
                if m != 'OK':
                    ck.violation({'kind': 'correspondence', 'correspondence': rep.get('correspondence'),
                                  'difference': {'case': line, 'logged_flow': r, 'model_verdict': m, 'replay': text}}, found_input=False)
                    break
            else:
                vf.log('[%s] replay: the real engine and the model agree on the recorded case in 3 runs' % prop)
            vf.sh(['rm', '-rf', d])
            return
        if line:
            mode = {'A': 'actor', 'R': 'root', 'W': 'flow'}.get(line[:1])
            if mode in ('actor', 'root'):
                d = vf.scratch_dir('%s_rp' % prop)
                hf = os.path.join(d, 'impl.txt')
                mf = os.path.join(d, 'model.txt')
                open(hf, 'w').write(line + '\n')
                open(mf, 'w').write(' '.join(tok.split('@')[0] for tok in line.split(' ')) + '\n')
                model = vf.by_id(vf.run_model(mode, mf))
                rc, out, err = vf.run_impl(mode, hf, env={'ZINOMA_VERIF_SCRATCH': os.path.join(d, 'run')})
                impl = vf.by_id(out)
                cid = line.split(' ')[1]
                m = re.sub(r' hint=\S+', '', model.get(cid, 'MISSING').split(' #bd=')[0])
                ii = impl.get(cid, 'MISSING')
                ck.rule('replay: the recorded case line through the extracted model and the real code')
                ck.count(('replay', line), sample={'case': line, 'model': m, 'implementation': ii})
                if m != ii:
                    ck.violation({'kind': 'correspondence', 'correspondence': rep.get('correspondence'),
                                  'difference': {'case': line, 'model': m, 'implementation': ii, 'replay': text}}, found_input=False)
                else:
                    vf.log('[%s] replay: model and implementation agree on the recorded case' % prop)
                vf.sh(['rm', '-rf', d])
                return
    if kind == 'watch-scenario' and isinstance(T, dict) and rep.get('plan') is not None:
        ck.rule('replay: the recorded watch graph and change plan on the real binary, up to 3 attempts')
        for i in range(3):
            obs, V, known = watchrun.scenario(r, T, rep['roots'], bool(rep.get('gated', True)), [tuple(x) for x in rep['plan']],
                                              tag='%s_rp%d' % (prop, i))
            ck.count(('replay', i), sample={'attempt': i, 'verdicts': V, 'known': known})
            for fid, text in known:
                ck.violation({'kind': 'watch-scenario', 'what': text, 'targets': obs['targets'], 'roots': obs['roots'], 'plan': obs['plan'],
                              'observed_trace': obs['trace']}, found_input=True, finding_id=fid)
            if prop in V:
                for text in V[prop]:
                    ck.violation({'kind': 'watch-scenario', 'what': text, 'targets': obs['targets'], 'roots': obs['roots'],
                                  'plan': obs['plan'], 'gated': obs['gated'], 'observed_trace': obs['trace']}, found_input=True)
                return
            if known:
                return
        vf.log('[%s] replay: the property held on the recorded scenario in 3 attempts' % prop)
        return
    if kind == 'real-watcher' and rep.get('operations'):
        ck.rule('replay: the recorded file operations through the real watcher')
        obs, V = watchrun.filter_scenario(r, tag='%s_rp' % prop, ops=list(rep['operations']))
        ck.count(('replay', tuple(obs['ops'])), sample={'operations': obs['ops'], 'verdicts': V})
        for text in V.get('C16', []):
            ck.violation({'kind': 'real-watcher', 'what': text, 'operations': obs['ops']}, found_input=True)
        return
    vf.log('[%s] the replay file carries no re-executable input of a kind known to the engine replayer (%s): running the whole check'
           % (prop, kind or 'no kind'))
    return run(ck)
