# Shared machinery of the zinoma verification checks (see DESIGN.md §2, §8).
#   build_impl()    cargo build of /repo's working tree with the hooks on  -> path of the binary
#   build_model()   full `make` of the Coq development + extraction + OCaml runner
#   proof_status()  obligations in the cone of Properties/<id>.v, forbidden-vernacular scan, Print Assumptions
#   run_impl()/run_model()  run one harness mode on a case file, canonical lines back
#   Check           collects coverage, prints VIOLATION / KNOWN-FINDING lines, writes evidence/<id>.json
import fcntl
import hashlib
import json
import os
import random
import re
import subprocess
import sys
import time

VERIF = os.path.dirname(os.path.dirname(os.path.abspath(__file__)))
REPO = os.environ.get('VERIF_REPO', '/repo')
CACHE = os.path.join(VERIF, '.cache')
TARGET = os.path.join(CACHE, 'target' if REPO == '/repo' else 'target_' + hashlib.sha1(REPO.encode()).hexdigest()[:8])
COQ = os.path.join(VERIF, 'coq')
RUNNER = os.path.join(CACHE, 'runner', 'runner')
ZINOMA = os.path.join(TARGET, 'debug', 'zinoma')
SCRATCH = os.path.join(CACHE, 'scratch')
GUARD = 'zinoma_verif'

AXIOM_ALLOWLIST = set()     # standard-library axioms the development is allowed to depend on (none so far)

FORBIDDEN = re.compile(
    r'\b(Admitted|admit|Axiom|Axioms|Parameter|Parameters|Conjecture|Conjectures|Admit\s+Obligations|'
    r'Unset\s+Guard\s+Checking|Unset\s+Positivity\s+Checking|Unset\s+Universe\s+Checking|bypass_check|'
    r'Local\s+Unset\s+Guard|type-in-type|impredicative-set)\b')


def log(*a):
    print(*a, file=sys.stderr, flush=True)


class Lock:
    def __init__(self, name):
        os.makedirs(CACHE, exist_ok=True)
        self.path = os.path.join(CACHE, name + '.lock')

    def __enter__(self):
        self.f = open(self.path, 'w')
        fcntl.flock(self.f, fcntl.LOCK_EX)
        return self

    def __exit__(self, *a):
        fcntl.flock(self.f, fcntl.LOCK_UN)
        self.f.close()


def sh(cmd, timeout=None, cwd=None, env=None, input=None):
    e = dict(os.environ)
    if env:
        e.update(env)
    p = subprocess.run(cmd, shell=isinstance(cmd, str), cwd=cwd, env=e, timeout=timeout, input=input,
                       stdout=subprocess.PIPE, stderr=subprocess.PIPE)
    return p.returncode, p.stdout.decode('utf-8', 'replace'), p.stderr.decode('utf-8', 'replace')


# ----------------------------------------------------------------------------------------------- builds

def reset_signals():
    """preexec_fn of every zinoma process the harness signals: a check started from a background shell job or under nohup
    inherits SIGINT/SIGQUIT/SIGHUP as ignored, and an ignored signal sent before zinoma installs its handler is dropped"""
    import signal as _s
    for sg in (_s.SIGINT, _s.SIGQUIT, _s.SIGHUP, _s.SIGTERM):
        _s.signal(sg, _s.SIG_DFL)


def build_impl():
    """cargo build of the current working tree of /repo, hooks on. Returns (ok, log)."""
    with Lock('cargo'):
        t0 = time.time()
        sh(['sh', os.path.join(VERIF, 'harness', 'gen_modes.sh')], timeout=60)
        rc, out, err = sh(['cargo', 'build', '--offline'], cwd=REPO, timeout=1800,
                          env={'RUSTFLAGS': '--cfg ' + GUARD, 'CARGO_TARGET_DIR': TARGET,
                               'CARGO_NET_OFFLINE': 'true'})
        log('[build_impl] rc=%d %.1fs' % (rc, time.time() - t0))
        if rc != 0:
            return False, err[-4000:]
        return True, ''


PLAIN = False


def build_plain():
    """fallback when the hooks-on build fails (a change of /repo that the in-process harness no longer compiles against): the
    plain binary, guard off, for the black-box scenarios — the search for a concrete failing input goes on without the harness"""
    global ZINOMA, PLAIN
    with Lock('cargo'):
        t0 = time.time()
        tdir = TARGET + '_plain'
        rc, out, err = sh(['cargo', 'build', '--offline'], cwd=REPO, timeout=1800,
                          env={'CARGO_TARGET_DIR': tdir, 'CARGO_NET_OFFLINE': 'true', 'RUSTFLAGS': ''})
        log('[build_plain] rc=%d %.1fs' % (rc, time.time() - t0))
        if rc != 0:
            return False
        ZINOMA = os.path.join(tdir, 'debug', 'zinoma')
        PLAIN = True
        return True


def coq_sources():
    out = []
    for d in ('Model', 'Proofs', 'Properties'):
        p = os.path.join(COQ, d)
        if os.path.isdir(p):
            out += [os.path.join(p, f) for f in sorted(os.listdir(p)) if f.endswith('.v')]
    if os.path.exists(os.path.join(COQ, 'Extract.v')):
        out.append(os.path.join(COQ, 'Extract.v'))
    return out


def build_model(targets=None):
    """Full .vo build (never -vos) of `targets` (default: everything), extraction, runner. Returns (ok, log)."""
    with Lock('coq'):
        t0 = time.time()
        rc, out, err = sh(['sh', './gen_coqproject.sh'], cwd=COQ, timeout=120)
        if rc != 0:
            return False, 'gen_coqproject failed: ' + err
        sh(['sh', os.path.join(VERIF, 'harness', 'gen_modes.sh')], timeout=60)
        tg = ' '.join(targets) if targets else ''
        rc, out, err = sh('timeout 3000 make -j16 %s 2>&1' % tg, cwd=COQ, timeout=3100)
        log('[build_model] make rc=%d %.1fs' % (rc, time.time() - t0))
        if rc != 0:
            return False, out[-6000:]
        model_ml = os.path.join(COQ, 'model.ml')
        srcs = [model_ml] + [os.path.join(VERIF, 'runner', f) for f in os.listdir(os.path.join(VERIF, 'runner'))]
        if (not os.path.exists(RUNNER)) or any(os.path.getmtime(s) > os.path.getmtime(RUNNER) for s in srcs):
            rc, out, err = sh(['sh', os.path.join(VERIF, 'runner', 'build.sh')], timeout=900)
            log('[build_model] runner rc=%d %.1fs' % (rc, time.time() - t0))
            if rc != 0:
                return False, 'runner build failed: ' + (out + err)[-4000:]
        return True, ''


# ----------------------------------------------------------------------------------------------- proofs

def strip_comments(src):
    out = []
    depth = 0
    i = 0
    n = len(src)
    while i < n:
        if src.startswith('(*', i):
            depth += 1
            i += 2
        elif src.startswith('*)', i) and depth > 0:
            depth -= 1
            i += 2
        else:
            if depth == 0:
                out.append(src[i])
            i += 1
    return ''.join(out)


def cone_of(prop_file):
    """transitive .v dependencies of a Properties file inside the development (by parsing Require lines)."""
    seen = []
    todo = [prop_file]
    while todo:
        f = todo.pop()
        if f in seen or not os.path.exists(f):
            continue
        seen.append(f)
        src = strip_comments(open(f).read())
        for m in re.finditer(r'From\s+Zinoma\.(\w+)\s+Require\s+(?:Import\s+|Export\s+)?([\w\s]+?)\.', src):
            for name in m.group(2).split():
                todo.append(os.path.join(COQ, m.group(1), name + '.v'))
        for m in re.finditer(r'Require\s+(?:Import\s+|Export\s+)?((?:Zinoma\.\w+\.\w+\s*)+)\.', src):
            for q in m.group(1).split():
                parts = q.split('.')
                todo.append(os.path.join(COQ, parts[1], parts[2] + '.v'))
    return seen


def proof_status(prop):
    """Returns dict(ok, reason, obligations, discharged, theorems, axioms, files)."""
    res = dict(ok=False, reason='', obligations=0, discharged=0, theorems=[], axioms={}, files=[])
    pf = os.path.join(COQ, 'Properties', prop + '.v')
    if not os.path.exists(pf):
        res['reason'] = 'no Properties/%s.v' % prop
        return res
    # forbidden vernacular anywhere in the development
    for f in coq_sources():
        src = strip_comments(open(f).read())
        m = FORBIDDEN.search(src)
        if m:
            res['reason'] = 'forbidden vernacular %r in %s' % (m.group(0), os.path.relpath(f, COQ))
            return res
        if re.search(r'^\s*(Variable|Variables|Hypothesis|Hypotheses|Context)\b', src, re.M) and 'Section' not in src:
            res['reason'] = 'Variable/Hypothesis outside a section in %s' % os.path.relpath(f, COQ)
            return res
    ok, out = build_model(None if os.environ.get('VERIF_FULL_MAKE') else ['Properties/%s.vo' % prop, 'Extract.vo'])
    if not ok:
        res['reason'] = 'coq build failed: ' + out[-1500:]
        return res
    cone = cone_of(pf)
    res['files'] = [os.path.relpath(f, COQ) for f in cone]
    nob = 0
    for f in cone:
        src = strip_comments(open(f).read())
        nob += len(re.findall(r'\bQed\s*\.', src)) + len(re.findall(r'\bDefined\s*\.', src))
    res['obligations'] = nob
    src = strip_comments(open(pf).read())
    thms = re.findall(r'^\s*(?:Theorem|Corollary)\s+(\w+)', src, re.M)
    res['theorems'] = thms
    if not thms:
        res['reason'] = 'no theorem in Properties/%s.v' % prop
        return res
    # the property file may contain nothing but statements closed by `exact` (Examples may compute)
    for m in re.finditer(r'(?:Theorem|Corollary)\s+(\w+)(.*?)Proof\.(.*?)Qed\.', src, re.S):
        body = m.group(3).strip()
        if not re.fullmatch(r'(intros[^.]*\.\s*)?(exact|apply)\s+[^.]*(\.[\w]+[^.]*)*\.', body):
            res['reason'] = 'Properties/%s.v: theorem %s has a proof script other than `exact <lemma>`: %r' % (
                prop, m.group(1), body[:80])
            return res
    adir = os.path.join(CACHE, 'assum')
    os.makedirs(adir, exist_ok=True)
    af = os.path.join(adir, 'Assum_%s.v' % prop)
    with open(af, 'w') as f:
        f.write('From Zinoma.Properties Require Import %s.\n' % prop)
        for t in thms:
            f.write('Print Assumptions %s.\n' % t)
    rc, out, err = sh(['coqc', '-noglob', '-Q', COQ, 'Zinoma', af], timeout=600, cwd=adir)
    if rc != 0:
        res['reason'] = 'Print Assumptions failed: ' + (out + err)[-800:]
        return res
    # output: one block per theorem, either "Closed under the global context" or "Axioms:\n name : type ..."
    blocks = re.split(r'(?=Closed under the global context|Axioms:)', out)
    blocks = [b for b in blocks if b.strip()]
    if len(blocks) != len(thms):
        res['reason'] = 'cannot parse Print Assumptions output (%d blocks for %d theorems)' % (len(blocks), len(thms))
        return res
    bad = []
    for t, b in zip(thms, blocks):
        if b.startswith('Closed under the global context'):
            res['axioms'][t] = []
        else:
            names = re.findall(r'^([\w.\']+)\s*:', b, re.M)
            res['axioms'][t] = names
            for nme in names:
                if nme not in AXIOM_ALLOWLIST:
                    bad.append('%s depends on %s' % (t, nme))
    if bad:
        res['reason'] = 'assumptions outside the allowlist: ' + '; '.join(bad)
        return res
    res['discharged'] = nob
    res['ok'] = True
    return res


# ----------------------------------------------------------------------------------------------- runners

def scratch_dir(tag):
    d = os.path.join(SCRATCH, '%s_%d' % (tag, os.getpid()))
    sh(['rm', '-rf', d])
    os.makedirs(d, exist_ok=True)
    return d


def run_impl(mode, casefile, env=None, timeout=900):
    e = {'ZINOMA_VERIF': mode, 'ZINOMA_VERIF_CASES': casefile, 'RUST_BACKTRACE': '0'}
    if env:
        e.update(env)
    if PLAIN:
        return 1, [], 'the in-process harness is not available (hooks-on build failed): plain binary only'
    # The harness process may leave children behind (a service the real code failed to stop): they would keep a pipe open
    # for ever, so the output goes to files, the process runs in its own session and whatever is left of that session when it
    # has exited is counted (LEFTOVER[casefile]) and killed.
    import signal as _s
    import tempfile
    ee = dict(os.environ)
    ee.update(e)
    with tempfile.TemporaryFile() as fo, tempfile.TemporaryFile() as fe:
        p = subprocess.Popen([ZINOMA], env=ee, stdout=fo, stderr=fe, stdin=subprocess.DEVNULL, start_new_session=True,
                             preexec_fn=reset_signals)
        try:
            rc = p.wait(timeout=timeout)
        except subprocess.TimeoutExpired:
            rc = -9
        def session_members():
            n = 0
            try:
                for d in os.listdir('/proc'):
                    if d.isdigit() and int(d) != p.pid:
                        try:
                            st = open('/proc/%s/stat' % d).read()
                            f = st[st.rindex(')') + 2:].split()
                            if int(f[2]) == p.pid and f[0] != 'Z':          # pgrp
                                n += 1
                        except (OSError, ValueError, IndexError):
                            pass
            except OSError:
                pass
            return n
        # a cancelled build script is killed as a shell: a `sleep` it had started may outlive it for a few milliseconds (the
        # scripts of the harness modes sleep 120 ms at most); only what is still there after a second counts
        left = session_members()
        t_left = time.time()
        while left and time.time() - t_left < 1.0:
            time.sleep(0.05)
            left = session_members()
        LEFTOVER[casefile] = left
        try:
            os.killpg(p.pid, _s.SIGKILL)
        except (ProcessLookupError, PermissionError):
            pass
        try:
            p.wait(timeout=10)
        except Exception:
            pass
        fo.seek(0)
        fe.seek(0)
        out = fo.read().decode('utf-8', 'replace')
        err = fe.read().decode('utf-8', 'replace')
    return rc, out.splitlines(), err


LEFTOVER = {}


def run_model(mode, casefile, timeout=900):
    rc, out, err = sh([RUNNER, mode, casefile], timeout=timeout)
    if rc != 0:
        raise RuntimeError('model runner failed on %s %s: %s' % (mode, casefile, err[-2000:]))
    return out.splitlines()


def by_id(lines):
    d = {}
    for l in lines:
        k, _, v = l.partition(' ')
        d[k] = v
    return d


def hexs(b):
    if isinstance(b, str):
        b = b.encode()
    return b.hex() if b else '_'


# ----------------------------------------------------------------------------------------------- check driver

class Check:
    def __init__(self, prop, tier, seed):
        self.prop = prop
        self.tier = tier
        self.seed = seed
        self.t0 = time.time()
        self.rng = random.Random((seed * 1000003) ^ int(hashlib.sha1(prop.encode()).hexdigest()[:8], 16))
        self.evaluations = 0
        self.distinct = set()
        self.samples = []
        self.violations = 0
        self.known_hits = []
        self.traces = 0
        self.proof = None
        self.extra = {}
        self.assumptions = []
        self.rules = []
        self.dist = {}
        self.replay_dir = os.path.join(CACHE, 'replays')
        os.makedirs(self.replay_dir, exist_ok=True)
        kf = os.path.join(VERIF, 'known_findings.json')
        self.known = json.load(open(kf)).get('findings', []) if os.path.exists(kf) else []

    # -- coverage bookkeeping
    def count(self, case_key, nontrivial=True, sample=None, impl=True):
        self.evaluations += 1
        if impl:
            self.traces += 1
        if nontrivial:
            self.distinct.add(hashlib.sha1(repr(case_key).encode()).hexdigest())
        if sample is not None and len(self.samples) < 6:
            self.samples.append(sample)

    def tally(self, key, n=1):
        self.dist[key] = self.dist.get(key, 0) + n

    def rule(self, text):
        if text not in self.rules:
            self.rules.append(text)

    # -- proofs
    def proofs(self):
        st = proof_status(self.prop)
        self.proof = st
        if not st['ok']:
            self.violation({'kind': 'proof-obligation', 'theorem_file': 'coq/Properties/%s.v' % self.prop,
                            'reason': st['reason']}, found_input=False)
        return st['ok']

    # -- reporting
    def write_replay(self, obj):
        n = len(os.listdir(self.replay_dir))
        p = os.path.join(self.replay_dir, '%s_%s_%d_%d.json' % (self.prop, self.tier, os.getpid(), n))
        with open(p, 'w') as f:
            json.dump(obj, f, indent=1, default=str)
        return p

    def known_match(self, finding_id):
        for k in self.known:
            if k.get('property') == self.prop and k.get('id') == finding_id and k.get('status') == 'open':
                return k
        return None

    def violation(self, replay, found_input=True, finding_id=None):
        """replay: JSON-able description (input + expected vs observed, or the broken theorem/correspondence)."""
        if finding_id:
            k = self.known_match(finding_id)
            if k:
                if finding_id not in self.known_hits:
                    self.known_hits.append(finding_id)
                    print('KNOWN-FINDING: property=%s %s' % (self.prop, k.get('what', finding_id)), flush=True)
                return
        self.violations += 1
        replay = dict(replay)
        replay['property'] = self.prop
        replay['found_failing_input'] = found_input
        path = self.write_replay(replay)
        if self.violations <= 5:
            tail = '' if found_input else ' no-failing-input-found'
            print('VIOLATION property=%s replay=%s%s' % (self.prop, path, tail), flush=True)

    def finish(self):
        st = self.proof or dict(obligations=0, discharged=0, theorems=[], axioms={}, files=[], ok=False, reason='not run')
        cov = {
            'obligations': st['obligations'],
            'discharged': st['discharged'] if st['ok'] else 0,
            'checker_cmd': 'cd /verif/coq && ./gen_coqproject.sh && make -j16 (coqc 8.16.1, full .vo build) ; '
                           'coqc Print Assumptions on every theorem of Properties/%s.v' % self.prop,
            'trusted_base': [
                'Coq 8.16.1 kernel (coqc, vm_compute; no native_compute)',
                'axioms reported by Print Assumptions: ' + (json.dumps({t: a for t, a in st['axioms'].items() if a}) or 'none'),
                'extraction (ExtrOcamlBasic only) + OCaml 4.13.1 + runner/drv_*.ml',
                'harness/*.rs compiled into zinoma under --cfg zinoma_verif; lib/*.py, props/*.py generators and canonicalisation',
            ],
            'theorems': st['theorems'],
            'proof_files': st['files'],
            'evaluations': self.evaluations,
            'distinct_nontrivial': len(self.distinct),
            'traces_validated_against_impl': self.traces,
            'rule': ' | '.join(self.rules),
            'samples': self.samples if self.samples else ['(no correspondence case was generated)'],
            'distribution': self.dist,
            'known_findings_hit': self.known_hits,
        }
        extra = dict(self.extra)
        if 'exhaustive' in extra and not isinstance(extra['exhaustive'], bool):
            extra['exhaustive_scope'] = extra.pop('exhaustive')      # the schema reserves `exhaustive` for a boolean
        cov.update(extra)
        ev = {
            'property_id': self.prop, 'tier': self.tier, 'seed': self.seed, 'level': 'proof',
            'coverage': cov, 'assumptions': self.assumptions, 'wall_s': round(time.time() - self.t0, 2),
            'violations': self.violations,
        }
        # runs against another worktree (VERIF_REPO: seeded changes) must not overwrite the evidence of /repo
        evdir = os.environ.get('VERIF_EVIDENCE_DIR') or (os.path.join(VERIF, 'evidence') if REPO == '/repo'
                                                          else os.path.join(CACHE, 'evidence_other'))
        os.makedirs(evdir, exist_ok=True)
        with open(os.path.join(evdir, self.prop + '.json'), 'w') as f:
            json.dump(ev, f, indent=1, default=str)
        log('[%s] tier=%s evaluations=%d distinct=%d violations=%d known=%s wall=%.1fs' % (
            self.prop, self.tier, self.evaluations, len(self.distinct), self.violations, self.known_hits,
            time.time() - self.t0))
        return 1 if self.violations else 0
