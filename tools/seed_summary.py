#!/usr/bin/env python3
# Writes seeded/SUMMARY.md and completes seeded/*/meta.json (what each change breaks and needs in order to manifest).
import json, os, glob
NEEDS = {
 'C01_1': ('build target ignores Invalidated{Service} from a service dependency', 'watch mode; a build depending on a service; one change invalidating both, the service restart held behind a slower dependency'),
 'C01_2': ('a build script killed by a signal counts as success (exit_status.code() is None)', 'the script shell itself must die from a signal while zinoma survives'),
 'C02_1': ('a build script killed by a signal counts as success', 'signal death of the script shell, then a second run with unchanged inputs'),
 'C02_2': ('X.output not inherited when X is also listed in dependencies', 'a target naming X both ways plus another input; then a change of X\'s outputs'),
 'C03_1': ('command stdout state keyed by command text only (reverts FX3)', 'same command text reaching one target from two project directories with different outputs'),
 'C03_2': ('list_files_in_resources returns a Vec (duplicates) while the cardinality test assumes a set', 'one file covered by two resource entries of the same target'),
 'C04_1': ('actor output channel bounded again (reverts FX2)', 'fan-out/fan-in wider than the channel capacity (>= 64)'),
 'C04_2': ('`executed` never set, so the late-requester Ok branch is dead', 'a shared dependency finishing before a much later requester registers (diamond with very unequal arms)'),
 'C05_1': ('old record deleted only when the script fails, not before it runs', 'successful build, edit, crash/interrupt during the script, input reverted'),
 'C05_2': ('a build script killed by a signal counts as success', 'signal death of the script shell'),
 'C06_1': ('notify_invalidated guard uses `executed` instead of `!to_execute`', 'watch mode, a failing build, then a further edit'),
 'C06_2': ('watcher drops Modify(Name) events', 'an input replaced by rename (atomic save) in watch mode'),
 'C07_1': ('build ignores Invalidated{Service} (no longer marks the service unavailable)', 'watch mode; service dependency started once, invalidated, relaunch fails, then the dependent\'s input changes'),
 'C07_2': ('notify_success always sends Ok', 'watch mode chain top<-mid<-base: base invalidated and failing while mid\'s outdated build is still running'),
 'C08_1': ('a late requester re-arms an already completed build', 'second request arriving after completion (explicit request + long aggregate chain)'),
 'C08_2': ('`--clean T` removes the whole work dir of the targets\' projects', 'prior run recording state of a sibling outside the closure, then --clean of a subset'),
 'C09_1': ('bare X.output references lose their project', 'an imported (named) project containing an unqualified .output reference'),
 'C09_2': ('bare --clean wipes work dirs before the graph is validated', 'a broken part of the graph reachable only with no target given; prior state on disk'),
 'C10_1': ('build actor exits only when the build was cancelled', 'a signal arriving during the up-to-date check or the state computation (slow cmd_stdout input)'),
 'C10_2': ('engine error returns before TargetActors::terminate', 'a target failing while sibling builds/services are still running'),
 'C11_1': ('restart triggered by a dependency no longer stops the old instance', 'watch mode, service with a dependency, change of the dependency\'s input'),
 'C11_2': ('services not stopped when zinoma exits after a failed build', 'a build failing in one-shot mode while dependency services run (racy: several services)'),
 'C12_1': ('clean_path no longer strips a trailing `/` (reverts FX11)', 'output path that is a symlink to a directory AND spelled with a trailing slash'),
 'C12_2': ('`--clean T` deletes recorded state of the named targets only', 'a dependency without file outputs, already built once, then --clean of the dependent'),
 'C13_1': ('producer command outputs de-duplicated by text when merged into the consumer', 'two producers in different directories declaring the same cmd_stdout text; edit of the second'),
 'C13_2': ('consumer ignores its producer\'s invalidation while mid-build (guard on `executed`)', 'watch mode; producer with a cmd_stdout output edited while the consumer\'s script runs, producer finishing later (demo is timing dependent: not reproduced here)'),
 'C14_1': ('project-name uniqueness checked per import, never against the root', 'an imported project reusing the ROOT\'s name; repeated invocations'),
 'C14_2': ('bare --clean deletes work dirs before semantic validation', 'schema-valid but semantically invalid config, prior state, --clean without target'),
 'C15_1': ('matches_extensions uses to_str(): non-UTF-8 names never match', 'a non-UTF-8 file name under a resource with extensions'),
 'C15_2': ('only a `.zinoma` directly under a listed path is excluded', 'a `.zinoma` nested two or more levels below a listed path'),
 'C16_1': ('is_tmp_editor_file uses to_str().expect (reverts FX6)', 'a non-UTF-8 file name under a watched path'),
 'C16_2': ('event-kind filter drops Modify(Name)', 'an input changed only through rename events'),
 'C17_1': ('dependency services requested only after all dependency builds are ready', 'a build whose dependencies mix a service with a slow build'),
 'C17_2': ('cmd_stdout probes run through the blocking std API', 'at least as many concurrent slow probes as executor threads'),
 'C18_1': ('imported project directories no longer canonicalised', 'a non-canonical import path (../lib, symlink) and alternating entry projects'),
 'C18_2': ('`--clean T` wipes the whole project\'s recorded state', 'two unrelated incremental targets, --clean of one, later request of the other'),
 'C19_1': ('bare X.output references lose their project', 'a bare .output reference written in a named project'),
 'C19_2': ('project-name uniqueness misses the root\'s own name', 'a transitively imported project reusing the root\'s name'),
 'C20_1': ('aggregate answers a late requester only when BOTH kinds are available', 'an aggregate reached directly and through a long chain of nested aggregates with a slow build behind'),
 'C20_2': ('aggregate `actual` flag becomes last-acknowledgement-wins', 'a service-less nested branch acknowledging after a real service (nesting depth >= 5)'),
 'C01_3': ('the X.output dependency edge is registered only if X was not loaded yet (config/ir.rs)', 'a second consumer of one generator, or the producer named before the consumer on the command line'),
 'C03_3': ('list_files_in_resources/paths return a Vec (duplicates) while eq_current_state compares lengths with a map', 'a target reaching one file through two declared paths or resources'),
 'C04_3': ('a build skipped as Not Modified no longer marks the target executed', 're-run on an unchanged tree; a skipped target with a second requester whose request arrives after the skip (deep aggregate chain)'),
 'C06_3': ('one notify watcher per target with a path->filter map: a second resource on the same path overwrites the first filter', 'watch mode; one path listed twice with different extensions; an idle-time change selected only by the first'),
 'C07_3': ('`executed` removed and derived; after a failure the build answers a late requester with Ok', 'watch mode; a failing build with two requesters, the second request arriving after the failure (slow watcher registration)'),
 'C08_3': ('builds release their dependency services when done; a service whose last requester leaves stops and resets', 'a service shared by two builds, the second request arriving after the first build finished (deep chain)'),
 'C10_3': ('invalidation during a build replaces the build future without killing the superseded script', 'watch mode; a change landing mid-build; then SIGINT/SIGTERM before the old script ends by itself'),
 'C11_3': ('engine error returns before TargetActors::terminate (main.rs `?`)', 'one-shot; a service started, then a failing build'),
 'C17_3': ('a process-wide async mutex held across the build script for targets with inputs', 'two independent builds both declaring inputs, one of them slow'),
 'C20_3': ('root loop keeps one actual kind per root id: a later Ok overwrites the earlier one', 'one-shot; requested aggregate over a service and a build finishing after the service started'),
 'C02_3': ('X.output producers already listed under `dependencies` are filtered out before their outputs are inherited', 'a target naming X both ways plus an input of its own; then a change of X\'s outputs only'),
 'C05_3': ('a build script killed by a signal is reported as success (exit_status.code() filter)', 'the script shell itself dies from a signal; then a second invocation on the unchanged tree'),
 'C09_3': ('X.output of a service/aggregate no longer rejected when X is also listed in dependencies', 'a reachable target naming a non-build X both in dependencies and as X.output'),
 'C12_3': ('bare --clean deletes one checksums file per declared target and removes .zinoma only if empty', 'state of a target that is no longer declared (renamed) at the time of the full clean'),
 'C13_3': ('producers named both ways are filtered before their outputs are merged into the consumer\'s input', 'a consumer naming the same producer under dependencies and as X.output (same or imported project)'),
 'C03_4': ('eq_current_state checks files resources one at a time and compares the SUM of their file counts with the number of recorded entries (the recorded set is the de-duplicated union)', 'a target whose two files resources (input or output, e.g. `gen.output` + `{paths: [src]}` with gen writing below src) reach a common file; second invocation on the untouched tree'),
 'C06_4': ('Invalidated handling moved into a helper that returns early when the target is already invalidated: the second dependency is never marked unavailable', 'watch mode; two dependencies of one target invalidated while the first is still rebuilding (two edits close together, or a diamond)'),
 'C07_4': ('execute_once keeps the error in a variable and leaves through the common exit, which waits for Ctrl-C when a root service is running', 'one-shot; a requested service (or an aggregate of one) already acknowledged when another needed target fails'),
 'C08_4': ('a new requester of a build that has not succeeded yet re-arms it (`to_execute = true`), whatever is in flight', 'a build with two requesters, the second request arriving while the first execution is in progress (shared dependency, explicit + depended on)'),
 'C11_4': ('the aggregate keeps one `actual` bool per kind folded with `&=` (|= would be right)', 'one-shot; a service requested through an aggregate that also has a service-less dependency'),
 'C16_4': ('the watcher callback returns early on Modify(Name(From|To)) events, assuming a Name(Both) report always follows', 'a file moved into a declared directory from outside, or moved out of the declared paths'),
 'C01_5': ('the build actor handles Invalidated{Service} in a separate arm that does nothing', 'watch mode; a build depending on a service whose own build dependency is rebuilding; the build becoming out of date in that window'),
 'C02_5': ('eq_current_state accepts `modified <= saved_modified` instead of equality', 'a declared file replaced by different content with an OLDER mtime (mv of a backup, cp -p, rsync -t, tar x)'),
 'C04_5': ('the aggregate sends the immediate Ok only to late requesters (`else if` after the first-requester branch)', 'an aggregate with `dependencies: []` anywhere below a requested target'),
 'C05_5': ('a cancelled build writes the PREVIOUS record back ("interrupted is not failed")', 'a previous successful record; a rebuild triggered by deleted or edited outputs (inputs unchanged) interrupted by SIGINT/SIGTERM; next invocation'),
 'C09_5': ('the "X.output must name a build" check moved before the recursion as a lookup in the not-yet-visited map', 'X resolved before the target holding X.output is entered (diamond, request order, imported project)'),
 'C10_5': ('the termination arm `take()`s the cancellation sender — which is also the "no build in flight" flag', 'watch mode; the target invalidated during its build; SIGINT/SIGTERM before the build ends'),
 'C12_5': ('extension-filtered output resources merged for cleaning: paths concatenated, extension sets united', 'a target with two filtered output resources on different roots and different extension sets; a file under one root matching only the other filter'),
 'C13_5': ('Resources::extend skips an inherited files path that is already listed, comparing paths only (not the extension filter)', 'two file resources sharing a path with different filters, the later arriving through X.output'),
 'C14_5': ('import-key check moved into add_project, after the already-visited early return', 'an import edge to an already visited directory under a wrong key (self-import, closing edge of a cycle)'),
 'C15_5': ('`path.is_file()` replaced by `entry.file_type().is_file()` (symlinks no longer followed)', 'a symlink to a regular file inside a listed directory or listed directly'),
 'C17_5': ('after its script a target with inputs waits until NO build script runs anywhere before computing its checksums (hence before acknowledging)', 'a build with inputs that has a dependent, next to an unrelated build still running'),
 'C18_5': ('checksums files written under the `.zinoma` of the ENTRY project of the invocation (new TargetMetadata field)', 'two projects, one importing the other; invocations from different entry projects'),
 'C19_5': ('list_all_available_target_names iterates the root project and its direct imports only', 'a target of a project imported by an imported project, named on the command line'),
 'C20_5': ('the aggregate sends the immediate Ok only to late requesters (`else if`)', 'an empty aggregate requested directly or inside another aggregate'),
 'C14_3': ('import-key check moved into the recursive loader: once per project directory (first edge), not once per import edge', 'a project reached by two import edges, a later one under a wrong key (cycle back to the root: deterministic; diamond: order-dependent)'),
 'C15_3': ('a listed path lexically nested under another listed path of the same resource is not walked', 'a symlinked directory listed next to its parent, a `..` path, or a path inside .zinoma under a listed path'),
 'C16_3': ('watcher ignores the single-path halves of a rename (From / To events)', 'watch mode; a rename with only one end under the watcher: move in, move out, move between targets, temp file kept outside'),
 'C18_3': ('delete_saved_env_state sweeps every file whose name starts with the target name', 'two input-bearing targets whose names are in a strict prefix relation (app / app-docs); the shorter one executed or cleaned alone'),
 'C19_3': ('the list of names the command line accepts covers only the root and its direct imports', 'a project reached only through an import of an import, requested as project::target'),
}
rows = []
for d in sorted(glob.glob('/verif/seeded/C*_*')):
    sid = os.path.basename(d)
    mp = os.path.join(d, 'meta.json')
    if not os.path.exists(mp):
        continue
    m = json.load(open(mp))
    what, needs = NEEDS.get(sid, ('', ''))
    m['breaks_property'] = m.get('property')
    m['change'] = what
    m['needs_in_order_to_manifest'] = needs
    json.dump(m, open(mp, 'w'), indent=1, default=str)
    det = []
    for p, c in (m.get('checks') or {}).items():
        if c.get('detected'):
            det.append('%s (%s)' % (p, 'failing input' if c.get('with_failing_input') else 'no-failing-input-found'))
    missed = [p for p, c in (m.get('checks') or {}).items() if not c.get('detected')]
    rows.append((sid, what, needs, 'yes' if m.get('confirmed') else 'NOT CONFIRMED (demo %s/%s)' % (m.get('demo_on_clean_rc'), m.get('demo_on_patched_rc')),
                 ', '.join(det) or '-', ', '.join(missed) or '-'))
with open('/verif/seeded/SUMMARY.md', 'w') as f:
    f.write('# Seeded changes and the checks that catch them\n\n'
            'Generated by tools/seed_summary.py from seeded/*/meta.json (last evaluation of each change by tools/seed_eval.py: '
            'scratch worktree of /repo HEAD, `cargo test` with the patch, demonstration on clean and patched binaries, then '
            '`VERIF_REPO=<patched tree> ./check <property> --tier quick`).\n\n'
            '| id | change | needs in order to manifest | confirmed | detected by | not detected by (of the checks run) |\n|---|---|---|---|---|---|\n')
    for r in rows:
        f.write('| %s | %s | %s | %s | %s | %s |\n' % r)
print(len(rows), 'rows')
