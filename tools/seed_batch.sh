#!/bin/sh
# usage: tools/seed_batch.sh "C02 1" "C02 2" ...   (sequential; log under .cache/seed_batch.log)
cd /verif
for item in "$@"; do
  set -- $item
  echo "=== $1 $2 $(date +%T)" >> .cache/seed_batch.log
  python3 tools/seed_eval.py /tmp/seed/$1 $2 > .cache/seed_$1_$2.out 2>&1
  python3 - "$1" "$2" >> .cache/seed_batch.log <<'PY'
import json,sys
m=json.load(open('/verif/seeded/%s_%s/meta.json'%(sys.argv[1],sys.argv[2])))
print('confirmed',m.get('confirmed'),'tests',m.get('tests_pass'),'demo clean/patched',m.get('demo_on_clean_rc'),m.get('demo_on_patched_rc'))
for p,c in (m.get('checks') or {}).items(): print('  check',p,'exit',c['exit'],'detected',c['detected'],'failing_input',c['with_failing_input'],c['wall_s'])
PY
done
echo "=== batch done $(date +%T)" >> .cache/seed_batch.log
