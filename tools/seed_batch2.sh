#!/bin/sh
# usage: tools/seed_batch2.sh "C02 2 C13 C09" ...   (seed id, index, then the properties to check)
cd /verif
for item in "$@"; do
  set -- $item
  id=$1; idx=$2; shift; shift
  echo "=== $id $idx [$*] $(date +%T)" >> .cache/seed_batch.log
  python3 tools/seed_eval.py /tmp/seed/$id $idx "$@" > .cache/seed_${id}_${idx}.out 2>&1
  python3 - "$id" "$idx" >> .cache/seed_batch.log <<'PY'
import json,sys
m=json.load(open('/verif/seeded/%s_%s/meta.json'%(sys.argv[1],sys.argv[2])))
print('confirmed',m.get('confirmed'),'tests',m.get('tests_pass'),'demo clean/patched',m.get('demo_on_clean_rc'),m.get('demo_on_patched_rc'))
for p,c in (m.get('checks') or {}).items(): print('  check',p,'exit',c['exit'],'detected',c['detected'],'failing_input',c['with_failing_input'],c['wall_s'])
PY
done
echo "=== batch done $(date +%T)" >> .cache/seed_batch.log
