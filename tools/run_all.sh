#!/bin/sh
# runs every registered quick (or $1=thorough) check on /repo, one after the other; summary in .cache/run_all.log
cd /verif
tier=${1:-quick}
: > .cache/run_all.log
for p in C01 C02 C03 C04 C05 C06 C07 C08 C09 C10 C11 C12 C13 C14 C15 C16 C17 C18 C19 C20; do
  ./check $p --tier $tier > .cache/run_all_$p.out 2>&1
  echo "$p rc=$? $(grep -E '^\[C' .cache/run_all_$p.out | tail -1) $(grep -c VIOLATION .cache/run_all_$p.out) violation-lines" >> .cache/run_all.log
done
echo done >> .cache/run_all.log
