#!/bin/sh
# runs every registered quick (or $1=thorough) check on /repo, one after the other; summary in .cache/run_all[_$2].log
cd /verif
tier=${1:-quick}
tag=${2:+_$2}
log=.cache/run_all$tag.log
: > $log
for p in C01 C02 C03 C04 C05 C06 C07 C08 C09 C10 C11 C12 C13 C14 C15 C16 C17 C18 C19 C20; do
  ./check $p --tier $tier > .cache/run_all${tag}_$p.out 2>&1
  echo "$p rc=$? $(grep -E '^\[C' .cache/run_all${tag}_$p.out | tail -1) $(grep -c VIOLATION .cache/run_all${tag}_$p.out) violation-lines" >> $log
done
echo done >> $log
