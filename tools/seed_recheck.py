#!/usr/bin/env python3
# tools/seed_recheck.py [ids...]  — regression of the archived seeded changes against the CURRENT checks:
# applies seeded/<id>/patch.diff in a scratch worktree of /repo HEAD and runs every check recorded as detecting it.
# Writes .cache/seed_recheck.json and prints one line per seed.  Never touches /repo's working tree.
import json, os, subprocess, sys, time
WT = '/tmp/sev/wt'
def sh(cmd, **kw):
    p = subprocess.run(cmd, shell=True, stdout=subprocess.PIPE, stderr=subprocess.STDOUT, **kw)
    return p.returncode, p.stdout.decode('utf-8', 'replace')
os.makedirs('/tmp/sev', exist_ok=True)
if not os.path.isdir(WT):
    rc, out = sh('git -C /repo worktree add -f --detach %s HEAD' % WT); assert rc == 0, out
ids = sys.argv[1:] or sorted(d for d in os.listdir('/verif/seeded') if os.path.isdir('/verif/seeded/' + d))
res = {}
try:
    res = json.load(open('/verif/.cache/seed_recheck.json'))
except Exception:
    pass
for sid in ids:
    d = '/verif/seeded/' + sid
    meta = json.load(open(d + '/meta.json'))
    props = [p for p, c in (meta.get('checks') or {}).items() if c.get('detected')] or [meta['property']]
    sh('git -C %s checkout -q --detach $(git -C /repo rev-parse HEAD) && git -C %s checkout -- . && git -C %s clean -fdq' % (WT, WT, WT))
    rc, out = sh('git -C %s apply %s/patch.diff' % (WT, d))
    if rc != 0:
        res[sid] = {'applies': False}
        print(sid, 'DOES NOT APPLY', flush=True)
        continue
    r = {}
    for p in props:
        t0 = time.time()
        rc, out = sh('cd /verif && VERIF_REPO=%s ./check %s --tier quick 2>&1' % (WT, p), timeout=3600)
        v = [l for l in out.splitlines() if l.startswith('VIOLATION')]
        r[p] = {'exit': rc, 'detected': rc == 1 and bool(v), 'with_failing_input': any('no-failing-input-found' not in l for l in v),
                'wall_s': round(time.time() - t0, 1)}
    res[sid] = r
    # refresh the archived record: what the CURRENT checks say about this change
    meta.setdefault('checks', {})
    for p, c in r.items():
        old = meta['checks'].get(p, {})
        old.update({'exit': c['exit'], 'detected': c['detected'], 'with_failing_input': c['with_failing_input'], 'wall_s': c['wall_s'],
                    'rechecked': time.strftime('%Y-%m-%d %H:%M UTC', time.gmtime())})
        old.pop('lines', None); old.pop('first_replay', None)
        meta['checks'][p] = old
    json.dump(meta, open(d + '/meta.json', 'w'), indent=1, default=str)
    print(sid, ' '.join('%s:%s%s' % (p, 'DETECTED' if c['detected'] else 'MISSED', '' if c['with_failing_input'] or not c['detected'] else '(no-input)') for p, c in r.items()), flush=True)
    json.dump(res, open('/verif/.cache/seed_recheck.json', 'w'), indent=1)
sh('git -C %s checkout -- . && git -C %s clean -fdq' % (WT, WT))
