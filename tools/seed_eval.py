#!/usr/bin/env python3
# tools/seed_eval.py <seed dir, e.g. /tmp/seed/C05> <i> [props to check, default: the seed's own property]
# Confirms a seeded change (applies, compiles, the 38 tests pass, the demo fails with it and passes without) in a scratch
# worktree of /repo, then runs the registered quick check(s) against the patched tree (VERIF_REPO) and records the result
# under /verif/seeded/<id>_<i>/ .  Never touches /repo's working tree.
import json, os, shutil, subprocess, sys, time
seed, i = sys.argv[1], sys.argv[2]
pid = os.path.basename(seed.rstrip('/'))
props = sys.argv[3:] or [pid]
SEV = os.environ.get('SEV_DIR', '/tmp/sev')
WT = SEV + '/wt'
TT = SEV + '/target_plain'
def sh(cmd, **kw):
    p = subprocess.run(cmd, shell=True, stdout=subprocess.PIPE, stderr=subprocess.STDOUT, **kw)
    return p.returncode, p.stdout.decode('utf-8', 'replace')
os.makedirs(SEV, exist_ok=True)
if not os.path.isdir(WT):
    rc, out = sh('git -C /repo worktree add -f %s HEAD' % WT); assert rc == 0, out
sh('git -C %s checkout -q --detach $(git -C /repo rev-parse HEAD) && git -C %s checkout -- . && git -C %s clean -fdq' % (WT, WT, WT))
meta = {'property': pid, 'index': int(i), 'repo_head': sh('git -C /repo rev-parse --short HEAD')[1].strip()}
patch = os.path.join(seed, 'out', 'patch%s.diff' % i)
demo = os.path.join(seed, 'out', 'demo%s.sh' % i)
notes = os.path.join(seed, 'out', 'notes%s.md' % i)
env = 'CARGO_NET_OFFLINE=true CARGO_TARGET_DIR=%s' % TT
# clean binary + demo on clean
rc, out = sh('cd %s && %s cargo build --offline 2>&1 | tail -3' % (WT, env)); 
shutil.copy(TT + '/debug/zinoma', SEV + '/zinoma.clean')
rc, out = sh('bash %s %s/zinoma.clean' % (demo, SEV), timeout=600)
meta['demo_on_clean_rc'] = rc
rc, out = sh('git -C %s apply %s' % (WT, patch))
meta['applies'] = (rc == 0)
if rc != 0:
    meta['apply_error'] = out[-500:]
else:
    rc, out = sh('cd %s && %s cargo test --workspace --no-fail-fast --offline 2>&1 | grep -E "test result|error" ' % (WT, env), timeout=1800)
    meta['tests_with_patch'] = out.strip().splitlines()
    meta['tests_pass'] = out.count('test result: ok') == 2 and 'FAILED' not in out
    rc, out = sh('cd %s && %s cargo build --offline 2>&1 | tail -3' % (WT, env))
    shutil.copy(TT + '/debug/zinoma', SEV + '/zinoma.patched')
    rc, out = sh('bash %s %s/zinoma.patched' % (demo, SEV), timeout=600)
    meta['demo_on_patched_rc'] = rc
    meta['demo_on_patched_tail'] = out[-600:]
    meta['checks'] = {}
    for p in props:
        t0 = time.time()
        rc, out = sh('cd /verif && VERIF_REPO=%s ./check %s --tier quick 2>&1' % (WT, p), timeout=3600)
        lines = [l for l in out.splitlines() if l.startswith('VIOLATION') or l.startswith('KNOWN-FINDING') or l.startswith('[' + p)]
        rep = None
        for l in lines:
            if l.startswith('VIOLATION'):
                rp = l.split('replay=')[1].split()[0]
                try:
                    rep = json.load(open(rp))
                except Exception:
                    rep = None
                break
        meta['checks'][p] = {'exit': rc, 'lines': lines[:6], 'wall_s': round(time.time() - t0, 1),
                             'detected': rc == 1 and any(l.startswith('VIOLATION') for l in lines),
                             'with_failing_input': any(l.startswith('VIOLATION') and 'no-failing-input-found' not in l for l in lines),
                             'first_replay': json.loads(json.dumps(rep, default=str)[:3000] and json.dumps({'truncated': json.dumps(rep, default=str)[:2500]})) if rep else None}
sh('git -C %s checkout -- . && git -C %s clean -fdq' % (WT, WT))
dst = '/verif/seeded/%s_%s' % (pid, i)
os.makedirs(dst, exist_ok=True)
shutil.copy(patch, dst + '/patch.diff'); shutil.copy(demo, dst + '/demo.sh')
if os.path.exists(notes): shutil.copy(notes, dst + '/notes.md')
meta['confirmed'] = bool(meta.get('applies') and meta.get('tests_pass') and meta.get('demo_on_clean_rc') == 0 and meta.get('demo_on_patched_rc', 0) != 0)
meta['what_i_ran'] = 'tools/seed_eval.py: scratch worktree of /repo HEAD; cargo test with the patch; demo on clean and patched plain binaries; VERIF_REPO=<patched worktree> ./check <property> --tier quick'
json.dump(meta, open(dst + '/meta.json', 'w'), indent=1, default=str)
print(json.dumps({k: v for k, v in meta.items() if k not in ('demo_on_patched_tail',)}, indent=1, default=str)[:3000])
