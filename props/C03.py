# C03 — an unchanged target with declared inputs is skipped; a target without input is always executed.
# Theorems: coq/Properties/C03.v. Correspondence: same harness as C02 (mode incr), generators biased to untouched trees, repeated
# invocations and multi-project layouts (the same command text in several directories, outputs inherited as inputs).
# Oracle: a real rebuild of a target with inputs whose last run completed and was recorded, when nothing it declares differs
# from what was observed at that completion; a real skip of a target without input.
import vf
from slices import incr
from props import C02


def run(ck):
    d = vf.scratch_dir('C03')
    n = 200 if ck.tier == 'quick' else 2000
    ck.rule(C02.RULE + ' | C03 bias: 60% invocations, each followed by a second invocation on the untouched tree')
    batch = 50 if ck.tier == 'quick' else 250
    batches = [('b%d' % b, dict(('h%d' % i, incr.gen_history(ck.rng, 'untouched')) for i in range(b, min(n, b + batch))))
               for b in range(0, n, batch)]
    incr.check_histories_parallel(ck, d, batches, ('C03',))
    from slices import engine
    engine.two_invocations(ck, 'C03', n_quick=6, fail_p=0.15)
    asyncutils_correspondence(ck, d)
    incr.flush(ck)
    vf.sh(['rm', '-rf', d])


def asyncutils_correspondence(ck, d):
    """async_utils::all / both (how the per-path and per-command verdicts `is this input unchanged?` are combined while they are
    evaluated concurrently) vs AsyncUtils.all_results / both: generated verdict lists with completion delays"""
    import os
    n = 120 if ck.tier == 'quick' else 1200
    cf = os.path.join(d, 'asyncu_cases.txt')
    cases = {}
    with open(cf, 'w') as f:
        for i in range(n):
            which = ck.rng.choice(['all', 'all', 'all', 'both'])
            k = 2 if which == 'both' else ck.rng.choice([0, 1, 2, 3, 5, 8, 20, 70])       # 70 > the buffer of 64
            items = [(ck.rng.random() < (0.9 if k > 3 else 0.6), ck.rng.choice([0, 0, 1, 3, 8])) for _ in range(k)]
            cases['y%d' % i] = (which, items)
            f.write('Y y%d %s %s\n' % (i, which, ','.join('%d:%d' % (1 if v else 0, ms) for v, ms in items) or '-'))
    rc, impl, err = vf.run_impl('asyncu', cf, timeout=600)
    impl = vf.by_id(impl)
    model = vf.by_id(vf.run_model('asyncu', cf))
    ck.rule('async_utils: the real `all` (buffer_unordered(64), early return) and `both` on futures resolving to generated verdicts '
            'after generated delays (0..70 futures) vs AsyncUtils.all_results / both')
    for cid, (which, items) in cases.items():
        m, r = model.get(cid), impl.get(cid)
        ck.count(('asyncu', which, tuple(items)), sample={'combinator': which, 'verdicts_and_delays_ms': items, 'model': m, 'implementation': r})
        ck.tally('asyncu:%s=%s' % (which, m))
        if m != r:
            ck.violation({'kind': 'async-utils', 'what': '%s over the verdicts %s: the real combinator answers %r, the model %r'
                                                         % (which, items, r, m),
                          'replay': 'ZINOMA_VERIF=asyncu on the line: Y x %s %s' % (which, ','.join('%d:%d' % (1 if v else 0, ms) for v, ms in items) or '-')},
                         found_input=False)


def replay(ck, path):
    incr.replay_file(ck, path, run)
