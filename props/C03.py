# C03 — an unchanged target with declared inputs is skipped; a target without input is always executed.
# Theorems: coq/Properties/C03.v. Correspondence: same harness as C02 (mode incr), generators biased to untouched trees, repeated
# invocations and multi-project layouts (the same command text in several directories, outputs inherited as inputs).
# Oracle: a real rebuild of a target with inputs whose last run completed and was recorded, when nothing it declares differs
# from what was observed at that completion; a real skip of a target without input.
import vf
from slices import incr
from props import C02


def run(ck):
    d = vf.scratch_dir('C03')
    n = 200 if ck.tier == 'quick' else 2000
    ck.rule(C02.RULE + ' | C03 bias: 60% invocations, each followed by a second invocation on the untouched tree')
    batch = 50 if ck.tier == 'quick' else 250
    batches = [('b%d' % b, dict(('h%d' % i, incr.gen_history(ck.rng, 'untouched')) for i in range(b, min(n, b + batch))))
               for b in range(0, n, batch)]
    incr.check_histories_parallel(ck, d, batches, ('C03',))
    from slices import engine
    engine.two_invocations(ck, 'C03', n_quick=6, fail_p=0.15)
    incr.flush(ck)
    vf.sh(['rm', '-rf', d])


def replay(ck, path):
    incr.replay_file(ck, path, run)
