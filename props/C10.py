# C10 — every exit path is prompt and leaves no spawned process behind.
# Theorems: coq/Properties/C10.v. Correspondence: real actors vs Actor.actor_step projected on live processes, zombies and
# actor exit; signal sweeps on the real binary: graphs x instant of SIGINT/SIGTERM (before the first start, first start,
# every startable script blocked, between dependent builds, after completion while services run) + failure exits;
# oracle: exit within 3 s (measured latency ~5 ms, independent of the gated scripts that would run forever) and no shell
# that zinoma spawned left in the process table.
import concurrent.futures
import json
import random
import signal
from slices import actor, engine, root, sysrun

WHEN = ['immediately', 'first_start', 'all_blocked', 'between', 'after_done']


def sweeps(ck):
    n = 20 if ck.tier == 'quick' else 240
    jobs = []
    for i in range(n):
        r = random.Random(ck.rng.getrandbits(48))
        fam, T, roots = sysrun.gen_graph(r, family=r.choice(['random', 'random', 'svc', 'diamond', 'fan', 'chain', 'aggchain']))
        jobs.append((i, fam, T, roots, r.choice(WHEN), r.choice([signal.SIGINT, signal.SIGTERM]), r))
    found = []

    def one(j):
        i, fam, T, roots, when, sig, r = j
        return j, sysrun.signal_scenario(r, T, roots, when, sig, tag='C10_%d' % i)
    with concurrent.futures.ThreadPoolExecutor(max_workers=6) as ex:
        for j, (obs, V) in ex.map(one, jobs):
            i, fam, T, roots, when, sig, r = j
            ck.count(('sig', json.dumps(T, sort_keys=True), tuple(roots), when, int(sig)), nontrivial=True,
                     sample={'family': fam, 'targets': T, 'roots': roots, 'when': when, 'signal': obs['signal'],
                             'latency_s': obs['latency_s'], 'exit_code': obs['exit_code'], 'starts': len(obs['trace'])})
            ck.tally('sig:when=' + when)
            ck.tally('sig:' + obs['signal'])
            if 'C10' in V:
                o = dict(obs)
                o.update({'outcome': 'signal', 'fail': [], 'gated': True, 'stderr_tail': ''})
                found.append((o, V['C10']))
    # watch mode: the input changes while the build script runs, then the signal arrives
    m = 4 if ck.tier == 'quick' else 40
    jobs2 = [random.Random(ck.rng.getrandbits(48)) for _ in range(m)]
    with concurrent.futures.ThreadPoolExecutor(max_workers=4) as ex:
        for obs, V in ex.map(lambda r: sysrun.watch_signal_midbuild(r, tag='C10w%d' % r.getrandbits(20)), jobs2):
            ck.count(('sigmid', json.dumps(obs['targets'], sort_keys=True), obs['when'], obs['signal']), nontrivial=True,
                     sample={'targets': obs['targets'], 'when': obs['when'], 'signal': obs['signal'], 'latency_s': obs['latency_s'],
                             'starts': len([1 for x in obs['trace'] if x[0] == 'start'])})
            ck.tally('sig:when=mid-build-after-change')
            if 'C10' in V:
                o = dict(obs)
                o.update({'outcome': 'signal', 'fail': [], 'gated': True, 'stderr_tail': ''})
                found.append((o, V['C10']))
    from slices import engine as _engine
    found += _engine.fixed_runs(ck, 'C10', _engine.FAILURE_NEXT_TO_RUNNING,
                                'a build fails while an independent build is still running and a service is up (requested directly, '
                                'and behind one aggregate): the exit must leave no process behind')
    return found


def run(ck):
    engine.check_engine(ck, 'C10', actor.proj(keep_out=lambda o: o.startswith('ERR:'), keys=('alive', 'zombies', 'exited')),
                        'live processes + zombies + actor exit + errors', n_sys_quick=12, fail_p=0.5, extra=sweeps,
                        n_root_quick=150, root_projection=root.status_only, root_what='whether and with which status run returns', n_evflow_quick=24)


def replay(ck, path):
    engine.replay(ck, 'C10', path, run)
