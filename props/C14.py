# C14 — configuration is validated strictly, totally and deterministically.
# Theorems: coq/Properties/C14.v (serde acceptance = declarative schema; loader = reachable-set specification for every
#   iteration order of every imports map; import names checked; project names injective after FX7; no panic before the
#   first effect; every error precedes every effect).
# Correspondence (mode `load`): generated YAML VALUE trees rendered to text and project layouts on disk -> the real
#   yaml::Config::load + ir::Config::from + list_all_available_target_names + TargetId::try_parse_many, versus
#   Config.load_config / to_ir / ir_available_names of the extracted model under every order of every imports map.
# Determinism: accepted multi-project layouts are loaded in fresh processes (fresh hash seeds) and the verdict and the
#   meaning (directory, kind, script) of every requestable name compared.
# Black-box: an invalid configuration with --clean deletes nothing and runs nothing (tree snapshot).
# Support only (thorough): random / mutated bytes into the real loader never panic.
import copy
import os
import subprocess

import vf
from slices import config as cf
from slices.config import S, Z, T, F, U, O, Seq, Map

NAMES_OK = [b'a', b'b', b'c', b't1', b'my-target', b'_hidden', b'x_y', b'Z9', b'\xc3\xa9t\xc3\xa9', b'lib-2', b'build',
            b'\xd0\xb6', b'\xe6\x97\xa5', b'a--', b'9-', b'name']
NAMES_OK_PLAIN = [b'yes', b'007', b'1_000', b'no', b'True', b'00']          # plain scalars that are strings, valid names
NAMES_BAD = [b'-a', b'', b'a.b', b'a::b', b'a b', b'a/b', b'-', b'a:', b'.', b'a!', b'::', b'a\n', b'a.output', b'~x', b'--1']
SCRIPTS = [b'echo hi', b'make all\n', b'cargo build --release\ncp target/x out/\n', b'', b'exec sleep 1000', b'true',
           b'echo "a: b" > f # {x}', b"printf '%s' \"$X\"", b'tr\xc3\xa9s bien', b'5', b'null']
PATHS = [b'src', b'src/main.rs', b'.', b'out/bin', b'../shared', b'/abs/path', b'a b', b'', b'Cargo.toml']
EXTS = [b'rs', b'.c', b'', b'.tar.gz', b'h', b'.']
CMDS = [b'cat val.txt', b'date +%Y', b'git rev-parse HEAD', b'']
UNKNOWN_KEYS = [b'foo', b'builds', b'Build', b'target', b'deps', b'inputs', b'outputs', b'path', b'extension', b'cmd', b'name ',
                b'import', b'dependency', b'', b'x-y', b'cmd_stdout2']


# ------------------------------------------------------------------------------------------ structured valid projects

def gen_name(rng, ok=True):
    if ok:
        if rng.random() < 0.12:
            return S(rng.choice(NAMES_OK_PLAIN), 'plain')
        return S(rng.choice(NAMES_OK))
    return S(rng.choice(NAMES_BAD))


def gen_strs(rng, pool, lo=0, hi=3):
    return Seq([S(rng.choice(pool)) for _ in range(rng.randint(lo, hi))])


def gen_files(rng):
    ents = [(S(b'paths'), gen_strs(rng, PATHS, 0, 3))]
    r = rng.random()
    if r < 0.35:
        ents.append((S(b'extensions'), gen_strs(rng, EXTS, 0, 3)))
    elif r < 0.5:
        ents.append((S(b'extensions'), Z(rng.choice([b'~', b'null', b'']))))
    rng.shuffle(ents)
    return Map(ents)


def gen_input_item(rng, tnames):
    r = rng.random()
    if r < 0.35:
        base = rng.choice(tnames) if tnames and rng.random() < 0.8 else rng.choice(NAMES_OK)
        if rng.random() < 0.2:
            base = rng.choice(NAMES_OK) + b'::' + base
        return S(base + (b'.output' if rng.random() < 0.85 else rng.choice([b'', b'.out', b'.output.output'])))
    if r < 0.75:
        return gen_files(rng)
    return Map([(S(b'cmd_stdout'), S(rng.choice(CMDS)))])


def gen_output_item(rng):
    if rng.random() < 0.7:
        return gen_files(rng)
    return Map([(S(b'cmd_stdout'), S(rng.choice(CMDS)))])


def gen_deps(rng, tnames):
    ds = []
    for _ in range(rng.choice([0, 1, 1, 2, 3])):
        d = rng.choice(tnames) if tnames and rng.random() < 0.8 else rng.choice(NAMES_OK + NAMES_BAD)
        if rng.random() < 0.15:
            d = rng.choice(NAMES_OK) + b'::' + d
        ds.append(S(d))
    return Seq(ds)


def gen_target(rng, tnames, kind=None):
    kind = kind or rng.choice(['B', 'B', 'B', 'S', 'A'])
    ents = []
    if kind == 'A' or rng.random() < 0.5:
        ents.append((S(b'dependencies'), gen_deps(rng, tnames)))
    if kind == 'B':
        ents.append((S(b'build'), S(rng.choice(SCRIPTS))))
    if kind == 'S':
        ents.append((S(b'service'), S(rng.choice(SCRIPTS))))
    if kind in 'BS' and rng.random() < 0.5:
        ents.append((S(b'input'), Seq([gen_input_item(rng, tnames) for _ in range(rng.randint(0, 3))])))
    if kind == 'B' and rng.random() < 0.5:
        ents.append((S(b'output'), Seq([gen_output_item(rng) for _ in range(rng.randint(0, 2))])))
    rng.shuffle(ents)
    return Map(ents)


def gen_project(rng, name=None, imports=None, ntargets=None):
    """a schema-valid project value in mapping form; name: bytes|None; imports: list of (key bytes, rel bytes)"""
    n = rng.choice([0, 1, 2, 2, 3, 4]) if ntargets is None else ntargets
    tnames = []
    while len(tnames) < n:
        c = gen_name(rng)
        if c[1] not in [x[1] for x in tnames]:
            tnames.append(c)
    plain = [x[1] for x in tnames]
    ents = []
    if tnames or rng.random() < 0.5:
        ents.append((S(b'targets'), Map([(tn, gen_target(rng, plain)) for tn in tnames])))
    if name is not None:
        ents.append((S(b'name'), S(name)))
    elif rng.random() < 0.15:
        ents.append((S(b'name'), Z(rng.choice([b'~', b'null', b'']))))
    if imports:
        ents.append((S(b'imports'), Map([(S(k), S(v)) for k, v in imports])))
    elif rng.random() < 0.15:
        ents.append((S(b'imports'), Map([])))
    rng.shuffle(ents)
    return Map(ents)


# ------------------------------------------------------------------------------------------ malformed stream

def paths_of(v, here=()):
    out = [here]
    if v[0] == 'seq':
        for i, x in enumerate(v[1]):
            out += paths_of(x, here + (('i', i),))
    elif v[0] == 'map':
        for i, (a, b) in enumerate(v[1]):
            out += paths_of(a, here + (('k', i),))
            out += paths_of(b, here + (('v', i),))
    return out


def get_at(v, path):
    for kind, i in path:
        v = v[1][i] if kind == 'i' else (v[1][i][0] if kind == 'k' else v[1][i][1])
    return v


def set_at(v, path, new):
    if not path:
        return new
    (kind, i), rest = path[0], path[1:]
    items = list(v[1])
    if kind == 'i':
        items[i] = set_at(items[i], rest, new)
    elif kind == 'k':
        items[i] = (set_at(items[i][0], rest, new), items[i][1])
    else:
        items[i] = (items[i][0], set_at(items[i][1], rest, new))
    return (v[0], items)


def rand_scalar(rng):
    r = rng.random()
    if r < 0.2:
        return Z(rng.choice([b'~', b'null']))
    if r < 0.35:
        return rng.choice([T, F])
    if r < 0.55:
        n, src = rng.choice(cf.NATS)
        return U(n, src)
    if r < 0.7:
        return O(rng.choice(cf.OTHERS))
    if r < 0.85:
        return S(rng.choice(cf.STR_LOOKALIKES), 'plain')
    return S(rng.choice(SCRIPTS + NAMES_OK))


def rand_small(rng):
    r = rng.random()
    if r < 0.6:
        return rand_scalar(rng)
    if r < 0.8:
        return Seq([rand_scalar(rng) for _ in range(rng.randint(0, 2))])
    return Map([(S(rng.choice(UNKNOWN_KEYS + [b'build', b'paths'])), rand_scalar(rng)) for _ in range(rng.randint(0, 2))])


FIELD_INDEX = {b'dependencies': 0, b'build': 1, b'service': 1, b'input': 2, b'output': 3, b'paths': 0, b'extensions': 1,
               b'cmd_stdout': 0, b'targets': 0, b'name': 1, b'imports': 2}


def mutate(rng, v):
    """one structural mutation; returns (tree, tag)"""
    ps = paths_of(v)
    maps = [p for p in ps if get_at(v, p)[0] == 'map']
    seqs = [p for p in ps if get_at(v, p)[0] == 'seq']
    keys = [p for p in ps if p and p[-1][0] == 'k']
    vals = [p for p in ps if p and p[-1][0] in 'vi']
    m = rng.choice(['unknown_key', 'unknown_key', 'dup_key', 'drop_key', 'rename_key', 'scalar_swap', 'scalar_swap', 'unwrap_seq',
                    'wrap', 'index_key', 'index_key', 'key_kind', 'two_kinds', 'seq_project', 'bad_name', 'null_value', 'null_value',
                    'empty_target'])
    if m == 'unknown_key' and maps:
        p = rng.choice(maps)
        node = get_at(v, p)
        items = list(node[1])
        items.insert(rng.randint(0, len(items)), (S(rng.choice(UNKNOWN_KEYS)), rand_small(rng)))
        return set_at(v, p, Map(items)), m
    if m == 'dup_key' and maps:
        p = rng.choice(maps)
        node = get_at(v, p)
        if node[1]:
            items = list(node[1])
            k, val = rng.choice(items)
            items.insert(rng.randint(0, len(items)), (k, val if rng.random() < 0.5 else rand_small(rng)))
            return set_at(v, p, Map(items)), m
    if m == 'drop_key' and maps:
        p = rng.choice(maps)
        node = get_at(v, p)
        if node[1]:
            items = list(node[1])
            items.pop(rng.randrange(len(items)))
            return set_at(v, p, Map(items)), m
    if m == 'rename_key' and keys:
        p = rng.choice(keys)
        return set_at(v, p, S(rng.choice(list(FIELD_INDEX) + UNKNOWN_KEYS))), m
    if m == 'scalar_swap' and vals:
        p = rng.choice(vals)
        return set_at(v, p, rand_scalar(rng)), m
    if m == 'null_value' and vals:
        p = rng.choice(vals)
        return set_at(v, p, Z(rng.choice([b'~', b'null', b'']))), m
    if m == 'unwrap_seq' and seqs:
        p = rng.choice(seqs)
        node = get_at(v, p)
        return set_at(v, p, node[1][0] if node[1] and rng.random() < 0.7 else S(b'x')), m
    if m == 'wrap' and vals:
        p = rng.choice(vals)
        node = get_at(v, p)
        return set_at(v, p, Seq([node]) if rng.random() < 0.6 else Map([(S(rng.choice([b'x', b'paths', b'build'])), node)])), m
    if m == 'index_key' and keys:
        p = rng.choice(keys)
        k = get_at(v, p)
        t = cf.scalar_text(k)
        if t in FIELD_INDEX and rng.random() < 0.7:
            n = FIELD_INDEX[t]
            src = rng.choice([s for (x, s) in cf.NATS if x == n] or [str(n).encode()])
        else:
            n, src = rng.choice(cf.NATS)
        return set_at(v, p, U(n, src)), m
    if m == 'key_kind' and keys:
        p = rng.choice(keys)
        return set_at(v, p, rng.choice([T, F, Z(b'~'), Z(b'null'), O(b'-1'), O(b'1.5'), Seq([S(b'a')]), Map([]),
                                        S(b'build', 'dq'), S(b'name', 'sq')])), m
    if m == 'two_kinds' and maps:
        cands = [p for p in maps if any(cf.scalar_text(k) in (b'build', b'service', b'dependencies') for k, _ in get_at(v, p)[1])]
        if cands:
            p = rng.choice(cands)
            items = list(get_at(v, p)[1])
            items.insert(rng.randint(0, len(items)), (S(rng.choice([b'build', b'service'])), S(b'echo second')))
            return set_at(v, p, Map(items)), m
    if m == 'empty_target' and maps:
        cands = [p for p in ps if len(p) == 2 and p[-1][0] == 'v' and cf.scalar_text(get_at(v, p[:-1] + (('k', p[-1][1]),))) is not None
                 and cf.scalar_text(get_at(v, (('k', p[0][1]),))) == b'targets']
        if cands:
            return set_at(v, rng.choice(cands), rng.choice([Map([]), Map([(S(b'input'), Seq([]))]), Seq([]), Z(b'~')])), m
    if m == 'seq_project' and v[0] == 'map':
        d = {cf.scalar_text(k): val for k, val in v[1] if cf.scalar_text(k) in (b'targets', b'name', b'imports')}
        items = [d.get(b'targets', Map([])), d.get(b'name', Z(b'~')), d.get(b'imports', Map([]))]
        cut = rng.choice([3, 3, 2, 1, 0, 4])
        items = items[:cut] + ([rand_small(rng)] if cut == 4 else [])
        return Seq(items), m
    if m == 'bad_name':
        cands = [p for p in keys if len(p) == 2 and cf.scalar_text(get_at(v, (('k', p[0][1]),))) == b'targets']
        namev = [(('v', i),) for i, (k, _) in enumerate(v[1]) if cf.scalar_text(k) == b'name'] if v[0] == 'map' else []
        cands += namev
        if cands:
            p = rng.choice(cands)
            r = rng.random()
            if r < 0.6:
                return set_at(v, p, gen_name(rng, ok=False)), m
            return set_at(v, p, rand_scalar(rng)), m
    return v, 'none'


CORPUS_DOCS = [
    # the probe documents of DESIGN.md §6 C14 and of the model header, as value trees
    Map([]), Seq([]), Seq([Map([])]), Seq([Map([]), S(b'x')]), Seq([Map([]), S(b'x'), Map([]), U(1)]), Seq([Z()]),
    Map([(S(b'name'), U(5))]), Map([(S(b'name'), T)]), Map([(S(b'name'), O(b'1.5'))]), Map([(S(b'name'), O(b'-5'))]),
    Map([(S(b'name'), Z())]), Map([(S(b'name'), S(b'null', 'dq'))]), Map([(S(b'name'), S(b'~', 'dq'))]), Map([(S(b'name'), Z(b''))]),
    Map([(S(b'name'), Seq([S(b'a')]))]), Map([(S(b'name'), S(b'007', 'plain'))]), Map([(S(b'name'), U(16, b'0x10'))]),
    Map([(S(b'targets'), Z())]), Map([(S(b'targets'), Z(b''))]), Map([(S(b'targets'), Seq([]))]), Map([(S(b'targets'), Map([]))]),
    Map([(S(b'imports'), Z())]), Map([(S(b'imports'), Seq([]))]),
    Map([(S(b'foo'), U(1))]), Map([(U(5), S(b'x'))]), Map([(S(b'name'), S(b'a')), (S(b'name'), S(b'b'))]),
    Map([(S(b'targets'), Map([(S(b't'), Map([(S(b'build'), S(b'x'))])), (S(b't'), Map([(S(b'service'), S(b'y'))]))]))]),
    Map([(S(b'targets'), Map([(S(b't'), Map([(S(b'bild'), S(b'x'))])), (S(b't'), Map([(S(b'service'), S(b'y'))]))]))]),
    Map([(Seq([S(b'name')]), S(b'x'))]),
] + [Map([(S(b'targets'), Map([(k, Map([(S(b'build'), S(b'x'))]))]))]) for k in
     [U(5), Z(), Z(b'null'), T, O(b'1.5'), Seq([S(b'a')]), S(b'', 'dq'), S(b'yes', 'plain'), S(b'007', 'plain'), U(16, b'0x10')]
] + [Map([(S(b'targets'), Map([(S(b't'), t)]))]) for t in [
    Map([]), Z(), U(5), S(b'x'), Seq([]), Map([(S(b'dependencies'), Seq([]))]), Map([(S(b'dependencies'), Z())]),
    Map([(S(b'dependencies'), S(b'a'))]), Map([(S(b'build'), S(b'x')), (S(b'service'), S(b'y'))]),
    Map([(S(b'build'), S(b'x')), (S(b'dependencies'), Seq([S(b'a'), U(5)]))]), Map([(S(b'build'), Z())]), Map([(S(b'build'), U(5))]),
    Map([(S(b'build'), T)]), Map([(S(b'build'), S(b'yes', 'plain'))]), Map([(S(b'build'), S(b'', 'dq'))]),
    Map([(S(b'build'), S(b'x')), (S(b'input'), Z())]), Map([(S(b'build'), S(b'x')), (S(b'input'), S(b'a'))]),
    Map([(S(b'service'), S(b'x')), (S(b'output'), Seq([]))]), Map([(S(b'dependencies'), Seq([])), (S(b'input'), Seq([]))]),
    Map([(S(b'build'), S(b'x')), (S(b'build'), S(b'y'))]), Map([(U(0), Seq([])), (U(1), S(b'x'))]), Map([(U(1), S(b'x'))]),
    Map([(U(1), S(b'x')), (U(2), Seq([])), (U(3), Seq([]))]), Map([(U(4), S(b'x'))]), Map([(U(1), S(b'x')), (S(b'build'), S(b'y'))]),
    Map([(U(1, b'0x1'), S(b'x'))]), Map([(U(1, b'+1'), S(b'x'))]), Map([(S(b'01', 'plain'), S(b'x'))]), Map([(O(b'-1'), S(b'x'))]),
    Map([(S(b'1', 'dq'), S(b'x'))]), Map([(U(0), Seq([S(b'a')]))]), Map([(U(0), Seq([S(b'a')])), (S(b'service'), S(b'x'))]),
    Seq([Seq([]), S(b'x')]), Seq([Seq([S(b'a')])]),
    Map([(S(b'build'), S(b'x')), (S(b'input'), Seq([S(b'a.output'), S(b'x', 'dq'), Map([(S(b'paths'), Seq([S(b'a')]))]),
                                                     Map([(S(b'cmd_stdout'), S(b'c'))])]))]),
    Map([(S(b'build'), S(b'x')), (S(b'input'), Seq([U(5)]))]), Map([(S(b'build'), S(b'x')), (S(b'input'), Seq([Map([])]))]),
    Map([(S(b'build'), S(b'x')), (S(b'input'), Seq([Map([(S(b'paths'), Seq([S(b'a')])), (S(b'extensions'), Z())])]))]),
    Map([(S(b'build'), S(b'x')), (S(b'input'), Seq([Map([(S(b'paths'), Seq([S(b'a')])), (S(b'extensions'), Seq([]))])]))]),
    Map([(S(b'build'), S(b'x')), (S(b'input'), Seq([Map([(S(b'paths'), S(b'a'))])]))]),
    Map([(S(b'build'), S(b'x')), (S(b'input'), Seq([Map([(S(b'extensions'), Seq([S(b'a')]))])]))]),
    Map([(S(b'build'), S(b'x')), (S(b'input'), Seq([Map([(S(b'paths'), Seq([S(b'a')])), (S(b'cmd_stdout'), S(b'c'))])]))]),
    Map([(S(b'build'), S(b'x')), (S(b'input'), Seq([Map([(U(0), Seq([S(b'a')])), (U(1), Seq([S(b'b')]))])]))]),
    Map([(S(b'build'), S(b'x')), (S(b'input'), Seq([Map([(U(0), S(b'c'))])]))]),
    Map([(S(b'build'), S(b'x')), (S(b'input'), Seq([Seq([Seq([S(b'a')]), Seq([S(b'b')])])]))]),
    Map([(S(b'build'), S(b'x')), (S(b'output'), Seq([S(b'a.output')]))]),
    Map([(S(b'build'), S(b'x')), (S(b'output'), Seq([Map([(S(b'paths'), Seq([S(b'a')]))]), Map([(S(b'cmd_stdout'), S(b'c'))])]))]),
    Map([(S(b'build'), S(b'x')), (S(b'output'), Seq([Map([(U(0), S(b'c'))])]))]),
]]

GARBAGE = [b'', b'\n', b'# only a comment\n', b'{{{', b'targets: [', b'a: b: c: d\n', b'\tname: x\n', b'name: "unterminated\n',
           b'\xff\xfe\x00name: x\n', b'name: x\n---\nname: y\n', b'targets:\n  t:\n build: x\n', b'name: @x\n', b'name: *nope\n',
           b'- a\nb: c\n', b'name: [x\n', b'name: x\n...\nname: y\n', b'name: \xc3\x28\n', b'name: x\n\tfoo\n: y\n', b'&a name: *b\n']


def exhaustive_small(pairs):
    """every target mapping / resource item / project mapping with at most 1 (pairs=False) or 2 entries over a small
    alphabet of keys and values (exhaustive within that scope)"""
    tvals = [S(b'x'), Seq([S(b'a')]), Seq([]), Z(), U(5), Map([]), Seq([Map([(S(b'paths'), Seq([S(b'p')]))])]), Seq([S(b'a.output')])]
    tkeys = [S(b'build'), S(b'service'), S(b'dependencies'), S(b'input'), S(b'output'), S(b'foo'), U(0), U(1), U(2), U(3), U(4)]
    ivals = [S(b'x'), Seq([S(b'a')]), Seq([]), Z(), U(5)]
    ikeys = [S(b'paths'), S(b'extensions'), S(b'cmd_stdout'), S(b'foo'), U(0), U(1), U(2)]
    pvals = [S(b'x'), Z(), U(5), Map([]), Seq([]), Map([(S(b't'), Map([(S(b'build'), S(b'x'))]))]), Map([(S(b'k'), S(b'v'))])]
    pkeys = [S(b'targets'), S(b'name'), S(b'imports'), S(b'foo'), U(0), Z(), T]

    def maps(keys, vals):
        ents = [(k, v) for k in keys for v in vals]
        yield Map([])
        for e in ents:
            yield Map([e])
        if pairs:
            for a in ents:
                for b in ents:
                    yield Map([a, b])
    for m in maps(tkeys, tvals):
        yield Map([(S(b'targets'), Map([(S(b't'), m)]))])
    for m in maps(ikeys, ivals):
        yield Map([(S(b'targets'), Map([(S(b't'), Map([(S(b'build'), S(b'x')), (S(b'input'), Seq([m]))]))]))])
        yield Map([(S(b'targets'), Map([(S(b't'), Map([(S(b'build'), S(b'x')), (S(b'output'), Seq([m]))]))]))])
    for m in maps(pkeys, pvals):
        yield m
    for n in range(0, 5):
        for combo in ([pvals[i % len(pvals)] for i in range(k, k + n)] for k in range(len(pvals))):
            yield Seq(combo)


def single_layout(tree):
    lay = cf.Layout('r')
    lay.put('r', ('val', tree))
    return lay


# ------------------------------------------------------------------------------------------ multi-directory layouts

DIRNAMES = ['r', 'r/sub', 'r/sub/deep', 'other', 'r/a.b', 'libs/x', 'libs/y', 'r/s p', 'r/sub/deep/er']


def relspell(rng, frm, to, base_marker=b'@BASE@'):
    """a spelling of directory `to` as seen from directory `frm` (both relative to the case base)"""
    rel = os.path.relpath(to, frm)
    r = rng.random()
    if r < 0.5:
        out = rel
    elif r < 0.65:
        out = './' + rel
    elif r < 0.8:
        last = os.path.basename(to)
        out = rel + '/../' + last
    elif r < 0.9:
        out = rel + '/'
    else:
        return base_marker + b'/' + to.encode()
    return out.encode()


def gen_layout(rng, family=None):
    """returns (Layout, family). Directories get projects with names p0.. and edges with correct keys, then one defect."""
    family = family or rng.choice(['ok', 'ok', 'ok', 'ok_cycle', 'ok_self', 'ok_diamond', 'ok_symlink', 'wrong_key', 'unnamed_import',
                                   'clash_root', 'clash_siblings', 'clash_deep', 'missing_dir', 'file_as_dir', 'no_config', 'garbage_child',
                                   'invalid_child', 'bad_target_child', 'bad_project_name', 'two_defects', 'root_unnamed_cycle',
                                   'unnamed_root_ok', 'import_root_again', 'two_defects', 'dot_import', 'symlink_loop'])
    n = rng.randint(2, 5)
    dirs = rng.sample(DIRNAMES[1:], n - 1)
    dirs = ['r'] + dirs
    names = {}
    pool = list(NAMES_OK)
    rng.shuffle(pool)
    for i, d in enumerate(dirs):
        names[d] = pool[i]
    edges = {d: [] for d in dirs}            # d -> list of (key, rel-spelling, target dir)
    # a random tree rooted at r, plus a few extra forward edges
    for i in range(1, n):
        parent = dirs[rng.randrange(0, i)]
        edges[parent].append([names[dirs[i]], relspell(rng, parent, dirs[i]), dirs[i]])
    for _ in range(rng.choice([0, 0, 1, 2])):
        a, b = rng.sample(dirs, 2)
        if dirs.index(a) < dirs.index(b) and not any(e[2] == b for e in edges[a]):
            edges[a].append([names[b], relspell(rng, a, b), b])
    lay = cf.Layout('r')
    extra_dirs = {}
    root_named = True
    note = ''

    def add_edge(a, b, key=None):
        if not any(e[2] == b for e in edges[a]) and not any(e[0] == (key or names[b]) for e in edges[a]):
            edges[a].append([key or names[b], relspell(rng, a, b), b])
            return True
        return False

    if family == 'ok_cycle':
        a = rng.choice(dirs[1:])
        add_edge(a, 'r')
        if n > 2:
            b = rng.choice(dirs[1:])
            add_edge(b, a)
    elif family == 'ok_self':
        a = rng.choice(dirs)
        edges[a].append([names[a], rng.choice([b'.', b'', b'./', b'../' + os.path.basename(a).encode()]), a])
    elif family == 'ok_diamond':
        if n >= 3:
            a, b = dirs[1], dirs[2]
            add_edge('r', a)
            add_edge('r', b)
            add_edge(a, b)
            add_edge(b, a)
    elif family == 'ok_symlink':
        a = rng.choice(dirs[1:])
        lay.links['lnk'] = a
        # an extra importer reaches `a` through the link
        edges['r'] = [e for e in edges['r'] if e[2] != a]
        edges['r'].append([names[a], b'../lnk', a])
    elif family == 'wrong_key':
        cands = [(d, e) for d in dirs for e in edges[d]]
        d, e = rng.choice(cands)
        e[0] = rng.choice([x for x in NAMES_OK if x != e[0] and all(x != o[0] for o in edges[d])])
    elif family == 'unnamed_import':
        a = rng.choice(dirs[1:])
        names[a] = None
    elif family == 'clash_root':
        a = rng.choice(dirs[1:])
        old = names[a]
        names[a] = names['r']
        for d in dirs:
            for e in edges[d]:
                if e[2] == a:
                    e[0] = names['r']
        note = 'D10: an imported project carries the name of the root project'
    elif family in ('clash_siblings', 'clash_deep'):
        if n >= 3:
            a, b = rng.sample(dirs[1:], 2)
            # make sure no single project imports both under the same key (a HashMap cannot hold it)
            importers_a = [d for d in dirs if any(e[2] == a for e in edges[d])]
            importers_b = [d for d in dirs if any(e[2] == b for e in edges[d])]
            if not set(importers_a) & set(importers_b):
                names[b] = names[a]
                for d in dirs:
                    for e in edges[d]:
                        if e[2] == b:
                            e[0] = names[a]
    elif family == 'missing_dir':
        a = rng.choice(dirs)
        edges[a].append([rng.choice(NAMES_OK[-3:]), rng.choice([b'nowhere', b'../nope/x', b'/nonexistent-zinoma-verif', b'a\x00b']), None])
    elif family == 'file_as_dir':
        a = rng.choice(dirs)
        lay.files[os.path.join(a, 'afile')] = b'x'
        edges[a].append([rng.choice(NAMES_OK[-3:]), rng.choice([b'afile', b'afile/sub']), None])
    elif family == 'no_config':
        a = rng.choice(dirs[1:])
        extra_dirs[a] = None
    elif family == 'garbage_child':
        a = rng.choice(dirs[1:])
        extra_dirs[a] = rng.choice([('raw', rng.choice(GARBAGE)), ('ymldir',)])
    elif family == 'symlink_loop':
        a = rng.choice(dirs)
        lay.links[os.path.join(a, 'loop')] = 'loop'
        edges[a].append([rng.choice(NAMES_OK[-3:]), rng.choice([b'loop', b'loop/x']), None])
    elif family == 'two_defects':
        # two failing imports of different classes in one project: which error is reported depends on the iteration order
        a = rng.choice(dirs)
        defects = rng.sample(['missing', 'wrongkey', 'unnamed', 'noconfig', 'garbage'], 2)
        k = 0
        for df in defects:
            k += 1
            dn = '%s/zz%d' % (a, k)
            key = b'zz%d' % k
            if df == 'missing':
                edges[a].append([key, b'zz-missing-%d' % k, None])
                continue
            dirs.append(dn)
            edges[dn] = []
            names[dn] = key
            edges[a].append([key, ('zz%d' % k).encode(), dn])
            if df == 'wrongkey':
                names[dn] = key + b'x'
            elif df == 'unnamed':
                names[dn] = None
            elif df == 'noconfig':
                extra_dirs[dn] = None
            elif df == 'garbage':
                extra_dirs[dn] = ('raw', b'{{{')
    elif family == 'root_unnamed_cycle':
        root_named = False
        a = rng.choice(dirs[1:])
        edges[a].append([rng.choice(NAMES_OK[-3:]), relspell(rng, a, 'r'), 'r'])
    elif family == 'unnamed_root_ok':
        root_named = False
    elif family == 'import_root_again':
        a = rng.choice(dirs[1:])
        add_edge(a, 'r')
    elif family == 'dot_import':
        edges['r'].append([names['r'], rng.choice([b'.', b'../r', b'']), 'r'])
    bad_child = None
    if family in ('invalid_child', 'bad_target_child', 'bad_project_name'):
        bad_child = rng.choice(dirs[1:])
    for d in dirs:
        if d in extra_dirs:
            lay.put(d, extra_dirs[d])
            continue
        nm = names[d]
        if d == 'r' and not root_named:
            nm = None
        tree = gen_project(rng, name=nm, imports=[(e[0], e[1]) for e in edges[d]], ntargets=rng.choice([0, 1, 2]))
        if d == bad_child:
            if family == 'invalid_child':
                for _ in range(6):
                    tree2, tag = mutate(rng, tree)
                    if tag in ('unknown_key', 'two_kinds', 'key_kind', 'wrap'):
                        tree = tree2
                        break
            elif family == 'bad_target_child':
                extra = (gen_name(rng, ok=False), Map([(S(b'build'), S(b'x'))]))
                if any(cf.scalar_text(k) == b'targets' for k, _ in tree[1]):
                    tree = Map([(k, Map(list(v[1]) + [extra]) if cf.scalar_text(k) == b'targets' else v) for k, v in tree[1]])
                else:
                    tree = Map(list(tree[1]) + [(S(b'targets'), Map([extra]))])
            else:
                bad = gen_name(rng, ok=False)
                if any(cf.scalar_text(k) == b'name' for k, _ in tree[1]):
                    tree = Map([(k, bad if cf.scalar_text(k) == b'name' else v) for k, v in tree[1]])
                else:
                    tree = Map(list(tree[1]) + [(S(b'name'), bad)])
        lay.put(d, ('val', tree))
    lay.note = note
    return lay, family


def d10_layout():
    """DESIGN.md §7 D10: root `name: x`, `imports: {x: sub}`, sub/zinoma.yml `name: x`, both define `t`"""
    lay = cf.Layout('r')
    lay.put('r', ('val', Map([(S(b'name'), S(b'x')), (S(b'imports'), Map([(S(b'x'), S(b'sub'))])),
                              (S(b'targets'), Map([(S(b't'), Map([(S(b'build'), S(b'echo root'))]))]))])))
    lay.put('r/sub', ('val', Map([(S(b'name'), S(b'x')),
                                  (S(b'targets'), Map([(S(b't'), Map([(S(b'build'), S(b'echo sub'))]))]))])))
    lay.note = 'D10'
    return lay


def subst_base(v, base_real):
    if v[0] == 's' and b'@BASE@' in v[1]:
        return ('s', v[1].replace(b'@BASE@', os.fsencode(base_real)), v[2])
    if v[0] == 'seq':
        return ('seq', [subst_base(x, base_real) for x in v[1]])
    if v[0] == 'map':
        return ('map', [(subst_base(a, base_real), subst_base(b, base_real)) for a, b in v[1]])
    return v


# ------------------------------------------------------------------------------------------ running

SCRATCH_DIRS = []


def scratch(tag):
    d = vf.scratch_dir(tag)
    SCRATCH_DIRS.append(d)
    return d


class Batch:
    def __init__(self, ck, tag):
        self.ck = ck
        self.dir = scratch('C14_' + tag)
        self.lines = []
        self.cases = {}
        self.n = 0

    def add(self, lay, family, kind='L'):
        cid = 'c%d' % self.n
        self.n += 1
        base = os.path.join(self.dir, cid)
        os.makedirs(base)
        base_real = os.path.realpath(base)
        for rel, spec in list(lay.dirs.items()):
            if spec is not None and spec[0] == 'val':
                lay.dirs[rel] = ('val', subst_base(spec[1], base_real))
        fields, base_real, texts, ok = cf.materialise(lay, base, self.ck.rng)
        if not ok:
            return None
        self.lines.append(' '.join([kind, cid] + fields))
        self.cases[cid] = dict(lay=lay, family=family, base=base_real, texts=texts, line=self.lines[-1])
        return cid

    def write(self, name='cases.txt'):
        p = os.path.join(self.dir, name)
        with open(p, 'w') as f:
            f.write('\n'.join(self.lines) + '\n')
        return p


def replay_of(case, cid, extra):
    lay = case['lay']
    rep = {'kind': 'config-load', 'family': case['family'], 'root': os.path.join(case['base'], lay.root),
           'files': {os.path.join(rel, 'zinoma.yml'): t.decode('utf-8', 'replace') for rel, t in case['texts'].items()},
           'other_dirs': {rel: (None if s is None else s[0]) for rel, s in lay.dirs.items() if s is None or s[0] != 'val'},
           'symlinks': lay.links, 'plain_files': sorted(lay.files),
           'case_line': case['line'],
           'replay': 'write the files under a fresh directory D, then: zinoma -p D/%s --clean   (or ZINOMA_VERIF=load with the '
                     'case line; model: .cache/runner/runner load <file>)' % lay.root}
    rep.update(extra)
    return rep


def mean_agree(model_mean, impl_mean):
    """meaning of every requestable name; an implementation 'E' is a RESOLVER error of that target (unknown dependency,
    cycle, bad input reference: slice RES), about which the loader model says nothing"""
    if model_mean is None or impl_mean is None:
        return model_mean is None and impl_mean is None
    if set(model_mean) != set(impl_mean):
        return False
    return all(impl_mean[k] == {'E'} or impl_mean[k] == model_mean[k] for k in impl_mean)


def compare(ck, batch, impl, model, stream):
    """diff of one batch; returns the parsed implementation results by case id"""
    out = {}
    for cid, case in batch.cases.items():
        il = impl.get(cid)
        ml = model.get(cid)
        ir = cf.parse_result(il, case['base']) if il is not None else ('MISSING',)
        mr = cf.parse_result(ml) if ml is not None else ('MISSING',)
        out[cid] = ir
        fam = case['family']
        key = (stream, fam, tuple(sorted(case['texts'].items())), tuple(sorted((k, str(v)) for k, v in case['lay'].dirs.items()
                                                                                 if v is None or v[0] != 'val')))
        sample = {'family': fam, 'files': {k: v.decode('utf-8', 'replace')[:300] for k, v in case['texts'].items()},
                  'model': cf.describe(mr), 'impl': cf.describe(ir)}
        ck.count(key, sample=sample)
        ck.tally('%s:%s' % (stream, fam))
        ck.tally('verdict:' + (mr[0] if mr[0] != 'ERR' else 'ERR ' + '|'.join(sorted(mr[1]))))
        if ir[0] == 'SKIPPED':
            continue
        if ir[0] == 'PANIC' or ir[0] == 'MISSING':
            ck.violation(replay_of(case, cid, {'what': 'the real loader panicked (or produced no result) on this configuration',
                                               'implementation': il, 'model': ml}), found_input=True)
            continue
        if mr[0] not in ('OK', 'ERR'):
            ck.violation(replay_of(case, cid, {'what': 'model runner result not understood / verdict depends on the imports order '
                                                       '(contradicts C14_loader_order_independent)', 'model': ml,
                                               'implementation': il}), found_input=False)
            continue
        if mr[0] == 'OK' and ir[0] == 'OK':
            a, b = mr[1], ir[1]
            diffs = [k for k in ('root', 'irroot', 'avail', 'parse', 'projects') if a.get(k) != b.get(k)]
            if not mean_agree(a['mean'], b['mean']):
                diffs.append('mean')
            if b.get('parse') != 'ok':
                ck.violation(replay_of(case, cid, {'what': 'a name offered to clap does not parse: main.rs unwrap would panic',
                                                   'implementation': cf.describe(ir)}), found_input=True)
            elif diffs:
                # same verdict, different loaded content: does it change what a name means?
                found = 'projects' in diffs or 'avail' in diffs or 'mean' in diffs
                ck.violation(replay_of(case, cid, {'what': 'accepted, but the loaded configuration differs from the schema reading '
                                                           'of the documents in: ' + ', '.join(diffs),
                                                   'model': cf.describe(mr), 'implementation': cf.describe(ir)}), found_input=found)
            continue
        if mr[0] == 'ERR' and ir[0] == 'ERR':
            if ir[1] <= mr[1] or mr[2]:
                continue
            ck.violation(replay_of(case, cid, {'what': 'both reject, but the error class of the implementation is not one the model '
                                                       'reaches under any iteration order (correspondence of error classes broke; '
                                                       'the configuration is still rejected before any effect)',
                                               'model_classes': sorted(mr[1]), 'implementation_classes': sorted(ir[1])}),
                         found_input=False)
            continue
        if mr[0] == 'ERR' and ir[0] == 'OK':
            ck.violation(replay_of(case, cid, {'what': 'zinoma ACCEPTS a configuration that does not match the schema / import / '
                                                       'uniqueness rules (model = MatchesSchema + load specification rejects with '
                                                       + '|'.join(sorted(mr[1])) + ')',
                                               'implementation': cf.describe(ir)}), found_input=True)
            continue
        ck.violation(replay_of(case, cid, {'what': 'zinoma REJECTS (' + '|'.join(sorted(ir[1])) + ') a configuration that matches the '
                                                   'schema and all import rules', 'model': cf.describe(mr)}), found_input=True)
    return out


def run_batch(ck, batch, stream):
    p = batch.write()
    rc, impl, err = vf.run_impl('load', p)
    impl = vf.by_id(impl)
    model = vf.by_id(vf.run_model('load', p))
    missing = [cid for cid in batch.cases if cid not in impl]
    if rc != 0 or missing:
        # the harness process died (stack overflow, abort: not a catchable panic): find the cases one process at a time
        for cid in missing[:25]:
            one = os.path.join(batch.dir, 'one_%s.txt' % cid)
            with open(one, 'w') as f:
                f.write(batch.cases[cid]['line'] + '\n')
            try:
                rc1, out1, err1 = vf.run_impl('load', one, timeout=120)
            except subprocess.TimeoutExpired:
                rc1, out1, err1 = -1, [], 'timeout'
            got = vf.by_id(out1)
            impl[cid] = got.get(cid, 'PANIC process died: exit %s %s' % (rc1, err1.strip().splitlines()[-1][:200] if err1.strip() else ''))
        for cid in missing[25:]:
            impl[cid] = 'SKIPPED'
    return compare(ck, batch, impl, model, stream), impl, model


def determinism(ck, layouts, runs):
    """fresh processes: verdict and name -> (directory, kind, script) must not vary"""
    batch = Batch(ck, 'det')
    for lay, fam in layouts:
        batch.add(lay, fam, kind='M')
    p = batch.write()
    seen = {cid: {} for cid in batch.cases}
    model = vf.by_id(vf.run_model('load', p))
    for r in range(runs):
        rc, impl, err = vf.run_impl('load', p)
        impl = vf.by_id(impl)
        for cid, case in batch.cases.items():
            res = cf.parse_result(impl.get(cid, 'MISSING'), case['base'])
            if res[0] == 'ERR':
                keyv = ('ERR',)
            elif res[0] == 'OK':
                keyv = ('OK', repr(sorted((k, sorted(map(repr, v))) for k, v in (res[1]['mean'] or {}).items())),
                        repr(sorted(res[1]['projects'])))
            else:
                keyv = res
            seen[cid].setdefault(keyv, []).append(res)
    for cid, case in batch.cases.items():
        ck.count(('det', cid, tuple(sorted(case['texts'].items()))), sample=None)
        ck.tally('determinism:%s' % case['family'])
        ck.traces += runs - 1
        variants = seen[cid]
        mr = cf.parse_result(model.get(cid, 'MISSING'))
        if len(variants) > 1:
            desc = []
            for keyv, lst in variants.items():
                desc.append({'times': len(lst), 'result': cf.describe(lst[0])})
            ck.violation(replay_of(case, cid, {'what': 'the same configuration gives different results in fresh processes: the verdict '
                                                       'or the meaning of a target name depends on hash order',
                                               'runs': runs, 'variants': desc}), found_input=True)
            continue
        (keyv, lst), = variants.items()
        res = lst[0]
        if res[0] in ('PANIC', 'MISSING'):
            ck.violation(replay_of(case, cid, {'what': 'the real loader panicked', 'implementation': res}), found_input=True)
        elif res[0] != mr[0]:
            ck.violation(replay_of(case, cid, {'what': 'verdict differs from the model', 'model': cf.describe(mr),
                                               'implementation': cf.describe(res)}), found_input=True)
        elif res[0] == 'OK' and not mean_agree(mr[1]['mean'], res[1]['mean']):
            ck.violation(replay_of(case, cid, {'what': 'a requestable name denotes another (directory, kind, script) than in the model',
                                               'model': cf.describe(mr), 'implementation': cf.describe(res)}), found_input=True)


# ------------------------------------------------------------------------------------------ black-box: error before effects

def snapshot(root):
    out = []
    for d, dn, fn in os.walk(root):
        dn.sort()
        for x in sorted(dn):
            p = os.path.join(d, x)
            out.append((os.path.relpath(p, root), 'L' + os.readlink(p) if os.path.islink(p) else 'D'))
        for x in sorted(fn):
            p = os.path.join(d, x)
            if os.path.islink(p):
                out.append((os.path.relpath(p, root), 'L' + os.readlink(p)))
            else:
                with open(p, 'rb') as f:
                    out.append((os.path.relpath(p, root), f.read()))
    return out


def blackbox(ck, n):
    base = scratch('C14_bb')
    rng = ck.rng
    good_child = b'name: sub\ntargets:\n  c:\n    build: touch ran_c\n    output:\n      - paths: [outc]\n'
    variants = [
        ('unknown_key', b'targets:\n  t:\n    build: touch ran\n    output:\n      - paths: [out]\n    colour: red\n', None),
        ('two_kinds', b'targets:\n  t:\n    build: touch ran\n    service: touch ran\n    output:\n      - paths: [out]\n', None),
        ('bad_target_name', b'targets:\n  -t:\n    build: touch ran\n    output:\n      - paths: [out]\n', None),
        ('bad_project_name', b'name: a.b\ntargets:\n  t:\n    build: touch ran\n    output:\n      - paths: [out]\n', None),
        ('syntax', b'targets:\n  t: {build: touch ran, output: [{paths: [out]}]\n', None),
        ('import_missing', b'imports: {sub: nowhere}\ntargets:\n  t:\n    build: touch ran\n    output:\n      - paths: [out]\n', None),
        ('import_wrong_key', b'imports: {other: sub}\ntargets:\n  t:\n    build: touch ran\n    output:\n      - paths: [out]\n', good_child),
        ('import_unnamed', b'imports: {sub: sub}\ntargets:\n  t:\n    build: touch ran\n    output:\n      - paths: [out]\n',
         b'targets:\n  c:\n    build: touch ran_c\n    output:\n      - paths: [outc]\n'),
        ('import_invalid_child', b'imports: {sub: sub}\ntargets:\n  t:\n    build: touch ran\n    output:\n      - paths: [out]\n',
         b'name: sub\ntargets:\n  c:\n    build: touch ran_c\n    bogus: 1\n'),
        ('duplicate_name', b'name: sub\nimports: {sub: sub}\ntargets:\n  t:\n    build: touch ran\n    output:\n      - paths: [out]\n', good_child),
        ('unknown_dependency', b'targets:\n  t:\n    dependencies: [ghost]\n    build: touch ran\n    output:\n      - paths: [out]\n', None),
        ('cycle', b'targets:\n  t:\n    dependencies: [u]\n    build: touch ran\n    output:\n      - paths: [out]\n  u:\n    dependencies: [t]\n', None),
    ]
    arglists = [['--clean'], ['--clean', 't'], ['t'], ['--clean', 'nosuch'], ['a::b::c'], ['--clean', 't', 't']]
    done = 0
    order = list(range(len(variants)))
    rng.shuffle(order)
    for vi in order:
        if done >= n:
            break
        tag, rootdoc, childdoc = variants[vi]
        args = rng.choice(arglists[:3]) if tag not in ('unknown_dependency', 'cycle') else rng.choice(arglists[:3])
        d = os.path.join(base, '%s_%d' % (tag, done))
        os.makedirs(os.path.join(d, 'out', 'deep'))
        os.makedirs(os.path.join(d, '.zinoma'))
        os.makedirs(os.path.join(d, 'sub', '.zinoma'))
        os.makedirs(os.path.join(d, 'sub', 'outc'))
        for rel, content in [('zinoma.yml', rootdoc), ('out/a.o', b'obj'), ('out/deep/b.o', b'obj2'), ('.zinoma/t.checksums', b'\x00' * 33),
                             ('.zinoma/other.checksums', b'state'), ('sub/.zinoma/c.checksums', b'x'), ('sub/outc/c.o', b'c'),
                             ('keep.txt', b'keep')]:
            with open(os.path.join(d, rel), 'wb') as f:
                f.write(content)
        if childdoc is not None:
            with open(os.path.join(d, 'sub', 'zinoma.yml'), 'wb') as f:
                f.write(childdoc)
        before = snapshot(d)
        try:
            p = subprocess.run([vf.ZINOMA, '-p', d] + args, stdout=subprocess.PIPE, stderr=subprocess.PIPE, timeout=120,
                               env=dict(os.environ, RUST_BACKTRACE='0'), cwd=d)
            rc, errtxt = p.returncode, p.stderr.decode('utf-8', 'replace')
        except subprocess.TimeoutExpired:
            rc, errtxt = None, 'timeout'
        after = snapshot(d)
        done += 1
        ck.count(('bb', tag, tuple(args)), sample={'blackbox': tag, 'args': args, 'exit': rc, 'stderr': errtxt[-200:]})
        ck.tally('blackbox:' + tag)
        rep = {'kind': 'config-blackbox', 'variant': tag, 'dir': d, 'args': args, 'exit': rc, 'stderr': errtxt[-1500:],
               'replay': 'cd %s && %s -p . %s' % (d, vf.ZINOMA, ' '.join(args))}
        panicked = 'panicked at' in errtxt or (rc is not None and rc not in (0, 1, 2))
        if panicked:
            rep['what'] = 'zinoma panicked / died abnormally on an invalid configuration'
            ck.violation(rep, found_input=True)
        elif rc == 0 or rc is None:
            rep['what'] = 'an invalid configuration was not reported as an error (exit %r)' % rc
            ck.violation(rep, found_input=True)
        elif before != after:
            changed = sorted(set(x[0] for x in before) ^ set(x[0] for x in after)) or [x[0] for x, y in zip(before, after) if x != y]
            rep['what'] = 'an invalid configuration was reported, but files were created, deleted or changed first'
            rep['changed'] = changed[:20]
            ck.violation(rep, found_input=True)


# ------------------------------------------------------------------------------------------ byte-level support

def fuzz(ck, n):
    rng = ck.rng
    d = scratch('C14_fuzz')
    lines = []
    seeds = []
    for _ in range(40):
        seeds.append(cf.render(gen_project(rng, name=rng.choice(NAMES_OK)), rng))
    specials = [b'&a ', b'*a', b'!!str ', b'!x ', b'|', b'>', b'%', b'@', b'`', b'\t', b'\r', b'\x00', b'\xff', b'---\n', b'...\n', b'? ',
                b': ', b'- ', b'[', b']', b'{', b'}', b',', b'#', b'"', b"'", b'\\', b'<<: ', b'\xe2\x80\xa8', b'\xef\xbb\xbf']
    for i in range(n):
        r = rng.random()
        if r < 0.25:
            doc = bytes(rng.randrange(256) for _ in range(rng.randint(0, 200)))
        elif r < 0.4:
            doc = b''.join(rng.choice(specials + [b'a', b'name', b'targets', b'build', b' ', b'\n', b'  ']) for _ in range(rng.randint(1, 80)))
        else:
            doc = bytearray(rng.choice(seeds))
            for _ in range(rng.randint(1, 6)):
                op = rng.random()
                pos = rng.randint(0, len(doc))
                if op < 0.3 and doc:
                    doc[min(pos, len(doc) - 1)] = rng.randrange(256)
                elif op < 0.6:
                    doc[pos:pos] = rng.choice(specials)
                elif op < 0.8 and doc:
                    del doc[pos:pos + rng.randint(1, 10)]
                elif op < 0.9:
                    doc = doc[:pos]
                else:
                    doc[pos:pos] = doc[max(0, pos - 20):pos]
            doc = bytes(doc)
        p = os.path.join(d, 'f%d.yml' % i)
        with open(p, 'wb') as f:
            f.write(doc)
        lines.append('Y f%d %s' % (i, cf.hexs(os.fsencode(p))))
    cfn = os.path.join(d, 'cases.txt')
    with open(cfn, 'w') as f:
        f.write('\n'.join(lines) + '\n')
    rc, out, err = vf.run_impl('load', cfn)
    res = vf.by_id(out)
    ck.extra['byte_fuzz_support'] = {'documents': n, 'accepted': sum(1 for v in res.values() if v.startswith('OK')),
                                     'rejected': sum(1 for v in res.values() if v.startswith('ERR')), 'note': 'support only, not a proof'}
    for i in range(n):
        v = res.get('f%d' % i)
        if v is None or v.startswith('PANIC') or rc != 0:
            p = os.path.join(d, 'f%d.yml' % i)
            if v is None and rc == 0:
                continue
            ck.violation({'kind': 'config-bytes', 'what': 'the real YAML loader panicked / died on these bytes', 'file': p,
                          'bytes_hex': open(p, 'rb').read().hex()[:4000], 'exit': rc,
                          'replay': 'ZINOMA_VERIF=load with the line: Y x %s' % cf.hexs(os.fsencode(p))}, found_input=True)
            if rc != 0:
                break


# ------------------------------------------------------------------------------------------ extraction cross-check

def coq_bytes(b):
    return '[' + '; '.join(str(x) for x in b) + ']'


def coq_yv(v):
    k = v[0]
    if k == 's':
        return '(YStr %s)' % coq_bytes(v[1])
    if k == 'z':
        return '(YNull %s)' % coq_bytes(v[1] if v[1] else b'~')
    if k == 't':
        return '(YBool true)'
    if k == 'f':
        return '(YBool false)'
    if k == 'u':
        return '(YNat %d %s)' % (v[1], coq_bytes(v[2]))
    if k == 'o':
        return '(YOther %s)' % coq_bytes(v[1])
    if k == 'seq':
        return '(YSeq [' + '; '.join(coq_yv(x) for x in v[1]) + '])'
    return '(YMap [' + '; '.join('(%s, %s)' % (coq_yv(a), coq_yv(b)) for a, b in v[1]) + '])'


COQ_ERR = {'NoConfigFile': 'LE_NoConfigFile', 'InvalidFormat': 'LE_InvalidFormat', 'InvalidProjectName': 'LE_InvalidProjectName',
           'InvalidTargetName': 'LE_InvalidTargetName', 'ImportDirMissing': 'LE_ImportDirMissing', 'ImportUnnamed': 'LE_ImportUnnamed',
           'ImportNameMismatch': 'LE_ImportNameMismatch', 'DuplicateProjectName': 'LE_DuplicateProjectName'}


def coq_crosscheck(ck, batches, nsample):
    """re-evaluates a sample of the cases INSIDE Coq (vm_compute over Model/Config.v) and compares with what the extracted
    OCaml runner printed: verdict, error class under the document order, loaded directories, names, imports, target kinds."""
    rng = ck.rng
    items = []
    for batch, model in batches:
        for cid, case in batch.cases.items():
            if cid in model:
                items.append((case, model[cid]))
    rng.shuffle(items)
    items = items[:nsample]
    d = scratch('C14_coq')
    out = ['From Zinoma.Model Require Import Config.',
           'Definition fs_of (l : list (bytes * cfile)) (d : cdir) : cfile :=',
           '  match find (fun e => beq d (fst e)) l with Some e => snd e | None => FAbsent end.',
           'Definition canon_of (l : list ((bytes * bytes) * option bytes)) (d : cdir) (rel : bytes) : option cdir :=',
           '  match find (fun e => beq d (fst (fst e)) && beq rel (snd (fst e))) l with Some e => snd e | None => None end.',
           'Definition kind_of (t : ytarget) : N := match t with YBuild _ _ _ _ => 0 | YService _ _ _ => 1 | YAggregate _ => 2 end.',
           'Definition digest (r : lres yconfig) :=',
           '  match r with',
           '  | LErr e => inr e',
           '  | LOk c => inl (map (fun e => (fst e, yp_name (snd e), map fst (yp_imports (snd e)),',
           '                                map (fun nt => (fst nt, kind_of (snd nt))) (yp_targets (snd e)))) (yc_projects c))',
           '  end.']
    n = 0
    for case, line in items:
        f = case['line'].split(' ')
        root_tok = cf.unhex(f[3])
        files, canon = [], []
        i = 4
        ndirs = 0
        while i < len(f):
            if f[i] == 'D':
                tok, st = cf.unhex(f[i + 1]), f[i + 2]
                ndirs += 1
                if st == '-':
                    term = 'FAbsent'
                elif st == '!':
                    term = 'FGarbage'
                else:
                    spec = case['lay'].dirs[tok.decode()]
                    term = '(FValue %s)' % coq_yv(spec[1])
                files.append('(%s, %s)' % (coq_bytes(tok), term))
                i += 3
            else:
                tok, rel, res = cf.unhex(f[i + 1]), cf.unhex(f[i + 2]), f[i + 3]
                canon.append('((%s, %s), %s)' % (coq_bytes(tok), coq_bytes(rel),
                                                 'None' if res == '!' else '(Some %s)' % coq_bytes(cf.unhex(res))))
                i += 4
        t = line.split(' ')
        if t[0] == 'ERR':
            first = [x for x in t if x.startswith('first=')]
            if not first or first[0][6:] not in COQ_ERR:
                continue
            expected = '(inr %s)' % COQ_ERR[first[0][6:]]
        elif t[0] == 'OK':
            projs = []
            cur = None
            j = 1
            while j < len(t):
                if t[j] == 'P':
                    cur = {'dir': cf.unhex(t[j + 1][1:]), 'name': None, 'imports': [], 'targets': []}
                    projs.append(cur)
                    j += 1
                elif t[j].startswith('name=') and cur is not None:
                    cur['name'] = None if t[j][5:] == 'N' else cf.unhex(t[j][6:])
                elif t[j] == 'I':
                    cur['imports'].append(cf.unhex(t[j + 1].partition('=')[0]))
                    j += 1
                elif t[j] == 'T':
                    k, _, enc = t[j + 1].partition('=')
                    cur['targets'].append((cf.unhex(k), {'B': 0, 'S': 1, 'A': 2}[enc[0]]))
                    j += 1
                j += 1
            expected = '(inl [' + '; '.join(
                '(%s, %s, [%s], [%s])' % (coq_bytes(p['dir']), 'None' if p['name'] is None else 'Some %s' % coq_bytes(p['name']),
                                          '; '.join(coq_bytes(x) for x in p['imports']),
                                          '; '.join('(%s, %d)' % (coq_bytes(a), b) for a, b in p['targets'])) for p in projs) + '])'
        else:
            continue
        out.append('Goal digest (load_config (fs_of [%s]) (canon_of [%s]) (fun _ l => l) %d %s) = %s.' % (
            '; '.join(files), '; '.join(canon), ndirs + 2, coq_bytes(root_tok), expected))
        out.append('Proof. vm_compute. reflexivity. Qed.')
        n += 1
    vfile = os.path.join(d, 'Cases.v')
    with open(vfile, 'w') as fh:
        fh.write('\n'.join(out) + '\n')
    rc, o, e = vf.sh(['coqc', '-noglob', '-Q', vf.COQ, 'Zinoma', vfile], timeout=1800, cwd=d)
    ck.extra['coq_crosscheck'] = {'cases_reevaluated_inside_coq': n, 'agree': rc == 0}
    if rc != 0:
        ck.violation({'kind': 'extraction', 'what': 'the extracted OCaml runner and vm_compute inside Coq disagree on a case '
                                                    '(extraction or driver defect)', 'file': vfile, 'coqc': (o + e)[-1500:]},
                     found_input=False)


# ------------------------------------------------------------------------------------------ entry points

def run(ck):
    quick = ck.tier == 'quick'
    rng = ck.rng
    ck.rule('load: (a) single documents = generated schema-valid project VALUE trees with 0-2 structural mutations (unknown/duplicated/'
            'dropped/renamed keys at every level, index keys, non-string keys, two kinds, wrong-typed and null scalars, string for sequence, '
            'sequence-form project, bad names) + corpus of the probe documents + unparseable texts; (b) layouts of 2-7 directories '
            '(imports as trees/DAGs/cycles/self-imports/two spellings/symlinks; wrong keys, unnamed imports, name clashes, missing '
            'directories, files as directories, missing/garbage/invalid child configs, two simultaneous defects); each rendered to YAML '
            'text on disk (block/flow/quoting styles drawn at random), real loader vs model under every imports order; non-trivial = '
            'distinct (rendered texts, layout); (c) determinism: fresh processes; (d) black-box --clean on invalid configurations')
    # (a) single documents
    b = Batch(ck, 'docs')
    for t in CORPUS_DOCS:
        b.add(single_layout(t), 'corpus')
    for g in GARBAGE:
        lay = cf.Layout('r')
        lay.put('r', ('raw', g))
        b.add(lay, 'garbage')
    lay = cf.Layout('r')
    lay.put('r', None)
    b.add(lay, 'no_config')
    lay = cf.Layout('r')
    lay.put('r', ('ymldir',))
    b.add(lay, 'config_is_directory')
    nex = 0
    for t in exhaustive_small(pairs=not quick):
        b.add(single_layout(t), 'exhaustive_small')
        nex += 1
    ck.extra['exhaustive_small_scope'] = {'documents': nex, 'scope': 'all target / resource-item / project mappings with <= %d entries over '
                                          '11x8, 7x5 and 7x7 key x value alphabets, and short sequence-form projects' % (1 if quick else 2)}
    ndocs = 1500 if quick else 40000
    for _ in range(ndocs):
        t = gen_project(rng, name=rng.choice(NAMES_OK + [None, None]))
        k = rng.choice([0, 1, 1, 1, 2, 2, 3])
        tags = []
        for _ in range(k):
            t, tag = mutate(rng, t)
            tags.append(tag)
        b.add(single_layout(t), 'valid' if k == 0 else 'mutated')
        for tg in tags:
            ck.tally('mutation:' + tg)
    _, _, model_docs = run_batch(ck, b, 'doc')
    b_docs = b
    # (b) layouts
    b = Batch(ck, 'lay')
    accepted_layouts = []
    nlay = 450 if quick else 12000
    lays = []
    cid = b.add(d10_layout(), 'clash_corpus_D10')
    lays.append((cid, d10_layout(), 'clash_corpus_D10'))
    for _ in range(nlay):
        lay, fam = gen_layout(rng)
        cid = b.add(copy.deepcopy(lay), fam)
        if cid is not None:
            lays.append((cid, lay, fam))
    res, impl, model = run_batch(ck, b, 'layout')
    for cid, lay, fam in lays:
        m = cf.parse_result(model.get(cid, 'MISSING'))
        if m[0] == 'OK' or fam.startswith('clash'):
            accepted_layouts.append((lay, fam))
    # (c) determinism in fresh processes
    ndet, runs = (10, 20) if quick else (60, 25)
    clash = [x for x in accepted_layouts if x[1].startswith('clash')][:max(2, ndet // 3)]
    okl = [x for x in accepted_layouts if not x[1].startswith('clash')][:ndet - len(clash)]
    determinism(ck, [(copy.deepcopy(l), f) for l, f in clash + okl], runs)
    # (d) black-box
    blackbox(ck, 8 if quick else 12)
    # support: bytes
    if not quick:
        fuzz(ck, 20000)
        coq_crosscheck(ck, [(b_docs, model_docs), (b, model)], 400)
    if ck.violations == 0:
        for d in SCRATCH_DIRS:          # replays of violations point into these directories: kept only then
            vf.sh(['rm', '-rf', d])
    ck.assumptions += [
        'serde_yaml 0.8.26 / yaml-rust text -> value step is trusted; the value trees the check renders are typed by the tables in '
        'slices/config.py (read from visit_untagged_str, confirmed on the real loader)',
        'project and target names use ASCII word characters, hyphens and non-ASCII LETTERS only (Names.v models every byte >= 128 as a '
        'word character)',
        'alias expansion cost (exponential "billion laughs" documents) and parser stack depth are resource limits outside the model',
    ]


def replay(ck, path):
    import json
    rep = json.load(open(path))
    line = rep.get('case_line')
    if not line or rep.get('kind') != 'config-load':
        return run(ck)
    # rebuild the files of the replay under a fresh directory and run both sides on the recorded case line
    d = vf.scratch_dir('C14_replay')
    f = line.split(' ')
    base = os.path.join(d, 'case')
    for rel, txt in rep.get('files', {}).items():
        os.makedirs(os.path.dirname(os.path.join(base, rel)), exist_ok=True)
        with open(os.path.join(base, rel), 'w') as fh:
            fh.write(txt)
    for rel, kind in rep.get('other_dirs', {}).items():
        os.makedirs(os.path.join(base, rel), exist_ok=True)
        if kind == 'ymldir':
            os.makedirs(os.path.join(base, rel, 'zinoma.yml'), exist_ok=True)
        elif kind == 'raw':
            with open(os.path.join(base, rel, 'zinoma.yml'), 'w') as fh:
                fh.write('{{{')
    for rel, tgt in rep.get('symlinks', {}).items():
        os.makedirs(os.path.dirname(os.path.join(base, rel)), exist_ok=True)
        os.symlink(tgt, os.path.join(base, rel))
    for rel in rep.get('plain_files', []):
        os.makedirs(os.path.dirname(os.path.join(base, rel)), exist_ok=True)
        open(os.path.join(base, rel), 'w').write('x')
    base_real = os.path.realpath(base)
    f[2] = cf.hexs(os.fsencode(os.path.join(base_real, bytes.fromhex(f[3]).decode())))
    cfn = os.path.join(d, 'cases.txt')
    with open(cfn, 'w') as fh:
        fh.write(' '.join(f) + '\n')
    rc, impl, err = vf.run_impl('load', cfn)
    model = vf.run_model('load', cfn)
    il = impl[0].split(' ', 1)[1] if impl else 'MISSING'
    ml = model[0].split(' ', 1)[1] if model else 'MISSING'
    ir = cf.parse_result(il, base_real)
    mr = cf.parse_result(ml)
    ck.count(('replay', line), sample={'model': cf.describe(mr), 'impl': cf.describe(ir)})
    same = (ir[0] == mr[0] == 'ERR' and ir[1] <= mr[1]) or \
           (ir[0] == mr[0] == 'OK' and all(ir[1].get(k) == mr[1].get(k) for k in ('root', 'irroot', 'avail', 'projects')))
    if not same:
        ck.violation({'kind': 'config-load', 'what': 'replay: the real loader and the model still differ', 'case_line': ' '.join(f),
                      'files': rep.get('files'), 'model': cf.describe(mr), 'implementation': cf.describe(ir)}, found_input=True)
