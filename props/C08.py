# C08 — each needed target runs exactly once per one-shot run; others never.
# Theorems: coq/Properties/C08.v (at most once; results match starts; nothing outside the graph) + C09 (the graph is the
# closure). Correspondence: real actors vs Actor.actor_step projected on script starts and requests/acknowledgements; system
# runs counting start lines on graphs with shared dependencies, duplicate roots and duplicate dependency entries, with planted
# state files for the targets outside the closure; 40% of the runs are `zinoma --clean T...` (the planted state of targets
# outside the closure must survive the clean phase too).
from slices import actor, engine


def keep(o):
    return ('<-Ok:' in o) or ('<-Rq:' in o)


def run(ck):
    engine.check_engine(ck, 'C08', actor.proj(keep_out=keep, keys=('starts',)),
                        'script starts + requests to dependencies + Ok messages sent', fail_p=0.1, clean_p=0.4, n_evflow_quick=16)


def replay(ck, path):
    engine.replay(ck, 'C08', path, run)
