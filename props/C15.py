# C15 — a files resource denotes exactly the matching regular files under its paths.
# Theorems: coq/Properties/C15.v (walk/listing = declarative spec, set semantics, missing paths, extension normalisation,
#           the watcher accepts every listed path).
# Correspondence: mode "listing" — the real crate::fs::list_files_in_paths / list_files_in_resources on REAL trees built in a
#           scratch directory (symlinks of every sort, `.zinoma` entries of every type and depth, non-UTF-8 names) vs
#           FsTree.listing_set on the same tree; plus the real watcher predicates (mode "filter") on every listed path.
# Oracle:   slices/fstree.py oracle_listing — the property text read by an independent walker on the real tree.
import os
import vf
from slices import fstree as fs


CORPUS_TREE = [
    ('D', b'/p'), ('D', b'/p/src'), ('F', b'/p/src/a.o'), ('F', b'/p/src/b.c'), ('F', b'/p/src/o'), ('F', b'/p/src/.o'),
    ('F', b'/p/src/x.tar.o'), ('D', b'/p/src/sub'), ('F', b'/p/src/sub/c.o'), ('D', b'/p/src/sub/.zinoma'),
    ('F', b'/p/src/sub/.zinoma/d.o'), ('F', b'/p/src/\xff\xfe.o'), ('D', b'/p/src/empty'), ('L', b'/p/src/lf.o', b'a.o'),
    ('L', b'/p/src/ld', b'sub'), ('L', b'/p/src/dang.o', b'nope'), ('L', b'/p/src/loop.o', b'loop.o'),
    ('L', b'/p/src/abs.o', b'/p/src/b.c'), ('L', b'/p/rootlink', b'src'), ('L', b'/p/rootlinkf', b'src/a.o'),
    ('D', b'/p/.zinoma'), ('F', b'/p/.zinoma/s.o'), ('L', b'/p/zl', b'.zinoma'), ('D', b'/q'), ('L', b'/q/.zinoma', b'/p/src'),
    ('F', b'/q/.zinomafile'), ('D', b'/q/z'), ('F', b'/q/z/.zinoma'), ('L', b'/q/up', b'../p/src/sub'),
    ('L', b'/q/l1', b'l2'), ('L', b'/q/l2', b'l1'), ('L', b'/q/chain', b'/p/rootlinkf'),
]
CORPUS_QUERIES = [
    (None, [b'/p/src']), ([b'.o'], [b'/p/src']), ([b'.o'], [b'/p/src/']), ([b'.o'], [b'/p/rootlink']), ([b'.o'], [b'/p/rootlink/']),
    (None, [b'/p/rootlinkf']), (None, [b'/p/rootlinkf/']), (None, [b'/p/src/a.o']), (None, [b'/p/src/a.o/']), (None, [b'/p/src/a.o/.']),
    (None, [b'/p/.zinoma']), (None, [b'/p/zl']), (None, [b'/q/.zinoma']), (None, [b'/q/.zinoma/']), (None, [b'/q/z']),
    (None, [b'/q/z/.zinoma']), (None, [b'/p/src/sub/.zinoma']), (None, [b'/p/src/sub/.zinoma/']), (None, [b'/p/src/sub/.zinoma/.']),
    (None, [b'/p/src/sub/.zinoma/d.o']), (None, [b'/p/src/sub/.zinoma/../c.o']), (None, [b'/p/src/.']), (None, [b'/p/src/..']),
    (None, [b'/p//src']), (None, [b'/p/src', b'/p/src/sub', b'/p/./src']), (None, [b'/nope']), (None, [b'/q/up']), (None, [b'/p/src/ld']),
    (None, [b'/p/src/ld/']), (None, [b'/p/src/dang.o']), (None, [b'/p/src/loop.o']), (None, [b'/p/src/ld/../a.o']), (None, [b'/']),
    ([b'.o', b'.c'], [b'/p', b'/q']), (None, [b'/q/l1']), (None, [b'/q/chain']), ([b'o'], [b'/p/src']), ([b'.tar.o'], [b'/p/src']),
]


def corpus_tree():
    t = {}
    cid = 0
    for e in CORPUS_TREE:
        if e[0] == 'D':
            t[e[1]] = ('d',)
        elif e[0] == 'F':
            cid += 1
            t[e[1]] = ('f', cid)
        else:
            t[e[1]] = ('l', e[2])
    return t


def is_tmp_name(n):
    return n.endswith(b'~') or (n.startswith(b'.') and (n.endswith(b'.swp') or n.endswith(b'.swx')))


def run(ck, only_case=None):
    quick = ck.tier == 'quick'
    n_trees = 1500 if quick else 12000
    d = vf.scratch_dir('C15')
    root = os.path.join(d, 'w')
    os.makedirs(root)
    cf = os.path.join(d, 'listing_cases.txt')
    queries = {}          # "<case>.<q>" -> (tree, kind, payload)
    lines = ['ROOT ' + fs.hexs(root)]

    def add_case(cid, tree, qs, rs):
        lines.append('CASE ' + cid)
        lines.extend(fs.tree_lines(tree))
        for i, (exts, paths) in enumerate(qs):
            lines.append('Q q%d %s %s' % (i, fs.exts_field(exts), ','.join(fs.hexs(p) for p in paths) or '-'))
            queries['%s.q%d' % (cid, i)] = (tree, 'Q', (exts, paths))
        for i, res in enumerate(rs):
            lines.append('R r%d %s' % (i, ';'.join('%s=%s' % (fs.exts_field(e), ','.join(fs.hexs(p) for p in ps)) for e, ps in res)))
            queries['%s.r%d' % (cid, i)] = (tree, 'R', res)
        lines.append('END')

    add_case('corpus', corpus_tree(), CORPUS_QUERIES, [[([b'.o'], [b'/p/src']), (None, [b'/p/src/sub', b'/q/up'])]])
    for k in range(n_trees):
        tree = fs.gen_tree(ck.rng, max_entries=ck.rng.choice([6, 14, 14, 24]))
        qs = []
        for _ in range(ck.rng.choice([2, 3, 4])):
            qs.append((fs.gen_exts(ck.rng, tree), fs.gen_roots(ck.rng, tree)))
        rs = []
        if ck.rng.random() < 0.4:
            rs.append([(fs.gen_exts(ck.rng, tree), fs.gen_roots(ck.rng, tree)) for _ in range(ck.rng.choice([1, 2, 3]))])
        add_case('t%d' % k, tree, qs, rs)
    if not quick:
        k = 0
        for tree in fs.enum_trees(3):
            add_case('e%d' % k, tree, fs.ENUM_QUERIES, [])
            k += 1
        k3 = k
        for tree in fs.enum_trees(4):
            if len(tree) == 4 and ck.rng.random() < 0.12:
                add_case('e%d' % k, tree, fs.ENUM_QUERIES, [])
                k += 1
        ck.tally('exhaustive_trees(<=3 entries)', k3)
        ck.tally('sampled_trees(4 entries, 12%)', k - k3)
        ck.extra['exhaustive_scope'] = 'ALL trees of <=3 entries (and a 12%% sample of those with 4) over the names {.zinoma, a.o, d, l}, ' \
                                 'depth <=2, entries = file | directory | symlink to one of %r, x %d declarations ' \
                                 '(no filter/.o x 7 declared paths)' % ([t.decode() for t in fs.ENUM_TARGETS], len(fs.ENUM_QUERIES))
    with open(cf, 'w') as f:
        f.write('\n'.join(lines) + '\n')

    rc, impl_lines, err = vf.run_impl('listing', cf, timeout=3000)
    impl = vf.by_id(impl_lines)
    model = vf.by_id(vf.run_model('listing', cf, timeout=3000))
    ck.rule('listing: real trees (nesting, dot-files, multi-dot and non-UTF-8 names, names equal to an extension, symlinks to '
            'files/dirs/links/self/dangling/absolute/through "..", `.zinoma` as dir/file/link at any depth and as the declared '
            'path) x declarations (1-4 paths incl. missing, files, symlinks, duplicates, overlapping, spellings with trailing '
            'slash, ".", "//", ".."; extension sets incl. multi-dot, non-ASCII, name-equal); non-trivial = distinct '
            '(tree, declaration) whose listing is non-empty or whose tree has a symlink or a .zinoma entry; compared: the set of '
            'listed paths (PathBuf equality = by components)')
    ck.assumptions.append('suffix matching is on bytes; equal to to_string_lossy().ends_with for extensions free of U+FFFD')
    watch_lines = []
    watch_meta = {}
    n_diff = 0
    for qid, (tree, kind, payload) in queries.items():
        m = model.get(qid)
        r = impl.get(qid)
        ms = fs.parse_set(m) if m not in (None, 'P') else None
        rs_ = fs.parse_set(r) if r not in (None, 'P') else None
        feats = fs.tree_features(tree)
        nontrivial = bool(rs_) or bool(feats & {'symlink', 'zinoma_d', 'zinoma_f', 'zinoma_l'})
        sample = None
        if len(ck.samples) < 6 and rs_ and qid.startswith('t'):
            sample = {'tree': fs.describe_tree(tree), 'declaration': repr(payload), 'listing(model=impl)': sorted(map(repr, rs_))}
        ck.count((sorted(tree.items()), kind, repr(payload)), nontrivial=nontrivial, sample=sample)
        for ft in feats:
            ck.tally('tree:' + ft)
        ck.tally('listing:' + ('empty' if not rs_ else 'nonempty'))
        if kind == 'Q':
            exts, paths = payload
            ck.tally('decl:' + ('filtered' if exts else 'unfiltered'))
            for p in paths:
                if p != fs.norm(p):
                    ck.tally('decl:respelled_path')
                if p not in tree and fs.norm(p) not in tree:
                    ck.tally('decl:path_not_an_entry')
            # the watcher rule on every listed path (absolute real path, as inotify reports it)
            if rs_ and len(watch_lines) < (4000 if quick else 40000):
                for lp in sorted(rs_)[:8]:
                    wid = 'w%d' % len(watch_lines)
                    watch_lines.append('F %s %s %s' % (wid, fs.hexs(root.encode() + b'/' + qid.split('.')[0].encode() + lp),
                                                       fs.exts_field(exts)))
                    watch_meta[wid] = (qid, lp, exts)
        if m is not None and r is not None and ms == rs_ and m != 'P' and r != 'P':
            continue
        n_diff += 1
        report_difference(ck, d, qid, tree, kind, payload, m, r, ms, rs_)
        if n_diff > 20:
            break

    # extraction is itself checked: a sample of the cases is re-evaluated by vm_compute inside Coq
    if not quick:
        qids = [q for q, (tree, kind, payload) in queries.items() if kind == 'Q' and q.startswith('t') and len(tree) <= 16]
        sample = ck.rng.sample(qids, min(40, len(qids)))
        cases = [(queries[q][0], queries[q][2][0], queries[q][2][1]) for q in sample]
        got = fs.coq_eval_listings(cases, d)
        for q, g in zip(sample, got):
            ck.tally('vm_compute_crosscheck')
            if g is None or g != fs.parse_set(model.get(q)):
                ck.violation({'kind': 'extraction-crosscheck', 'case': q, 'vm_compute': None if g is None else sorted(map(repr, g)),
                              'extracted_runner': model.get(q),
                              'what': 'the extracted OCaml model and vm_compute inside Coq disagree on FsTree.listing_set'},
                             found_input=False)
        ck.extra['extraction_crosscheck'] = '%d listing cases re-evaluated with vm_compute inside Coq, compared with the extracted runner' % len(sample)

    # "watching applies the same rule to the path of each event"
    if watch_lines:
        wf = os.path.join(d, 'watch_cases.txt')
        with open(wf, 'w') as f:
            f.write('\n'.join(watch_lines) + '\n')
        rc, wl, err = vf.run_impl('filter', wf)
        wres = vf.by_id(wl)
        for wid, (qid, lp, exts) in watch_meta.items():
            res = wres.get(wid, 'MISSING')
            name = lp.rsplit(b'/', 1)[1]
            ck.count(('watch', lp, tuple(exts) if exts else None), nontrivial=True)
            ck.tally('watch:listed_path_checked')
            if is_tmp_name(name):
                ck.tally('watch:listed_but_editor_temporary')
                continue
            if b'.zinoma' in lp.split(b'/'):
                # only possible when the declared path itself has a component named .zinoma (hypothesis of
                # C15_watch_same_rule; DESIGN.md KF2)
                ck.tally('watch:declared_path_has_.zinoma_component')
                continue
            if not res.endswith('relevant=1'):
                ck.violation({'kind': 'listed-path-ignored-by-watcher', 'case': qid, 'path': repr(lp),
                              'extensions': None if exts is None else [repr(e) for e in exts], 'watcher_predicates': res,
                              'what': 'a file of the resource (listed by list_files_in_paths) is not relevant for the watcher '
                                      'although its name is not an editor temporary and no ancestor is named .zinoma',
                              'replay': 'ZINOMA_VERIF=filter on the line: ' + [l for l in watch_lines if l.split(' ')[1] == wid][0]},
                             found_input=True)
    shutil_rm(d)


def shutil_rm(d):
    import shutil
    shutil.rmtree(d, ignore_errors=True)


def report_difference(ck, d, qid, tree, kind, payload, m, r, ms, rs_):
    """model and implementation differ on one declaration: ask the oracle (property text on the real tree)."""
    oroot = os.path.join(d, 'oracle_' + qid.replace('.', '_')).encode()
    fs.py_build(oroot, tree)
    resources = [payload] if kind == 'Q' else payload
    must, may = set(), set()
    for exts, paths in resources:
        mu, ma = fs.oracle_listing(oroot, paths, exts)
        must |= mu
        may |= ma
    may -= must
    case_lines = fs.tree_lines(tree)
    rep = {'kind': 'listing', 'case': qid, 'tree': fs.describe_tree(tree), 'declaration': repr(payload),
           'model(FsTree.listing_set)': m if ms is None else sorted(map(repr, ms)),
           'implementation(list_files_in_paths)': r if rs_ is None else sorted(map(repr, rs_)),
           'oracle(property text on the real tree)': {'must': sorted(map(repr, must)), 'undecided': sorted(map(repr, may))},
           'replay': 'ZINOMA_VERIF=listing with the case lines below (ROOT = any empty scratch directory)',
           'case_lines': ['CASE x'] + case_lines + [
               ('Q q0 %s %s' % (fs.exts_field(e), ','.join(fs.hexs(p) for p in ps))) for e, ps in resources] + ['END']}
    if rs_ is None:
        rep['what'] = 'the implementation panicked or printed nothing for this declaration'
        ck.violation(rep, found_input=True)
        return
    extra = rs_ - must - may
    missing = must - rs_
    if extra or missing:
        rep['what'] = ('listed although not a matching regular file of the resource: %s; ' % sorted(map(repr, extra)) if extra else '') + \
                      ('matching regular files of the resource not listed: %s' % sorted(map(repr, missing)) if missing else '')
        ck.violation(rep, found_input=True)
    else:
        rep['what'] = 'correspondence model/implementation of mode "listing" broke on this case; the implementation\'s set agrees ' \
                      'with the property oracle'
        ck.violation(rep, found_input=False)


def replay(ck, path):
    import json
    rep = json.load(open(path))
    if not rep.get('case_lines'):
        return run(ck)
    d = vf.scratch_dir('C15replay')
    root = os.path.join(d, 'w')
    os.makedirs(root)
    cf = os.path.join(d, 'replay_cases.txt')
    with open(cf, 'w') as f:
        f.write('\n'.join(['ROOT ' + fs.hexs(root)] + rep['case_lines']) + '\n')
    rc, impl_lines, err = vf.run_impl('listing', cf)
    model_lines = vf.run_model('listing', cf)
    for a, b in zip(impl_lines, model_lines):
        ia, ib = a.split(' '), b.split(' ')
        si, sm = fs.parse_set(ia[1]) if ia[1] != 'P' else None, fs.parse_set(ib[1])
        print('%s: implementation %s' % (ia[0], 'PANIC' if si is None else sorted(si)))
        print('%s: model          %s' % (ib[0], sorted(sm)))
        ck.count(('replay', path, a))
        if si != sm:
            ck.violation(dict(rep, replayed=True), found_input=bool(rep.get('found_failing_input')))
    shutil_rm(d)
