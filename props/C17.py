# C17 — independent targets run concurrently; nothing waits for a non-dependency.
# Theorems: coq/Properties/C17.v. Correspondence: real actors vs Actor.actor_step projected on script starts (a start happens
# in the very step that makes the target ready); rendezvous runs on the real binary: k <= 8 mutually independent gated
# builds must ALL be in progress (blocked on their gates) before any is released, while an unrelated build stays blocked
# for the whole scenario and a service runs; declaration and request order permuted.
import random
from slices import actor, engine, sysrun


def rendezvous(ck):
    n = 10 if ck.tier == 'quick' else 120
    found = []
    for i in range(n):
        r = random.Random(ck.rng.getrandbits(48))
        k = r.randint(2, 8)
        noise = r.random() < 0.8
        obs, V = sysrun.rendezvous(r, k, tag='C17_%d' % i, with_noise=noise)
        ck.count(('rv', k, noise, tuple(obs['roots']), tuple(sorted(obs['targets']['top']['deps']))), nontrivial=True,
                 sample={'k': k, 'with_unrelated_build_and_service': noise, 'roots': obs['roots'],
                         'all_in_progress_together': obs['all_in_progress'], 'wait_s': obs['wait_s'], 'trace': obs['trace'][:12]})
        ck.tally('rv:k=%d' % k)
        if 'C17' in V:
            o = dict(obs)
            o.update({'outcome': 'rendezvous-failed', 'exit_code': None, 'fail': [], 'gated': True, 'stderr_tail': ''})
            found.append((o, V['C17']))
    for i in range(1 if ck.tier == 'quick' else 4):
        obs, V = sysrun.probe_starvation(random.Random(ck.rng.getrandbits(32)), tag='C17ps%d' % i)
        ck.count(('probes', obs['probes'], i), nontrivial=True, sample=obs)
        ck.tally('probe_starvation')
        if 'C17' in V:
            found.append(({'targets': {'note': '%d targets with input `cmd_stdout: sleep 3; echo v` + quick0 <- quick1 <- quick2' % obs['probes']},
                           'roots': ['probe*', 'quick2'], 'fail': [], 'gated': False, 'trace': [], 'outcome': 'slow', 'exit_code': None,
                           'stderr_tail': '', 'observed': obs}, V['C17']))
    return found


def run(ck):
    engine.check_engine(ck, 'C17', actor.proj(keep_out=lambda o: '<-Rq:' in o, keys=('starts',)),
                        'script starts + requests sent to dependencies per event',
                        n_sys_quick=10, fail_p=0.05, gated_p=0.9, extra=rendezvous, n_evflow_quick=16)


def replay(ck, path):
    engine.replay(ck, 'C17', path, run)
