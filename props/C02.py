# C02 — a build is skipped only when nothing it declares has changed.
# Theorems: coq/Properties/C02.v. Correspondence: the REAL incremental::run on real scratch trees over generated histories of
# file operations and invocations (mode incr) vs Incremental.run_cycle fed with the observed worlds (slices/incr.py).
# Oracles: every real `Skipped` must be justified by what was observed at the last recorded completion of the target
# (history oracle) or by the planted state file (record oracle).
import vf
from slices import incr

RULE = ('incr: histories on real trees (layouts: single target, two projects with the same command text in two directories and '
        'outputs inherited as inputs, two targets sharing files, a target without input, overlapping resources / other spellings '
        'of one directory; ops: write, change beyond the first 1 KiB, touch (mtime only, incl. before the epoch), rewrite keeping '
        'the mtime, add, delete, rename, command output change, output edit/removal, non-matching files, foreign/corrupt state '
        'files, failing scripts) through the real incremental::run with a scripted build future; the model gets the OBSERVED '
        'listing/mtimes/SeaHashes/command outputs; compared per invocation: skip decision, result, decoded record; '
        'non-trivial = distinct (layout, target, outcome, observed world relative to the tree root, record before, result)')


def inherited_outputs(ck):
    """real binary, three invocations: build; re-run untouched; edit the input of a producer: the producer runs again and
    rewrites its output with new content, and every consumer inheriting that output through `X.output` — named under
    `dependencies` as well, or not — must run again"""
    import concurrent.futures
    import random
    from slices import engine, sysrun
    ck.rule('inherited outputs: one producer whose output is a copy of its input, 2-4 consumers with `producer.output` in their '
            'inputs (half of them also list the producer under `dependencies`), requested through an aggregate or one by one; '
            'invocation, untouched re-run, edit of the producer\'s input, third invocation: producer and every consumer run again')
    shapes = []
    for _ in range(5 if ck.tier == 'quick' else 50):
        r = random.Random(ck.rng.getrandbits(48))
        k = r.choice([2, 2, 3, 4])
        T = {'gen': {'kind': 'build', 'deps': []}}
        for i in range(k):
            T['use%d' % i] = {'kind': 'build', 'deps': ['gen']}
        T['all'] = {'kind': 'aggregate', 'deps': ['use%d' % i for i in range(k)]}
        roots = r.choice([['all'], ['gen'] + ['use%d' % i for i in range(k)], ['use%d' % i for i in range(k)]])
        shapes.append((T, roots, r))
    found = []

    def one(x):
        T, roots, r = x
        return x, sysrun.oneshot(r, T, roots, gated=r.random() < 0.5, tag='C02o%d' % r.getrandbits(20), implied_p=1.0, implied_keep_p=0.5,
                                 second_run=True)
    with concurrent.futures.ThreadPoolExecutor(max_workers=5) as ex:
        for (T, roots, r), (obs, V) in ex.map(one, shapes):
            ck.count(('inherited', str(sorted(T.items())), tuple(roots), str(obs.get('dependencies_declared_through_X.output'))),
                     sample={'targets': T, 'roots': roots, 'second_and_third_run': obs.get('second_run')})
            ck.tally('sys:inherited-outputs')
            if 'C02' in V:
                found.append((obs, V['C02']))
    engine.report_sys(ck, 'C02', found)


def run(ck):
    d = vf.scratch_dir('C02')
    n = 300 if ck.tier == 'quick' else 2500
    ck.rule(RULE)
    batch = 75 if ck.tier == 'quick' else 250
    batches = [('b%d' % b, dict(('h%d' % i, incr.gen_history(ck.rng, 'edits')) for i in range(b, min(n, b + batch))))
               for b in range(0, n, batch)]
    incr.check_histories_parallel(ck, d, batches, ('C02',))
    from slices import engine
    engine.two_invocations(ck, 'C02', n_quick=6, fail_p=0.6)
    inherited_outputs(ck)
    from props import C05
    C05.builder_correspondence(ck, d)
    incr.flush(ck)
    vf.sh(['rm', '-rf', d])


def replay(ck, path):
    incr.replay_file(ck, path, run)
