# C02 — a build is skipped only when nothing it declares has changed.
# Theorems: coq/Properties/C02.v. Correspondence: the REAL incremental::run on real scratch trees over generated histories of
# file operations and invocations (mode incr) vs Incremental.run_cycle fed with the observed worlds (slices/incr.py).
# Oracles: every real `Skipped` must be justified by what was observed at the last recorded completion of the target
# (history oracle) or by the planted state file (record oracle).
import vf
from slices import incr

RULE = ('incr: histories on real trees (layouts: single target, two projects with the same command text in two directories and '
        'outputs inherited as inputs, two targets sharing files, a target without input, overlapping resources / other spellings '
        'of one directory; ops: write, change beyond the first 1 KiB, touch (mtime only, incl. before the epoch), rewrite keeping '
        'the mtime, add, delete, rename, command output change, output edit/removal, non-matching files, foreign/corrupt state '
        'files, failing scripts) through the real incremental::run with a scripted build future; the model gets the OBSERVED '
        'listing/mtimes/SeaHashes/command outputs; compared per invocation: skip decision, result, decoded record; '
        'non-trivial = distinct (layout, target, outcome, observed world relative to the tree root, record before, result)')


def run(ck):
    d = vf.scratch_dir('C02')
    n = 300 if ck.tier == 'quick' else 2500
    ck.rule(RULE)
    batch = 75 if ck.tier == 'quick' else 250
    batches = [('b%d' % b, dict(('h%d' % i, incr.gen_history(ck.rng, 'edits')) for i in range(b, min(n, b + batch))))
               for b in range(0, n, batch)]
    incr.check_histories_parallel(ck, d, batches, ('C02',))
    from slices import engine
    engine.two_invocations(ck, 'C02', n_quick=6, fail_p=0.6)
    incr.flush(ck)
    vf.sh(['rm', '-rf', d])


def replay(ck, path):
    incr.replay_file(ck, path, run)
