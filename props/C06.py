# C06 — watch mode converges: the last change always ends up built.
# Theorems: coq/Properties/C06.v (safety half + the KF1 witness). Correspondence: real actors vs Actor.actor_step on
# sequences with change notices before a start / during a build / after completion and Invalidated words from dependencies
# (projection: every field); watch-mode scenarios of the real binary with real inotify: generated producer/consumer graphs
# (X.output edges, plain dependencies, aggregates, services) x change schedules (single, bursts, during idle, during a
# gated build, in a dependency while the dependent builds); oracle at quiescence: every output equals the stamp of its
# declared inputs as they are now, services restarted after their last change, zinoma still watching.
# KNOWN FINDING KF1: a change of a target's OWN input while its OWN script runs is absorbed (D12) — printed, not failed.
import concurrent.futures
import json
import random
from slices import actor, engine, watchrun

KF1_REPLAY = ({'w0': {'kind': 'build', 'own_input': True, 'producers': [], 'deps': []}}, ['w0'], True,
              [('during', 'w0', 'w0'), ('idle',)])


def watch_campaign(ck):
    n = 18 if ck.tier == 'quick' else 220
    jobs = [(0, KF1_REPLAY[0], KF1_REPLAY[1], KF1_REPLAY[2], KF1_REPLAY[3], random.Random(1))]
    # clean tree + a producer whose output directory does not exist yet (D11 / FX8)
    jobs.append((1, {'w0': {'kind': 'build', 'own_input': True, 'producers': [], 'deps': []},
                     'w1': {'kind': 'build', 'own_input': False, 'producers': ['w0'], 'deps': []}}, ['w1'], False,
                 [('change', 'w0'), ('idle',)], random.Random(2)))
    for i in range(2, n):
        r = random.Random(ck.rng.getrandbits(48))
        T, roots = watchrun.gen_watch_graph(r)
        gated = r.random() < 0.6
        jobs.append((i, T, roots, gated, watchrun.gen_plan(r, T, roots, gated), r))
    found = []

    def one(j):
        i, T, roots, gated, plan, r = j
        return j, watchrun.scenario(r, T, roots, gated, plan, tag='C06_%d' % i)
    with concurrent.futures.ThreadPoolExecutor(max_workers=8) as ex:
        for j, (obs, V, known) in ex.map(one, jobs):
            i, T, roots, gated, plan, r = j
            ck.count(('watch', json.dumps(T, sort_keys=True), tuple(roots), gated, json.dumps(plan)), nontrivial=len(plan) > 1,
                     sample={'targets': T, 'roots': roots, 'gated': gated, 'plan': plan, 'trace': obs['trace'][:14]})
            for st in plan:
                ck.tally('watch:step=' + st[0])
            ck.tally('watch:targets=%d' % len(T))
            for fid, text in known:
                ck.violation({'kind': 'watch-scenario', 'what': text, 'targets': T, 'roots': roots, 'plan': plan,
                              'observed_trace': obs['trace']}, found_input=True, finding_id=fid)
            if 'C06' in V:
                found.append(({'targets': T, 'roots': roots, 'fail': [], 'gated': gated, 'trace': obs['trace'],
                               'outcome': 'watch', 'exit_code': None, 'stderr_tail': '', 'plan': plan}, V['C06']))
    return found


def run(ck):
    engine.check_engine(ck, 'C06', None, 'every field (incl. change notices and Invalidated words)', n_sys_quick=6,
                        fail_p=0.05, extra=watch_campaign)


def replay(ck, path):
    run(ck)
