# C06 — watch mode converges: the last change always ends up built.
# Theorems: coq/Properties/C06.v (safety half + the KF1 witness). Correspondence: real actors vs Actor.actor_step on
# sequences with change notices before a start / during a build / after completion and Invalidated words from dependencies
# (projection: every field); watch-mode scenarios of the real binary with real inotify: generated producer/consumer graphs
# (X.output edges, plain dependencies, aggregates, services) x change schedules (single, bursts, during idle, during a
# gated build, in a dependency while the dependent builds); oracle at quiescence: every output equals the stamp of its
# declared inputs as they are now, services restarted after their last change, zinoma still watching.
# KNOWN FINDING KF1: a change of a target's OWN input while its OWN script runs is absorbed (D12) — printed, not failed.
from slices import actor, engine, watchrun

KF1_REPLAY = ({'w0': {'kind': 'build', 'own_input': True, 'producers': [], 'deps': []}}, ['w0'], True,
              [('during', 'w0', 'w0'), ('idle',)])


def watch_campaign(ck):
    n = 18 if ck.tier == 'quick' else 220
    fixed = [KF1_REPLAY,
             # clean tree + a producer whose output does not exist yet (D11 / FX8)
             ({'w0': {'kind': 'build', 'own_input': True, 'producers': [], 'deps': []},
               'w1': {'kind': 'build', 'own_input': False, 'producers': ['w0'], 'deps': []}}, ['w1'], False,
              [('change', 'w0'), ('idle',)]),
             # two dependencies of one target change close together: the dependent must be re-run after BOTH finished
             ({'w0': {'kind': 'build', 'own_input': True, 'producers': [], 'deps': []},
               'w1': {'kind': 'build', 'own_input': True, 'producers': [], 'deps': []},
               'w2': {'kind': 'build', 'own_input': False, 'producers': [], 'deps': ['w0', 'w1']},
               'svc': {'kind': 'service', 'own_input': False, 'producers': [], 'deps': ['w0', 'w1']}}, ['w2', 'svc'], True,
              [('change', 'w0'), ('change', 'w1'), ('idle',)]),
             # a failing version, then the repair (the watcher must still be there and the repair must be built)
             ({'w0': {'kind': 'build', 'own_input': True, 'producers': [], 'deps': []}}, ['w0'], False,
              [('break', 'w0'), ('idle',), ('change', 'w0'), ('idle',)])]
    found, known = watchrun.campaign(ck, 'C06', n, fixed=fixed)
    for fid, text, o in known:
        ck.violation({'kind': 'watch-scenario', 'what': text, 'targets': o['targets'], 'roots': o['roots'], 'plan': o['plan'],
                      'observed_trace': o['trace']}, found_input=True, finding_id=fid)
    return found


def filtered_inputs(ck):
    """changes to inputs declared through extension filters — one directory listed under two different filters — must be
    rebuilt as well (the real watcher; shared with C16, here only the operations on declared inputs)"""
    import concurrent.futures
    import random
    n = 3 if ck.tier == 'quick' else 24
    ck.rule('watch: a target whose input lists one directory twice under two extension filters (and a second directory under one '
            'of them): modify / create / rename-over / move-in / delete of files selected by either resource, between irrelevant '
            'operations; every operation on a declared input must be followed by a run within 5 s')
    jobs = [(random.Random(ck.rng.getrandbits(48)), None) for _ in range(n)]
    # always: an input declared as ONE FILE, saved atomically (written elsewhere, renamed over it) several times in a row
    jobs.append((random.Random(ck.rng.getrandbits(48)), ['file_rename_over', 'file_rename_over', 'file_modify', 'file_rename_over']))
    with concurrent.futures.ThreadPoolExecutor(max_workers=3) as ex:
        for obs, V in ex.map(lambda a: watchrun.filter_scenario(a[0], n_ops=10, tag='C06f%d' % a[0].getrandbits(20), ops=a[1]), jobs):
            ck.count(('filtered-inputs', tuple(obs['ops'])), sample={'operations': obs['ops'], 'runs(filtered, unfiltered, single file, dir+file, file next to dir)': obs['runs']})
            for text in V.get('C16', []):
                if 'did not trigger' in text or 'exited' in text:
                    ck.violation({'kind': 'real-watcher', 'what': 'a change to a declared input was never rebuilt: ' + text,
                                  'operations': obs['ops'],
                                  'replay': 'zinoma --watch on a target with input [{paths:[src],extensions:[txt]}, '
                                            '{paths:[src,docs],extensions:[md]}] (either order), a second one with input paths [any], a third with input paths [conf/settings.ini]; perform the listed operations (file_* act on conf/settings.ini)'},
                                 found_input=True)


def run(ck):
    engine.check_engine(ck, 'C06', None, 'every field (incl. change notices and Invalidated words)', n_sys_quick=6,
                        fail_p=0.05, extra=watch_campaign, n_evflow_quick=40)
    filtered_inputs(ck)


def replay(ck, path):
    engine.replay(ck, 'C06', path, run)
