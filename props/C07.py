# C07 — a failing target fails the run and blocks everything depending on it.
# Theorems: coq/Properties/C07.v. Correspondence: real actors vs Actor.actor_step projected on errors, acknowledgements and
# starts; system runs with failing subsets (gated timing of the failure relative to siblings), oracle = non-zero exit naming a
# failing target, no start line of any transitive dependent.
from slices import actor, engine, root, watchrun


def keep(o):
    return o.startswith('ERR:') or ('<-Ok:' in o)


def watch_failures(ck):
    """watch mode: a version of an input that makes the script fail, dependents must stay blocked until the repair"""
    # fixed: base <- mid <- top; mid's (outdated) build is still running when base is changed to a failing version and fails;
    # mid is released more than a second later and completes: top must stay blocked
    invalidated_in_flight = ({'w0': {'kind': 'build', 'own_input': True, 'producers': [], 'deps': []},
                              'w1': {'kind': 'build', 'own_input': True, 'producers': [], 'deps': ['w0']},
                              'w2': {'kind': 'build', 'own_input': False, 'producers': [], 'deps': ['w1']}}, ['w2'], True,
                             [('bump', 'w1'), ('await_pending', 'w1'), ('bump', 'w0', 'bad'), ('hold_others', 'w1', 1.2), ('idle',)])
    found, _known = watchrun.campaign(ck, 'C07', 8 if ck.tier == 'quick' else 90, break_bias=True, fixed=[invalidated_in_flight])
    found += engine.fixed_runs(ck, 'C07', engine.KILLED_DEPENDENCY + engine.FAILURE_NEXT_TO_RUNNING,
                               'a dependency whose script dies from a signal (no dependent starts, the run fails); a build failing '
                               'while an independent build runs and a service is up (non-zero exit naming it)')
    return found


def run(ck):
    engine.check_engine(ck, 'C07', actor.proj(keep_out=keep, keys=('starts', 'exited')),
                        'execution errors + Ok messages sent + script starts + actor exit', fail_p=0.75, gated_p=0.7,
                        n_sys_quick=18, extra=watch_failures, n_root_quick=150,
                        root_projection=root.status_only, root_what='whether and with which status run returns', n_evflow_quick=24)


def replay(ck, path):
    engine.replay(ck, 'C07', path, run)
