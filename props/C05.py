# C05 — failed, interrupted or crashed builds are never remembered as done.
# Theorems: coq/Properties/C05.v. Correspondence (slices/incr.py):
#  (a) the state-file codec through the real read path (mode codec): valid, every strict prefix, corrupted streams;
#  (b) histories with failing / cancelled / unspawnable scripts and planted foreign state files through the real incremental::run
#      (mode incr) vs Incremental.run_cycle;
#  (c) crash injection (hooks H3) at every named point of the cycle and at byte offsets of the state write, in child processes;
#  (d) black box on the real binary: signals during a gated script, foreign / corrupt / truncated state files.
import vf
from slices import incr
from props import C02


def run(ck):
    d = vf.scratch_dir('C05')
    quick = ck.tier == 'quick'
    if quick:
        incr.codec_check(ck, d, n_records=40, n_prefix_records=14, n_corrupt_per_record=10, n_random=40)
    else:
        incr.codec_check(ck, d, n_records=400, n_prefix_records=60, n_corrupt_per_record=14, n_random=600, n_xcheck=60)
    ck.rule(C02.RULE + ' | C05 bias: 60% of the scripts fail, are cancelled or cannot be spawned')
    n = 40 if quick else 600
    batch = 40 if quick else 200
    batches = [('f%d' % b, dict(('f%d' % i, incr.gen_history(ck.rng, 'faults')) for i in range(b, min(n, b + batch))))
               for b in range(0, n, batch)]
    incr.check_histories_parallel(ck, d, batches, ('C05',))
    if quick:
        incr.crash_check(ck, d, n_scenarios=6, offsets_mode='sample')
    else:
        incr.crash_check(ck, d, n_scenarios=16, offsets_mode='all')       # every byte offset of 16 records
        incr.crash_check(ck, d, n_scenarios=34, offsets_mode='sample')    # ~20 offsets of 34 more
    builder_correspondence(ck, d)
    incr.blackbox_c05(ck, d, thorough=not quick)
    from slices import engine
    engine.two_invocations(ck, 'C05', n_quick=10, fail_p=0.8)
    incr.flush(ck)
    vf.sh(['rm', '-rf', d])


def builder_correspondence(ck, d):
    """engine::builder::build_target (real /bin/sh children) vs Builder.build_report: every exit code 0..255, the shell killing
    itself with each catchable and uncatchable signal, cancellation while running, spawn failure"""
    import os
    cf = os.path.join(d, 'builder_cases.txt')
    cases = ['E%d' % c for c in range(256)] + ['K%d' % sg for sg in (1, 2, 3, 6, 8, 9, 10, 11, 12, 13, 14, 15)] + ['X', 'X', 'N']
    with open(cf, 'w') as f:
        for i, how in enumerate(cases):
            f.write('U u%d %s\n' % (i, how))
    rc, impl, err = vf.run_impl('builder', cf, env={'ZINOMA_VERIF_SCRATCH': os.path.join(d, 'builder')}, timeout=600)
    impl = vf.by_id(impl)
    model = vf.by_id(vf.run_model('builder', cf))
    ck.rule('builder: the real build_target on `/bin/sh -ce` scripts that exit with every code 0..255, kill their own shell with '
            'signals 1 2 3 6 8 9 10 11 12 13 14 15, are cancelled while running, or cannot be spawned, vs Builder.build_report '
            '(completed / cancelled / failed)')
    for i, how in enumerate(cases):
        cid = 'u%d' % i
        m, r = model.get(cid), impl.get(cid)
        ck.count(('builder', how, i if how == 'X' else 0), sample={'how the script ends': how, 'model': m, 'implementation': r})
        ck.tally('builder:' + (m or '?'))
        if m != r:
            ck.violation({'kind': 'builder', 'what': 'a script that ends as %s is reported as %r by the real build_target, the model '
                                                     '(Builder.build_report; C05_completed_iff_exit_zero) says %r' % (how, r, m),
                          'script_end': how, 'replay': 'ZINOMA_VERIF=builder on the line: U x %s (E<n> = exit n, K<n> = kill -s n $$, '
                                                       'X = cancelled, N = unspawnable)' % how},
                         found_input=(r == 'completed' and m != 'completed'))


def replay(ck, path):
    incr.replay_file(ck, path, run)
