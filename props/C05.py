# C05 — failed, interrupted or crashed builds are never remembered as done.
# Theorems: coq/Properties/C05.v. Correspondence (slices/incr.py):
#  (a) the state-file codec through the real read path (mode codec): valid, every strict prefix, corrupted streams;
#  (b) histories with failing / cancelled / unspawnable scripts and planted foreign state files through the real incremental::run
#      (mode incr) vs Incremental.run_cycle;
#  (c) crash injection (hooks H3) at every named point of the cycle and at byte offsets of the state write, in child processes;
#  (d) black box on the real binary: signals during a gated script, foreign / corrupt / truncated state files.
import vf
from slices import incr
from props import C02


def run(ck):
    d = vf.scratch_dir('C05')
    quick = ck.tier == 'quick'
    if quick:
        incr.codec_check(ck, d, n_records=40, n_prefix_records=14, n_corrupt_per_record=10, n_random=40)
    else:
        incr.codec_check(ck, d, n_records=400, n_prefix_records=60, n_corrupt_per_record=14, n_random=600, n_xcheck=60)
    ck.rule(C02.RULE + ' | C05 bias: 60% of the scripts fail, are cancelled or cannot be spawned')
    n = 40 if quick else 600
    batch = 40 if quick else 200
    batches = [('f%d' % b, dict(('f%d' % i, incr.gen_history(ck.rng, 'faults')) for i in range(b, min(n, b + batch))))
               for b in range(0, n, batch)]
    incr.check_histories_parallel(ck, d, batches, ('C05',))
    if quick:
        incr.crash_check(ck, d, n_scenarios=6, offsets_mode='sample')
    else:
        incr.crash_check(ck, d, n_scenarios=16, offsets_mode='all')       # every byte offset of 16 records
        incr.crash_check(ck, d, n_scenarios=34, offsets_mode='sample')    # ~20 offsets of 34 more
    incr.blackbox_c05(ck, d, thorough=not quick)
    from slices import engine
    engine.two_invocations(ck, 'C05', n_quick=10, fail_p=0.8)
    incr.flush(ck)
    vf.sh(['rm', '-rf', d])


def replay(ck, path):
    incr.replay_file(ck, path, run)
