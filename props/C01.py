# C01 — a target never starts before all of its dependencies are ready.
# Theorems: coq/Properties/C01.v (start_after_deps_ready over every reachable state of the actor system, any mode).
# Correspondence: real actors vs Actor.actor_step, projected on what C01's theorems mention (start decisions and the
# Ok / Invalidated traffic); system runs of the real binary with gated scripts, oracle = start line of T after the success
# line of every effective dependency.
from slices import actor, engine


def keep(o):
    return ('<-Ok:' in o) or ('<-Iv:' in o)


def output_edges(ck):
    """dependencies that exist ONLY through `X.output` inputs: one generator with several consumers, producers named before or
    after their consumers on the command line, chains of such edges"""
    import concurrent.futures
    import random
    from slices import sysrun
    shapes = []
    for _ in range(4 if ck.tier == 'quick' else 40):
        r = random.Random(ck.rng.getrandbits(48))
        k = r.choice([2, 2, 3, 4])
        T = {'gen': {'kind': 'build', 'deps': []}}
        for i in range(k):
            T['use%d' % i] = {'kind': 'build', 'deps': ['gen'] + (['use%d' % (i - 1)] if i and r.random() < 0.3 else [])}
        T['all'] = {'kind': 'aggregate', 'deps': ['use%d' % i for i in range(k)]}
        roots = r.choice([['all'], ['gen'] + ['use%d' % i for i in range(k)], ['use%d' % i for i in range(k)] + ['gen'],
                          ['gen', 'use%d' % (k - 1)], ['all', 'gen']])
        shapes.append((T, roots, r))
    found = []
    ck.rule('output edges: one generator whose consumers depend on it only through `gen.output` in their inputs (no `dependencies` '
            'entry), requested through an aggregate, or with the producer named before / after the consumers; gated scripts '
            'released in random order; oracle as for declared dependencies')

    def one(x):
        T, roots, r = x
        return x, sysrun.oneshot(r, T, roots, gated=True, tag='C01o%d' % r.getrandbits(20), implied_p=1.0, second_run=False)
    with concurrent.futures.ThreadPoolExecutor(max_workers=4) as ex:
        for (T, roots, r), (obs, V) in ex.map(one, shapes):
            ck.count(('outedges', str(sorted(T.items())), tuple(roots)), sample={'targets': T, 'roots': roots, 'trace': obs['trace'][:10]})
            ck.tally('sys:output-edges-only')
            if 'C01' in V:
                found.append((obs, V['C01']))
    return found


def extras(ck):
    return output_edges(ck) + engine.fixed_runs(ck, 'C01', engine.KILLED_DEPENDENCY,
                                                'a dependency whose script dies from SIGKILL / SIGTERM / SIGSEGV, reached directly '
                                                'and through an aggregate: no dependent may start')


def run(ck):
    engine.check_engine(ck, 'C01', actor.proj(keep_out=keep, keys=('starts',)),
                        'script starts + Ok/Invalidated messages sent', fail_p=0.4, extra=extras, n_evflow_quick=24)


def replay(ck, path):
    engine.replay(ck, 'C01', path, run)
