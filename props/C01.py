# C01 — a target never starts before all of its dependencies are ready.
# Theorems: coq/Properties/C01.v (start_after_deps_ready over every reachable state of the actor system, any mode).
# Correspondence: real actors vs Actor.actor_step, projected on what C01's theorems mention (start decisions and the
# Ok / Invalidated traffic); system runs of the real binary with gated scripts, oracle = start line of T after the success
# line of every effective dependency.
from slices import actor, engine


def keep(o):
    return ('<-Ok:' in o) or ('<-Iv:' in o)


def run(ck):
    engine.check_engine(ck, 'C01', actor.proj(keep_out=keep, keys=('starts',)),
                        'script starts + Ok/Invalidated messages sent', fail_p=0.4)


def replay(ck, path):
    run(ck)
