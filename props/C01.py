# C01 — a target never starts before all of its dependencies are ready.
# Theorems: coq/Properties/C01.v (start_after_deps_ready over every reachable state of the actor system, any mode).
# Correspondence: real actors vs Actor.actor_step, projected on what C01's theorems mention (start decisions and the
# Ok / Invalidated traffic); system runs of the real binary with gated scripts, oracle = start line of T after the success
# line of every effective dependency.
from slices import actor, engine


def keep(o):
    return ('<-Ok:' in o) or ('<-Iv:' in o)


def output_edges(ck):
    """dependencies that exist ONLY through `X.output` inputs: one generator with several consumers, producers named before or
    after their consumers on the command line, chains of such edges"""
    import concurrent.futures
    import random
    from slices import sysrun
    shapes = []
    for _ in range(4 if ck.tier == 'quick' else 40):
        r = random.Random(ck.rng.getrandbits(48))
        k = r.choice([2, 2, 3, 4])
        T = {'gen': {'kind': 'build', 'deps': []}}
        for i in range(k):
            T['use%d' % i] = {'kind': 'build', 'deps': ['gen'] + (['use%d' % (i - 1)] if i and r.random() < 0.3 else [])}
        T['all'] = {'kind': 'aggregate', 'deps': ['use%d' % i for i in range(k)]}
        roots = r.choice([['all'], ['gen'] + ['use%d' % i for i in range(k)], ['use%d' % i for i in range(k)] + ['gen'],
                          ['gen', 'use%d' % (k - 1)], ['all', 'gen']])
        shapes.append((T, roots, r))
    found = []
    ck.rule('output edges: one generator whose consumers depend on it only through `gen.output` in their inputs (no `dependencies` '
            'entry), requested through an aggregate, or with the producer named before / after the consumers; gated scripts '
            'released in random order; oracle as for declared dependencies')

    def one(x):
        T, roots, r = x
        return x, sysrun.oneshot(r, T, roots, gated=True, tag='C01o%d' % r.getrandbits(20), implied_p=1.0, second_run=False)
    with concurrent.futures.ThreadPoolExecutor(max_workers=4) as ex:
        for (T, roots, r), (obs, V) in ex.map(one, shapes):
            ck.count(('outedges', str(sorted(T.items())), tuple(roots)), sample={'targets': T, 'roots': roots, 'trace': obs['trace'][:10]})
            ck.tally('sys:output-edges-only')
            if 'C01' in V:
                found.append((obs, V['C01']))
    return found


SERVICE_BEHIND_REBUILD = (
    # watch mode: app (build) depends on the service svc, which depends on the build w0; w0 is being rebuilt (held at its gate
    # for more than a second) when app's own input changes: app must wait for w0 and for the restart of svc
    {'w0': {'kind': 'build', 'own_input': True, 'producers': [], 'deps': []},
     'svc': {'kind': 'service', 'own_input': False, 'producers': [], 'deps': ['w0']},
     'w1': {'kind': 'build', 'own_input': True, 'producers': [], 'deps': ['svc']}}, ['w1'], True,
    [('during', 'w1', 'w0', 1.3, 0.6), ('idle',)])
THROUGH_AGGREGATE_BEHIND_REBUILD = (
    {'w0': {'kind': 'build', 'own_input': True, 'producers': [], 'deps': []},
     'agg': {'kind': 'aggregate', 'own_input': False, 'producers': [], 'deps': ['w0']},
     'w1': {'kind': 'build', 'own_input': True, 'producers': [], 'deps': ['agg']}}, ['w1'], True,
    [('during', 'w1', 'w0', 1.3, 0.6), ('idle',)])


def watch_starts(ck):
    from slices import watchrun
    ck.rule('watch scenarios (real binary, real inotify): generated graphs x change plans, plus two fixed ones — a build behind a '
            'service (resp. an aggregate) whose own build dependency is held in its rebuild for more than a second when the build\'s '
            'own input changes; oracle: no script starts while a build it depends on, at any depth, has been re-running for more '
            'than 1 s (the scripts\' own timestamps)')
    found, _known = watchrun.campaign(ck, 'C01', 6 if ck.tier == 'quick' else 60,
                                      fixed=[SERVICE_BEHIND_REBUILD, THROUGH_AGGREGATE_BEHIND_REBUILD])
    return found


def extras(ck):
    return watch_starts(ck) + output_edges(ck) + engine.fixed_runs(ck, 'C01', engine.KILLED_DEPENDENCY,
                                                'a dependency whose script dies from SIGKILL / SIGTERM / SIGSEGV, reached directly '
                                                'and through an aggregate: no dependent may start')


def run(ck):
    engine.check_engine(ck, 'C01', actor.proj(keep_out=keep, keys=('starts',)),
                        'script starts + Ok/Invalidated messages sent', fail_p=0.4, extra=extras, n_evflow_quick=24)


def replay(ck, path):
    engine.replay(ck, 'C01', path, run)
