# C19 — target names resolve uniquely; root targets work bare and qualified.
# Theorems: coq/Properties/C19.v (bare = qualified for the root, accepted names = printed forms + bare root names, every loaded
#   target requestable, accepted names denote loaded targets, a target requested twice is resolved once, bare references mean
#   the same project, equal names in different projects are different targets, `display` injective).
# Correspondence: mode `resolve` on project sets with heavily overlapping target names; projection compared here: the accepted
#   command-line names (sorted multiset), the accept/reject verdict for each request, the verdict, the resolved ids and their
#   project directories.
# Black box: the real binary on generated project sets, requesting both spellings / equally named targets of two projects /
#   a target whose bare reference must stay inside its own project; every script appends its qualified name to a trace file;
#   executions are counted.
import os

import vf
from slices import resolve as R

PROP_TEXT = ('every target of every loaded project can be requested as `project::target`; targets of the root project also by '
             'bare name, both spellings denote the same target (asking for both runs it once); inside a project file a bare '
             'reference always means a target of that same project')

FEW = ['t', 'a', 'b', 'all', 'x-1']


def cases(ck, n):
    for i in range(n):
        cfg = R.gen_config(ck.rng, max_targets=10, tnames=FEW, nproj=ck.rng.choice([1, 2, 2, 3, 3]), p_output=0.25)
        fam = 'overlap'
        if ck.rng.random() < 0.15:
            cfg, f2 = R.mutate(ck.rng, cfg)
            fam = 'overlap+' + f2
        names = R.accepted_names(cfg)
        root = cfg.projects[0]
        r = ck.rng.random()
        if r < 0.1 or not names:
            mode, args = 'ALL', []
        elif r < 0.55 and root.name is not None and root.targets:
            n0 = ck.rng.choice(root.targets)[0]          # both spellings of one root target, plus noise
            args = [n0, root.name + '::' + n0] + [ck.rng.choice(names) for _ in range(ck.rng.choice([0, 0, 1, 2]))]
            ck.rng.shuffle(args)
            mode, fam = 'REQ', fam + ':both-spellings'
        elif r < 0.7:
            # a name that is only acceptable in the other spelling / other project
            other = [p for p in cfg.projects if p.name is not None]
            cand = ['%s::%s' % (p.name, t) for p in other for t in FEW] + FEW + ['::t', 't::', 'a::b::c', root.name or 'root']
            mode, args, fam = 'REQ', [ck.rng.choice(cand)], fam + ':maybe-unknown'
        else:
            mode, args = 'REQ', [ck.rng.choice(names) for _ in range(ck.rng.choice([1, 2, 3]))]
        yield ('n%d' % i, cfg, mode, args, fam, ck.rng.choice(['json', 'block']))


def bb_project(ck, named_root):
    """root P (targets t, u=[t]) importing Q (targets t, w -> bare t, v -> `.output` of bare t)"""
    T, P, C = R.Tgt, R.Proj, R.Cfg
    pn, qn = ck.rng.sample(['app', 'lib', 'core', 'p-1', '_x', 'été'], 2)
    tn = ck.rng.choice(['t', 'build', '007', 'x-1', 'yes'])
    dirs = ck.rng.choice([('root', 'root/sub'), ('ws/root', 'ws/lib'), ('a/root', 'b')])
    root = P(pn if named_root else None, dirs[0], [(qn, 1, ck.rng.choice(['rel', 'abs']))],
             [(tn, T('B', [])), ('u', T('A', [tn])), ('both', T('A', [tn, qn + '::' + tn]))])
    q = P(qn, dirs[1], [], [(tn, T('B', [], 'true', [], [('F', ['gen.txt'], None)])), ('w', T('B', [tn])),
                            ('v', T('B', [], 'true', [('O', tn + '.output')]))])
    return C([root, q]), pn if named_root else None, qn, tn


def blackbox(ck, rounds):
    d = os.path.realpath(vf.scratch_dir('C19bb'))
    n = 0
    for rd in range(rounds):
        for named in (True, False):
            cfg0, pn, qn, tn = bb_project(ck, named)
            rt = (pn + '::' + tn) if named else tn          # printed form of the root's target
            scen = []
            if named:
                scen += [([tn, pn + '::' + tn], [rt], 0), ([pn + '::' + tn, tn, tn, pn + '::' + tn], [rt], 0), (['u'], [rt], 0),
                         ([tn, qn + '::' + tn], sorted([rt, qn + '::' + tn]), 0)]
            else:
                scen += [([tn, tn], [rt], 0), (['u', 'u'], [rt], 0), ([tn, qn + '::' + tn], sorted([rt, qn + '::' + tn]), 0),
                         (['nope::' + tn], [], 1)]
            scen += [([qn + '::w'], sorted([qn + '::' + tn, qn + '::w']), 0), ([qn + '::v'], sorted([qn + '::' + tn, qn + '::v']), 0),
                     (['both'], sorted([rt, qn + '::' + tn]), 0)]
            for k, (req, expect, bad_exit) in enumerate(scen):
                case_dir = os.path.join(d, 'c%d_%d_%d' % (rd, 1 if named else 0, k))
                trace = os.path.join(case_dir, 'trace.log')
                cfg = R.sanitise_for_blackbox(cfg0, trace)
                cfg.base = R.TOKEN
                R.render(cfg, case_dir, ck.rng.choice(['json', 'block']))
                root_dir = os.path.join(case_dir, cfg.projects[0].rel)
                rc, out, err = R.run_zinoma(root_dir, req)
                ran = sorted(R.read_trace(trace))
                n += 1
                if rc is None:
                    ck.tally('blackbox:inconclusive-timeout')
                    continue
                ck.count(('blackbox', named, tuple(req), pn, qn, tn))
                if rd == 0 and k == 0:
                    R.priority_sample(ck, {'blackbox': 'execution-count', 'request': req, 'ran': ran, 'exit': rc,
                                           'config': R.describe(cfg, 'REQ', req)})
                ck.tally('blackbox:%s-root' % ('named' if named else 'unnamed'))
                ok = (rc != 0 and not ran) if bad_exit else (rc == 0 and ran == expect)
                if not ok:
                    ck.violation({'kind': 'blackbox-execution-count', 'config': R.describe(cfg, 'REQ', req), 'cfg': R.dump_cfg(cfg),
                                  'command': 'zinoma -p <root> ' + ' '.join(req), 'exit_status': rc, 'scripts_run (sorted)': ran,
                                  'expected (each exactly once)': expect, 'stderr': err[-600:], 'property_text': PROP_TEXT,
                                  'what': 'the executions differ from: each denoted target once, bare references resolved in the '
                                          'referring project',
                                  'replay': 'render the projects (slices/resolve.py render), run the command, read trace.log'},
                                 found_input=True)
    vf.sh(['rm', '-rf', d])
    return n


def name_clash(ck):
    """`uniquely`: a loaded project that reuses the ROOT's name (directly imported or one import deeper) must be refused, the
    same way on every invocation (otherwise `t` / `app::t` mean the root's t in some runs and the other project's in others)"""
    import os
    import vf
    d = vf.scratch_dir('C19clash')
    layouts = {
        'direct': {'': 'name: app\nimports:\n  app: sub\ntargets:\n  t:\n    build: echo ROOT >> %(log)s\n',
                   'sub': 'name: app\ntargets:\n  t:\n    build: echo OTHER >> %(log)s\n'},
        'deeper': {'': 'name: app\nimports:\n  lib: lib\ntargets:\n  t:\n    build: echo ROOT >> %(log)s\n',
                   'lib': 'name: lib\nimports:\n  app: ../vendor/app\ntargets:\n  u:\n    build: echo LIB >> %(log)s\n',
                   'vendor/app': 'name: app\ntargets:\n  t:\n    build: echo OTHER >> %(log)s\n'},
    }
    for lname, files in layouts.items():
        root = os.path.join(d, lname)
        log = os.path.join(root, 'runs.log')
        for rel, text in files.items():
            os.makedirs(os.path.join(root, rel), exist_ok=True)
            with open(os.path.join(root, rel, 'zinoma.yml'), 'w') as f:
                f.write(text % {'log': log})
        outcomes = set()
        for i in range(10 if ck.tier == 'quick' else 40):
            for req in (['t'], ['app::t']):
                if os.path.exists(log):
                    os.remove(log)
                rc, out, err = vf.sh([vf.ZINOMA, '-p', root] + req, timeout=60, env={'RUST_BACKTRACE': '0'})
                ran = open(log).read().split() if os.path.exists(log) else []
                outcomes.add((tuple(req), rc != 0, tuple(ran)))
        ck.count(('clash', lname), sample={'layout': lname, 'outcomes': sorted(map(str, outcomes))})
        ck.tally('clash:' + lname)
        accepted = [o for o in outcomes if not o[1]]
        if accepted:
            ck.violation({'kind': 'name-clash', 'layout': lname, 'files': files,
                          'what': 'a project reusing the root project name `app` was accepted; observed (request, refused, scripts run): %s'
                                  % sorted(map(str, outcomes)),
                          'replay': 'create the files of the layout, run `zinoma t` and `zinoma app::t` repeatedly'}, found_input=True)
    vf.sh(['rm', '-rf', d])


def run(ck):
    quick = ck.tier == 'quick'
    name_clash(ck)
    ck.rule('resolve/names: project sets (1-3 projects, named/unnamed root, mutual imports) whose target names come from a pool of 5 '
            '(heavy overlap across projects), requests: both spellings of a root target plus noise, names acceptable only in '
            'another spelling/project, random accepted names, none; 15% with a malformed reference; non-trivial = distinct '
            '(configuration, request); compared: accepted names as a sorted multiset, accept/reject of the request, verdict, '
            'resolved ids with their project directories; oracle: accepted names and closure recomputed from the property text')
    ncases, ndiff = R.run_stream(ck, cases(ck, 2500 if quick else 40000), 'names', PROP_TEXT, 'C19')
    ck.extra['cases'] = ncases
    n = blackbox(ck, 1 if quick else 6)
    ck.rule('black box: real binary, every script appends its qualified name to a trace; requests: bare+qualified (+aggregate over it, '
            '+repeated), same target name in root and imported project, a dependency / `.output` reference written bare inside the '
            'imported project, a qualified name of an unnamed root (must be refused); each expected target exactly once')
    ck.extra['blackbox_runs'] = n
    ck.assumptions.append('project names pairwise distinct in generated trees ("uniquely" needs FX7, property C14)')
    ck.assumptions.append('`\\w` on non-ASCII characters: the model treats every byte >= 128 as a word character (regex crate trusted)')


def replay(ck, path):
    import json
    rep = json.load(open(path))
    if 'cfg' not in rep or rep.get('kind') != 'resolve-correspondence':
        return run(ck)
    cfg = R.load_cfg(rep['cfg'])
    args = [tuple(a) if isinstance(a, list) else a for a in rep.get('args', [])]
    b = R.Batch('C19replay')
    b.add('replay', cfg, rep.get('mode', 'REQ'), args, rep.get('family', 'replay'))
    b.run()
    R.compare(ck, b, 'names', PROP_TEXT)
    b.cleanup()
