# C12 — `--clean` deletes exactly the declared outputs and state, nothing else.
# Theorems: coq/Properties/C12.v.
# Correspondence:
#   (A) mode "clean": the real clean_target_output_paths / delete_saved_env_state / remove_work_dir on constructed targets
#       over REAL generated trees; full recursive snapshot after every operation vs the model tree (FsTree).
#   (B) black box: the real binary `zinoma --clean [T...]` on generated projects (imports, dependency graphs, outputs of every
#       shape, state recorded by a previous real run); tree afterwards vs FsTree.clean_phase (+ the state files the builds
#       that follow write); every in-scope build target must log "Building", never "skipped".
# Oracle: slices/fstree.py oracle_deletable (what the property text allows to disappear, computed on the real tree before)
#         and oracle_listing/exists on the real tree after (what must be gone).
import itertools
import os
import shutil
import subprocess
from concurrent.futures import ThreadPoolExecutor
import vf
from slices import fstree as fs

STATE_TOKEN = b'<state>'


def canon_state(snap):
    out = {}
    for p, n in snap.items():
        if n[0] == 'f' and p.endswith(b'.checksums') and b'/.zinoma/' in p:
            out[p] = ('f', STATE_TOKEN)
        else:
            out[p] = n
    return out


# ------------------------------------------------------------------------------------------------ oracle
def oracle_verdict(d, tag, before, after, impl_ok, scope_targets, dirs, requested, ops_desc):
    """before/after: snapshots (model paths). Returns (is_violation, what)."""
    ids = {}
    oroot = os.path.join(d, 'oracle_' + tag).encode()
    fs.py_build(oroot, fs.snapshot_to_tree(before, ids))
    exact, below = fs.oracle_deletable(oroot, scope_targets, dirs, requested)
    problems = []
    for p in fs.removed_paths(before, after):
        # physical model path of the entry = p itself (snapshots never follow links)
        if not fs.is_allowed(p, exact, below):
            problems.append('deleted although neither a declared output, a matching file beneath one, nor state in scope: %r' % p)
    for p in fs.changed_paths(before, after):
        if p in before:
            problems.append('survivor changed: %r %r -> %r' % (p, before[p], after[p]))
        elif not (p.endswith(b'.checksums') or p.endswith(b'/.zinoma')):
            problems.append('created: %r' % p)
    # what must be gone, read on the tree AFTER the clean
    if impl_ok:
        aroot = os.path.join(d, 'oracle_after_' + tag).encode()
        fs.py_build(aroot, fs.snapshot_to_tree(after, ids))
        for tg in scope_targets:
            if tg['kind'] != 'b':
                continue
            for exts, paths in tg['outputs']:
                if exts is not None:
                    must, may = fs.oracle_listing(aroot, paths, exts)
                    if must:
                        problems.append('matching files of a declared output of %r remain: %r' % (tg['display'], sorted(must)))
                else:
                    for p in paths:
                        if os.path.exists(aroot + fs.norm(p)) and not fs.norm(p).endswith(b'/..'):
                            problems.append('declared output path of %r still exists: %r' % (tg['display'], p))
        if not requested:
            for pd in dirs:
                if os.path.lexists(aroot + fs.child(pd, b'.zinoma')):
                    problems.append('recorded state of a loaded project remains after a bare --clean: %r' % fs.child(pd, b'.zinoma'))
        shutil.rmtree(aroot, ignore_errors=True)
    shutil.rmtree(oroot, ignore_errors=True)
    return (bool(problems), problems)


# ------------------------------------------------------------------------------------------------ (A) in-process
def corpus_cases():
    """fixed cases first: the replays of the defects found while building the check (D14, D15) and the readings of DESIGN.md C12"""
    def tree():
        t = {}
        cid = [0]

        def F(p):
            cid[0] += 1
            t[p] = ('f', cid[0])
        for p in (b'/p', b'/p/out'):
            t[p] = ('d',)
        F(b'/p/out/a.o'); F(b'/p/out/b.c')
        t[b'/p/out/sub'] = ('d',); F(b'/p/out/sub/c.o')
        t[b'/p/out/lf.o'] = ('l', b'a.o'); t[b'/p/out/ld'] = ('l', b'sub')
        t[b'/p/real'] = ('d',); F(b'/p/real/r.o'); t[b'/p/real/deep'] = ('d',); F(b'/p/real/deep/d.o')
        t[b'/p/real/l2'] = ('l', b'../out'); t[b'/p/lout'] = ('l', b'real'); t[b'/p/lfile'] = ('l', b'real/r.o')
        t[b'/p/dang'] = ('l', b'nope'); F(b'/p/plain')
        t[b'/p/.zinoma'] = ('d',); F(b'/p/.zinoma/t.checksums'); F(b'/p/.zinoma/pp::t.checksums'); F(b'/p/.zinoma/other.checksums')
        t[b'/q'] = ('d',); t[b'/q/.zinoma'] = ('l', b'/p/real'); F(b'/p/real/t.checksums')
        t[b'/r'] = ('d',); F(b'/r/.zinoma')
        t[b'/s'] = ('d',); t[b'/s/.zinoma'] = ('d',); t[b'/s/.zinoma/t.checksums'] = ('d',)
        t[b'/s/.zinoma/u.checksums'] = ('l', b'nope'); t[b'/s/.zinoma/v.checksums'] = ('l', b'/p/plain')
        return t

    def tg(tid, d, proj, name, outs, kind='b'):
        return {'tid': tid, 'kind': kind, 'dir': d, 'project': proj, 'name': name,
                'display': (proj + b'::' if proj else b'') + name, 'outputs': outs}
    O = [b'.o']
    specs = [
        ([tg('t', b'/p', None, b't', [(None, [b'/p/out'])])], [('outputs', 't')]),
        ([tg('t', b'/p', None, b't', [(None, [b'/p/out/'])])], [('outputs', 't')]),
        ([tg('t', b'/p', None, b't', [(None, [b'/p/lout'])])], [('outputs', 't')]),
        ([tg('t', b'/p', None, b't', [(None, [b'/p/lout/'])])], [('outputs', 't')]),                     # D14
        ([tg('t', b'/p', None, b't', [(None, [b'/p/lout/.'])])], [('outputs', 't')]),                    # D14
        ([tg('t', b'/p', None, b't', [(None, [b'/p/out/.'])])], [('outputs', 't')]),
        ([tg('t', b'/p', None, b't', [(None, [b'/p/out/sub/..'])])], [('outputs', 't')]),
        ([tg('t', b'/p', None, b't', [(None, [b'/p/lfile', b'/p/dang', b'/p/plain', b'/p/nope', b'/p/plain'])])], [('outputs', 't')]),
        ([tg('t', b'/p', None, b't', [(None, [b'/p/lfile/', b'/p/plain/'])])], [('outputs', 't')]),
        ([tg('t', b'/p', None, b't', [(None, [b'/p/lout/deep'])])], [('outputs', 't')]),
        ([tg('t', b'/p', None, b't', [(O, [b'/p/out'])])], [('outputs', 't')]),
        ([tg('t', b'/p', None, b't', [(O, [b'/p/real', b'/p/lout'])])], [('outputs', 't')]),               # D15
        ([tg('t', b'/p', None, b't', [(O, [b'/p/out', b'/p/out/../out'])])], [('outputs', 't')]),          # D15
        ([tg('t', b'/p', None, b't', [(O, [b'/p/out', b'/p/./out/.'])])], [('outputs', 't')]),
        ([tg('t', b'/p', None, b't', [(O, [b'/p/lout'])])], [('outputs', 't')]),
        ([tg('t', b'/p', None, b't', [(O, [b'/p/out/lf.o'])])], [('outputs', 't')]),
        ([tg('t', b'/p', None, b't', [(O, [b'/p/out/a.o']), (O, [b'/p/out'])])], [('outputs', 't')]),
        ([tg('t', b'/p', None, b't', []), tg('u', b'/p', b'pp', b't', [])], [('state', 't'), ('state', 'u'), ('state', 't')]),
        ([tg('t', b'/q', None, b't', [])], [('state', 't')]),
        ([tg('t', b'/r', None, b't', [])], [('state', 't')]),
        ([tg('t', b'/s', None, b't', []), tg('u', b'/s', None, b'u', []), tg('v', b'/s', None, b'v', [])],
         [('state', 'u'), ('state', 'v'), ('state', 't')]),
        ([tg('t', b'/p', None, b't', [])], [('workdir', b'/p'), ('workdir', b'/p'), ('workdir', b'/q'), ('workdir', b'/r'),
                                            ('workdir', b'/s'), ('workdir', b'/nope'), ('workdir', b'/p/plain')]),
        ([tg('t', b'/p', None, b't', [(None, [b'/p/out'])], kind='s')], [('outputs', 't')]),
    ]
    return [(tree(), targets, [b'/p'], ops) for targets, ops in specs]


def run_inproc(ck, d, n_cases):
    root = os.path.join(d, 'w')
    os.makedirs(root, exist_ok=True)
    cf = os.path.join(d, 'clean_cases.txt')
    lines = ['ROOT ' + fs.hexs(root)]
    meta = {}
    corpus = corpus_cases()
    ck.tally('corpus_cases', len(corpus))
    for k in range(n_cases + len(corpus)):
        tree, targets, pdirs, ops = corpus[k] if k < len(corpus) else fs.gen_clean_case(ck.rng)
        cid = 'c%d' % k
        lines.append('CASE ' + cid)
        lines += fs.tree_lines(tree)
        lines += [fs.target_line(t) for t in targets]
        lines.append('O 0 snap')
        for i, (op, arg) in enumerate(ops):
            lines.append('O %d %s %s' % (i + 1, op, arg if isinstance(arg, str) else fs.hexs(arg)))
        lines.append('END')
        meta[cid] = (tree, targets, pdirs, ops)
    with open(cf, 'w') as f:
        f.write('\n'.join(lines) + '\n')
    rc, impl_lines, err = vf.run_impl('clean', cf, timeout=3000)
    model_lines = vf.run_model('clean', cf, timeout=3000)

    def parse(ls):
        out = {}
        for l in ls:
            f = l.split(' ')
            if len(f) == 3:
                out[f[0]] = (f[1], f[2])
        return out
    impl = parse(impl_lines)
    model = parse(model_lines)
    ck.rule('clean (in-process): generated real trees x 1-3 constructed targets (build/service/aggregate; 1-3 output resources, '
            'plain and extension-filtered, paths = dirs/files/symlinks/missing with alternative spellings) x work directories '
            '(dir with state files of these and other targets, symlink, file, absent; state file as dir/dangling link) x 1-4 '
            'operations; non-trivial = distinct (tree, targets, operation prefix) where the operation deletes something or the '
            'tree has a symlink; compared: ok/err and the full snapshot after every operation')
    # extraction is itself checked: a sample of first operations is re-evaluated by vm_compute inside Coq
    if ck.tier != 'quick':
        cands = [cid for cid, (tree, targets, pdirs, ops) in meta.items() if ops[0][0] in ('outputs', 'state') and len(tree) <= 30]
        sample = ck.rng.sample(cands, min(40, len(cands)))
        cases = []
        for cid in sample:
            tree, targets, pdirs, ops = meta[cid]
            cases.append((tree, {t['tid']: t for t in targets}[ops[0][1]], ops[0][0]))
        got = fs.coq_eval_clean(cases, d)
        for cid, (tree, tg, op), g in zip(sample, cases, got):
            ck.tally('vm_compute_crosscheck')
            m = model.get(cid + '.1')
            msnap = fs.parse_snapshot(m[1]) if m else None
            ok = g is not None and m is not None and g[0] == (m[0] == 'ok') and all((p in msnap) == alive for p, alive in g[1].items())
            if not ok:
                ck.violation({'kind': 'extraction-crosscheck', 'case': cid, 'operation': op, 'vm_compute': repr(g), 'extracted_runner': m,
                              'what': 'the extracted OCaml model and vm_compute inside Coq disagree on FsTree.%s' %
                                      ('clean_outputs' if op == 'outputs' else 'delete_state')}, found_input=False)
        ck.extra['extraction_crosscheck'] = '%d clean operations re-evaluated with vm_compute inside Coq, compared with the extracted runner' % len(sample)
    ndiff = 0
    for cid, (tree, targets, pdirs, ops) in meta.items():
        by_tid = {t['tid']: t for t in targets}
        prev = None
        for i in range(0, len(ops) + 1):
            key = '%s.%d' % (cid, i)
            r = impl.get(key)
            m = model.get(key)
            if r is None or m is None:
                ck.violation({'kind': 'clean-inproc', 'case': key, 'what': 'no result line (harness crashed?)',
                              'impl': r, 'model': m}, found_input=False)
                break
            rs = fs.parse_snapshot(r[1])
            if i == 0:
                prev = rs
                if rs != fs.parse_snapshot(m[1]):
                    ck.violation({'kind': 'clean-inproc', 'case': key, 'what': 'harness and model disagree on the initial tree'},
                                 found_input=False)
                    break
                continue
            op, arg = ops[i - 1]
            removed = fs.removed_paths(prev, rs)
            feats = fs.tree_features(tree)
            ck.count((sorted(tree.items()), repr(targets), repr(ops[:i])), nontrivial=bool(removed) or 'symlink' in feats,
                     sample=({'case': key, 'operation': (op, repr(arg)), 'targets': [fs.target_line(t) for t in targets],
                              'deleted': [repr(p) for p in removed], 'result': r[0]} if removed and len(ck.samples) < 3 else None))
            ck.tally('op:%s:%s' % (op, r[0]))
            ck.tally('op_deletes:' + ('yes' if removed else 'no'))
            if any(prev[p][0] == 'l' for p in removed):
                ck.tally('deleted:symlink_itself')
            if r[0] == m[0] and rs == fs.parse_snapshot(m[1]):
                prev = rs
                continue
            ndiff += 1
            if op == 'outputs':
                scope, dirs, requested = [by_tid[arg]], [], True
                scope = [dict(scope[0], display=b'__none__')]           # no state deletion by this operation
            elif op == 'state':
                scope, dirs, requested = [dict(by_tid[arg], kind='a')], [], True
            else:
                scope, dirs, requested = [], [arg], False
            bad, problems = oracle_verdict(d, key.replace('.', '_'), prev, rs, r[0] == 'ok', scope, dirs, requested, ops[:i])
            rep = {'kind': 'clean-inproc', 'case': key, 'operation': (op, repr(arg)),
                   'targets': [fs.target_line(t) for t in targets],
                   'tree_before': {repr(p): repr(n) for p, n in prev.items()},
                   'implementation': {'result': r[0], 'deleted': [repr(p) for p in removed]},
                   'model(FsTree)': {'result': m[0], 'deleted': [repr(p) for p in fs.removed_paths(prev, fs.parse_snapshot(m[1]))]},
                   'replay': 'ZINOMA_VERIF=clean on the case lines below (ROOT = any empty scratch directory)',
                   'case_lines': ['CASE x'] + fs.tree_lines(tree) + [fs.target_line(t) for t in targets] + ['O 0 snap'] +
                                 ['O %d %s %s' % (j + 1, o, a if isinstance(a, str) else fs.hexs(a)) for j, (o, a) in enumerate(ops[:i])] + ['END']}
            if bad:
                rep['what'] = problems
                ck.violation(rep, found_input=True)
            elif r[0] != 'ok' and m[0] == 'ok':
                rep['what'] = 'the real operation fails (the clean phase would abort: remaining outputs are not cleaned, nothing is built)'
                ck.violation(rep, found_input=True)
            else:
                rep['what'] = 'correspondence model/implementation of mode "clean" broke on this operation; the oracle found no ' \
                              'deletion outside the declared outputs/state and nothing declared left behind'
                ck.violation(rep, found_input=False)
            break
        if ndiff > 10:
            break


# ------------------------------------------------------------------------------------------------ (B) black box
def run_zinoma(args, cwd):
    env = dict(os.environ)
    env.pop('ZINOMA_VERIF', None)
    env['RUST_BACKTRACE'] = '0'
    try:
        p = subprocess.run([vf.ZINOMA] + args, cwd=cwd, env=env, stdout=subprocess.PIPE, stderr=subprocess.PIPE, timeout=25)
        return p.returncode, (p.stdout + p.stderr).decode('utf-8', 'replace')
    except subprocess.TimeoutExpired:
        return None, 'TIMEOUT'


def blackbox_one(job):
    d, k, tree, projects, targets, req = job
    real = os.path.join(d, 'bb', 'b%d' % k).encode()
    fs.py_build(real, tree)
    for pi, pr in enumerate(projects):
        with open(real + pr['dir'] + b'/zinoma.yml', 'w') as f:
            f.write(fs.render_yaml(projects, targets, pi))
    by_tid = {t['tid']: t for t in targets}
    # request only targets nobody depends on (their closure is everything): requesting a target together with one of its
    # dependents exercises an engine defect (late requester never acknowledged) that is not this property's business
    depended = set(x for t in targets for x in t['deps'])
    all_names = [t['ref'](0).decode() for t in targets if t['tid'] not in depended]
    pdir = (real + b'/p').decode('utf-8', 'surrogateescape')
    rc1, log1 = run_zinoma(['-p', pdir] + all_names, cwd=d)
    before = fs.py_snapshot(real)
    args = ['-p', pdir, '--clean'] + ([by_tid[t]['ref'](0).decode() for t in req] if req is not None else [])
    rc2, log2 = run_zinoma(args, cwd=d)
    after = fs.py_snapshot(real)
    shutil.rmtree(real, ignore_errors=True)
    return dict(k=k, rc1=rc1, log1=log1, rc2=rc2, log2=log2, before=before, after=after, args=args[2:])


def run_blackbox(ck, d, n_proj):
    jobs = []
    meta = {}
    for k in range(n_proj):
        tree, projects, targets = fs.gen_project(ck.rng)
        r = ck.rng.random()
        if r < 0.3:
            req = None
        else:
            req = [t['tid'] for t in ck.rng.sample(targets, ck.rng.randint(1, min(2, len(targets))))]
            # never a target together with one of its own (transitive) dependencies (see blackbox_one)
            req = [x for x in req if not any(x != y and x in [c['tid'] for c in fs.closure(targets, [y])] for y in req)]
        jobs.append((d, k, tree, projects, targets, req))
        meta[k] = (tree, projects, targets, req)
    os.makedirs(os.path.join(d, 'bb'), exist_ok=True)
    with ThreadPoolExecutor(max_workers=8) as ex:
        results = list(ex.map(blackbox_one, jobs))
    # model: clean_phase on the tree before, for every iteration order of the (small) target map and project-dir map
    cf = os.path.join(d, 'phase_cases.txt')
    lines = ['ROOT ' + fs.hexs(os.path.join(d, 'unused'))]
    perms = {}
    usable = []
    for res in results:
        k = res['k']
        tree, projects, targets, req = meta[k]
        if res['rc1'] != 0 or res['rc2'] is None:
            # the first run (plain build of everything) failed or the clean run hung: not this property's business
            ck.tally('blackbox:skipped_first_run_failed' if res['rc1'] != 0 else 'blackbox:skipped_timeout')
            continue
        ids = {}
        before = canon_state(res['before'])
        btree = fs.snapshot_to_tree(before, ids)
        res['ids'] = ids
        scope = fs.closure(targets, req) if req is not None else list(targets)
        res['scope'] = scope
        cid = 'b%d' % k
        lines.append('CASE ' + cid)
        lines += fs.tree_lines(btree)
        lines += [fs.target_line(t) for t in targets]
        dirs = [p['dir'] for p in projects]
        tp = list(itertools.permutations([t['tid'] for t in scope]))
        if len(tp) > 6:
            tp = [tp[0], tp[-1]] + ck.rng.sample(tp[1:-1], 4)
        dp = list(itertools.permutations(dirs))
        n = 0
        for a in tp:
            for b in dp:
                lines.append('PHASE p%d %d %s %s' % (n, 0 if req is None else 1, ','.join(a) or '-', ','.join(fs.hexs(x) for x in b)))
                n += 1
        perms[cid] = n
        lines.append('END')
        usable.append(res)
    with open(cf, 'w') as f:
        f.write('\n'.join(lines) + '\n')
    model = {}
    for l in vf.run_model('clean', cf, timeout=3000):
        f = l.split(' ')
        if len(f) == 3:
            model[f[0]] = (f[1], f[2])
    ck.rule('clean (black box): the real binary on generated projects (root + optional imported sub-project, 1-4 build/aggregate '
            'targets with dependencies, outputs = directories/files/symlinks to directories and files inside and outside the '
            'project/dangling links/missing/nested in another target\'s output/overlapping inputs, plain and extension-filtered, '
            'spelled with trailing slash or "/."; state recorded by a previous real run); `--clean` alone or `--clean T...`; '
            'non-trivial = distinct project where the clean deletes something; compared: the whole tree after the run vs '
            'FsTree.clean_phase (all iteration orders of the target and project maps) + state files of the builds that follow; '
            'log: every in-scope build target "Building", none "skipped"')
    for res in usable:
        k = res['k']
        cid = 'b%d' % k
        tree, projects, targets, req = meta[k]
        scope = res['scope']
        ids = res['ids']
        inv = {v: c for c, v in ids.items()}
        before = canon_state(res['before'])
        after = canon_state(res['after'])
        removed = fs.removed_paths(before, after)
        ck.count(('bb', sorted(tree.items()), repr([(t['tid'], t['deps'], t['outputs']) for t in targets]), repr(req)),
                 nontrivial=bool(removed),
                 sample=({'case': cid, 'args': res['args'], 'deleted': [repr(p) for p in removed][:12],
                          'yaml': fs.render_yaml(projects, targets, 0)} if removed and sum(1 for s in ck.samples if 'yaml' in s) < 2 else None))
        ck.tally('blackbox:' + ('bare_clean' if req is None else 'clean_targets'))
        ck.tally('blackbox_deletes:' + ('yes' if removed else 'no'))
        expected = []
        for i in range(perms[cid]):
            okf, snapf = model['%s.p%d' % (cid, i)]
            snap = fs.parse_snapshot(snapf)
            # content ids back to contents
            snap = {p: (('f', inv.get(int(n[1]), n[1])) if n[0] == 'f' else n) for p, n in snap.items()}
            if okf == 'ok' and req is not None:
                # the builds that follow record the state of every in-scope build target with inputs
                for t in scope:
                    if t['kind'] == 'b' and t.get('yaml_inputs'):
                        wd = fs.child(t['dir'], b'.zinoma')
                        if wd not in snap:
                            snap[wd] = ('d',)
                        snap[fs.child(wd, t['display'] + b'.checksums')] = ('f', STATE_TOKEN)
            if (okf, snap) not in expected:
                expected.append((okf, snap))
        if len(expected) > 1:
            ck.tally('blackbox:result_depends_on_map_order')
        impl_ok = 'ok' if res['rc2'] == 0 else 'err'
        log2 = res['log2']
        problems = []
        if impl_ok == 'ok' and req is not None:
            for t in scope:
                if t['kind'] != 'b':
                    continue
                disp = t['display'].decode()
                if ('%s - Build skipped' % disp) in log2:
                    problems.append('in-scope target %s was skipped after --clean' % disp)
                if ('%s - Building' % disp) not in log2:
                    problems.append('in-scope target %s did not log "Building" after --clean' % disp)
            ck.tally('blackbox:in_scope_builds_checked', sum(1 for t in scope if t['kind'] == 'b'))
        match = any(e[0] == impl_ok and e[1] == after for e in expected)
        if match and not problems:
            continue
        dirs = [p['dir'] for p in projects]
        bad, oproblems = oracle_verdict(d, cid, before, after, impl_ok == 'ok', scope, dirs, req is not None, None)
        rep = {'kind': 'clean-blackbox', 'case': cid, 'command': 'zinoma -p <root>/p ' + ' '.join(res['args']),
               'zinoma.yml': fs.render_yaml(projects, targets, 0),
               'sub/zinoma.yml': fs.render_yaml(projects, targets, 1) if len(projects) > 1 else None,
               'tree_before': {repr(p): repr(n) for p, n in before.items()},
               'exit': res['rc2'], 'log': log2[-1500:],
               'implementation_deleted': [repr(p) for p in removed],
               'model_deleted(first order)': [repr(p) for p in fs.removed_paths(before, expected[0][1])] if expected else None,
               'model_result': [e[0] for e in expected],
               'replay': './check C12 --replay <this file>: rebuilds tree_before, writes the yaml files, runs the command with '
                         'the real binary and applies the oracle',
               'replay_data': {'tree': {p.hex(): [n[0]] + [x.hex() for x in n[1:]] for p, n in res['before'].items()},
                               'args': res['args'], 'requested': req is not None, 'dirs': [x.hex() for x in dirs],
                               'scope': [{'kind': t['kind'], 'dir': t['dir'].hex(), 'display': t['display'].hex(),
                                          'outputs': [[None if e is None else [x.hex() for x in e], [x.hex() for x in ps]]
                                                      for e, ps in t['outputs']]} for t in scope]}}
        if problems or bad:
            rep['what'] = problems + oproblems
            ck.violation(rep, found_input=True)
        elif impl_ok == 'err' and all(e[0] == 'ok' for e in expected):
            rep['what'] = 'zinoma --clean failed on a project where every deletion is possible'
            ck.violation(rep, found_input=True)
        else:
            rep['what'] = 'the tree after the real `--clean` differs from FsTree.clean_phase (+ recorded state); the oracle found ' \
                          'nothing deleted outside the declared outputs/state and nothing declared left behind'
            ck.violation(rep, found_input=False)


def run(ck):
    quick = ck.tier == 'quick'
    d = vf.scratch_dir('C12')
    d = os.path.realpath(d)
    run_inproc(ck, d, 2000 if quick else 20000)
    run_blackbox(ck, d, 240 if quick else 2400)
    ck.assumptions.append('std::fs deletion semantics (remove_file = unlink, remove_dir_all) and walkdir are modelled, not '
                          'verified; permissions/read-only file systems are not modelled (the checks run as one user on tmpfs/ext4)')
    shutil.rmtree(d, ignore_errors=True)


def replay(ck, path):
    import json
    rep = json.load(open(path))
    d = os.path.realpath(vf.scratch_dir('C12replay'))
    if rep.get('case_lines'):
        root = os.path.join(d, 'w')
        os.makedirs(root)
        cf = os.path.join(d, 'replay_cases.txt')
        with open(cf, 'w') as f:
            f.write('\n'.join(['ROOT ' + fs.hexs(root)] + rep['case_lines']) + '\n')
        rc, impl_lines, err = vf.run_impl('clean', cf)
        model_lines = vf.run_model('clean', cf)
        for a, b in zip(impl_lines, model_lines):
            ia, ib = a.split(' '), b.split(' ')
            print('operation %s: implementation %s, model %s, trees %s' % (ia[0], ia[1], ib[1],
                  'equal' if fs.parse_snapshot(ia[2]) == fs.parse_snapshot(ib[2]) else 'DIFFER'))
            if ia[1] != ib[1] or fs.parse_snapshot(ia[2]) != fs.parse_snapshot(ib[2]):
                before = fs.parse_snapshot(prev) if 'prev' in dir() else {}
                print('  implementation deleted:', [repr(p) for p in fs.removed_paths(before, fs.parse_snapshot(ia[2]))])
                print('  model deleted:         ', [repr(p) for p in fs.removed_paths(before, fs.parse_snapshot(ib[2]))])
                ck.violation(dict(rep, replayed=True), found_input=bool(rep.get('found_failing_input')))
                break
            prev = ia[2]
        ck.count(('replay', path))
    elif rep.get('replay_data'):
        rd = rep['replay_data']
        real = os.path.join(d, 'bb').encode()
        snap = {bytes.fromhex(p): tuple([n[0]] + [bytes.fromhex(x) for x in n[1:]]) for p, n in rd['tree'].items()}
        os.makedirs(real)
        for p in sorted(snap):
            n = snap[p]
            if n[0] == 'd':
                os.mkdir(real + p)
            elif n[0] == 'f':
                with open(real + p, 'wb') as f:
                    f.write(n[1])
            else:
                os.symlink(real + n[1] if n[1].startswith(b'/') else n[1], real + p)
        before = canon_state(fs.py_snapshot(real))
        rc, log = run_zinoma(['-p', (real + b'/p').decode('utf-8', 'surrogateescape')] + rd['args'], cwd=d)
        after = canon_state(fs.py_snapshot(real))
        scope = [{'kind': t['kind'], 'dir': bytes.fromhex(t['dir']), 'display': bytes.fromhex(t['display']),
                  'outputs': [(None if e is None else [bytes.fromhex(x) for x in e], [bytes.fromhex(x) for x in ps])
                              for e, ps in t['outputs']]} for t in rd['scope']]
        bad, problems = oracle_verdict(d, 'replay', before, after, rc == 0, scope, [bytes.fromhex(x) for x in rd['dirs']],
                                       rd['requested'], None)
        print('exit', rc)
        print(log[-800:])
        print('deleted:', [repr(p) for p in fs.removed_paths(before, after)])
        print('oracle:', problems or 'nothing outside the declared outputs/state deleted, nothing declared left')
        ck.count(('replay', path))
        if bad or (rc != 0):
            ck.violation(dict(rep, replayed=True, oracle=problems), found_input=bad or rc != 0)
    else:
        run(ck)
    shutil.rmtree(d, ignore_errors=True)
